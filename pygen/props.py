"""props.py -- per-property check definitions: generators, correspondence scope, implementation-level
oracles, known-finding classes."""
import os, random, json, hashlib, re, subprocess, shutil
import common
from common import *
import gen_api

TRUSTED_BASE = [
    "Coq 8.16.1 kernel incl. vm_compute (no native_compute)",
    "translators tools/gen_tables.py, gen_grammar.py, gen_consts.py, gen_census.py (regenerate coq/gen/*.v from /repo on every run: "
    "flex tables + rule actions, bison LALR tables + semantic actions (classified by their text), constants, clang-AST censuses)",
    "hand transcriptions of generated skeleton code: FlexEngine.v (flex matching loop), FlexBuf.v (flex buffer refill) and LalrEngine.v (bison yyparse control flow); the C text they were made from is compared token for token with /repo on every run (tools/skel_ref/*.json), the faithfulness of the transcription itself is trusted and exercised by the correspondence runs",
    "extraction: ExtrOcamlBasic only (bool/option/unit/list/prod/sumbool/sumor + andb/orb inlined); "
    "no Extract Constant of our own; OCaml 4.13.1; harness/model_driver.ml (bytes<->Z glue)",
    "correspondence harness harness/drv.c, drvxx.cc, thr.c, memdrv.c built from /repo/lib (gcc/g++, ASan+UBSan / TSan / plain) and pygen/*.py",
    "hand-written Gallina model of libconfig.c/scanctx.c/strbuf.c/strvec.c/util.c, tied to the code by "
    "the correspondence run, not verified against the source text",
]
ASSUMPTIONS = [
    "LP64, two's-complement narrowing (gcc), C locale ctype",
    "the model's executable definitions agree with the implementation on every script of this run "
    "(checked), and beyond them by the structural argument in DESIGN.md section 3",
]


class Result:
    def __init__(self):
        self.evaluations = 0
        self.distinct = 0
        self.rule = ""
        self.samples = []
        self.distribution = {}
        self.exhaustive = False
        self.violations = []     # dict(name, replay)
        self.corr_broken = []    # strings
        self.known_hits = []     # strings
        self.notes = []


class Ctx:
    def __init__(self, pid, tier, seed, model_exe, replay):
        self.pid, self.tier, self.seed, self.model_exe, self.replay = pid, tier, seed, model_exe, replay
        self.rng = random.Random(seed)
        self._runners = []
        self.impl = {}

    def harness(self, variant="asan"):
        if variant not in self.impl:
            exe, log = build_harness(variant)
            if exe is None:
                raise RuntimeError("harness build failed:\n" + log[-3000:])
            self.impl[variant] = exe
        return self.impl[variant]

    def runner(self, variant="asan"):
        r = Runner(self.model_exe, self.harness(variant), self.pid)
        self._runners.append(r)
        return r

    def close(self):
        for r in self._runners:
            r.close()


# ------------------------------------------------------------------------------------------
# transcript parsing (for the implementation-level oracles)

class TNode:
    __slots__ = ("path", "name", "ty", "fmt", "val", "hook", "line", "file", "kids")

    def key(self, with_pos=True):
        return (self.name, self.ty, self.fmt, self.val, self.hook) + ((self.line, self.file) if with_pos else ())


def parse_dump(lines):
    """lines of one dump -> (root TNode, attrs, err, sflags)"""
    root = None
    attrs = err = sflags = None
    index = {}
    for l in lines:
        f = l.split(" ")
        if f[0] == "T":
            n = TNode()
            n.path = () if f[1] == "." else tuple(int(x) for x in f[1].split("/"))
            n.name, n.ty, n.fmt, n.val, n.hook, n.line, n.file = f[2], int(f[3]), int(f[4]), f[5], f[6], int(f[7]), f[8]
            n.kids = []
            index[n.path] = n
            if n.path == ():
                root = n
            else:
                index[n.path[:-1]].kids.append(n)
        elif f[0] == "A":
            attrs = f[1:]
        elif f[0] == "E":
            err = f[1:]
        elif f[0] == "S":
            sflags = l
    return root, attrs, err, sflags


def tree_sig(n, with_pos=True):
    return (n.key(with_pos), tuple(tree_sig(k, with_pos) for k in n.kids))


def align(script, transcript):
    """Pair each script line with its output lines.  Returns list of (op-line, [output lines])."""
    ops = [l for l in script.splitlines() if l]
    res = []
    i = 0
    for op in ops:
        chunk = []
        if op == "dump":
            while i < len(transcript) and transcript[i][:2] in ("T ", "A ", "E ", "S "):
                chunk.append(transcript[i])
                i += 1
                if chunk[-1].startswith("S ") or (chunk[-1].startswith("E ") and
                                                   (i >= len(transcript) or not transcript[i].startswith("S "))):
                    break
        elif op == "rtrip":
            if i < len(transcript) and transcript[i].startswith("R "):
                chunk.append(transcript[i])
                i += 1
                if chunk[0].startswith("R rt"):
                    nw = 0
                    while i < len(transcript) and transcript[i][:2] in ("W ", "T ", "E ", "S "):
                        chunk.append(transcript[i])
                        i += 1
                        if chunk[-1].startswith("W "):
                            nw += 1
                            if nw == 2:
                                break
        else:
            if op.startswith("lex "):
                while i < len(transcript) and transcript[i].startswith("K "):
                    i += 1
            if i < len(transcript) and transcript[i].startswith("R "):
                chunk.append(transcript[i])
                i += 1
                while i < len(transcript) and transcript[i].startswith("L "):
                    chunk.append(transcript[i])
                    i += 1
        res.append((op, chunk))
    return res


# ------------------------------------------------------------------------------------------
# Invariant of C04 evaluated on a dumped tree (implementation-level oracle)

def inv_violations(root):
    bad = []
    if root is None:
        return ["no root"]
    if root.name != "-" or root.ty != 1:
        bad.append("root is not a nameless group")

    def rec(n):
        if n.ty == 1:
            names = [k.name for k in n.kids]
            for k in n.kids:
                if k.name == "-":
                    bad.append("nameless member at %s" % (k.path,))
                elif not gen_api.valid_name(unhx(k.name)):
                    bad.append("invalid name at %s" % (k.path,))
            if len(set(names)) != len(names):
                bad.append("duplicate names in %s" % (n.path,))
        elif n.ty in (7, 8):
            for k in n.kids:
                if k.name != "-":
                    bad.append("named element at %s" % (k.path,))
            if n.ty == 7:
                tys = set(k.ty for k in n.kids)
                if len(tys) > 1:
                    bad.append("array %s has element types %s" % (n.path, sorted(tys)))
                if tys - {2, 3, 4, 5, 6}:
                    bad.append("array %s has non-scalar elements" % (n.path,))
        elif n.kids:
            bad.append("scalar with children at %s" % (n.path,))
        for k in n.kids:
            rec(k)
    rec(root)
    return bad


# ------------------------------------------------------------------------------------------
# C05 oracle: ordered-tree behaviour read off the implementation's own dumps

def died(script, rec):
    """the process must survive every in-contract call (and nothing may be leaked once the configuration is destroyed)"""
    if any(l == "L LEAK" for l in rec.get("impl", [])):
        return ["memory allocated by the library is still allocated, and unreachable, after config_destroy (LeakSanitizer)"]
    if rec["status"] == "ok":
        return []
    al = align(script, rec["impl"])
    k = next((i for i, (op, out) in enumerate(al) if not out), len(al) - 1)
    op = al[k][0] if al else "?"
    return ["process died (%s) during call #%d '%s'" % (rec["status"], k, op)]


def subtree_at(root, path):
    n = root
    for i in path:
        if i >= len(n.kids):
            return None
        n = n.kids[i]
    return n


DOC_NAME = re.compile(rb"[A-Za-z*][-A-Za-z0-9_*]*\Z")


def c05_oracle(script, rec):
    """Returns list of violation descriptions."""
    impl_lines = rec["impl"]
    bad = died(script, rec)
    al = align(script, impl_lines)
    prev = None
    last_op = None
    for op, out in al:
        if op == "dump":
            root, attrs, err, s = parse_dump(out)
            cur = (root, attrs)
            if last_op is not None and prev is not None and root is not None and prev[0] is not None:
                bad += c05_step(last_op[0], last_op[1], prev, cur)
            prev = cur
            last_op = None
        else:
            if last_op is not None:
                prev = None    # two ops without a dump in between: cannot attribute
            last_op = (op, out)
            f = op.split(" ")
            if f[0] == "add" and len(f) >= 4 and f[1] == "." and f[2].startswith("h") and out and \
                    out[0].startswith("R n") and out[0] != "R n-" and not DOC_NAME.match(unhx(f[2])):
                bad.append("'%s': %r is not a name ([A-Za-z*][-A-Za-z0-9_*]*) but the root group accepted a member of that name" % (op, unhx(f[2])))
    return bad


def c05_step(op, out, before, after):
    f = op.split(" ")
    r = out[0][2:] if out else "?"
    b_root, b_attr = before
    a_root, a_attr = after
    bsig, asig = tree_sig(b_root), tree_sig(a_root)
    bad = []
    cmd = f[0]
    if cmd in ("add", "rm", "rmi", "set", "eset", "setfmt"):
        if b_attr != a_attr:
            bad.append("%s changed attributes" % op)
    if cmd == "rm" and f[2] != "-":
        exp = doc_rm_expect(b_root, f[1], unhx(f[2]))
        if exp is True and r == "i0":
            bad.append("'%s' names an existing member by its documented path but the removal failed" % op)
        if exp is False and r == "i1":
            bad.append("'%s' names no member but the removal succeeded" % op)
    if cmd == "eset" and r == "n-" and int(f[3]) < 0:
        # the documented convention: a negative index appends (any negative value, not only -1)
        ppath = () if f[2] == "." else tuple(int(x) for x in f[2].split("/"))
        bp = subtree_at(b_root, ppath)
        kty = {"i": 2, "l": 3, "f": 4, "s": 5, "b": 6}.get(f[1])
        if bp is not None and kty is not None and (int(bp.ty) == 8 or (int(bp.ty) == 7 and (not bp.kids or int(bp.kids[0].ty) == kty))):
            bad.append("'%s': a negative index appends, but the call failed on an aggregate that accepts a %s element" % (op, f[1]))
    if cmd == "add" and r.startswith("n") and r != "n-" and len(f) >= 4 and f[2].startswith("h"):
        ppath = () if f[1] == "." else tuple(int(x) for x in f[1].split("/"))
        bp = subtree_at(b_root, ppath)
        if bp is not None and int(bp.ty) == 1 and not DOC_NAME.match(unhx(f[2])):
            bad.append("'%s': %r is not a name ([A-Za-z*][-A-Za-z0-9_*]*) but the group accepted a member of that name" % (op, unhx(f[2])))
    if cmd in ("add", "eset") and r == "n-" or cmd in ("rm", "rmi", "set", "setfmt") and r == "i0":
        if bsig != asig:
            bad.append("'%s' reported failure but changed the configuration" % op)
        return bad
    if r in ("badhandle", "?", "unspec"):
        if bsig != asig:
            bad.append("'%s' (%s) changed the configuration" % (op, r))
        return bad
    if cmd == "add" or (cmd == "eset" and int(f[3]) < 0):
        ppath = () if f[1 if cmd == "add" else 2] == "." else tuple(int(x) for x in f[1 if cmd == "add" else 2].split("/"))
        bp, ap = subtree_at(b_root, ppath), subtree_at(a_root, ppath)
        if ap is None or not ap.kids:
            bad.append("'%s' succeeded but parent has no children" % op)
            return bad
        newpath = tuple(int(x) for x in r[1:].split("/"))
        if newpath != ppath + (len(ap.kids) - 1,):
            bad.append("'%s': new setting is not the last child" % op)
        bk = [tree_sig(k) for k in bp.kids]
        ak = [tree_sig(k) for k in ap.kids[:-1]]
        if bk != ak:
            # override: exactly one member of the same name removed
            newname = ap.kids[-1].name
            cand = [tree_sig(k) for k in bp.kids if k.name != newname or newname == "-"]
            if not (cmd == "add" and cand == ak and len(bk) == len(ak) + 1):
                bad.append("'%s': existing children changed" % op)
        # everything outside the parent unchanged
        if frame_sig(b_root, ppath) != frame_sig(a_root, ppath):
            bad.append("'%s': settings outside the parent changed" % op)
    elif cmd in ("rm", "rmi") and r == "i1":
        # exactly one subtree disappeared, order of the others kept
        nb, na = count(b_root), count(a_root)
        if not removed_one(b_root, a_root):
            bad.append("'%s': result is not the tree with exactly one setting removed" % op)
    elif cmd in ("set", "setfmt") or cmd == "eset":
        tgt = f[2] if cmd in ("set", "eset") else f[1]
        tpath = () if tgt == "." else tuple(int(x) for x in tgt.split("/"))
        if cmd == "eset":
            tpath = tuple(int(x) for x in r[1:].split("/")) if r.startswith("n") and r != "n-" else tpath
        if frame_sig(b_root, tpath) != frame_sig(a_root, tpath):
            bad.append("'%s': a setting other than the addressed one changed" % op)
        bn, an = subtree_at(b_root, tpath), subtree_at(a_root, tpath)
        if bn is not None and an is not None:
            if (bn.name, bn.hook, [tree_sig(k) for k in bn.kids]) != (an.name, an.hook, [tree_sig(k) for k in an.kids]):
                bad.append("'%s': name, hook or children of the addressed setting changed" % op)
        # an assignment that reports success stores the value that was assigned (same-kind and int<->int64 cases)
        if cmd in ("set", "eset") and an is not None and (r == "i1" or (cmd == "eset" and r.startswith("n") and r != "n-")):
            kind, val = f[1], f[-1]
            want = None
            if kind in "il" and int(an.ty) in (2, 3) and re.fullmatch(r"-?[0-9]+", val):
                want = ("i" if int(an.ty) == 2 else "l") + str(int(val))
            elif kind == "b" and int(an.ty) == 6 and val in ("0", "1"):
                want = "b" + val
            elif kind == "s" and int(an.ty) == 5 and val.startswith("h"):
                want = "s" + val
            elif kind == "f" and int(an.ty) == 4 and val.startswith("x"):
                want = "f" + val[1:]
            if want is not None and an.val != want:
                bad.append("'%s' reported success but the setting now holds %s (assigned: %s)" % (op, an.val, want))
    elif cmd in ("clear",):
        if b_attr != a_attr:
            bad.append("clear changed attributes %s -> %s" % (b_attr, a_attr))
        if a_root.kids:
            bad.append("clear left settings")
    elif cmd in ("tab", "prec", "deffmt", "option", "options", "incdir", "dtor", "chook", "incfn", "hook"):
        if cmd != "hook" and bsig != asig:
            bad.append("'%s' changed settings" % op)
        if cmd == "option":
            bit, flag = int(f[1]), int(f[2])
            want = (int(b_attr[0]) | bit) if flag else (int(b_attr[0]) & ~bit)
            if (int(a_attr[0]) - want) % 2**32 != 0:
                bad.append("'%s' with options %s gave options %s (only that option may change: %d)" % (op, b_attr[0], a_attr[0], want))
            if b_attr[1:] != a_attr[1:]:
                bad.append("'%s' changed other attributes" % op)
        if cmd in ("prec", "deffmt", "tab", "options") and b_attr is not None and a_attr is not None:
            idx = {"options": 0, "tab": 1, "prec": 2, "deffmt": 3}[cmd]
            if [x for i, x in enumerate(b_attr) if i != idx] != [x for i, x in enumerate(a_attr) if i != idx]:
                bad.append("'%s' changed other attributes: %s -> %s" % (op, b_attr, a_attr))
        if cmd == "tab":
            w = int(f[1]) % 65536
            if int(a_attr[1]) != min(w, 15):
                bad.append("tab width %s stored as %s" % (f[1], a_attr[1]))
    else:
        # queries
        if bsig != asig or b_attr != a_attr:
            bad.append("query '%s' changed the configuration" % op)
    return bad


def tnode_resolve(root, base_path, path_bytes):
    """documented path resolution on a dumped tree; returns (comps, chain) with chain None when nothing is named;
    comps None when the text is outside the documented syntax"""
    base = subtree_at(root, base_path)
    if base is None:
        return None, None
    comps = gen_api.doc_parse_path(path_bytes)
    if comps is None:
        return None, None
    ch = gen_api.doc_resolve(base, comps, lambda n: n.kids, lambda n: (unhx(n.name) if n.name != "-" else None),
                             lambda n: n.ty)
    return comps, ch


def doc_rm_expect(root, base, path_bytes):
    """True: must succeed; False: must fail; None: outside the documented statement"""
    bp = () if base == "." else tuple(int(x) for x in base.split("/"))
    b = subtree_at(root, bp)
    if b is None:
        return None
    comps, ch = tnode_resolve(root, bp, path_bytes)
    if comps is None:
        return None
    if b.ty != 1:
        return False
    if ch is None:
        return False
    if isinstance(comps[-1], int):
        return None       # path ending in an index: config_setting_remove is documented for named settings
    return True


def count(n):
    return 1 + sum(count(k) for k in n.kids)


def frame_sig(root, path):
    """signature of the tree with the subtree at path replaced by a hole"""
    def rec(n, p):
        if p == path:
            return "HOLE"
        return (n.key(), tuple(rec(k, p + (i,)) for i, k in enumerate(n.kids)))
    return rec(root, ())


def removed_one(b, a):
    """a equals b with exactly one subtree deleted somewhere"""
    if b.key()[:1] != a.key()[:1] and b.key() != a.key():
        return False
    # aggregate value shows the child count, so compare keys modulo count
    def k2(n):
        k = n.key()
        return (k[0], k[1], k[2], k[3] if not k[3].startswith("a") else "a", k[4], k[5], k[6])
    if k2(b) != k2(a):
        return False
    if len(b.kids) == len(a.kids) + 1:
        # find the deleted index
        for i in range(len(b.kids)):
            rest = b.kids[:i] + b.kids[i + 1:]
            if [tree_sig(x) for x in rest] == [tree_sig(x) for x in a.kids]:
                return True
        return False
    if len(b.kids) != len(a.kids):
        return False
    diffs = [i for i in range(len(b.kids)) if tree_sig(b.kids[i]) != tree_sig(a.kids[i])]
    if len(diffs) != 1:
        return False
    return removed_one(b.kids[diffs[0]], a.kids[diffs[0]])


# ------------------------------------------------------------------------------------------
# generic correspondence driver

def correspond(ctx, res, cases, drop_prefixes=(), line_filter=None, oracle=None, known=None,
               per_proc=40, variant="asan", label="corr"):
    """cases: list of script bodies.  Fills res; returns list of failing records."""
    runner = ctx.runner(variant)
    ids = list(range(len(cases)))
    recs = run_batch(runner, list(zip(ids, cases)), drop_prefixes=drop_prefixes, per_proc=per_proc,
                     line_filter=line_filter)
    res.evaluations += len(recs)
    failing = []
    seen_status = {}
    for r in recs:
        st = r["status"]
        seen_status[st] = seen_status.get(st, 0) + 1
        problem = None
        if r["diff"] is not None:
            problem = "transcripts differ at line %d: model=%r impl=%r" % r["diff"]
        if r["sbad"]:
            problem = "pointer-level self-check failed: %s" % r["sbad"][0]
        if st != "ok":
            problem = (problem or "") + " [process status %s]" % st
        orc = oracle(r["script"], r) if oracle and st == "ok" else []
        if problem or orc:
            r["problem"] = problem
            r["oracle"] = orc
            failing.append(r)

    res.distribution[label + "_process_status"] = seen_status
    # group failing records per process chunk: a crash poisons the whole chunk, so re-run singly
    final = []
    failing.sort(key=lambda r: 0 if r.get("oracle") else 1)
    nbroken0 = len(res.corr_broken)
    # at most 60 re-runs: every record an oracle complained about first, the others sampled evenly over the whole list
    # (a process-wide effect marks every case of a chunk; the cases that matter may be anywhere)
    with_o = [r for r in failing if r.get("oracle")]
    without = [r for r in failing if not r.get("oracle")]
    room = max(0, 60 - len(with_o))
    if len(without) > room and room > 0:
        without = [without[i * len(without) // room] for i in range(room)]
    for r in (with_o + without)[:60]:
        if not r.get("oracle") and len(res.corr_broken) - nbroken0 >= 3:
            continue
        rr = run_single(runner, r["script"], drop_prefixes=drop_prefixes, line_filter=line_filter)
        problem = None
        if rr["diff"] is not None:
            problem = "transcripts differ at line %d: model=%r impl=%r" % rr["diff"]
        if rr["sbad"]:
            problem = "pointer-level self-check failed: %s" % rr["sbad"][0]
        if rr["status"] != "ok":
            problem = (problem or "") + " [process status %s] %s" % (rr["status"], rr["stderr"][-600:])
        if rr["status"] != "ok" and rr["diff"] is None:
            problem = None      # model predicted the crash
        orc = oracle(rr["script"], rr) if oracle else []
        if not problem and not orc:
            continue
        # shrink
        def still(body):
            x = run_single(runner, body, drop_prefixes=drop_prefixes, line_filter=line_filter)
            o = oracle(body, x) if oracle else []
            if orc:
                return bool(o)
            return x["diff"] is not None or bool(x["sbad"])
        small = shrink_script(rr["script"], still)
        rs = run_single(runner, small, drop_prefixes=drop_prefixes, line_filter=line_filter)
        o2 = oracle(small, rs) if oracle else []
        cls = known(small, rs, o2) if known else None
        if cls:
            if cls not in res.known_hits:
                res.known_hits.append(cls)
            continue
        text = "# property %s -- %s\n# script (replay with: ./check %s --replay <this file>)\n%s" % (
            ctx.pid, "implementation violates the property" if o2 else "model/implementation disagree", ctx.pid, small)
        text += "#--- oracle: %s\n#--- problem: %s\n#--- impl transcript:\n#%s\n#--- model transcript:\n#%s\n" % (
            o2, problem, "\n#".join(rs["impl"]), "\n#".join(rs["model"]))
        if o2:
            res.violations.append(dict(name="%s_%d" % (label, len(res.violations)), replay=text))
        else:
            res.corr_broken.append(text)
        final.append(rs)
        if len(res.violations) >= 3:
            break
    return final


def focus_from(res):
    """(cmd, kind) pairs of the operations on which model and implementation disagreed (from the shrunk scripts)."""
    foc = []
    for text in res.corr_broken:
        ops = [l for l in text.splitlines() if l and not l.startswith("#") and l != "dump" and not l.startswith("init")]
        for l in ops[-2:]:
            f = l.split(" ")
            k = f[1] if f[0] in ("set", "eset", "get", "eget", "mlook", "plook") and len(f) > 1 else None
            if (f[0], k) not in foc:
                foc.append((f[0], k))
    return foc


def focus_search(ctx, res, oracle, known=None, drop_prefixes=(), line_filter=None, n=900, hist_kwargs=None):
    """The correspondence broke but no case of the generator stream violates the property itself: search
    around the disagreeing operations for a concrete input on which the implementation does."""
    if not res.corr_broken or res.violations:
        return
    foc = focus_from(res)
    if not foc:
        return
    rng = random.Random(ctx.seed + 7)
    kw = dict(hist_kwargs or {})
    cases = [gen_api.random_history(rng, rng.choice([8, 15, 30]), focus=foc, paths=True, **kw) for _ in range(n)]
    res.notes.append("focus search around %s: %d histories" % (foc, len(cases)))
    keep = list(res.corr_broken)
    correspond(ctx, res, cases, drop_prefixes=drop_prefixes, line_filter=line_filter, oracle=oracle, known=known,
               label="search")
    res.corr_broken = keep + [x for x in res.corr_broken if x not in keep][:0]


def summarize_ops(cases):
    d = {}
    n = 0
    for c in cases:
        for l in c.splitlines():
            if l:
                k = l.split(" ")[0]
                d[k] = d.get(k, 0) + 1
                n += 1
    d["_total_ops"] = n
    return d


def distinct_count(cases):
    return len(set(script_hash(c) for c in cases if len([l for l in c.splitlines() if l and l != "dump"]) > 2))


# ------------------------------------------------------------------------------------------
# C05 / C04

def replay_cases(ctx):
    if ctx.replay:
        body = "".join(l for l in open(ctx.replay, encoding="latin-1") if not l.startswith("#"))
        return [body]
    return None


def run_c05(ctx):
    res = Result()
    rc = replay_cases(ctx)
    rng = ctx.rng
    if rc is not None:
        cases = rc
    else:
        cases = []
        depth = 2 if ctx.tier == "quick" else 3
        for ov in (False, True):
            cases += list(gen_api.exhaustive_histories(depth, ov))
        res.exhaustive = True
        nrand = 600 if ctx.tier == "quick" else 6000
        for i in range(nrand):
            cases.append(gen_api.random_history(rng, rng.choice([10, 30, 60, 120]), crossing=(i % 5 == 0),
                                                paths=(i % 2 == 0)))
    res.rule = ("every history over a %d-op alphabet on a 4-setting seed tree to depth %s (overrides off and on), "
                "plus random histories of 10-120 calls with boundary arguments; a dump after every call; "
                "distinct = SHA-1 of the script without dump lines, non-trivial = more than 2 calls"
                % (len(gen_api.ALPHABET), 2 if ctx.tier == "quick" else 3))
    res.distinct = distinct_count(cases)
    res.distribution["ops"] = summarize_ops(cases)
    res.samples = [cases[0], cases[len(cases) // 2], cases[-1]]
    # scope: return values, tree dump (no source lines/files: API-built), attributes; no E line
    correspond(ctx, res, cases, drop_prefixes=("E ",), oracle=c05_oracle, known=known_c05)
    focus_search(ctx, res, c05_oracle, known=known_c05, drop_prefixes=("E ",))
    crash_cases(ctx, res)
    return res


def known_c05(script, rec, orc):
    return match_known("C05", script, rec, orc)


def match_known(pid, script, rec, orc):
    """A failing input falls in a known class iff known_findings.json lists a finding of this property
    whose 'match' strings all occur in the shrunk script (op words) and whose 'oracle' substring occurs
    in the oracle text."""
    for f in load_findings()["findings"]:
        if f["property"] != pid:
            continue
        if all(m in script for m in f.get("match", [])) and \
           any(f.get("oracle", "") in o for o in (orc or [""])):
            return "%s: %s" % (f["id"], f["what"])
    return None


def run_singles(ctx, res, cases, drop_prefixes=(), line_filter=None, oracle=None, known=None, label="single"):
    """Cases run one per process (operations that may kill the process)."""
    runner = ctx.runner()
    for body in cases:
        rs = run_single(runner, body, drop_prefixes=drop_prefixes, line_filter=line_filter)
        res.evaluations += 1
        problem = None
        if rs["diff"] is not None:
            problem = "transcripts differ at line %d: model=%r impl=%r" % rs["diff"]
        orc = oracle(body, rs) if oracle else []
        if not problem and not orc:
            continue
        cls = known(body, rs, orc) if known else None
        if cls and not problem:
            if cls not in res.known_hits:
                res.known_hits.append(cls)
            continue
        text = "# property %s -- %s\n%s#--- oracle: %s\n#--- problem: %s\n#--- status: %s\n#--- impl transcript:\n#%s\n#--- model transcript:\n#%s\n#--- stderr tail:\n#%s\n" % (
            ctx.pid, "implementation violates the property" if orc else "model/implementation disagree",
            body, orc, problem, rs["status"], "\n#".join(rs["impl"]), "\n#".join(rs["model"]),
            "\n#".join(rs["stderr"][-1500:].splitlines()))
        if orc:
            res.violations.append(dict(name="%s_%d" % (label, len(res.violations)), replay=text))
        else:
            res.corr_broken.append(text)


def crash_cases(ctx, res):
    """Argument conventions whose violation kills the process: run one per process."""
    cases = ["init\nincdir -\ndump\n",
             "init\nincdir %s\nincdir -\ndump\nincdir %s\ndump\n" % (hx(b"inc"), hx(b"x"))]
    run_singles(ctx, res, cases, drop_prefixes=("E ",), oracle=c05_oracle, known=known_c05, label="argconv")


def c04_oracle(script, rec):
    impl_lines = rec["impl"]
    bad = died(script, rec)
    for op, out in align(script, impl_lines):
        if op == "dump":
            root, attrs, err, s = parse_dump(out)
            for b in inv_violations(root):
                bad.append("after the calls before this dump: " + b)
            if s and "BAD" in s:
                bad.append("query/link self-check: " + s)
            if bad:
                break
    return bad


def c04_outside_cast_cases():
    """assignments whose conversion is outside the C cast's domain (the model answers 'unspec' and the comparison of
    values ends there): whatever value the element gets, the tree must keep its shape -- the invariant is evaluated on
    every dump of the implementation"""
    import struct
    def fx(d):
        return "x%016x" % struct.unpack(">Q", struct.pack(">d", d))[0]
    big = [3.0e9, -4.0e12, 2147483648.0, -2147483649.0, 9.3e18, 1e19, -1e19, float("inf"), float("-inf"), float("nan"), 1e300]
    cases = []
    for ety, fill in ((2, "i"), (3, "l")):
        for d in big:
            for how in ("eset", "set"):
                for pos in (0, 2):
                    body = ["init", "option 1 1", "add . %s 7" % hx(b"a")] + ["eset %s 0 -1 %d" % (fill, v) for v in (20, 2, 30, 40)] + ["dump"]
                    body.append("eset f 0 %d %s" % (pos, fx(d)) if how == "eset" else "set f 0/%d %s" % (pos, fx(d)))
                    body += ["dump", "eset %s 0 -1 7" % fill, "dump", "eset f 0 -1 %s" % fx(d), "dump", "option 1 0", "eset %s 0 -1 9" % fill, "dump", "write", "destroy"]
                    cases.append("\n".join(body) + "\n")
    return cases


def run_c04(ctx):
    res = Result()
    rc = replay_cases(ctx)
    rng = ctx.rng
    if rc is not None:
        cases = rc
    else:
        cases = []
        depth = 2 if ctx.tier == "quick" else 3
        for ov in (False, True):
            cases += list(gen_api.exhaustive_histories(depth, ov))
        res.exhaustive = True
        nrand = 500 if ctx.tier == "quick" else 5000
        for i in range(nrand):
            cases.append(gen_api.random_history(rng, rng.choice([20, 60, 200]), crossing=(i % 3 == 0)))
        cases += c04_outside_cast_cases()
    res.rule = ("exhaustive histories to depth %s over a %d-op alphabet + random histories of 20-200 calls, a "
                "third of them growing aggregates across the 16/32-child boundaries; after every call the "
                "dumped real tree is checked against the invariant and the harness's pointer-level flags; "
                "distinct = SHA-1 of script without dumps" % (2 if ctx.tier == "quick" else 3, len(gen_api.ALPHABET)))
    res.distinct = distinct_count(cases)
    res.distribution["ops"] = summarize_ops(cases)
    res.samples = [cases[0], cases[len(cases) // 2], cases[-1]]
    # scope: structure only -- T lines without value/format/hook/position, S flags
    def structure_only(l):
        # T <path> <name> <ty> <fmt> <val> ... -> path, name, type and child count
        if l.startswith("T "):
            f = l.split(" ")
            return "T %s %s %s %s" % (f[1], f[2], f[3], f[5] if f[5].startswith("a") else "")
        if l.startswith("R n") or l.startswith("R crash") or l.startswith("R badhandle"):
            return l
        return None
    correspond(ctx, res, cases, line_filter=structure_only, oracle=c04_oracle)
    focus_search(ctx, res, c04_oracle, line_filter=structure_only)
    return res


REGISTRY = {
    "C05": dict(module="Properties_C05", run=run_c05),
    "C04": dict(module="Properties_C04", run=run_c04),
}


# ------------------------------------------------------------------------------------------
# C07: typed get/set conversion grid

C07_STORE = {
    "i": [0, 1, -1, 2**31 - 1, -2**31, 2**24 + 1, 16777217, -16777217, 255],
    "l": [0, 1, -1, 2**31 - 1, 2**31, -2**31, -2**31 - 1, 2**24 + 1, 2**53 + 1, 2**63 - 1, -2**63, 2**32],
    "f": [0x0000000000000000, 0x8000000000000000, 0x3ff0000000000000, 0xbff8000000000000, 0x41dfffffffc00000,
          0xc1e0000000000000, 0x41e0000000000000, 0x4340000000000001, 0x3fe0000000000000, 0x43d0000000000000,
          0x4170000010000000, 0x7fefffffffffffff, 0x0000000000000001],
    "b": [0, 1, 2, -1],
    "s": ["-", hx(b""), hx(b"abc"), hx(b"1"), hx(b"true")],
}
KTY = {"i": 2, "l": 3, "f": 4, "b": 6, "s": 5}


def c07_val(k, v):
    if k == "f":
        return "x%016x" % v
    return str(v)


def c07_castable(bits, k):
    lo, hi = (-2**31, 2**31 - 1) if k == "i" else (-2**63 + 2048, 2**63 - 2048)
    return gen_api.float_castable(bits, lo, hi)


def c07_cases():
    """The full grid: stored type x stored value x auto-convert x (every getter family, every setter kind x value)."""
    cases = []
    for auto in (0, 1):
        for st in "ilfbs":
            for sv in C07_STORE[st]:
                pre = ["init", "option 1 %d" % auto,
                       "add . %s %d" % (hx(b"s"), KTY[st]), "set %s 0 %s" % (st, c07_val(st, sv)),
                       "add . %s 8" % hx(b"l"), "eset %s 1 -1 %s" % (st, c07_val(st, sv)),
                       "add . %s 7" % hx(b"a"), "eset %s 2 -1 %s" % (st, c07_val(st, sv)), "dump"]
                body = list(pre)
                for k in "ilfbs":
                    if st == "f" and k in "il" and auto and not c07_castable(sv, k):
                        continue       # (int)double outside its defined domain
                    body += ["get %s 0" % k, "mlook %s . %s" % (k, hx(b"s")), "plook %s %s" % (k, hx(b"s")),
                             "eget %s 1 0" % k, "eget %s 2 0" % k, "plook %s %s" % (k, hx(b"l.[0]")),
                             "mlook %s . %s" % (k, hx(b"nosuch")), "eget %s 1 5" % k]
                cases.append("\n".join(body) + "\n")
                # the integer formats are presentation only: the same grid on hexadecimal settings (own format, and the
                # configuration's default format)
                if st in "il":
                    for fmtpre in (["setfmt 0 1", "setfmt 1/0 1", "setfmt 2/0 1"], ["deffmt 1"]):
                        for k in "il":
                            for v in C07_STORE[k]:
                                body = list(pre) + fmtpre + ["dump", "set %s 0 %s" % (k, c07_val(k, v)), "dump", "get %s 0" % st,
                                                             "get %s 0" % k, "eset %s 1 0 %s" % (k, c07_val(k, v)),
                                                             "eset %s 2 0 %s" % (k, c07_val(k, v)), "dump",
                                                             "eget %s 1 0" % st, "eget %s 2 0" % k]
                                cases.append("\n".join(body) + "\n")
                for k in "ilfbs":
                    for v in C07_STORE[k]:
                        if k == "f" and st in "il" and auto and not c07_castable(v, st):
                            continue
                        # after the assignment every numeric view of the setting is read (an integer setting converts
                        # to every numeric kind without leaving the casts' domain): what was stored is what is read
                        views = "ilf" if st in "il" else st
                        body = list(pre) + ["set %s 0 %s" % (k, c07_val(k, v)), "dump",
                                            "get %s 0" % st if not (st == "f" and False) else "dump"] + \
                                           ["get %s 0" % w for w in views if w != st] + \
                                           ["mlook %s . %s" % (w, hx(b"s")) for w in views] + \
                                           ["eset %s 1 0 %s" % (k, c07_val(k, v)), "eset %s 2 0 %s" % (k, c07_val(k, v)),
                                            "dump"] + ["eget %s 1 0" % w for w in views] + ["eget %s 2 0" % w for w in views] + \
                                           ["plook %s %s" % (w, hx(b"l.[0]")) for w in views] + \
                                           ["eset %s 2 -1 %s" % (k, c07_val(k, v)), "dump"]
                        cases.append("\n".join(body) + "\n")
    return cases


def c07_doc_numeric(script, rec):
    """The documented conversion rules replayed over the numeric scalar settings of the root group and over the elements
    of arrays / lists that are members of the root (add . NAME T, set K IDX V, get K IDX, eset K AGG I V, eget K AGG I,
    option 1 B), whatever the shape of the script: independent of the model, used on shrunk scripts."""
    import struct
    bad = []
    al = align(script, rec["impl"])
    auto = 0
    vals = []          # per root member: [kind, value] for numeric scalars, {"agg": type, "el": [[kind, value], ...]}, None otherwise

    def fbits(x):
        return "f%016x" % struct.unpack("<Q", struct.pack("<d", x))[0]

    def fval(tok):
        return struct.unpack("<d", struct.pack("<Q", int(tok[1:], 16)))[0]

    class Outside(Exception):
        pass

    def do_set(cur, k, v):
        """documented outcome of storing v of kind k into the numeric scalar cur; updates cur; returns success"""
        st = cur[0]
        if k == "f" and v != v:
            raise Outside()
        if k == st:
            ok, nv = True, v
        elif st == "l" and k == "i":
            ok, nv = True, v
        elif st == "i" and k == "l":
            ok, nv = (-2**31 <= v <= 2**31 - 1), v
        elif st == "f":
            ok, nv = bool(auto), float(v)
        else:       # float into an integer setting
            lo, hi = (-2**31, 2**31 - 1) if st == "i" else (-2**63 + 2048, 2**63 - 2048)
            if auto and not (lo - 1 < v < hi + 1):
                raise Outside()                    # outside the cast's domain: nothing documented
            ok, nv = bool(auto), int(v) if auto else None
        if ok:
            cur[1] = nv
        return ok

    def do_get(cur, k):
        st, sv = cur
        if k == st:
            return fbits(sv) if k == "f" else "i%d" % sv
        if k == "l" and st == "i":
            return "i%d" % sv
        if k == "i" and st == "l":
            return "i%d" % (sv if -2**31 <= sv <= 2**31 - 1 else 0)
        if k == "f":
            return fbits(float(sv)) if auto else fbits(0.0)
        lo, hi = (-2**31, 2**31 - 1) if k == "i" else (-2**63 + 2048, 2**63 - 2048)
        if auto and not (lo - 1 < sv < hi + 1):
            raise Outside()
        return "i%d" % (int(sv) if auto else 0)

    def parse(k, tok):
        return fval(tok) if k == "f" else int(tok)

    try:
        for op, out in al:
            f = op.split(" ")
            if not out:
                break
            r = out[0][2:]
            if f[0] in ("init", "dump", "write"):
                continue
            if f[0] == "option" and len(f) == 3:
                if f[1] == "1":
                    auto = int(f[2])
                continue
            if f[0] == "add" and len(f) == 4 and f[1] == ".":
                if r.startswith("n") and r != "n-":
                    t = int(f[3])
                    vals.append({2: ["i", 0], 3: ["l", 0], 4: ["f", 0.0], 7: {"agg": 7, "el": []}, 8: {"agg": 8, "el": []}}.get(t))
                continue
            if f[0] in ("set", "get") and len(f) >= 3 and f[1] in "ilf" and f[2].isdigit() and int(f[2]) < len(vals) \
                    and isinstance(vals[int(f[2])], list):
                cur = vals[int(f[2])]
                k = f[1]
                if f[0] == "set" and len(f) == 4:
                    st = cur[0]
                    ok = do_set(cur, k, parse(k, f[3]))
                    if (r == "i1") != ok:
                        bad.append("'%s' on a stored %s (auto-convert %d) returned %s; documented: %s" % (op, st, auto, r, "success" if ok else "failure"))
                        break
                    continue
                if f[0] == "get" and len(f) == 3:
                    want = do_get(cur, k)
                    if r != want:
                        bad.append("'%s': the setting holds %s %r (auto-convert %d), so the documented answer is %s; got %s" % (op, cur[0], cur[1], auto, want, r))
                        break
                    continue
            if f[0] in ("eset", "eget") and len(f) >= 4 and f[1] in "ilf" and f[2].isdigit() and int(f[2]) < len(vals) \
                    and isinstance(vals[int(f[2])], dict) and re.fullmatch(r"-?\d+", f[3]):
                agg = vals[int(f[2])]
                k, idx = f[1], int(f[3])
                el = agg["el"]
                if any(e is None for e in el):
                    break
                if f[0] == "eset" and len(f) == 5:
                    v = parse(k, f[4])
                    if idx < 0:
                        # append: a list takes anything; an array only its own element type (no conversion on append)
                        ok = agg["agg"] == 8 or not el or el[0][0] == k
                        if k == "f" and v != v:
                            break
                        if ok:
                            el.append([k, v])
                        want = "n%s/%d" % (f[2], len(el) - 1) if ok else "n-"
                    elif idx < len(el):
                        # an existing element: the rules of a direct assignment to that element
                        ok = do_set(el[idx], k, v)
                        want = "n%s/%d" % (f[2], idx) if ok else "n-"
                    else:
                        want = "n-"
                    if r != want:
                        bad.append("'%s' (auto-convert %d, %s of %s): documented outcome %s, got %s" % (
                            op, auto, "array" if agg["agg"] == 7 else "list", [e[0] for e in el][:6], want, r))
                        break
                    continue
                if f[0] == "eget" and len(f) == 4:
                    if 0 <= idx < len(el):
                        want = do_get(el[idx], k)
                    else:
                        want = fbits(0.0) if k == "f" else "i0"
                    if r != want:
                        bad.append("'%s': documented answer %s, got %s" % (op, want, r))
                        break
                    continue
            break              # anything else: stop interpreting
    except Outside:
        pass
    return bad


def c07_oracle(script, rec):
    extra = []
    try:
        extra = c07_doc_numeric(script, rec)
    except (IndexError, ValueError, KeyError):
        extra = []
    try:
        return c07_oracle_(script, rec) + extra
    except (IndexError, ValueError, KeyError):
        return died(script, rec) + extra


def c07_oracle_(script, rec):
    """Documented conversion rules evaluated on the implementation's transcript (independent of the model)."""
    bad = died(script, rec)
    al = align(script, rec["impl"])
    ops = [op for op, _ in al]
    outs = {i: out for i, (op, out) in enumerate(al)}
    # stored setting: ops[2] = add . s T ; ops[3] = set T 0 V
    try:
        st = ops[3].split(" ")[1]
        sv = ops[3].split(" ")[3]
        auto = int(ops[1].split(" ")[2])
    except Exception:
        return bad
    import struct

    def fval(tok):
        return struct.unpack("<d", struct.pack("<Q", int(tok[1:], 16)))[0]

    def stored_number():
        if st in "il":
            return int(sv)
        if st == "f":
            return fval(sv)
        return None

    for i, (op, out) in enumerate(al):
        f = op.split(" ")
        if not out or i < 9:
            continue
        r = out[0][2:]
        if f[0] == "set" and f[2] == "0" and len(f) == 4:
            k, v = f[1], f[3]
            # expected success by the documented rules
            if k == st:
                exp = True
            elif {k, st} == {"i", "l"}:
                exp = (-2**31 <= int(v) <= 2**31 - 1) if st == "i" else True
            elif k in "ilf" and st in "ilf" and (k == "f" or st == "f"):
                exp = bool(auto)
            else:
                exp = False
            if (r == "i1") != exp:
                bad.append("'%s' on a stored %s with auto-convert %d returned %s, documented rule says %s" % (
                    op, st, auto, r, "success" if exp else "failure"))
            # exactness of int -> float
            if r == "i1" and st == "f" and k == "i":
                root, _, _, _ = parse_dump(outs[i + 1]) if (i + 1 < len(ops) and ops[i + 1] == "dump") else (None, None, None, None)
                if root is not None and root.kids and root.kids[0].val.startswith("f"):
                    if fval(root.kids[0].val) != float(int(v)):
                        bad.append("'%s' stored %r, not exactly %s" % (op, fval(root.kids[0].val), v))
            if r == "i1" and i + 1 < len(ops) and ops[i + 1] == "dump":
                root, _, _, _ = parse_dump(outs[i + 1])
                if root is not None and root.kids:
                    got = root.kids[0]
                    if st == k:
                        want = ("f" + v[1:]) if k == "f" else (k + v)
                    elif st in "il" and k in "il":
                        want = st + v
                    elif st == "f":
                        want = "f%016x" % struct.unpack("<Q", struct.pack("<d", float(int(v))))[0]
                    elif k == "f":
                        want = st + str(int(fval(v)))
                    else:
                        want = None
                    if want is not None and (got.val != want or got.ty != KTY[st]):
                        bad.append("'%s' on a stored %s succeeded but the setting now holds %s (type %d), expected %s" % (
                            op, st, got.val, got.ty, want))
            if r == "i0" and i + 1 < len(ops) and ops[i + 1] == "dump":
                root, _, _, _ = parse_dump(outs[i + 1])
                if root is not None and root.kids and (root.kids[0].val != (("f" + sv[1:]) if st == "f" else
                                                       {"i": "i", "l": "l", "b": "b", "s": "s"}[st] + sv)
                                                       or root.kids[0].ty != KTY[st]):
                    bad.append("'%s' failed but the stored value/type changed to %s" % (op, root.kids[0].val))
        if f[0] in ("mlook", "plook") and r.startswith("k0") and "CHANGED" in r:
            bad.append("'%s' failed but wrote to the output variable" % op)
        if f[0] == "get" and f[2] == "0" and i < len(ops) and ops[3].startswith("set") and i > 8 and ops[i - 1] == "dump" and len(f) == 3:
            pass
    # read-back of the stored value through all families must agree
    fam = {}
    for i, (op, out) in enumerate(al):
        f = op.split(" ")
        if not out:
            continue
        r = out[0][2:]
        if f[0] == "get" and len(f) == 3 and f[2] == "0" and i >= 9:
            fam.setdefault(f[1], {})["get"] = r
        elif f[0] == "mlook" and f[3] == hx(b"s"):
            fam.setdefault(f[1], {})["mlook"] = r
        elif f[0] == "plook" and f[2] == hx(b"s"):
            fam.setdefault(f[1], {})["plook"] = r
        elif f[0] == "plook" and f[2] == hx(b"l.[0]"):
            fam.setdefault(f[1], {})["plook_elem"] = r
        elif f[0] == "eget" and f[2] == "1" and f[3] == "0":
            fam.setdefault(f[1], {})["eget_list"] = r
        elif f[0] == "eget" and f[2] == "2" and f[3] == "0":
            fam.setdefault(f[1], {})["eget_array"] = r
    zero = {"i": "i0", "l": "i0", "b": "i0", "f": "f0000000000000000", "s": "s-"}
    for k, d in fam.items():
        if len(d) < 6:
            continue
        look = d["mlook"]
        if not (d["plook"] == look == d["plook_elem"]):
            bad.append("lookup families disagree for kind %s: %s" % (k, d))
        direct = d["get"]
        if not (d["eget_list"] == direct == d["eget_array"]):
            bad.append("direct/element getters disagree for kind %s: %s" % (k, d))
        if look.startswith("k1 "):
            if look[3:] != direct:
                bad.append("lookup value %s differs from direct getter %s (kind %s)" % (look, direct, k))
        elif look.startswith("k0"):
            if direct != zero[k]:
                bad.append("failed lookup but direct getter returned %s (kind %s)" % (direct, k))
    return bad


def run_c07(ctx):
    res = Result()
    rc = replay_cases(ctx)
    cases = rc if rc is not None else c07_cases()
    if rc is None:
        res.exhaustive = True
        rng = ctx.rng
        # random values beyond the boundary grid
        for i in range(200 if ctx.tier == "quick" else 4000):
            cases.append(gen_api.random_history(rng, 40, opts=rng.choice([0x16, 0x17])))
    res.rule = ("the full grid stored type {int,int64,float,bool,string} x boundary value x auto-convert {off,on} x "
                "(every getter family: direct, by name, by path, element of list, element of array) and x "
                "(every setter kind x boundary value, direct and element incl. append), enumerated exhaustively; plus "
                "random histories; distinct = SHA-1 of script")
    res.distinct = distinct_count(cases)
    res.distribution["ops"] = summarize_ops(cases)
    res.samples = [cases[0], cases[len(cases) // 2]]
    correspond(ctx, res, cases, drop_prefixes=("E ", "A "), oracle=c07_oracle,
               known=lambda s, r, o: match_known("C07", s, r, o))
    focus_search(ctx, res, c07_oracle, drop_prefixes=("E ", "A "))
    return res


REGISTRY["C07"] = dict(module="Properties_C07", run=run_c07)


# ------------------------------------------------------------------------------------------
# C06: paths

def c06_cases(rng, ntrees, per_tree):
    cases = []
    stats = {"lookups": 0, "spellings": 0, "corrupted": 0, "typed": 0, "nodes": 0}
    for t in range(ntrees):
        root = gen_api.gen_tree(rng, max_depth=rng.choice([2, 3, 4]), max_fan=rng.choice([2, 4, 6]), big=(t % 7 == 0))
        body = ["init"] + gen_api.tree_script(root) + ["dump"]
        nodes = gen_api.all_nodes(root)
        stats["nodes"] += len(nodes)
        targets = [x for x in nodes if x[0]]
        rng.shuffle(targets)
        for p, n in targets[:per_tree]:
            # every base ancestor
            for cut in range(len(p)):
                base = root
                for i in p[:cut]:
                    base = base.kids[i]
                rel = p[cut:]
                for _ in range(2):
                    sp = gen_api.spell(rng, base, rel)
                    body.append("look %s %s" % (gen_api.path_str(p[:cut]), hx(sp)))
                    stats["spellings"] += 1
                if cut == 0:
                    body.append("clook %s" % hx(gen_api.spell(rng, base, rel)))
                    k = gen_api.KIND.get(n.ty)
                    for kk in ("ilfbs" if k else "i"):
                        if kk in "il" and n.ty == gen_api.T_FLOAT:
                            continue
                        body.append("plook %s %s" % (kk, hx(gen_api.spell(rng, base, rel))))
                        stats["typed"] += 1
                for cp in gen_api.corrupt_paths(rng, base, rel)[:12]:
                    body.append("look %s %s" % (gen_api.path_str(p[:cut]), hx(cp)))
                    stats["corrupted"] += 1
                    if cut == 0 and rng.random() < 0.3:
                        body.append("plook %s %s" % (rng.choice("ilfbs"), hx(cp)))
                        stats["typed"] += 1
        # walker oddities (outside the statement, model must still agree)
        for odd in (b"", b".", b"..", b"a..b", b"[", b"[]", b"[ 1]", b"[+0]", b"[-1]", b"[-4294967296]", b"[0", b"a.", b"[0]x"):
            body.append("look . %s" % hx(odd))
        body.append("dump")
        stats["lookups"] += sum(1 for l in body if l.split(" ")[0] in ("look", "clook", "plook"))
        cases.append("\n".join(body) + "\n")
    # typed lookups that cannot deliver: whatever the reason (missing, wrong type, a float that an int cannot hold with
    # auto-conversion on), a lookup that reports failure leaves the caller's variable untouched; each lookup is the last
    # call of its case for values outside the C cast's domain (the model answers 'unspec' there)
    import struct
    def fx(d):
        return "x%016x" % struct.unpack(">Q", struct.pack(">d", d))[0]
    for auto in (0, 1):
        for d in (3.0e9, -5.0e10, 4294967296.0, 2147483648.0, -2147483649.0, 9.3e18, 1e19, -1e19, 1e300, float("inf"), float("nan"), 2.5):
            for kind in "il":
                for path, setup in ((b"big", ["add . %s 4" % hx(b"big"), "set f 0 %s" % fx(d)]),
                                    (b"lst.[1]", ["add . %s 8" % hx(b"lst"), "eset i 0 -1 1", "eset f 0 -1 %s" % fx(d)]),
                                    (b"g/deep", ["add . %s 1" % hx(b"g"), "add 0 %s 4" % hx(b"deep"), "set f 0/0 %s" % fx(d)])):
                    body = ["init", "option 1 %d" % auto] + setup + ["dump", "plook %s %s" % (kind, hx(path))]
                    cases.append("\n".join(body) + "\n")
                    stats["typed"] += 1
    return cases, stats


def c06_oracle(script, rec):
    """Documented path semantics evaluated on the implementation's own dump."""
    bad = died(script, rec)
    al = align(script, rec["impl"])
    root = None
    first_sig = None
    for op, out in al:
        f = op.split(" ")
        if op == "dump":
            r, _, _, s = parse_dump(out)
            if root is None:
                root = r
                first_sig = tree_sig(r) if r else None
            elif r is not None and tree_sig(r) != first_sig:
                bad.append("lookups changed the configuration")
            continue
        if root is None or not out:
            continue
        r = out[0][2:]
        if f[0] in ("look", "clook"):
            base = f[1] if f[0] == "look" else "."
            pb = unhx(f[2] if f[0] == "look" else f[1])
            bp = () if base == "." else tuple(int(x) for x in base.split("/"))
            if any(pb[i:i + 1] in gen_api.SEPS and pb[i + 1:i + 2] in gen_api.SEPS for i in range(len(pb) - 1)):
                # an empty component between two separators names a member that cannot exist
                if r != "n-":
                    bad.append("'%s' (%r) has an empty component but resolved to %s" % (op, pb, r))
                continue
            mneg = re.search(rb"\[-([0-9]+)\]", pb)
            if mneg and int(mneg.group(1)) > 0:
                # a negative index is below every element
                if r != "n-":
                    bad.append("'%s' (%r) has a negative index but resolved to %s" % (op, pb, r))
                continue
            comps, ch = tnode_resolve(root, bp, pb)
            if comps is None:
                continue
            if ch is None:
                if r != "n-":
                    bad.append("'%s' (%r) names nothing but resolved to %s" % (op, pb, r))
            else:
                want = "n" + "/".join(str(i) for i in ch[-1].path)
                if r != want:
                    bad.append("'%s' (%r) should resolve to %s, got %s" % (op, pb, want, r))
        elif f[0] == "plook":
            if r.startswith("k0") and "CHANGED" in r:
                bad.append("'%s' failed but wrote to the output variable" % op)
            comps, ch = tnode_resolve(root, (), unhx(f[2]))
            if comps is not None and ch is None and not r.startswith("k0"):
                bad.append("'%s' names nothing but the typed lookup succeeded" % op)
    # getPath()-style canonical paths of every node resolve to the node
    return bad


def c06_cxx_cases():
    """Setting::getPath() across removals and additions: the path reported for a setting must resolve to that setting
    whatever was asked of it (or of its neighbours) before the structure changed"""
    cases = []
    for agg, aty in ((b"l", 8), (b"a", 7), (b"g", 1)):
        for k in (0, 1, 2):
            body = ["init", "xinit", "xadd . %s %d" % (hx(agg), aty)]
            n = 4
            for i in range(n):
                if aty == 8:        # list of groups, each with a member and a nested list
                    body += ["xadd 0 - 1", "xadd 0/%d %s 2" % (i, hx(b"host")), "xset i 0/%d/0 %d" % (i, i), "xadd 0/%d %s 8" % (i, hx(b"sub")),
                             "xadd 0/%d/1 - 2" % i]
                elif aty == 7:
                    body += ["xadd 0 - 2", "xset i 0/%d %d" % (i, i)]
                else:
                    body += ["xadd 0 %s 1" % hx(b"m%d" % i), "xadd 0/%d %s 2" % (i, hx(b"host"))]
            def paths(m):
                ps = []
                for i in range(m):
                    ps.append("0/%d" % i)
                    if aty == 8:
                        ps += ["0/%d/0" % i, "0/%d/1" % i, "0/%d/1/0" % i]
                    elif aty == 1:
                        ps.append("0/%d/0" % i)
                return ps
            body += ["xpath %s" % q for q in paths(n)] + ["xinfo 0/%d" % (k + 1)]
            body.append("xrmi 0 %d" % k if aty != 1 else "xrm 0 %s" % hx(b"m%d" % k))
            body += ["xpath %s" % q for q in paths(n - 1)] + ["xinfo 0/%d" % k, "dump"]
            # add again behind, remove the first, ask again
            body.append("xadd 0 - %d" % (1 if aty == 8 else 2) if aty != 1 else "xadd 0 %s 1" % hx(b"zz"))
            body += ["xpath %s" % q for q in ["0/%d" % i for i in range(n)]]
            body.append("xrmi 0 0" if aty != 1 else "xrmi 0 0")
            body += ["xpath %s" % q for q in ["0/%d" % i for i in range(n - 1)]] + ["dump", "destroy"]
            cases.append("\n".join(body) + "\n")
    # a long list under a global C++ locale that groups digits: the index in the reported path is a plain number (F21)
    body = ["init", "xinit", "xgrouploc", "xadd . %s 8" % hx(b"l")] + ["xadd 0 - 2"] * 1002 + \
           ["xpath 0/999", "xpath 0/1000", "xpath 0/1001", "xidx 0 1000", "destroy"]
    cases.append("\n".join(body) + "\n")
    return cases


def c06_cxx_oracle(script, rec):
    bad = []
    if rec.get("status", "ok") != "ok":
        bad.append("process status %s: %s" % (rec["status"], " ".join(rec.get("stderr", "").split()[:30])))
    for op, out in align(script, rec["impl"]):
        f = op.split(" ")
        if f[0] == "xpath" and out and out[0].startswith("R s"):
            back = out[0].split(" back=")[-1]
            if back != "n" + f[1]:
                bad.append("getPath() of setting %s reports %r, which resolves to %s" % (
                    f[1], unhx(out[0].split(" ")[1][1:]), back))
    return bad


def run_c06(ctx):
    res = Result()
    rc = replay_cases(ctx)
    if rc is not None:
        cases, stats = rc, {}
    else:
        cases, stats = c06_cases(ctx.rng, 60 if ctx.tier == "quick" else 600, 6 if ctx.tier == "quick" else 40)
    res.rule = ("random well-formed trees (depth <= 4, fan-out <= 6, some with 15..33 children); for sampled settings x "
                "every base ancestor x random spellings (name or [index] with leading zeros per step, separators . : /, "
                "optional leading separator) the returned setting is compared by index path with the model and with the "
                "documented resolution evaluated on the implementation's own dump; corrupted paths (missing member, "
                "prefix/extension of a sibling name, index = length, 2^31, 2^32(+k), 2^63, 2^64+k, continuation below "
                "a scalar) must resolve to nothing; typed lookups run with sentinel outputs")
    res.distinct = distinct_count(cases)
    res.distribution = dict(stats)
    res.samples = [cases[0][:1500]] if cases else []
    correspond(ctx, res, cases, drop_prefixes=("E ", "A "), oracle=c06_oracle,
               known=lambda s, r, o: match_known("C06", s, r, o), per_proc=4)
    if rc is None and not res.violations:
        xcases = c06_cxx_cases()
        res.distribution["getPath_histories_cxx"] = len(xcases)
        correspond(ctx, res, xcases, drop_prefixes=("E ",), line_filter=c17_filter, oracle=c06_cxx_oracle, variant="cxx",
                   known=lambda s, r, o: match_known("C06", s, r, o), label="cxx")
    return res


REGISTRY["C06"] = dict(module="Properties_C06", run=run_c06)


# ------------------------------------------------------------------------------------------
# C16: hooks and library-owned strings

def hooks_in(root):
    res = []

    def rec(n):
        for k in n.kids:
            rec(k)
        if n.hook != "-":
            res.append(n.hook)
    if root is not None:
        rec(root)
    return res


def c16_oracle(script, rec):
    """Exactly-once release evaluated on the implementation's own transcript: between two dumps the hooks that
    disappeared from the tree are exactly the hooks the destructor was called on (as multisets), no hook is
    released while its setting is still in the tree, and handed-out strings stay intact."""
    bad = died(script, rec)
    al = align(script, rec["impl"])
    prev = None
    dtor_on = False
    pending = []      # ops since the previous dump: (op, dtor calls)
    last_out = {}
    for op, out in al:
        f = op.split(" ")
        if op == "dump":
            root, attrs, err, s = parse_dump(out)
            if s and "strings=BAD" in s:
                bad.append("a string handed out earlier changed while its setting still holds it")
            cur = hooks_in(root)
            if root is not None and root.hook != "-" and pending and \
                    any(o.split(" ")[0] in ("clear", "reads", "readst", "readf") for o, _ in pending) and \
                    not any(o.startswith("hook . ") for o, _ in pending):
                bad.append("after %s the root setting still carries hook %s: clearing or re-reading destroys the old root "
                           "(its hook is released) and the new root has none" % ([o for o, _ in pending], root.hook))
            if prev is not None and root is not None:
                calls = [h for _, d in pending for h in d]
                attached = [o.split(" ")[2] for o, _ in pending if o.startswith("hook ") and o.split(" ")[2] != "-"]
                hookops = [o for o, _ in pending if o.startswith("hook ")]
                if not hookops and all(not o.startswith(("init", "dtor")) for o, _ in pending):
                    gone = list(prev)
                    for h in cur:
                        if h in gone:
                            gone.remove(h)
                    if dtor_on and sorted(gone) != sorted(calls):
                        bad.append("after %s: hooks that left the tree %s, destructor called on %s" % (
                            [o for o, _ in pending], gone, calls))
                    if not dtor_on and calls:
                        bad.append("destructor called although none is registered: %s" % calls)
                    for h in calls:
                        if h in cur and prev.count(h) <= cur.count(h):
                            bad.append("destructor called on hook %s whose setting is still alive" % h)
            # a setting that config_setting_add has just created carries no hook (it is a new setting, also when it
            # replaces a member of the same name under the override option)
            if root is not None and len(pending) == 1 and pending[0][0].startswith("add ") and pending[0][0] in last_out:
                r = last_out[pending[0][0]]
                if r.startswith("R n") and r != "R n-":
                    node = subtree_at(root, tuple(int(x) for x in r[3:].split("/")))
                    if node is not None and node.hook != "-":
                        bad.append("'%s' created a setting that already carries hook %s: the replaced member's hook was "
                                   "neither released nor dropped" % (pending[0][0], node.hook))
            prev = cur
            pending = []
        else:
            calls = [l.split(" ")[2] for l in out if l.startswith("L dtor ")]
            pending.append((op, calls))
            last_out = {op: next((l for l in out if l.startswith("R ")), "")}
            if f[0] in ("hook", "chook") and calls:
                bad.append("'%s': attaching a hook called the destructor on %s although no setting was destroyed "
                           "(config_setting_set_hook only stores the pointer)" % (op, calls))
            if f[0] == "dtor":
                dtor_on = f[1] != "0"
            if f[0] == "init":
                dtor_on = False
                prev = None
            if f[0] == "destroy":
                # everything alive must have been released
                if dtor_on and prev is not None and len(pending) == 1 and sorted(calls) != sorted(prev):
                    bad.append("destroy released %s, hooks alive were %s" % (calls, prev))
                prev = None
    return bad


def c16_cases(rng, n):
    cases = []
    for i in range(n):
        h = gen_api.random_history(rng, rng.choice([20, 40, 80]), hooks=True, crossing=(i % 6 == 0), paths=(i % 3 == 0),
                                   opts=rng.choice([0x16, 0x96, 0x96, 0x97]))
        lines = h.splitlines()
        # interleave string hand-outs: names and string values of random nodes are fetched and must stay intact
        out = []
        for l in lines:
            out.append(l)
            if l.startswith(("add ", "set s", "eset s")) and rng.random() < 0.5:
                f = l.split(" ")
                tgt = f[1] if f[0] == "add" else f[2]
                out.append("name %s" % tgt)
                out.append("get s %s" % tgt)
                if f[0] == "eset":
                    out.append("eget s %s 0" % tgt)
        if i % 4 == 1 and len(out) > 12:
            # the destructor is unregistered (NULL) part of the way through, and in half of these registered again
            k = rng.randrange(6, len(out) - 4)
            while k < len(out) and out[k] != "dump":
                k += 1
            out[k + 1:k + 1] = ["dtor 0", "dump"]
            if rng.random() < 0.5:
                k2 = rng.randrange(k + 2, len(out))
                while k2 < len(out) and out[k2] != "dump":
                    k2 += 1
                out[k2 + 1:k2 + 1] = ["dtor 1", "dump"]
        if i % 5 == 2:
            # a hook on the root of a configuration without settings (fresh, cleared, or read from an empty text)
            pre = rng.choice([["init", "options 150", "dtor 1"], ["init", "options 150", "dtor 1", "reads %s" % hx(b"# nothing\n"), "dump"],
                              ["init", "options 150", "dtor 1", "add . %s 2" % hx(b"t"), "dump", "clear", "dump"]])
            mid = ["hook . 7001", "dump", rng.choice(["clear", "reads %s" % hx(b"a = 1;"), "reads %s" % hx(b""), "readst %s" % hx(b"b = 2;")]),
                   "dump", "hook . 7002", "dump", rng.choice(["clear", "reads %s" % hx(b" ")]), "dump"]
            out = pre + mid
        tail = rng.choice(["destroy", "clear\ndump\ndestroy", "reads %s\ndump\ndestroy" % hx(b"a = 1; b = \"x\";"),
                           "reads %s\ndump\ndestroy" % hx(b"a = ;")])
        cases.append("\n".join(out) + "\n" + tail + "\n")
    return cases


def run_c16(ctx):
    res = Result()
    rc = replay_cases(ctx)
    cases = rc if rc is not None else c16_cases(ctx.rng, 500 if ctx.tier == "quick" else 5000)
    res.rule = ("random histories of 20-80 calls with a destructor registered and hooks attached to random settings "
                "(root, members, elements, nested aggregates), overrides on in 3/4 of them, removals by name / path / "
                "index, clears, re-reads (ok and failing) and a final destroy; destructor call log compared with the "
                "model after every call and, independently, with the hooks that left the dumped tree; names and string "
                "values are fetched throughout and re-read after every later call (ASan build)")
    res.distinct = distinct_count(cases)
    res.distribution["ops"] = summarize_ops(cases)
    res.samples = [cases[0][:1200]] if cases else []
    correspond(ctx, res, cases, drop_prefixes=("E ",), oracle=c16_oracle,
               known=lambda s, r, o: match_known("C16", s, r, o))
    focus_search(ctx, res, c16_oracle, drop_prefixes=("E ",), hist_kwargs=dict(hooks=True))
    return res


REGISTRY["C16"] = dict(module="Properties_C16", run=run_c16)


# ------------------------------------------------------------------------------------------
# C09 (error state) and C12 (write_file)

C09_SETUP = ["init",
             "fs put %s %s" % (hx(b"inc_bad.cfg"), hx(b"x = 1;\ny = [1,\n  2.5];\n")),
             "fs put %s %s" % (hx(b"inc_ok.cfg"), hx(b"x = 1;\n")),
             "fs put %s %s" % (hx(b"top_bad.cfg"), hx(b"a = 1;\n@include \"inc_bad.cfg\"\nb = 2;\n")),
             "fs put %s %s" % (hx(b"top_ok.cfg"), hx(b"a = 1;\n@include \"inc_ok.cfg\"\nb = 2;\n")),
             "fs put %s %s" % (hx(b"top_missing.cfg"), hx(b"a = 1;\n\n\n@include \"nosuch.cfg\"\n")),
             "fs put %s %s" % (hx(b"inc_long.cfg"), hx(b"l1 = 1;\nl2 = 2;\nl3 = 3;\nl4 = 4;\nl5 = 5;\nl6 = 6;\n")),
             "fs put %s %s" % (hx(b"inc_bad2.cfg"), hx(b"q = 1;\nr = [1,\n  2.5];\n")),
             "fs dir %s" % hx(b"adir")]
C09_ALPHABET = [
    "reads %s" % hx(b"a=1;"),
    "reads %s" % hx(b"a = ;"),
    "reads %s" % hx(b"a=1;\n\na=2;"),
    "reads %s" % hx(b"a=[1,\n\n\n\"x\"];"),
    "readst %s" % hx(b"\n\nb = (1, 2;"),
    "reads %s" % hx(b"@include \"nosuch\"\n"),
    "readf %s" % hx(b"top_bad.cfg"),
    "readf %s" % hx(b"top_missing.cfg"),
    "readf %s" % hx(b"top_ok.cfg"),
    "readf %s" % hx(b"nosuch.cfg"),
    "readf %s" % hx(b"adir"),
    "writef %s" % hx(b"out.cfg"),
    "wdev -1 0 1 0\nwritef %s\nwdev -1 0 0 0" % hx(b"out2.cfg"),
    "writef %s" % hx(b"nodir/out.cfg"),
    # an include function that returns two files; the error is in the second one, on its line 3
    "incfn multi %s,%s\nreads %s\nincfn default" % (hx(b"inc_long.cfg"), hx(b"inc_bad2.cfg"), hx(b"\n@include \"z\"\n")),
]


# what the documentation says each call of the alphabet reports (type, file, line), read off the test data by hand:
# type 0 none / 1 file I/O / 2 parse; the file is the one that CONTAINS the error (NULL for strings and streams)
C09_DOC = {
    0: ("0", "-", "0"), 1: ("2", "-", "1"), 2: ("2", "-", "3"), 3: ("2", "-", "4"), 4: ("2", "-", "3"), 5: ("2", "-", "1"),
    6: ("2", hx(b"inc_bad.cfg"), "3"), 7: ("2", hx(b"top_missing.cfg"), "4"), 8: ("0", "-", "0"),
    9: ("1", "-", "0"), 10: ("1", "-", "0"), 11: ("0", "-", "0"), 12: ("1", "-", "0"), 13: ("1", "-", "0"),
    14: ("2", hx(b"inc_bad2.cfg"), "3"),
}


def c09_cases(depth):
    import itertools
    for combo in itertools.product(range(len(C09_ALPHABET)), repeat=depth):
        body = list(C09_SETUP)
        for i in combo:
            body.append(C09_ALPHABET[i])
            body.append("dump")
        yield "\n".join(body) + "\n"


def e_after(script, lines):
    """[(macro-op text, E line after it)] for every dump of the script"""
    al = align(script, lines)
    res = []
    cur = []
    for op, out in al:
        if op == "dump":
            e = next((l for l in out if l.startswith("E ")), None)
            res.append(("\n".join(cur), e))
            cur = []
        elif not op.startswith(("fs ", "init")):
            cur.append(op)
    return res


def run_c09(ctx):
    res = Result()
    rc = replay_cases(ctx)
    depth = 2 if ctx.tier == "quick" else 3
    cases = rc if rc is not None else list(c09_cases(depth))
    if rc is None:
        res.exhaustive = True
    # the implementation's own report of each call on a fresh object (oracle reference, model-free)
    runner = ctx.runner()
    solo = {}
    for a in C09_ALPHABET:
        r = run_single(runner, "\n".join(C09_SETUP + [a, "dump"]) + "\n")
        ea = e_after(r["script"], r["impl"])
        if ea:
            solo[a] = ea[-1][1]

    def oracle(script, rec):
        bad = died(script, rec)
        sizes = {}
        for l in script.splitlines():
            f = l.split(" ")
            if f[:2] == ["fs", "put"] and len(f) == 4:
                sizes[f[2]] = unhx(f[3]).count(b"\n") + 1
        for op, e in e_after(script, rec["impl"]):
            ef = e.split(" ") if e else []
            if len(ef) == 5 and ef[3] in sizes and int(ef[4]) > sizes[ef[3]]:
                bad.append("after '%s' the error names file %s, which has %d lines, at line %s" % (
                    op.replace("\n", "; "), unhx(ef[3]), sizes[ef[3]], ef[4]))
            if op in C09_ALPHABET and len(ef) == 5:
                want = C09_DOC[C09_ALPHABET.index(op)]
                if (ef[1], ef[3], ef[4]) != want:
                    bad.append("after '%s' the error type/file/line are %s; the call's own error is type %s in file %s at line %s" % (
                        op.replace("\n", "; "), (ef[1], ef[3], ef[4]), want[0], want[1], want[2]))
            if op in solo and e != solo[op]:
                bad.append("after '%s' the error fields are %s; the same call on a fresh configuration reports %s" % (
                    op.replace("\n", "; "), e, solo[op]))
        return bad
    res.rule = ("every history of length %d over %d calls on one configuration object (ok reads from string/stream/file "
                "with include; syntax error, duplicate, mismatched element at different lines; error inside an included "
                "file; error in the second file of a multi-file include; missing include; missing file; directory; ok "
                "write; write whose close fails; write into a missing directory), the four error fields compared with the model after every call and, "
                "model-free, with the report of the same call on a fresh object" % (depth, len(C09_ALPHABET)))
    res.distinct = distinct_count(cases)
    res.distribution["ops"] = summarize_ops(cases)
    res.distribution["solo_reports"] = solo
    res.samples = [cases[len(cases) // 2]] if cases else []
    keep = lambda l: l if l.startswith(("R ", "E ")) else None
    correspond(ctx, res, cases, line_filter=keep, oracle=oracle,
               known=lambda s, r, o: match_known("C09", s, r, o), per_proc=20)
    return res


REGISTRY["C09"] = dict(module="Properties_C09", run=run_c09)


def c12_cases(rng, n_cfg):
    import gen_text
    cases = []
    stats = {"faults": 0, "cfgs": 0}
    for i in range(n_cfg):
        text = gen_text.rand_config(rng, size=rng.choice([3, 10, 60]))
        body = ["init", "reads %s" % hx(text), "write"]
        # length of the serialisation is not known to the generator: use caps around typical sizes and boundaries
        caps = [0, 1, 2, 5, 17, 100, 4095, 4096, 4097, 8192, 20000]
        for fs_opt in (0, 1):
            body.append("option 64 %d" % fs_opt)
            for cap in caps:
                body += ["wdev %d 0 0 0" % cap, "writef %s" % hx(b"o%d_%d.cfg" % (fs_opt, cap)), "dump"]
                stats["faults"] += 1
            # (a failing fsync reports EIO (1), EINVAL (2), ENOSYS (3) or ENOTSUP (4); each kind is followed by an EIO
            #  failure: what an earlier failure was must not change how the next one is reported)
            for (fsf, clf, opf) in ((1, 0, 0), (0, 1, 0), (0, 0, 1), (1, 1, 0), (2, 0, 0), (1, 0, 0), (3, 0, 0), (1, 0, 0),
                                    (4, 0, 0), (1, 0, 0), (0, 1, 0)):
                body += ["wdev -1 %d %d %d" % (fsf, clf, opf), "writef %s" % hx(b"f%d%d%d%d.cfg" % (fs_opt, fsf, clf, opf)), "dump"]
                stats["faults"] += 1
            body += ["wdev -1 0 0 0", "writef %s" % hx(b"ok%d.cfg" % fs_opt), "dump", "fs cat %s" % hx(b"ok%d.cfg" % fs_opt)]
            body += ["writef %s" % hx(b"missingdir/x.cfg"), "dump"]
        cases.append("\n".join(body) + "\n")
        stats["cfgs"] += 1
    # serialisations of an exact length around the multiples of the stdio buffer size (and of buffer size + 1: a
    # failing flush drops one character per buffer): the point where the last byte fills or overflows the buffer
    for L in (4095, 4096, 4097, 4098, 8192, 8193, 8194, 8195, 12288, 12291, 12292, 16388):
        n = L - 8                                   # 's = "' + n bytes + '";\n'
        body = ["init", "add . h73 5", "set s 0 %s" % hx(b"x" * n), "write"]
        for fs_opt in (0, 1):
            body.append("option 64 %d" % fs_opt)
            for cap in (0, 1, 4095, 4096, L - 1):
                body += ["wdev %d 0 0 0" % cap, "writef %s" % hx(b"x%d_%d.cfg" % (fs_opt, cap)), "dump"]
                stats["faults"] += 1
            body += ["wdev %d 0 0 0" % L, "writef %s" % hx(b"fit%d.cfg" % fs_opt), "dump", "fs cat %s" % hx(b"fit%d.cfg" % fs_opt)]
        cases.append("\n".join(body) + "\n")
        stats["exact_lengths"] = stats.get("exact_lengths", 0) + 1
    return cases, stats


def c12_oracle(script, rec):
    """success <=> the file holds exactly the config_write text (read back from the real file system by the
    harness's 'fs cat' and, for every capped write, by comparing sizes)"""
    bad = died(script, rec)
    al = align(script, rec["impl"])
    text = None
    cap = -1
    flags = (0, 0, 0)
    for i, (op, out) in enumerate(al):
        f = op.split(" ")
        if not out:
            continue
        r = out[0][2:]
        if op == "write":
            text = bytes.fromhex(r[2:]) if r.startswith("sh") else None
        elif f[0] == "wdev":
            cap = int(f[1])
            flags = (int(f[2]), int(f[3]), int(f[4]))
        elif f[0] == "option" and f[1] == "64":
            fsync = int(f[2])
        elif f[0] == "writef" and text is not None:
            path = unhx(f[1])
            must_fail = (0 <= cap < len(text)) or flags[2] or flags[1] or (flags[0] and fsync) or path.startswith(b"missingdir/")
            if must_fail and r == "i1":
                bad.append("'%s' reported success although the file cannot hold the %d bytes / a step was made to fail "
                           "(cap=%d, fsync/close/open fail=%s)" % (op, len(text), cap, flags))
            if not must_fail and r == "i0":
                bad.append("'%s' reported failure although nothing failed" % op)
            # the error type after the call: an I/O failure is reported as such, a success leaves 'none'
            nxt = al[i + 1] if i + 1 < len(al) else None
            if nxt and nxt[0] == "dump":
                e = next((l for l in nxt[1] if l.startswith("E ")), None)
                if e is not None:
                    et = e.split(" ")[1]
                    if r == "i0" and et != "1":
                        bad.append("'%s' failed but config_error_type() is %s, not CONFIG_ERR_FILE_IO" % (op, et))
                    if r == "i1" and et != "0":
                        bad.append("'%s' succeeded but config_error_type() is %s" % (op, et))
        elif f[0] == "fs" and f[1] == "cat" and text is not None:
            got = bytes.fromhex(r[2:]) if r.startswith("sh") else None
            if got != text:
                bad.append("file written with success differs from config_write output")
    return bad


def run_c12(ctx):
    res = Result()
    rc = replay_cases(ctx)
    if rc is not None:
        cases, stats = rc, {}
    else:
        cases, stats = c12_cases(ctx.rng, 40 if ctx.tier == "quick" else 400)
    res.rule = ("generated configurations (a few bytes to tens of KiB) x fsync option off/on x RLIMIT_FSIZE at 0, 1, 2, 5, "
                "17, 100, 4095..4097, 8192, 20000 bytes, fsync / fclose / fopen forced to fail, missing directory, a "
                "fault-free write whose file is read back, and configurations whose serialisation has an exact length at "
                "4095..4098, 8192..8195, 12288..12292, 16388 bytes under limits 0, 1, 4095, 4096, L-1, L; "
                "fault-free write whose file is read back; return value and error fields compared with the model after "
                "every call; model-free oracle: success iff nothing was made to fail and the text fits")
    res.distinct = distinct_count(cases)
    res.distribution = dict(stats)
    res.samples = [cases[0][:800]] if cases else []
    keep = lambda l: l if l.startswith(("R ", "E ")) else None
    correspond(ctx, res, cases, line_filter=keep, oracle=c12_oracle,
               known=lambda s, r, o: match_known("C12", s, r, o), per_proc=4)
    # one TRANSIENT write failure (model-free; the logic is StdioModel.v / StdioFacts.v): the size limit makes one write
    # of stdio's fail, then it is lifted: every later write, the flush, the fsync and the close succeed - the call must
    # still report an I/O failure; without a failure it must succeed with exactly the text of config_write
    if rc is None:
        runner = ctx.runner("asan")
        ntr = ntr_bad = 0
        for nset in (400, 1500):
            text = b"".join(b"s%05d = \"%s\";\n" % (i, b"x" * (i % 37)) for i in range(nset))
            for fs_opt in (0, 1):
                for cap in (1, 4096, 8192, 4096 * 3, 10 ** 9):
                    if ntr_bad >= 2:
                        break
                    script = "\n".join(["init", "reads %s" % hx(text), "option 64 %d" % fs_opt, "write",
                                        "writeft %s %d" % (hx(b"tr.cfg"), cap), "dump", "fs cat %s" % hx(b"tr.cfg")]) + "\n"
                    out, status, err = runner.run_impl(script)
                    res.evaluations += 1
                    ntr += 1
                    lines = out.splitlines()
                    bad = []
                    try:
                        wtxt = next(l for l in lines if l.startswith("R sh"))
                        iw = next(i for i, l in enumerate(lines) if l.startswith("L xfsz "))
                        fired = int(lines[iw].split(" ")[2])
                        rv = lines[iw - 1]
                        et = next(l for l in lines[iw:] if l.startswith("E ")).split(" ")[1]
                        cat = [l for l in lines if l.startswith("R s")][-1]
                        if status != "ok":
                            bad.append("process status %s" % status)
                        if fired and rv != "R i0":
                            bad.append("one write failed (file size limit %d, lifted afterwards) but config_write_file returned %s" % (cap, rv))
                        if fired and rv == "R i0" and et != "1":
                            bad.append("the call failed but the error type is %s, not CONFIG_ERR_FILE_IO" % et)
                        if not fired and (rv != "R i1" or cat != wtxt):
                            bad.append("no write failed but the call returned %s / the file differs from config_write's text" % rv)
                        if rv == "R i1" and cat != wtxt:
                            bad.append("success reported for a file that differs from config_write's text")
                    except (StopIteration, IndexError, ValueError):
                        bad.append("unexpected transcript: %s" % lines[-5:])
                    if bad:
                        ntr_bad += 1
                        res.violations.append(dict(name="transient_%d" % ntr, replay=(
                            "# property C12 -- %s\n# (harness op writeft: one transient write failure)\n%s" % (bad[0], script))))
        res.distribution["transient_write_failures"] = ntr
    return res


REGISTRY["C12"] = dict(module="Properties_C12", run=run_c12)


# ------------------------------------------------------------------------------------------
# C18 (tokenisation) and C03 (robust reading)
import speclex
import gen_text

LEXEMES = [b"true", b"TRUE", b"fAlSe", b"truex", b"a", b"a-b", b"x_1*", b"*", b"L", b"e5", b"0x", b"0", b"7", b"-12", b"+3", b"010",
           b"08", b"2147483648", b"-2147483649", b"9223372036854775807", b"9223372036854775808", b"12L", b"12LL", b"010L",
           b"0x1F", b"0XaB", b"0xFFFFFFFF", b"0x100000000", b"0x1FL", b"0xFFFFFFFFFFFFFFFFL", b"0x10000000000000000L", b"1.", b".5",
           b".", b"-.", b"+.5e3", b".5e-3", b"1e5", b"1E+5", b"1.5e", b"1e", b"1.e5", b".e5", b"1e999", b"-1e999", b"1e-999", b"1.7976931348623157e308",
           b"\"\"", b"\"a\"", b"\"a\\nb\"", b"\"\\a\\b\\v\\f\\r\\t\"", b"\"\\x41\\X7e\"", b"\"\\q\\\"", b"\"\\\\\"", b"\"\\x4\"",
           b"\"line1\nline2\"", b"=", b":", b",", b";", b"{", b"}", b"[", b"]", b"(", b")", b"#c\n", b"//c\n", b"/*c*/", b"/* a\n b */", b"/*",
           b"\x07", b"\x08", b"\x0b", b"\x0c", b"\r", b"$", b"@", b"\x80", b"\xff", b"\x7f", b"!", b"@include", b"include", b"/**/", b"/***/", b"/* x **/", b"/* a * / **/ b", b"/*/ */",
           b"\n@include \"no\nsuch\"\n", b"\n@include \"a\\\\b\\\"c\"\n", b"\n@include \"\n\n\"", b"\n@include \"x.cfg\" y = 1;"]
SEPS_LEX = [b"", b"", b" ", b"\t", b"\n", b" \n ", b";", b","]
SOUP = b"0123456789+-.eExXLlTRUEtrufalsFabc_*\"\\ \t\n=:,;{}[]()#/*@\x07\x0b$\xe9"


def c18_inputs(rng, n):
    res = []
    for i in range(n):
        k = i % 5
        if k == 0:
            t = b"".join(rng.choice(LEXEMES) + rng.choice(SEPS_LEX) for _ in range(rng.randint(1, 8)))
        elif k == 1:
            t = bytes(rng.choice(SOUP) for _ in range(rng.randint(1, 24)))
        elif k == 2:
            t = rng.choice(gen_text.literal_spellings(rng, 4)) + rng.choice(SEPS_LEX) + rng.choice(LEXEMES)
        elif k == 3:
            body = b"".join(rng.choice([b"a", b"\\n", b"\\a", b"\\b", b"\\v", b"\\\\", b"\\\"", b"\\x4a", b"\\x4", b"\\q", b"\\", b"\n", b"\xc3\xa9", b"\x01"])
                            for _ in range(rng.randint(0, 12)))
            t = rng.choice([b"", b"x = "]) + b"\"" + body + rng.choice([b"\"", b"\" \"y\"", b""])
        else:
            t = gen_text.mutate_bytes(rng, gen_text.rand_config(rng, size=4), rng.randint(0, 3))
        if b"\0" in t:
            t = t.replace(b"\0", b"0")
        res.append(t)
    return res


def c18_oracle(script, rec):
    """documented tokenisation (speclex) versus the implementation's token stream"""
    bad = died(script, rec)
    al = align(script, rec["impl"])
    # 'lex' outputs K lines and a final R line; align() only takes the R line, so cut the raw transcript per op
    ops = [l for l in script.splitlines() if l]
    chunks = []
    cur = []
    for l in rec["impl"]:
        cur.append(l)
        if l.startswith("R "):
            chunks.append(cur)
            cur = []
    for op, ch in zip(ops, chunks):
        f = op.split(" ")
        if f[0] != "lex":
            continue
        data = unhx(f[1]) or b""
        files = {unhx(x.split(" ")[2]): (unhx(x.split(" ")[3]) or b"") for x in ops if x.startswith("fs put ")}
        nothing = any(x in ("incfn empty", "incfn null") for x in ops)
        want = speclex.tokens(data, files or {}, nothing=True) if nothing else (speclex.tokens(data, files) if files else speclex.tokens(data))
        got = [l for l in ch if l.startswith(("K ", "R "))]
        if want and want[-1].startswith("INCLUDE"):
            # no file exists in these runs: the tokens before the directive, then an error located where the
            # directive ends (every byte of the quoted path counts, line feeds included)
            pre = want[:-1]
            line = want[-1].split(" ")[2]
            if got[:len(pre)] != pre:
                d = first_diff(pre, got[:len(pre)])
                bad.append("input %r: documented tokenisation gives %s, the scanner produced %s (token #%d)" % (
                    data, d[1], d[2], d[0]))
            elif len(got) > len(pre) and got[len(pre)].startswith("K E ") and got[len(pre)] != "K E " + line:
                bad.append("input %r: the include directive ends on line %s, the scanner reports its failure with %s" % (
                    data, line, got[len(pre)]))
            continue
        if got != want:
            d = first_diff(want, got)
            bad.append("input %r: documented tokenisation gives %s, the scanner produced %s (token #%d)" % (
                data, d[1], d[2], d[0]))
    return bad


def run_c18(ctx):
    res = Result()
    rc = replay_cases(ctx)
    if rc is not None:
        cases = rc
    else:
        ins = c18_inputs(ctx.rng, 3000 if ctx.tier == "quick" else 40000)
        per = 25
        cases = ["init\n" + "".join("lex %s\n" % hx(t) for t in ins[i:i + per]) for i in range(0, len(ins), per)]
        # include directives that resolve to files: what follows a directive on its own line is scanned in the middle of a
        # line (a second directive there is not one), a directive needs the beginning of a line, included files with and
        # without a final line feed
        fsl = ["fs put %s %s" % (hx(b"a.cfg"), hx(b"q = 3;\n")), "fs put %s %s" % (hx(b"b.cfg"), hx(b"w = 1;")),
               "fs put %s %s" % (hx(b"e.cfg"), hx(b"")),
               "fs put %s %s" % (hx(b"n.cfg"), hx(b"@include \"a.cfg\" @include \"b.cfg\"\nk = 1;\n"))]
        inc_texts = []
        for first in (b"a.cfg", b"b.cfg", b"e.cfg", b"n.cfg"):
            for gap in (b" ", b"", b"\t", b" \t "):
                for after in (b"@include \"b.cfg\"", b"z = 1;", b"@include \"nosuch.cfg\"", b"# c", b""):
                    inc_texts.append(b"x = 1;\n@include \"" + first + b"\"" + gap + after + b"\ny = 2;\n")
        inc_texts += [b"x = 1; @include \"a.cfg\"\n", b"  \t@include  \t\"a.cfg\"\n@include \"b.cfg\"\n@include \"a.cfg\"",
                      b"/* c */@include \"a.cfg\"\n", b"\n@include \"a.cfg\"@include \"a.cfg\"\n"]
        cases += ["init\n" + "\n".join(fsl) + "\n" + "".join("lex %s\n" % hx(t) for t in inc_texts[i:i + per])
                  for i in range(0, len(inc_texts), per)]
        # an include function that expands a directive to no file at all (an empty list, or NULL without an error): the
        # text after the directive is scanned as usual
        none_texts = [b"a = 1;\n@include \"opt.cfg\"\nb = 2;\nc = \"s\";\n$\n", b"@include \"x\"\n@include \"y\"\nz = 0x1F;",
                      b"@include \"x\" w = 1;\n", b"  @include\t\"p\\\\q\"\nv = [ 1, 2 ];\n@include \"last\""]
        for fn in ("incfn empty", "incfn null"):
            cases.append("init\n" + fn + "\n" + "".join("lex %s\n" % hx(t) for t in none_texts))
        # the tokens of a text do not depend on the caller's errno
        num_texts = [b"port = 8080;", b"a = 017; b = -5L; c = 0x1F; d = 0xFFL; e = 9223372036854775807; f = 1e-400; g = 12;",
                     b"x = [ 1, 2, 3 ];", b"big = 99999999999999999999;", b"h = 0xFFFFFFFFFFFFFFFFL;"]
        for en in (34, 22):
            cases.append("init\n" + "".join("seterrno %d\nlex %s\n" % (en, hx(t)) for t in num_texts))
        res.distribution["include_texts"] = len(inc_texts) + 2 * len(none_texts)
        res.distribution["inputs"] = len(ins)
        res.distribution["bytes"] = sum(len(t) for t in ins)
    res.rule = ("token streams of libconfig_yylex (kind, value, line) on lexeme soups joined by every separator incl. none, "
                "random strings over a scanner-relevant alphabet, numeric boundary spellings, escape mixes, mutated "
                "configurations; compared with the model (compiled tables + actions) and, model-free, with a tokenizer "
                "written from the documented patterns (pygen/speclex.py)")
    res.distinct = len(set(cases))
    res.samples = [cases[0][:600]] if cases else []
    res.exhaustive = False
    keep = lambda l: l if l.startswith(("K ", "R ")) else None
    correspond(ctx, res, cases, line_filter=keep, oracle=c18_oracle,
               known=lambda s, r, o: match_known("C18", s, r, o), per_proc=10)
    return res


REGISTRY["C18"] = dict(module="Properties_C18", run=run_c18,
                       extra_obligations=["all_closed_checked", "all_start_checked", "actions_as_documented"])


C03_PATHO = [b"a = \"unterminated", b"/* unterminated", b"a = \"x\\", b"@include \"", b"@include \"nosuch\"\n",
                            b"@include \"adir\"\n", b"@include \"self.cfg\"\n", b"a = [1, \"x\"];", b"a=1;a=2;", b"a = 1e999;",
                            b"@include \"a\\qb\"\n", b"@include \"a\nb\"\n", b"x = 1;\n@include \"inc\n.cfg\"\ny = 2;\n", b"\"", b"\\", b"a = (((((", b"a = 99999999999999999999;", b"a = 0x;"]
C03_PATHO += [b"@include \"inc.cfg\"\n@include \"inc.cfg\"\n", b"a = 1;\n@include \"inc.cfg\"\nb = 2;\n@include \"inc2.cfg\"\nc = 3;\n",
              b"@include \"two.cfg\"\n", b"@include \"inc.cfg\"\n@include \"nosuch\"\n", b"@include \"inc.cfg\"\n@include \"inc2.cfg\"\n@include \"two.cfg\"\nq = [1, 2.5];\n"]


def c03_inputs(rng, n):
    res = []
    for i in range(n):
        k = i % 8
        if k == 0:
            t = gen_text.mutate_bytes(rng, gen_text.rand_config(rng, size=rng.choice([3, 20, 200])), rng.randint(1, 6))
        elif k == 1:
            t = bytes(rng.randrange(256) for _ in range(rng.randint(0, 64)))
        elif k == 2:
            d = rng.choice([10, 100, 1000, 3000])
            op, cl = rng.choice([(b"a={", b"}"), (b"(", b")"), (b"a=[", b"]"), (b"a=(", b");")])
            t = (b"x=" if op == b"(" else b"") + op * d + (cl * rng.choice([0, d, d - 1]))
        elif k == 3:
            t = C03_PATHO[(i // 8) % len(C03_PATHO)]          # every pathological input, in turn
        elif k == 4:
            t = gen_text.rand_config(rng, size=rng.choice([500, 3000]))      # long valid input
        elif k == 5:
            t = b"a = \"" + bytes(rng.choice(b"ab\\n\"x ") for _ in range(rng.choice([63, 64, 65, 127, 128, 129, 1000]))) + b"\";"
        elif k == 6:
            t = gen_text.mutate_tokens(rng, gen_text.rand_config(rng, size=6))
        else:
            t = gen_text.rand_config(rng, size=5).replace(b"=", rng.choice([b"=", b"\0=", b"= \0"]), 1)
        res.append(t)
    return res


C03_BATTERY = ["dump", "len .", "look . %s" % hx(b"a"), "clook %s" % hx(b"a.b.[0]"), "write", "add . %s 2" % hx(b"zz9"),
               "set i 0 5", "rmi . 0", "reads %s" % hx(b"ok = 1;"), "dump", "clear", "dump"]


def c03_oracle(script, rec):
    bad = died(script, rec)
    if rec["status"] != "ok":
        bad.append("process status %s (sanitizer report / crash / exit / hang): %s" % (rec["status"], rec["stderr"][-300:].replace("\n", " | ")))
    for l in rec["impl"]:
        if l.startswith("L stdout") or l.startswith("L stderr"):
            bad.append("stray output on a standard stream during a read: %s" % l[:80])
        if l in ("L FDLEAK", "L STREAMBAD"):
            bad.append(l)
        if l.startswith("S ") and "BAD" in l:
            bad.append("after a read: " + l)
    al = align(script, rec["impl"])
    for op, out in al:
        if op.split(" ")[0] in ("reads", "readst", "readf") and out and out[0] not in ("R i0", "R i1"):
            bad.append("'%s...' returned %s" % (op[:30], out[0]))
    return bad


def run_c03(ctx):
    res = Result()
    rc = replay_cases(ctx)
    if rc is not None:
        cases = rc
    else:
        ins = c03_inputs(ctx.rng, 480 if ctx.tier == "quick" else 12000)
        cases = []
        setup = ["init", "fs dir %s" % hx(b"adir"), "fs put %s %s" % (hx(b"self.cfg"), hx(b"@include \"self.cfg\"\n")),
                 "fs put %s %s" % (hx(b"inc.cfg"), hx(b"z = 1;\n")), "fs put %s %s" % (hx(b"inc2.cfg"), hx(b"y = \"s\";\n")),
                 "fs put %s %s" % (hx(b"two.cfg"), hx(b"@include \"inc.cfg\"\nw = 2;\n@include \"inc2.cfg\"\n"))]
        for i, t in enumerate(ins):
            entry = ["reads", "readst", "readf"][i % 3]
            if entry == "reads" and b"\0" in t:
                entry = "readst"
            if entry == "readf":
                body = setup + ["fs put %s %s" % (hx(b"in.cfg"), hx(t)), "readf %s" % hx(b"in.cfg")]
            else:
                body = setup + ["%s %s" % (entry, hx(t))]
            deep = max(t.count(b"{"), t.count(b"("), t.count(b"[")) > 150
            battery = [x for x in C03_BATTERY if not (deep and x in ("dump", "write"))]
            cases.append("\n".join(body + battery) + "\n")
        # an include function that expands one directive into several files, the read aborting at each position of
        # the list (syntax error, missing file, directory, duplicate name) and succeeding; nested one level too
        names = [b"m0.cfg", b"m1.cfg", b"m2.cfg"]
        nmulti = 0
        for bad_at in (None, 0, 1, 2):
            for kind in ("syntax", "missing", "dir", "dup"):
                files = {nm: b"v%d = %d;\n" % (i, i) for i, nm in enumerate(names)}
                extra = ["incfn multi %s" % ",".join(hx(x) for x in names)]
                if bad_at is not None:
                    if kind == "syntax":
                        files[names[bad_at]] = b"w = 1;\n= oops;\n"
                    elif kind == "dup":
                        files[names[bad_at]] = b"v0 = 7;\nv0 = 8;\n"
                    else:
                        del files[names[bad_at]]
                        if kind == "dir":
                            extra.append("fs dir %s" % hx(names[bad_at]))
                elif kind != "syntax":
                    continue
                for top in (b"@include \"x\"\nafter = 1;\n", b"g : {\n@include \"x\"\n};\nh : { @include \"y\"\n};\n"):
                    body = forest_script(top, files, ["readf", "reads", "readst"][nmulti % 3], extra)[:-1]
                    cases.append("\n".join(body + C03_BATTERY) + "\n")
                    nmulti += 1
        res.distribution["multi_path_include_cases"] = nmulti
        res.distribution["inputs"] = len(ins)
        res.distribution["bytes"] = sum(len(t) for t in ins)
        res.distribution["max_len"] = max(len(t) for t in ins)
    res.rule = ("byte-mutated configurations, random bytes (all 256 values, embedded NULs through the stream entry point), "
                "nesting to 3000 levels with and without closers, unterminated strings/comments/includes, include of a "
                "missing file / a directory / the file itself, long inputs and strings around the 64-byte buffer blocks; "
                "through config_read_string / config_read / config_read_file under ASan+UBSan+LSan with a deadline; "
                "each followed by traversal, lookup, write, modify, re-read, clear; outcome, stdout capture, fd count "
                "and the follow-up transcript compared with the model")
    res.distinct = len(set(cases))
    res.samples = [cases[1][:500]] if len(cases) > 1 else []

    def keep(l):
        if l.startswith("L stdout"):
            return "L stdout"
        return l
    correspond(ctx, res, cases, line_filter=keep, oracle=c03_oracle,
               known=lambda s, r, o: match_known("C03", s, r, o), per_proc=8)
    # a process started with standard input closed (descriptor 0 is what the library's next fopen returns): the reads that
    # open files - a directory, a missing file, the file itself, nested includes - one per process
    if rc is None and not res.violations:
        setup0 = ["init", "fs dir %s" % hx(b"adir"), "fs put %s %s" % (hx(b"self.cfg"), hx(b"@include \"self.cfg\"\n")),
                  "fs put %s %s" % (hx(b"inc.cfg"), hx(b"z = 1;\n")), "fs put %s %s" % (hx(b"two.cfg"), hx(b"@include \"inc.cfg\"\nw = 2;\n"))]
        n0 = 0
        for body in (["reads %s" % hx(b"@include \"adir\"\n")], ["readf %s" % hx(b"adir")], ["readf %s" % hx(b"two.cfg")],
                     ["reads %s" % hx(b"a = 1;\n@include \"inc.cfg\"\n@include \"adir\"\n")], ["readf %s" % hx(b"self.cfg")],
                     ["readf %s" % hx(b"nosuch.cfg")], ["fs put %s %s" % (hx(b"d.cfg"), hx(b"@include \"adir\"\n")), "readf %s" % hx(b"d.cfg")]):
            script = "\n".join(setup0 + body + C03_BATTERY) + "\n"
            rr = run_single(ctx.runner("asan"), script, line_filter=keep, impl_env={"DRV_CLOSE_STDIN": "1"})
            res.evaluations += 1
            n0 += 1
            orc = c03_oracle(script, rr)
            if rr["diff"] is not None or orc:
                text = "# property C03 -- standard input closed before the first call (DRV_CLOSE_STDIN=1)\n%s#--- oracle: %s\n#--- problem: %s\n#--- impl transcript:\n#%s\n" % (
                    script, orc, rr["diff"], "\n#".join(rr["impl"][-12:]))
                if orc:
                    res.violations.append(dict(name="stdin_closed_%d" % n0, replay=text))
                else:
                    res.corr_broken.append(text)
        res.distribution["stdin_closed_cases"] = n0
    # the capacity arithmetic of strbuf.c / strvec.c / the element vectors: MemModel.v against harness/memdrv.c
    if rc is None and not res.violations:
        import memcheck
        memcheck.run(ctx, res, 60 if ctx.tier == "quick" else 1500)
    return res


REGISTRY["C03"] = dict(module="Properties_C03", run=run_c03, extra_obligations=["nonnull_checked", "first_byte_checked"])


# ------------------------------------------------------------------------------------------
# C08: numeric literals

def c08_expect(lit):
    """(type, 'val', fmt) the documentation assigns to the literal, or None when it must be rejected, or
    'skip' when the text is not a single numeric literal"""
    toks = speclex.tokens(lit)
    ks = [t for t in toks if t.startswith("K ")]
    if len(ks) == 1 and ks[0].startswith("K E"):
        return None
    if len(ks) != 2 or not ks[1].startswith("K Z"):
        return "skip"
    k = ks[0].split(" ")[1]
    if k[0] == "i":
        return (2, k, 0)
    if k[0] == "l":
        return (3, k, 0)
    if k[0] == "x":
        return (2, "i" + k[1:], 1)
    if k[0] == "X":
        return (3, "l" + k[1:], 1)
    if k[0] == "f":
        return (4, k, 0)
    return "skip"


def c08_oracle(script, rec):
    bad = died(script, rec)
    al = align(script, rec["impl"])
    cur = None
    for op, out in al:
        f = op.split(" ")
        if f[0] == "reads":
            txt = unhx(f[1])
            lit, where = None, 0
            if txt.startswith(b"a = ") and txt.endswith(b";"):
                lit = txt[4:-1]
            elif txt.startswith(b"b = [ ") and txt.endswith(b" ];"):
                lit, where = txt[6:-3], 1
            elif txt.startswith(b"c = ( ") and txt.endswith(b" );"):
                lit, where = txt[6:-3], 1
            elif txt.startswith(b"d = [ ") and txt.endswith(b" ];") and b", " in txt:
                lit, where = txt[6:-3].split(b", ", 1)[1], 2
            cur = (lit, out[0] if out else None, where)
        elif op == "dump" and cur and cur[0] is not None:
            lit, r, where = cur
            exp = c08_expect(lit)
            root, _, err, _ = parse_dump(out)
            if exp == "skip":
                continue
            if where == 2:
                # second element: whatever the first element is, what is stored for this literal is its exact value
                if r == "R i1" and root and root.kids and len(root.kids[0].kids) > 1:
                    k = root.kids[0].kids[1]
                    if exp is None:
                        bad.append("literal %r cannot be represented but was accepted as an array element (stored %s)" % (lit, k.val))
                    elif (k.ty, k.val, k.fmt) != exp:
                        bad.append("literal %r accepted as an array element but stored as type %d value %s format %d; its exact "
                                   "value is type %d value %s format %d" % ((lit, k.ty, k.val, k.fmt) + exp))
                cur = None
                continue
            if exp is None:
                if r == "R i1":
                    bad.append("literal %r cannot be represented but was accepted (stored %s)" % (
                        lit, root.kids[0].val if root and root.kids else "?"))
            else:
                if r != "R i1":
                    bad.append("literal %r is representable but the read failed" % lit)
                elif root and root.kids and (where == 0 or root.kids[0].kids):
                    k = root.kids[0] if where == 0 else root.kids[0].kids[0]
                    if (k.ty, k.val, k.fmt) != exp:
                        bad.append("literal %r stored as type %d value %s format %d; its exact value is type %d value %s format %d" % (
                            (lit, k.ty, k.val, k.fmt) + exp))
            cur = None
    return bad


def run_c08(ctx):
    res = Result()
    rc = replay_cases(ctx)
    if rc is not None:
        cases = rc
    else:
        lits = gen_text.literal_spellings(ctx.rng, 400 if ctx.tier == "quick" else 20000)
        cases = []
        per = 20
        for i in range(0, len(lits), per):
            body = ["init"]
            for l in lits[i:i + per]:
                body += ["lex %s" % hx(l), "reads %s" % hx(b"a = " + l + b";"), "dump",
                         "reads %s" % hx(b"b = [ " + l + b" ];"), "dump",
                         "reads %s" % hx(b"c = ( " + l + b" );"), "dump"]
            cases.append("\n".join(body) + "\n")
        # the same literals as second element of an array whose first element has another numeric type, with
        # auto-conversion switched on before the read: stored exactly, or the text is rejected
        sub = lits[::7]
        for i in range(0, len(sub), per):
            body = ["init", "option 1 1"]
            for l in sub[i:i + per]:
                for first in (b"1", b"1.5", b"7L"):
                    body += ["reads %s" % hx(b"d = [ " + first + b", " + l + b" ];"), "dump"]
            cases.append("\n".join(body) + "\n")
        # ... and with the caller's errno preloaded (ERANGE as after an overflowing strtol of the application's own)
        for i in range(0, len(sub), per):
            body = ["init"]
            for l in sub[i:i + per]:
                body += ["seterrno 34", "reads %s" % hx(b"a = " + l + b";"), "dump"]
            cases.append("\n".join(body) + "\n")
        res.distribution["second_elements_under_autoconvert"] = 3 * len(sub)
        res.distribution["literals"] = len(lits)
        res.distribution["accepted_by_spec"] = sum(1 for l in lits if isinstance(c08_expect(l), tuple))
        res.distribution["rejected_by_spec"] = sum(1 for l in lits if c08_expect(l) is None)
    res.rule = ("boundary spellings: optional sign, leading zeros, octal, 0x/0X with 1..20 digits, L/LL, values at and around "
                "2^31, 2^32, 2^63, 2^64, 10^19..10^20; floats with up to 800 digits and exponents -400..+400 in both forms, "
                "ties, denormals, DBL_MAX neighbours; each through libconfig_yylex (token) and config_read_string (named "
                "setting and array element: type, value bits, format); compared with the model and, model-free, with the "
                "exact value computed by Python integers / correctly rounded float() (this is also the differential "
                "validation of the strtod contract)")
    res.distinct = len(set(cases))
    res.samples = [cases[0][:400]] if cases else []
    keep = lambda l: l if l.startswith(("K ", "R ", "T ", "E ")) else None
    correspond(ctx, res, cases, line_filter=keep, oracle=c08_oracle,
               known=lambda s, r, o: match_known("C08", s, r, o), per_proc=4)
    return res


REGISTRY["C08"] = dict(module="Properties_C08", run=run_c08)


# ------------------------------------------------------------------------------------------
# C15: locale

C15_TEXTS = [b"a = 1.5; b = [ 2.25e2, 0.125, -7.0 ]; c = \"x,y 1,5\"; d = ( 1e-3, { e = 123456.789; } );",
             b"f = 0.1;\n@include \"locinc.cfg\"\ng = 3.75;"]


def c15_body(glob, thr):
    body = ["init", "fs put %s %s" % (hx(b"locinc.cfg"), hx(b"h = 9.5;\n")), "fs put %s %s" % (hx(b"locinc2.cfg"), hx(b"h2 = 0.25;\n")),
            "fs put %s %s" % (hx(b"locfile.cfg"), hx(C15_TEXTS[0]))]
    if glob:
        body.append("locale global %s" % hx(glob))
    if thr:
        body.append("locale thread %s" % hx(thr))
    body.append("locq")
    for sci in (0, 1):
        body.append("option 32 %d" % sci)
        for t in C15_TEXTS:
            body += ["reads %s" % hx(t), "locq", "dump", "write", "locq", "readst %s" % hx(t), "locq", "dump"]
        body += ["readf %s" % hx(b"locfile.cfg"), "locq", "dump", "writef %s" % hx(b"locout.cfg"), "locq",
                 "fs cat %s" % hx(b"locout.cfg"), "reads %s" % hx(b"x = ;"), "locq", "readf %s" % hx(b"nosuch"), "locq"]
        # re-entrant use: the include function itself reads and writes another configuration
        body += ["incfn nested", "reads %s" % hx(b"n = 0.5;\n@include \"locinc.cfg\"\nm = 2.25;\n"), "locq", "dump", "write", "locq",
                 "reads %s" % hx(b"@include \"locinc.cfg\"\nbad = ;\n"), "locq", "incfn default"]
        # every way an include directive can end (no file, NULL, several files, an error, a missing file), each with
        # floats before and after the directive and a float-bearing read after it
        inc_text = b"p = 0.125;\n@include \"locinc.cfg\"\nq = -3.75e2;\nr = [ 1.5, 2.5 ];\n"
        for fn in ("incfn empty", "incfn null", "incfn multi %s,%s" % (hx(b"locinc.cfg"), hx(b"locinc2.cfg")),
                   "incfn multi %s,%s" % (hx(b"locinc.cfg"), hx(b"nosuch.cfg")), "incfn fail %s" % hx(b"refused")):
            body += [fn, "reads %s" % hx(inc_text), "locq", "dump", "write", "locq", "reads %s" % hx(C15_TEXTS[0]), "locq", "dump"]
        body += ["incfn default", "reads %s" % hx(b"p = 0.5;\n@include \"nosuch.cfg\"\nq = 1.5;\n"), "locq", "dump",
                 "reads %s" % hx(C15_TEXTS[0]), "locq", "dump"]
    return "\n".join(body) + "\n"


def c15_cases():
    cases = []
    for glob in (None, b"xx_XX.utf8", b"C.utf8"):
        for thr in (None, b"xx_XX.utf8", b"C.utf8"):
            cases.append(c15_body(glob, thr))
    return cases


def run_c15(ctx):
    res = Result()
    rc = replay_cases(ctx)
    cases = rc if rc is not None else c15_cases()
    if rc is None:
        res.exhaustive = True
    runner = ctx.runner()
    ref = run_single(runner, c15_body(None, None))
    ref_lines = [l for l in ref["impl"] if not l.startswith("R loc ") and not l.startswith("S ")]

    def oracle(script, rec):
        bad = died(script, rec)
        lines = rec["impl"]
        if any(l == "R locale-unavailable" for l in lines):
            return ["the comma-decimal test locale is not available (LOCPATH)"]
        locs = [l for l in lines if l.startswith("R loc ")]
        if len(set(locs)) > 1:
            bad.append("the caller's locale changed across a call: %s" % sorted(set(locs)))
        if any(l.startswith("L GLOBAL-LOCALE-CHANGED") for l in lines):
            bad.append("the process-wide locale string changed")
        got = [l for l in lines if not l.startswith("R loc ") and not l.startswith("S ") and not l.startswith("L GLOBAL")]
        # same values and same text as in the C locale (the reference case has no locale ops: drop their 'R unit')
        nops = sum(1 for l in script.splitlines() if l.startswith("locale "))
        sl = [l for l in script.splitlines() if l]
        npre = next((i for i, l in enumerate(sl) if l.startswith(("locale ", "locq"))), 0)     # init and the fs puts
        got2 = got[:npre] + got[npre + nops:]
        nref = len([l for l in c15_body(None, None).splitlines() if l])
        full = len([l for l in script.splitlines() if l and not l.startswith("locale ")]) == nref
        if full and got2 != ref_lines:
            d = first_diff(ref_lines, got2)
            bad.append("result differs from the C-locale result: C locale %s, here %s" % (d[1][:120], d[2][:120]))
        return bad
    res.rule = ("process-wide locale {C, comma-decimal, C.utf8} x thread locale {none, comma-decimal, C.utf8 object} x "
                "{read_string, read(stream), read_file with include, write, write_file, a read whose include function itself "
                "reads and writes another configuration} x scientific notation off/on over "
                "float-bearing configurations and failing reads; after every call: uselocale(0) identity, "
                "setlocale(LC_NUMERIC, NULL), the caller's printf radix; all values and texts compared with the model and, "
                "model-free, with the C-locale run")
    res.distinct = len(set(cases))
    res.samples = [cases[4][:700]] if len(cases) > 4 else []
    res.distribution["grid"] = "3 x 3 locales x 20 calls"
    correspond(ctx, res, cases, drop_prefixes=("L open", "L close"), oracle=oracle,
               known=lambda s, r, o: match_known("C15", s, r, o), per_proc=1)
    # ---- application code running inside a read (the include function) switches the process-wide locale to the comma one:
    #      what is read afterwards in the same call, and everything later, equals the C-locale reference ----
    if rc is None and not res.violations:
        body = c15_body(None, None)
        rr = run_single(runner, body, drop_prefixes=("L open", "L close"), impl_env={"DRV_INCFN_SETLOCALE": "xx_XX.utf8"})
        res.evaluations += 1
        bad = oracle(body, rr)
        if rr["diff"] is not None and not bad:
            bad = ["transcripts differ at line %d: model=%r impl=%r" % rr["diff"]]
        if bad:
            res.violations.append(dict(name="incfn_setlocale", replay=(
                "# property C15 -- the include function switches the process-wide LC_NUMERIC to a comma-decimal locale in the middle "
                "of a read (DRV_INCFN_SETLOCALE=xx_XX.utf8): %s\n%s#--- impl transcript (tail):\n#%s\n" % (
                    bad[0], body, "\n#".join(rr["impl"][-30:])))))
    # ---- the thread's locale OBJECT is replaced between calls (freelocale / newlocale, as a server does per request):
    #      a freed '.'-radix object and a fresh ','-radix one may have the same address.  Build without ASan (its
    #      quarantine prevents the reuse); results must equal those of the same calls with no locale at all ----
    if rc is None and not res.violations:
        t = C15_TEXTS[0]
        calls = ["reads %s" % hx(t), "dump", "write", "readst %s" % hx(t), "dump", "writef %s" % hx(b"sw.cfg"), "fs cat %s" % hx(b"sw.cfg")]
        sw = []
        for order in ([b"yy_YY.utf8", b"xx_XX.utf8"], [b"xx_XX.utf8", b"yy_YY.utf8", b"xx_XX.utf8"],
                      [b"yy_YY.utf8", b"yy_YY.utf8", b"xx_XX.utf8", b"C.utf8", b"xx_XX.utf8"]):
            body = ["init"]
            for j, nm in enumerate(order):
                body += ["locale %s %s" % ("thread" if j == 0 else "swap", hx(nm)), "locq"] + calls + ["locq"]
            sw.append("\n".join(body) + "\n")
        prunner = ctx.runner("plain")
        refrec = run_single(prunner, "\n".join(["init"] + calls) + "\n")
        refops = [(op, [l for l in out if not l.startswith("S ")]) for op, out in align(refrec["script"], refrec["impl"]) if op != "init"]
        for body in sw:
            rs = run_single(prunner, body)
            res.evaluations += 1
            bad = died(body, rs)
            al = [(op, [l for l in out if not l.startswith("S ")]) for op, out in align(body, rs["impl"])]
            locs = [out[0] for op, out in al if op == "locq" and out]
            blocks, cur = [], None
            for op, out in al:
                if op.startswith("locale "):
                    cur = []
                    blocks.append(cur)
                elif op != "locq" and op != "init" and cur is not None:
                    cur.append((op, out))
            for k, blk in enumerate(blocks):
                if blk != refops and not bad:
                    d = next((i for i, (a, b) in enumerate(zip(blk, refops)) if a != b), 0)
                    bad.append("after replacing the thread's locale object (%d. locale of the history) '%s' gives %s; with no "
                               "locale at all it gives %s" % (k + 1, blk[d][0][:30] if blk else "?", str(blk[d][1])[:100] if blk else "?",
                                                              str(refops[d][1])[:100]))
            for i in range(0, len(locs) - 1, 2):
                if locs[i] != locs[i + 1]:
                    bad.append("the caller's locale changed across the calls: %s -> %s" % (locs[i], locs[i + 1]))
            if bad:
                res.violations.append(dict(name="switch_%d" % len(res.violations), replay=(
                    "# property C15 -- %s\n# (harness variant 'plain': no sanitizer)\n%s#--- impl transcript:\n#%s\n" % (
                        bad[0], body, "\n#".join(rs["impl"][:80])))))
    return res


REGISTRY["C15"] = dict(module="Properties_C15", run=run_c15)


# ------------------------------------------------------------------------------------------
# C13: allocation failure -> fatal-error function (fault injection on the real library)

def c13_scenarios(rng):
    long_str = b"x" * 200
    sc = {
        "read_string": ["init", "reads %s" % hx(b"a = 1; b = \"x\\ny\" \"z\"; g = { l = ( 1, [ 2, 3 ], { s = \"%s\"; } ); };\nh = 0x1F; f = 1.5e3;" % long_str),
                        "dump"],
        "read_error": ["init", "reads %s" % hx(b"a = 1;\nb = [ 1, \"x\" ];"), "dump"],
        "read_file_include": ["init", "fs put %s %s" % (hx(b"i1.cfg"), hx(b"x = 1;\n@include \"i2.cfg\"\n")),
                              "fs put %s %s" % (hx(b"i2.cfg"), hx(b"y = \"s\";\n")),
                              "fs put %s %s" % (hx(b"top.cfg"), hx(b"a = 1;\n@include \"i1.cfg\"\nb = 2;\n")),
                              "incdir %s" % hx(b"."), "readf %s" % hx(b"top.cfg"), "dump"],
        "read_missing_include": ["init", "reads %s" % hx(b"a = 1;\n@include \"nosuch.cfg\"\n"), "dump"],
        "build_api": ["init", "add . %s 1" % hx(b"g"), "add 0 %s 5" % hx(b"s"), "set s 0/0 %s" % hx(b"hello"),
                      "add 0 %s 7" % hx(b"a")] + ["eset i 0/1 -1 %d" % i for i in range(20)] +
                     ["add . %s 8" % hx(b"l"), "eset s 1 -1 %s" % hx(long_str), "eset f 1 -1 x3ff8000000000000", "dump"],
        "modify_parsed": ["init", "option 128 1", "reads %s" % hx(b"a = \"old\"; g = { x = 1; y = 2; }; l = ( 1, 2 );"),
                          "set s 0 %s" % hx(b"changed"), "add . %s 2" % hx(b"a"), "rm . %s" % hx(b"g.x"), "rmi 2 0",
                          "add 1 %s 5" % hx(b"z"), "incdir %s" % hx(b"some/dir"), "dump"],
        "write": ["init", "reads %s" % hx(b"a = 1.5; s = \"x\"; g = { l = ( 1, 2 ); };"), "write",
                  "writef %s" % hx(b"out.cfg"), "clear", "dump"],
        "deep": ["init", "reads %s" % hx(b"a = " + b"(" * 120 + b")" * 120 + b";"), "dump"],
        # aggregates that cross the 16-element chunk boundaries in both directions
        "chunks": ["init", "add . %s 7" % hx(b"a")] + ["eset i 0 -1 %d" % i for i in range(34)] +
                  ["rmi 0 33", "rmi 0 0", "rmi 0 16", "rmi 0 0", "dump"] +
                  ["add . %s 2" % hx(b"m%d" % i) for i in range(17)] + ["rm . %s" % hx(b"m3"), "rm . %s" % hx(b"m16"), "dump",
                   "add . %s 8" % hx(b"l")] + ["eset s 17 -1 %s" % hx(b"e%d" % i) for i in range(17)] + ["rmi 17 16", "rmi 17 0", "dump"],
    }
    return sc


def run_c13(ctx):
    res = Result()
    exe = ctx.harness("fault")
    runner = ctx.runner("fault")
    scs = c13_scenarios(ctx.rng)
    if ctx.replay:
        body = "".join(l for l in open(ctx.replay, encoding="latin-1") if not l.startswith("#"))
        scs = {"replay": [l for l in body.splitlines() if l]}
    stats = {}
    total = 0
    import shutil as _sh

    def run_k(script, k, k2=None):
        wd = runner.workdir()
        sf = os.path.join(wd, ".script")
        open(sf, "w").write(script)
        env = dict(os.environ)
        env.pop("DRV_FAULT_K", None)
        env.pop("DRV_FAULT_K2", None)
        if k:
            env["DRV_FAULT_K"] = str(k)
        if k2:
            env["DRV_FAULT_K2"] = str(k2)
        try:
            p = subprocess.run([exe, sf, wd], stdout=subprocess.PIPE, stderr=subprocess.PIPE, timeout=60, env=env)
            rc, outp = p.returncode, p.stdout.decode("latin-1")
        except subprocess.TimeoutExpired:
            rc, outp = "HANG", ""
        _sh.rmtree(wd, ignore_errors=True)
        return rc, outp.splitlines()
    for name, ops in scs.items():
        script = "\n".join(ops) + "\n"
        rc, base = run_k(script, None)
        al = [l for l in base if l.startswith("ALLOCS ")]
        if rc != 0 or not al:
            res.corr_broken.append("scenario %s: fault-free run failed rc=%s" % (name, rc))
            continue
        n = int(al[0].split(" ")[1])
        ks = list(range(1, n + 1))
        if ctx.tier == "quick" and n > 600:
            ks = sorted(set(list(range(1, 401)) + list(range(401, n + 1, 2)) + [n]))
        stats[name] = {"allocations": n, "faults_injected": len(ks)}
        for k in ks:
            rc, out = run_k(script, k)
            total += 1
            fat = [l for l in out if l.startswith("FATAL")]
            ok = rc == 0 and len(fat) == 1 and fat[0] == "FATAL fault_seen=1 at_alloc=%d" % k and out[-1] == fat[0]
            if not ok:
                what = ("crashed / was killed (status %s)" % rc) if rc != 0 else \
                       ("returned normally although allocation #%d failed%s" % (
                           k, "" if out[:len(base) - 1] == base[:-1] else " with a result that differs from the fault-free one")
                        if not fat else "unexpected: %s" % fat)
                res.violations.append(dict(name="fault_%s_%d" % (name, k), replay=(
                    "# property C13 -- allocation #%d of scenario '%s' made to fail: the library %s\n"
                    "# replay: DRV_FAULT_K=%d <fault build of harness/drv.c> <this script>\n%s#--- transcript tail:\n#%s\n" % (
                        k, name, what, k, script, "\n#".join(out[-6:])))))
                if len(res.violations) >= 3:
                    break
        if len(res.violations) >= 3:
            break
        # a handler that recovers (longjmp) instead of exiting: a later failure must be reported as well
        for (k1, k2) in [(1, 1), (max(1, n // 2), 2), (2, max(1, n // 2)), (n, n)]:
            rc, out = run_k(script, k1, k2)
            total += 1
            fat = [l for l in out if l.startswith("FATAL")]
            if not (rc == 0 and len(fat) == 2 and fat[1] == "FATAL fault_seen=1 at_alloc=%d" % k2):
                res.violations.append(dict(name="refault_%s_%d_%d" % (name, k1, k2), replay=(
                    "# property C13 -- scenario '%s': after a first failure (allocation #%d) from which the fatal-error "
                    "function recovered, a second failing allocation (#%d of the re-run) was not reported (status %s)\n"
                    "# replay: DRV_FAULT_K=%d DRV_FAULT_K2=%d <fault build> <this script>\n%s#--- FATAL lines: %s\n" % (
                        name, k1, k2, rc, k1, k2, script, fat))))
                break
    # ---- the fatal-error function is registered once, on the main thread; the failing call runs on another thread ----
    if not ctx.replay and not res.violations:
        script = "\n".join(scs["read_string"]) + "\n"
        os.environ["DRV_WORKER"] = "1"
        try:
            rc0, base = run_k(script, None)
            al = [l for l in base if l.startswith("ALLOCS ")]
            if rc0 != 0 or not al:
                res.corr_broken.append("worker-thread scenario: fault-free run failed rc=%s" % rc0)
            else:
                n = int(al[0].split(" ")[1])
                ks = sorted(set(list(range(1, min(n, 60) + 1)) + list(range(61, n + 1, 7)) + [n]))
                stats["worker_thread"] = {"allocations": n, "faults_injected": len(ks)}
                for k in ks:
                    rck, out = run_k(script, k)
                    total += 1
                    fat = [l for l in out if l.startswith("FATAL")]
                    if not (rck == 0 and len(fat) == 1 and fat[0] == "FATAL fault_seen=1 at_alloc=%d" % k):
                        res.violations.append(dict(name="worker_fault_%d" % k, replay=(
                            "# property C13 -- the fatal-error function was registered on the main thread; allocation #%d made to fail "
                            "inside a call running on another thread: status %s, FATAL lines %s\n# replay: DRV_WORKER=1 DRV_FAULT_K=%d "
                            "<fault build of harness/drv.c> <this script>\n%s" % (k, rck, fat, k, script))))
                        break
        finally:
            os.environ.pop("DRV_WORKER", None)
    # ---- the C++ binding: every failing allocation inside a Config/Setting call must surface as std::bad_alloc
    #      (Config installs a fatal-error function that throws), never as a crash or std::terminate ----
    if not ctx.replay and not res.violations:
        cexe = ctx.harness("cxxfault")
        cscript = "\n".join([
            "init", "xinit", "xadd . h61 1", "xset i 0 5", "xadd . h67 6", "xadd 1 h73 4", "xset s 1/0 h68656c6c6f",
            "xadd . h6c 8", "xadd 2 - 3", "xadd 2 - 4", "xmlook s 1 h73", "xlook i h61", "xiter .", "xpath 1/0",
            "xreads %s" % hx(b"a = 1;\nb = { c = [1, 2]; d = \"x\"; };\n"), "xlook i %s" % hx(b"b.c.[1]"),
            "xreads %s" % hx(b"a = ;"), "xclear", "xadd . h62 2", "xrm . h62", "xadd . h71 7", "xadd 0 - 5", "xrmi 0 0",
            "xwritef %s" % hx(b"out.cfg"), "xreadf %s" % hx(b"out.cfg"), "xclear", "destroy"]) + "\n"

        # two Config objects whose lifetimes overlap without nesting (the hot-reload idiom: the new one is built, then
        # the old one is deleted: the harness's 'init' on a live Config) and a temporary Config with a nested lifetime
        cscript2 = "\n".join([
            "init", "xinit", "xadd . h61 1", "xset i 0 5", "init", "xinit", "xadd . h62 2", "xset l 0 7",
            "xreads %s" % hx(b"a = 1;\nb = { c = [1, 2]; d = \"x\"; };\n"), "xtemp", "xadd . h63 4", "xset s 2 h78",
            "xlook i h61", "xtemp", "xreads %s" % hx(b"q = ( 1, \"s\" );"), "xadd . h7a 5", "destroy"]) + "\n"
        cscripts = [cscript, cscript2]

        def run_cxx(k, which=0):
            cscript = cscripts[which]
            wd = runner.workdir()
            sf = os.path.join(wd, ".script")
            open(sf, "w").write(cscript)
            env = dict(os.environ)
            env.pop("DRV_FAULT_K", None)
            env.pop("DRV_FAULT_K2", None)
            if k:
                env["DRV_FAULT_K"] = str(k)
            try:
                p = subprocess.run([cexe, sf, wd], stdout=subprocess.PIPE, stderr=subprocess.PIPE, timeout=60, env=env)
                rc, outp, errp = p.returncode, p.stdout.decode("latin-1"), p.stderr.decode("latin-1", "replace")
            except subprocess.TimeoutExpired:
                rc, outp, errp = "HANG", "", ""
            _sh.rmtree(wd, ignore_errors=True)
            return rc, outp.splitlines(), errp
        for which in range(len(cscripts)):
            cscript = cscripts[which]
            rc, base, _ = run_cxx(None, which)
            counts = [int(l.split(" ")[1]) for l in base if l.startswith("N ")]
            if rc != 0 or len(counts) < 3:
                res.corr_broken.append("C++ fault scenario %d: fault-free run failed rc=%s" % (which, rc))
            else:
                first = counts[1] + 1          # allocations after Config::Config (init, xinit)
                last = counts[-1]
                ks = list(range(first, last + 1))
                stats["cxx%d" % which] = {"allocations": last, "faults_injected": len(ks)}
                for k in ks:
                    if len(res.violations) >= 3:
                        break
                    rc, out, err = run_cxx(k, which)
                    total += 1
                    thr = [l for l in out if l == "R throw bad_alloc"]
                    if not (rc == 0 and len(thr) == 1 and out[-1] == "R throw bad_alloc"):
                        what = ("the process died (status %s: %s)" % (rc, " ".join(err.split()[:12]))) if rc != 0 else \
                               "the call returned without std::bad_alloc"
                        res.violations.append(dict(name="cxxfault_%d" % k, replay=(
                            "# property C13 -- C++ binding: allocation #%d made to fail inside a Config/Setting call: %s\n"
                            "# replay: DRV_FAULT_K=%d <cxxfault build of harness/drv.c + drvxx.cc> <this script>\n%s#--- transcript tail:\n#%s\n" % (
                                k, what, k, cscript, "\n#".join(out[-5:])))))
                        if len(res.violations) >= 3:
                            break
    # known finding F19: unchecked strdup in the C++ exception classes (identified by census rows)
    import re as _re
    cen = open(os.path.join(COQ, "gen", "Census.v")).read()
    rows = _re.findall(r'al_file := "([^"]+)"; al_fun := "([^"]+)"; al_callee := "([^"]+)"; al_line := \d+; al_class := (\w+)', cen)
    raw_cpp = sorted(set(fn for f, fn, callee, cls in rows if f == "libconfigcpp.c++" and cls == "Raw" and callee != "new"))
    listed = set()
    for f in load_findings()["findings"]:
        if f["property"] == "C13":
            listed |= set(f.get("sites", []))
    new_sites = [x for x in raw_cpp if x not in listed]
    if new_sites:
        res.violations.append(dict(name="census_cpp", replay="# property C13 -- unchecked allocation call sites in the C++ layer "
                                   "that are not a recorded finding: %s\n(census: coq/gen/Census.v)\n" % new_sites))
    elif raw_cpp:
        res.known_hits.append("F19: C++ exception classes copy their strings with an unchecked strdup (%d functions: %s)" % (
            len(raw_cpp), ", ".join(x.split("::")[-1] for x in raw_cpp)))
    res.evaluations = total
    res.distinct = total
    res.exhaustive = ctx.tier != "quick"
    res.distribution = stats
    res.rule = ("for each scenario (read from string incl. errors, read_file with nested includes, missing include, build "
                "through the API across the 16-element chunk boundary, modify a parsed configuration with overrides and "
                "removals, write / write_file / clear, 120-level nesting) the library's own allocation requests are counted "
                "(compile-time redirection of malloc/calloc/realloc/strdup in lib/*.c only) and each k-th one is made to "
                "return NULL in a child process: the registered fatal-error function must run at exactly that request; "
                "plus pairs of failures with a handler that recovers by longjmp; and through the C++ binding (variant cxxfault): "
                "each allocation of a scenario of Config/Setting calls (add, assign, lookup, iterate, readString ok and "
                "failing, clear, remove, writeFile, readFile) made to fail must surface as std::bad_alloc from that call")
    res.samples = ["\n".join(scs[next(iter(scs))])[:400]]
    return res


REGISTRY["C13"] = dict(module="Properties_C13", run=run_c13,
                       trusted=["tools/gen_census.py (clang -ast-dump=json census of allocation call sites; its own regression "
                                "tests: tools/census_selftest.sh)"])


# ------------------------------------------------------------------------------------------
# C14: threads (ThreadSanitizer build of harness/thr.c)

def run_c14(ctx):
    res = Result()
    exe = os.path.join(os.path.dirname(ctx.harness("tsan")), "thr")
    runner = ctx.runner("tsan")
    runs = [(2, 300), (4, 200), (8, 150)] if ctx.tier == "quick" else [(2, 3000), (3, 2000), (8, 2000), (16, 1000)]
    env = dict(os.environ)
    env["TSAN_OPTIONS"] = "halt_on_error=1:exitcode=66:report_signal_unsafe=0"
    total = 0
    for rep in range(2 if ctx.tier == "quick" else 4):
        for nt, it in runs:
            wd = runner.workdir()
            try:
                p = subprocess.run([exe, wd, str(nt), str(it)], stdout=subprocess.PIPE, stderr=subprocess.PIPE, timeout=900, env=env)
                rc, out, err = p.returncode, p.stdout.decode("latin-1"), p.stderr.decode("latin-1", "replace")
            except subprocess.TimeoutExpired:
                rc, out, err = "HANG", "", ""
            shutil.rmtree(wd, ignore_errors=True)
            total += nt * it
            if rc != 0:
                kind = "ThreadSanitizer reported a data race" if rc == 66 else (
                    "a thread obtained results that differ from its results running alone" if rc == 1 else "status %s" % rc)
                res.violations.append(dict(name="threads_%d_%d" % (nt, it), replay=(
                    "# property C14 -- %d threads x %d iterations of harness/thr.c (each thread reads with @include, looks up, "
                    "modifies, writes and re-reads its own configuration objects): %s\n"
                    "# replay: <tsan build>/thr <empty dir> %d %d\n#--- stdout:\n#%s\n#--- stderr (tail):\n#%s\n" % (
                        nt, it, kind, nt, it, "\n#".join(out.splitlines()[-5:]), "\n#".join(err.splitlines()[-40:])))))
                break
        if res.violations:
            break
    # ---- threads under different locales of their own (one comma-decimal, some point-decimal objects, the rest
    #      none), without a sanitizer (races inside libc, e.g. around localeconv(), are invisible to TSan; what they
    #      cause is not): a thread's reads and writes must still give what they give alone ----
    if not res.violations:
        pexe = os.path.join(os.path.dirname(ctx.harness("plain")), "thr")
        env2 = dict(os.environ)
        env2["LOCPATH"] = os.path.join(BUILD, "locale")
        for nt, it in ([(7, 2500), (7, 2500), (12, 1500)] if ctx.tier == "quick" else [(7, 30000), (12, 20000), (16, 20000), (7, 30000)]):
            wd = runner.workdir()
            try:
                p = subprocess.run([pexe, wd, str(nt), str(it), "loc"], stdout=subprocess.PIPE, stderr=subprocess.PIPE, timeout=900, env=env2)
                rc, out, err = p.returncode, p.stdout.decode("latin-1"), p.stderr.decode("latin-1", "replace")
            except subprocess.TimeoutExpired:
                rc, out, err = "HANG", "", ""
            shutil.rmtree(wd, ignore_errors=True)
            total += nt * it
            if rc != 0:
                kind = "a thread obtained results that differ from its results running alone" if rc == 1 else (
                    "the comma-decimal test locale is not available" if rc == 3 else "status %s" % rc)
                res.violations.append(dict(name="locales_%d_%d" % (nt, it), replay=(
                    "# property C14 -- %d threads x %d iterations of harness/thr.c, thread 0 under a comma-decimal locale of its "
                    "own, every third thread under a point-decimal locale object, the others under none: %s\n"
                    "# replay: LOCPATH=/verif/build/locale <plain build>/thr <empty dir> %d %d loc\n#--- stdout:\n#%s\n#--- stderr (tail):\n#%s\n" % (
                        nt, it, kind, nt, it, "\n#".join(out.splitlines()[-5:]), "\n#".join(err.splitlines()[-40:])))))
                break
    res.evaluations = total
    res.distinct = total
    res.distribution = {"runs": ["%d threads x %d iterations" % r for r in runs], "thread_programs_executed": total}
    res.rule = ("N threads (2..8 quick, up to 16 thorough), each with its own configuration objects, different options, "
                "precisions and include directories, run read_string with @include / lookups / API edits with overrides, hooks "
                "and removals / write to memory / write_file / read_file / failing reads concurrently, under ThreadSanitizer; "
                "every iteration's complete result string is compared with the same program run alone before the threads start")
    res.samples = ["see harness/thr.c:run_program"]
    return res


REGISTRY["C14"] = dict(module="Properties_C14", run=run_c14,
                       trusted=["tools/gen_census.py (clang AST census of writable static objects and their writers)",
                                "ThreadSanitizer (gcc -fsanitize=thread) as race detector for the harness runs"])


# ------------------------------------------------------------------------------------------
# C19 (options) and C01 (round trip): writer

def option_vectors(rng, n_random):
    vs = [(0x16, 2, 6, 0)]
    base = 0x16
    for bit in (2, 4, 8, 16, 32):
        vs.append((base ^ bit, 2, 6, 0))
    for tab in (0, 1, 3, 8, 15, 16, 200):
        vs.append((base, tab, 6, 0))
    for prec in (0, 1, 3, 15, 17):
        vs.append((base, 2, prec, 0))
        vs.append((base | 32, 2, prec, 0))
    vs.append((base, 2, 6, 1))
    for _ in range(n_random):
        vs.append((rng.randrange(64) & ~1, rng.choice([0, 1, 2, 4, 15, 16]), rng.choice([0, 1, 2, 6, 10, 15]), rng.choice([0, 1])))
    return vs


def norm_tokens(text):
    """documented tokenisation of a written configuration, with the option-governed spellings erased"""
    toks = speclex.tokens(text)
    out = []
    for t in toks:
        if not t.startswith("K "):
            out.append(t)
            continue
        k = t.split(" ")[1]
        if k == "p;":
            continue
        if k[0] == "f":
            out.append("F")
        elif k[0] in "ix":
            out.append("N32:" + k[1:])
        elif k[0] in "lX":
            out.append("N64:" + k[1:])
        else:
            out.append(k)
    return out


def indent_violations(text, tab):
    bad = []
    depth = 0
    w = min(tab, 15)
    instr = False
    for line in text.split(b"\n"):
        stripped = line.lstrip(b" \t")
        lead = line[:len(line) - len(stripped)]
        # a member line starts with a name followed by = or :
        m = re.match(rb"[A-Za-z\*][-A-Za-z0-9_\*]* [=:] ", stripped)
        closing = stripped.startswith(b"}")
        d = depth - (1 if closing else 0)
        if (m or closing or stripped.startswith(b"{")) and not instr:
            want = (b"\t" * d) if w == 0 else (b" " * (d * w))
            if lead != want and not (d == 0 and lead == b""):
                bad.append("line %r: indentation %r, expected %d level(s) x width %d" % (line[:40], lead, d, w))
        # track nesting outside strings
        i = 0
        while i < len(stripped):
            ch = stripped[i:i + 1]
            if instr:
                if ch == b"\\":
                    i += 1
                elif ch == b"\"":
                    instr = False
            else:
                if ch == b"\"":
                    instr = True
                elif ch in b"{([":
                    depth += 1
                elif ch in b"})]":
                    depth -= 1
            i += 1
    return bad


def writer_cases(rng, ntrees, vectors, big=False):
    cases = []
    for t in range(ntrees):
        root = gen_api.gen_tree(rng, max_depth=rng.choice([1, 2, 3, 4]), max_fan=rng.choice([2, 3, 5]), big=(big and t % 5 == 0))
        body = ["init"] + gen_api.tree_script(root)
        # some own hex formats
        for p, n in gen_api.all_nodes(root):
            if n.ty in (gen_api.T_INT, gen_api.T_INT64) and rng.random() < 0.3:
                body.append("setfmt %s 1" % gen_api.path_str(p))
        body.append("dump")
        for (o, tab, prec, dfmt) in vectors:
            body += ["options %d" % o, "tab %d" % tab, "prec %d" % prec, "deffmt %d" % dfmt, "write"]
        if t % 3 == 0:
            # the options toggled one at a time with config_set_option, from the defaults: each bit switched on and off,
            # also when it already has the requested value (disable twice, enable twice)
            body += ["options %d" % 0x16, "tab 2", "prec 6", "deffmt 0", "write"]
            bits = [2, 4, 8, 16, 32]
            for _ in range(8):
                b = rng.choice(bits)
                fl = rng.choice([0, 0, 1])
                body += ["option %d %d" % (b, fl)] * rng.choice([1, 2]) + ["write"]
        cases.append("\n".join(body) + "\n")
    # deep chains: nesting x tab width well beyond any fixed indentation buffer (12 levels x 15 columns)
    for depth in (6, 9, 12):
        body = ["init"]
        path = []
        for lvl in range(depth):
            ps = gen_api.path_str(path)
            body.append("add %s %s 2" % (ps, hx(b"v")))
            body.append("set i %s %d" % (gen_api.path_str(path + [0]), lvl))
            kind = 1 if lvl % 3 != 2 else 8
            body.append("add %s %s %d" % (ps, hx(b"g"), kind))
            path = path + [1]
            if kind == 8:
                body.append("add %s - 1" % gen_api.path_str(path))
                path = path + [0]
        body.append("dump")
        for (o, tab, prec, dfmt) in vectors:
            body += ["options %d" % o, "tab %d" % tab, "prec %d" % prec, "deffmt %d" % dfmt, "write"]
        cases.append("\n".join(body) + "\n")
    return cases


def written_texts(script, lines):
    """[(options, tab, prec, deffmt, text)] of every 'write' of the script"""
    al = align(script, lines)
    cur = [0x16, 2, 6, 0]
    res = []
    for op, out in al:
        f = op.split(" ")
        if f[0] == "options":
            cur[0] = int(f[1])
        elif f[0] == "option" and len(f) == 3:
            # config_set_option: the flag decides the bit, whatever its value was
            cur[0] = (cur[0] | int(f[1])) if int(f[2]) else (cur[0] & ~int(f[1]))
        elif f[0] == "tab":
            cur[1] = int(f[1]) % 65536
        elif f[0] == "prec":
            cur[2] = int(f[1])
        elif f[0] == "deffmt":
            cur[3] = int(f[1])
        elif op == "write" and out and out[0].startswith("R sh"):
            res.append((cur[0], cur[1], cur[2], cur[3], bytes.fromhex(out[0][4:])))
    return res


def c19_oracle(script, rec):
    bad = died(script, rec)
    ws = written_texts(script, rec["impl"])
    if not ws:
        return bad
    ref = None
    for (o, tab, prec, dfmt, text) in ws:
        nt = norm_tokens(text)
        if ref is None:
            ref = (nt, (o, tab, prec, dfmt), text)
        elif nt != ref[0]:
            d = first_diff(ref[0], nt)
            cls = ""
            etext, eo = (ref[2], ref[1][0]) if d[1] == "E" else (text, o)
            if "E" in (d[1], d[2]) and (eo & 32):
                # a %g rendering that rounds above DBL_MAX is not a literal the documentation accepts (finding F1b of C01)
                for mm in re.finditer(rb"[-+]?[0-9]+(?:\.[0-9]*)?[eE][-+]?[0-9]+", etext):
                    try:
                        if float(mm.group(0)) in (float("inf"), float("-inf")):
                            cls = " [class F1b: the %g rendering rounds above DBL_MAX]"
                    except ValueError:
                        pass
            bad.append("options/tab/prec/deffmt %s vs %s: token sequences differ at token #%d (%s vs %s)%s" % (
                ref[1], (o, tab, prec, dfmt), d[0], d[1], d[2], cls))
            break
        iv = indent_violations(text, tab)
        if iv:
            bad.append("options %s: %s" % ((o, tab, prec, dfmt), iv[0]))
            break
        if (o & 2) == 0 and b";" in re.sub(rb"\"(\\.|[^\"\\])*\"", b"", text):
            bad.append("semicolons written although the option is off")
        want_n = b":" if o & 8 else b"="
        for mm in re.finditer(rb"(?m)^[ \t]*[A-Za-z\*][-A-Za-z0-9_\*]* ([=:]) ([^\n{][^\n]*)$", text):
            if mm.group(1) != want_n:
                bad.append("assignment character %r of the non-group setting %r with options %d" % (mm.group(1), mm.group(0)[:40], o))
                break
        want_g = b":" if o & 4 else b"="
        for mm in re.finditer(rb"(?m)^[ \t]*[A-Za-z\*][-A-Za-z0-9_\*]* ([=:]) (\n[ \t]*)?\{", text):
            if mm.group(1) != want_g:
                bad.append("group assignment character %r with options %d" % (mm.group(1), o))
                break
    return bad


def run_c19(ctx):
    res = Result()
    rc = replay_cases(ctx)
    vectors = option_vectors(ctx.rng, 6 if ctx.tier == "quick" else 40)
    cases = rc if rc is not None else writer_cases(ctx.rng, 120 if ctx.tier == "quick" else 2500, vectors)
    res.rule = ("generated trees (every scalar type incl. boundary values, NULL/escaped strings, nested groups/lists/arrays, "
                "own hex formats) written under %d option vectors (each output bit toggled alone, tab 0..200, precision 0..17, "
                "both default formats, random vectors): config_write text compared byte for byte with the model; model-free: "
                "every variant tokenised with the documented tokenizer must give the same sequence up to semicolons, float "
                "spellings and default-format integers, and every member line must carry depth x min(tab,15) spaces (tabs "
                "for width 0)" % len(vectors))
    res.distinct = len(set(cases))
    res.distribution["option_vectors"] = len(vectors)
    res.distribution["ops"] = summarize_ops(cases[:20])
    res.samples = [cases[0][:600]] if cases else []
    correspond(ctx, res, cases, drop_prefixes=("E ",), oracle=c19_oracle,
               known=lambda s, r, o: match_known("C19", s, r, o), per_proc=6)
    return res


REGISTRY["C19"] = dict(module="Properties_C19", run=run_c19)


# ------------------------------------------------------------------------------------------
# C20: string / stream / file

C20_TOKENS = [b"name_abc-def*", b"123456789", b"-9223372036854775807L", b"0xDEADBEEF", b"0x1234567890ABCDEFL", b"3.14159e-10",
              b"\"a string with \\n \\x41 escapes \\\" and \\\\ \"", b"true", b"FaLsE", b"# a comment to end of line\n",
              b"// another comment\n", b"/* a block\n comment */", b"\"adjacent\" \"strings\"", b"( 1, 2.5, \"x\", [ 1, 2 ] )",
              b"{ inner = 5; }", b"=", b";"]


def c20_texts(rng, n, window):
    texts = []
    for i in range(n):
        B = rng.choice([8192, 8192, 16384, 16384, 24576, 32768])
        tok = C20_TOKENS[i % len(C20_TOKENS)]
        off = rng.randint(-window, window)
        # filler: settings and comments up to just before the boundary
        parts = []
        size = 0
        j = 0
        target = B - off - len(tok) // 2
        while size < target - 40:
            p = rng.choice([b"s%d = %d;\n" % (j, j * 7), b"# %s\n" % (b"c" * rng.randint(0, 30)), b"t%d = \"%s\";\n" % (j, b"v" * rng.randint(0, 20)),
                            b"u%d = [ 1, 2, 3 ];\n" % j])
            parts.append(p)
            size += len(p)
            j += 1
        pad = target - size - len(b"zz = ")
        parts.append(b" " * max(0, pad))
        if tok in (b"=", b";"):
            parts.append(b"zz " + tok + b" 1;\n" if tok == b"=" else b"zz = 1 " + tok + b"\n")
        elif tok.startswith((b"#", b"//", b"/*")):
            parts.append(tok + b"zz = 1;\n")
        else:
            parts.append(b"zz = " + tok + b";\n")
        parts.append(b"after = 1;\n" * rng.choice([1, 50, 700]))
        t = b"".join(parts)
        r = rng.random()
        if r < 0.15:
            t = t.replace(b"after = 1;\nafter", b"after = 1;\nafter = ;\nafter", 1) if b"after = 1;\nafter" in t else t + b"x = ;"
        texts.append(t)
    return texts


def c20_oracle(script, rec):
    bad = died(script, rec)
    al = align(script, rec["impl"])
    results = []
    cur = None
    for op, out in al:
        f = op.split(" ")
        if f[0] in ("reads", "readst", "readck", "readf"):
            cur = [f[0], out[0] if out else None, f[-1] if f[0] != "readf" else None]
            if any(l in ("L FDLEAK", "L STREAMBAD") for l in out):
                bad.append("%s: %s" % (f[0], [l for l in out if l.startswith("L ")]))
        elif op == "dump" and cur:
            root, attrs, err, s = parse_dump(out)
            sig = tree_sig(root, with_pos=False) if root else None
            lines = tuple(sorted((n.path, n.line) for n in ([] if root is None else flatten(root))))
            e = (err[0], err[1], err[3]) if err else None        # type, text, line (file name differs by design)
            results.append((cur[0], cur[1], sig, lines, e, cur[2]))
            cur = None
    # an earlier read of other bytes (to populate the configuration) is not part of the comparison
    args = [r[5] for r in results if r[5] is not None]
    main = args[-1] if args else None
    results = [r[:5] for r in results if r[5] is None or r[5] == main]
    if results:
        ref = results[0]
        for r in results[1:]:
            if r[1:] != ref[1:]:
                what = "return value" if r[1] != ref[1] else ("settings" if r[2] != ref[2] else ("source lines" if r[3] != ref[3] else "error text/line"))
                bad.append("%s and %s of the same bytes differ in %s: %s vs %s" % (
                    ref[0], r[0], what, (ref[1], ref[4]), (r[1], r[4])))
    return bad


def flatten(n):
    res = [n]
    for k in n.kids:
        res += flatten(k)
    return res


def run_c20(ctx):
    res = Result()
    rc = replay_cases(ctx)
    if rc is not None:
        cases = rc
    else:
        texts = c20_texts(ctx.rng, 60 if ctx.tier == "quick" else 1500, 12 if ctx.tier == "quick" else 64)
        # include directive followed by more than one read block of own text
        big_tail = b"".join(b"k%d = %d;\n" % (i, i) for i in range(1500))
        texts.append(b"first = 1;\n@include \"c20inc.cfg\"\n" + big_tail)
        texts.append(b"@include \"c20inc.cfg\"\n" + big_tail + b"bad = ;\n")
        # tokens on which the automaton reads ahead and has to back up (an incomplete \\x escape, an exponent without
        # digits, 0x without digits), with the 8 KiB read boundary at every position inside them
        backup = [b"\"C:\\xyz\"", b"\"a\\x4z\\x\"", b"\"\\q\\\\\"", b"1.5e+x", b"0xg", b"12e", b"tru", b"@inc"]
        if ctx.tier != "quick":
            backup += [b"\"\\x\"", b"1.e-", b"-", b"0x1L", b"/x", b"\"a\\", b".5e"]
        for tok in backup:
            for k in range(len(tok) + 1):
                head = b"".join(b"s%d = %d;\n" % (j, j) for j in range(700))
                lead = b"zz = "
                pad = 8192 - k - len(lead)
                t = head[:pad - 1 - (len(head[:pad - 1]) - head[:pad - 1].rfind(b"\n") - 1)]
                t = t + b" " * (pad - len(t)) + lead + tok + b";\nafter = 1;\n"
                assert t[8192 - k - len(lead):8192 - k] == lead
                texts.append(t)
        # inputs that END (no newline, no terminator) inside such a token: the end-of-input path of the buffer refill
        for tok in backup + [b"0x", b"2.5E", b"1e+", b"\"open", b"/* open", b"tru", b"12L", b"a"]:
            texts.append(b"pre = 1;\nzz = " + tok)
        # single tokens longer than the scanner's read buffer (YY_BUF_SIZE 16384): the buffer has to grow
        longs = [16382, 16383, 16384, 16385, 20000, 33000] if ctx.tier == "quick" else \
                [16380 + i for i in range(10)] + [20000, 32766, 32767, 32768, 32769, 50000, 70000]
        for k, n in enumerate(longs):
            kind = k % 3       # (no long digit runs: the model's exact integer arithmetic is quadratic on them)
            if kind == 0:
                texts.append(b"pre = 1;\ns = \"" + b"a" * n + b"\";\npost = 2;\n")
            elif kind == 1:
                texts.append(b"pre = 1;\n" + b"n" * n + b" = 1;\npost = 2;\n")
            else:
                texts.append(b"pre = 1;\nw =" + b" " * n + b"3;\npost = 2;\n")
        # texts of EXACTLY a buffer-like size (stdio's BUFSIZ, the page, the scanner's read block and buffer, and one
        # less / more) whose last byte is significant (no trailing line feed): a digit of a number, a closing brace, the
        # closing quote of a string, a semicolon
        head = b"".join(b"s%d = %d;\n" % (j, j) for j in range(9000))
        for n in (512, 1024, 4095, 4096, 4097, 8191, 8192, 8193, 16383, 16384, 16385, 32768, 65536):
            for ending in (b"v = 987654321", b"g = { a = 1; }", b"t = \"xyz\"", b"w = 2;", b"l = ( 1, 2 )"):
                room = n - len(ending)
                body = head[:room]
                body = body[:body.rfind(b"\n") + 1]
                t = body + b" " * (room - len(body)) + ending
                assert len(t) == n
                texts.append(t)
        # texts without a single token (empty, blanks, comments only), read into a configuration that already holds
        # settings: every entry point has to replace them
        blanks = [b"", b" ", b"\n", b"\t\r\n \n", b"# only a comment\n", b"/* c */", b"// c", b"\n\n# c\n\n"]
        texts += blanks
        # what an earlier call left in errno must not make the entry points disagree: an underflowing float (strtod
        # leaves ERANGE) followed - directly, and after more than a scanner buffer of other text - by integer and
        # hexadecimal literals; the same texts with errno preloaded (ERANGE, ENOENT) before each entry point
        pad = b"".join(b"# padding line %d\n" % j for j in range(1200))
        errno_texts = [b"tiny = 1e-5000;\nx = 5;\nh = 0x10;\nl = 7L;\n",
                       b"tiny = 1e-5000;\n" + pad + b"x = 5;\nh = 0x10;\nl = 7L;\n",
                       b"a = 12;\nb = 0xFFL;\nc = [ 1, 2, 3 ];\n"]
        texts += errno_texts[:2]
        cases = []
        for t in texts:
            body = ["init", "fs put %s %s" % (hx(b"c20inc.cfg"), hx(b"inc = 7;\n")), "fs put %s %s" % (hx(b"c20.cfg"), hx(t))]
            if t in blanks:
                body += ["reads %s" % hx(b"old = 1; kept = \"x\";"), "dump"]
            for entry in ("reads %s" % hx(t), "readst %s" % hx(t), "readck 1,2,4095,4096,8191,8192,8193,17 %s" % hx(t),
                          "readck 8193 %s" % hx(t), "readf %s" % hx(b"c20.cfg")):
                body += [entry, "dump"]
            cases.append("\n".join(body) + "\n")
        for t in errno_texts:
            for en in (34, 2):
                body = ["init", "fs put %s %s" % (hx(b"c20.cfg"), hx(t))]
                for entry in ("reads %s" % hx(t), "readst %s" % hx(t), "readck 8193 %s" % hx(t), "readf %s" % hx(b"c20.cfg")):
                    body += ["seterrno %d" % en, entry, "dump"]
                cases.append("\n".join(body) + "\n")
        res.distribution["texts"] = len(texts)
        res.distribution["sizes"] = sorted(set(len(t) // 1024 for t in texts))
    res.rule = ("NUL-free texts whose size puts each token kind (name, every number form, string with escapes, booleans, the "
                "three comment styles, adjacent strings, aggregates, punctuation) at every offset in a +-12 (quick) / +-64 "
                "(thorough) byte window around the 8/16/24/32 KiB positions, valid and with a late syntax error, plus an "
                "@include followed by more than one read block of the including text, and single tokens (string, name, blank "
                "run) of 16382..33000 (quick) / ..70000 (thorough) bytes that force the scanner's buffer to grow; "
                "each read through config_read_string, "
                "config_read on fmemopen, on cookie streams delivering 1,2,4095,...,8193-byte pieces, and config_read_file; "
                "return value, settings, source lines, error text and line compared pairwise and with the model")
    res.distinct = len(set(cases))
    res.samples = [cases[0][:300]] if cases else []

    def keep(l):
        if l.startswith("T "):
            f = l.split(" ")
            return " ".join(f[:8])          # without the file column
        if l.startswith("E "):
            f = l.split(" ")
            return " ".join([f[0], f[1], f[2], f[4]])
        if l.startswith("L open") or l.startswith("L close"):
            return None
        return l
    correspond(ctx, res, cases, line_filter=keep, oracle=c20_oracle,
               known=lambda s, r, o: match_known("C20", s, r, o), per_proc=2)
    return res


REGISTRY["C20"] = dict(module="Properties_C20", run=run_c20)


# ------------------------------------------------------------------------------------------
# C11 (resources) and C10 (include = inlining): include forests

def forest_cases(rng, n, max_files):
    """[(setup lines, top text, files dict)]"""
    res = []
    for i in range(n):
        text = gen_text.rand_config(rng, size=rng.choice([6, 15, 40]))
        if not text.endswith(b"\n"):
            text += b"\n"
        top, files = gen_text.cut_into_files(rng, text, max_depth=rng.choice([1, 2, 3, 4]), max_files=max_files)
        res.append((text, top, files))
    return res


def forest_script(top, files, entry="readf", extra=()):
    body = ["init"]
    for name, content in files.items():
        body.append("fs put %s %s" % (hx(name), hx(content)))
    body.append("fs put %s %s" % (hx(b"top.cfg"), hx(top)))
    body += list(extra)
    if entry == "readf":
        body.append("readf %s" % hx(b"top.cfg"))
    elif entry == "reads":
        body.append("reads %s" % hx(top))
    else:
        body.append("readst %s" % hx(top))
    body.append("dump")
    return body


def c11_cases(rng, nforests, max_files):
    cases = []
    stats = {"forests": 0, "faults": {}}
    for text, top, files in forest_cases(rng, nforests, max_files):
        stats["forests"] += 1
        names = list(files.keys())
        entry = rng.choice(["readf", "reads", "readst"])
        cases.append("\n".join(forest_script(top, files, entry)) + "\n")
        # fault plans: each kind injected at each file in turn
        for victim in [None] + names:
            for kind in ("missing", "dir", "syntax", "dup", "mismatch"):
                f2 = dict(files)
                t2 = top
                extra = []
                if kind in ("missing", "dir"):
                    if victim is None:
                        continue
                    del f2[victim]
                    if kind == "dir":
                        extra.append("fs dir %s" % hx(victim))
                else:
                    inj = {"syntax": b"= oops ;\n", "dup": b"dupname = 1;\ndupname = 2;\n", "mismatch": b"mm = [ 1, \"s\" ];\n"}[kind]
                    src = t2 if victim is None else f2[victim]
                    lines = src.split(b"\n")
                    k = rng.randint(0, len(lines) - 1)
                    lines.insert(k, inj.rstrip(b"\n"))
                    src = b"\n".join(lines)
                    if victim is None:
                        t2 = src
                    else:
                        f2[victim] = src
                stats["faults"][kind] = stats["faults"].get(kind, 0) + 1
                cases.append("\n".join(forest_script(t2, f2, rng.choice(["readf", "reads", "readst"]), extra)) + "\n")
        # include function failures / self include / too deep
        cases.append("\n".join(forest_script(top, files, "readf", ["incfn fail %s" % hx(b"custom failure")])) + "\n")
        cases.append("\n".join(forest_script(top, files, "readf", ["incfn empty"])) + "\n")
        if names:
            cases.append("\n".join(forest_script(top, files, "readf", ["incfn multi %s" % ",".join(hx(x) for x in names[:3])])) + "\n")
            cases.append("\n".join(forest_script(top, files, "readf", ["incfn multi %s" % ",".join([hx(names[0]), hx(b"nosuch.cfg")])])) + "\n")
            f3 = dict(files)
            f3[names[-1]] = f3[names[-1]] + b"\n@include \"" + names[-1] + b"\"\n"      # a cycle
            cases.append("\n".join(forest_script(top, f3, "readf")) + "\n")
    # many file names in one read: ctx->filenames grows (and moves) while include frames are still open; the names
    # reported for settings and errors of the outer files afterwards must still be the right strings
    for nleaf, tail in ((33, b"o_after = 2;\n"), (40, b"o_after = 2;\n"), (40, b"= oops;\n"), (70, b"o_after = [1, \"s\"];\n")):
        files = {}
        outer = b""
        for i in range(nleaf):
            nm = b"leaf%02d.cfg" % i
            files[nm] = b"l%02d = %d;\n" % (i, i)
            outer += b"@include \"" + nm + b"\"\n"
            if i == nleaf // 2:
                files[b"mid.cfg"] = b"@include \"leaf00.cfg\"\nm_after = 5;\n"
                outer += b"mid : {\n@include \"mid.cfg\"\n};\n"
        files[b"outer.cfg"] = outer + tail
        top = b"@include \"outer.cfg\"\nt_after = 1;\n"
        for entry in ("readf", "reads"):
            cases.append("\n".join(forest_script(top, files, entry)) + "\n")
        stats["many_files"] = stats.get("many_files", 0) + 2
    many = [b"leaf%02d.cfg" % i for i in range(36)]
    files = {nm: b"q%d = %d;\n" % (i, i) for i, nm in enumerate(many)}
    cases.append("\n".join(forest_script(b"@include \"x\"\nafter = 1;\n= oops\n", files, "readf", ["incfn multi %s" % ",".join(hx(x) for x in many)])) + "\n")
    # an include function that returns several paths, and a read that aborts before the last of them is visited
    for bad_at, kind in ((0, "syntax"), (1, "syntax"), (1, "missing"), (2, "dup"), (1, "dir")):
        names = [b"m0.cfg", b"m1.cfg", b"m2.cfg", b"m3.cfg"]
        files = {nm: b"v%d = %d;\n" % (i, i) for i, nm in enumerate(names)}
        extra = ["incfn multi %s" % ",".join(hx(x) for x in names)]
        if kind == "syntax":
            files[names[bad_at]] = b"= oops;\n"
        elif kind == "dup":
            files[names[bad_at]] = b"v0 = 7;\n"
        else:
            del files[names[bad_at]]
            if kind == "dir":
                extra.append("fs dir %s" % hx(names[bad_at]))
        for top in (b"@include \"x\"\nafter = 1;\n", b"g : {\n@include \"x\"\n};\n"):
            for entry in ("readf", "reads"):
                cases.append("\n".join(forest_script(top, files, entry, extra)) + "\n")
        stats["multi_abort"] = stats.get("multi_abort", 0) + 4
    # a second read on the same object after a read that recorded file names but left no setting behind (failed
    # before the first setting, or read a file without settings): the first read's names must be released too
    for first in ([b"@include \"missing.cfg\"\nx = 1;\n", {}], [b"# only a comment\n", {}], [b"@include \"e.cfg\"\n", {b"e.cfg": b"\n\n"}],
                  [b"@include \"e.cfg\"\n", {b"e.cfg": b"= oops;\n"}], [b"\n= broken\n", {}]):
        for second in ("readf %s" % hx(b"ok.cfg"), "reads %s" % hx(b"z = 1;"), "readf %s" % hx(b"top.cfg")):
            body = ["init", "fs put %s %s" % (hx(b"ok.cfg"), hx(b"y = 2;\n@include \"ok2.cfg\"\n")), "fs put %s %s" % (hx(b"ok2.cfg"), hx(b"w = 3;\n")),
                    "fs put %s %s" % (hx(b"top.cfg"), hx(first[0]))]
            body += ["fs put %s %s" % (hx(k), hx(v)) for k, v in first[1].items()]
            body += ["readf %s" % hx(b"top.cfg"), "dump", second, "dump", "destroy"]
            cases.append("\n".join(body) + "\n")
    return cases, stats


def c11_oracle(script, rec):
    bad = died(script, rec)
    if rec["status"] != "ok":
        bad.append("process status %s: %s" % (rec["status"], rec["stderr"][-300:].replace("\n", " | ")))
    stack = []
    for l in rec["impl"]:
        if l.startswith("L open "):
            stack.append(l[7:])
        elif l.startswith("L close "):
            if not stack or stack[-1] != l[8:]:
                bad.append("close of %s does not match the innermost open stream %s" % (l[8:], stack[-1] if stack else None))
            else:
                stack.pop()
        elif l in ("L FDLEAK", "L STREAMBAD"):
            bad.append(l + " (descriptor count changed / caller's stream unusable after the read)")
        elif l.startswith("R i") and stack:
            bad.append("read returned with streams still open: %s" % stack)
            stack = []
    return bad


def run_c11(ctx):
    res = Result()
    rc = replay_cases(ctx)
    if rc is not None:
        cases, stats = rc, {}
    else:
        cases, stats = c11_cases(ctx.rng, 25 if ctx.tier == "quick" else 400, 6 if ctx.tier == "quick" else 40)
        # a read failing inside an included file, then config_clear (which frees the file names and leaves the error fields
        # alone), then more reads: the settings' names and the next error's name are owned again
        pre = ["init", "fs put %s %s" % (hx(b"b.cfg"), hx(b"y = 2;\nw = = 4;\n")),
               "fs put %s %s" % (hx(b"a.cfg"), hx(b"x = 1;\n@include \"b.cfg\"\n")), "fs put %s %s" % (hx(b"ok.cfg"), hx(b"k = 1;\n"))]
        for tail in (["readf %s" % hx(b"a.cfg"), "dump", "clear", "dump", "reads %s" % hx(b"z = 1;"), "dump"],
                     ["reads %s" % hx(b"@include \"a.cfg\"\n"), "dump", "clear", "dump", "readf %s" % hx(b"a.cfg"), "dump", "clear",
                      "readf %s" % hx(b"ok.cfg"), "dump"],
                     ["readf %s" % hx(b"a.cfg"), "clear", "clear", "dump", "readf %s" % hx(b"nosuch.cfg"), "dump"]):
            cases.append("\n".join(pre + tail + ["destroy"]) + "\n")
    res.rule = ("generated include forests (a generated text cut at line boundaries into a tree of files, depth <= 4) read "
                "through config_read_file / config_read_string / config_read(stream); for each forest each fault kind "
                "(file deleted, replaced by a directory, syntax error / duplicate / mismatched element at a random line) "
                "injected at the top file and at every included file in turn, plus include-function error, empty list, "
                "multi-path lists with a missing later file, and a self-including file; the fopen/fclose event trace "
                "(--wrap) is compared event for event with the model; /proc/self/fd count before/after; the caller's stream "
                "is ftell'ed and closed; ASan + LeakSanitizer")
    res.distinct = len(set(cases))
    res.distribution = stats
    res.samples = [cases[min(3, len(cases) - 1)][:700]] if cases else []
    keep = lambda l: l if l.startswith(("R ", "L ", "E ")) else None
    # histories that end with config_destroy (the leak probe runs there) go one per process, first
    retry = [c for c in cases if c.rstrip().endswith("destroy")]
    rest = [c for c in cases if not c.rstrip().endswith("destroy")]
    if retry:
        run_singles(ctx, res, retry, line_filter=keep, oracle=c11_oracle,
                    known=lambda s, r, o: match_known("C11", s, r, o), label="retry")
    if not res.violations:
        correspond(ctx, res, rest, line_filter=keep, oracle=c11_oracle,
                   known=lambda s, r, o: match_known("C11", s, r, o), per_proc=10)
    return res


REGISTRY["C11"] = dict(module="Properties_C11", run=run_c11)


def c10_cases(rng, nforests, max_files):
    cases = []
    meta = {}
    for text, top, files in forest_cases(rng, nforests, max_files):
        # A: the forest through read_file; B: the spliced text through read_string
        body = forest_script(top, files, "readf") + ["reads %s" % hx(text), "dump"]
        cid = len(cases)
        cases.append("\n".join(body) + "\n")
        meta[cases[-1]] = ("inline", top, files)
        # with an include directory: files live under inc/
        f2 = {b"inc/" + k: v for k, v in files.items()}
        body = ["init"] + ["fs put %s %s" % (hx(k), hx(v)) for k, v in f2.items()] + [
            "fs put %s %s" % (hx(b"top.cfg"), hx(top)), "incdir %s" % hx(b"inc"), "readf %s" % hx(b"top.cfg"), "dump",
            "reads %s" % hx(text), "dump"]
        cases.append("\n".join(body) + "\n")
        meta[cases[-1]] = ("inline", top, f2)
        # the documented reset: a custom include function is replaced by the default one (NULL argument)
        body = ["init"] + ["fs put %s %s" % (hx(k), hx(v)) for k, v in files.items()] + [
            "fs put %s %s" % (hx(b"top.cfg"), hx(top)),
            rng.choice(["incfn fail %s" % hx(b"never called"), "incfn empty", "incfn null"]), "incfn default",
            "readf %s" % hx(b"top.cfg"), "dump", "reads %s" % hx(text), "dump"]
        cases.append("\n".join(body) + "\n")
        meta[cases[-1]] = ("inline", top, files)
        # a custom include function returning several paths for the one directive of a small top file
        names = list(files.keys())
        if len(names) >= 2:
            top2 = b"before = 1;\n@include \"whatever\"\nafter = 2;\n"
            fl = {n: b"m%d = %d;\n" % (i, i) for i, n in enumerate(names[:3])}
            spliced = b"before = 1;\n" + b"".join(fl[n] for n in names[:3]) + b"after = 2;\n"
            body = ["init"] + ["fs put %s %s" % (hx(k), hx(v)) for k, v in fl.items()] + [
                "incfn multi %s" % ",".join(hx(n) for n in names[:3]), "reads %s" % hx(top2), "dump", "incfn default",
                "reads %s" % hx(spliced), "dump"]
            cases.append("\n".join(body) + "\n")
            meta[cases[-1]] = ("inline", top2, fl)
    # depth chains and failures (located at the directive)
    for depth in (9, 10, 11, 12):
        fl = {}
        for i in range(1, depth + 1):
            fl[b"d%d.cfg" % i] = (b"# level %d\n\n@include \"d%d.cfg\"\n" % (i, i + 1)) if i < depth else b"leaf = %d;\n" % depth
        top = b"a = 1;\n\n\n@include \"d1.cfg\"\n"
        cases.append("\n".join(forest_script(top, fl, "readf")) + "\n")
        meta[cases[-1]] = ("depth", depth, None)
    cases.append("\n".join(forest_script(b"x = 1;\n\n@include \"missing.cfg\"\n", {}, "readf")) + "\n")
    meta[cases[-1]] = ("errloc", (b"top.cfg", 3), None)
    cases.append("\n".join(forest_script(b"@include \"a.cfg\"\n", {b"a.cfg": b"y = 2;\n\n\n\n@include \"gone.cfg\"\n"}, "readf")) + "\n")
    meta[cases[-1]] = ("errloc", (b"a.cfg", 5), None)
    cases.append("\n".join(forest_script(b"\n@include \"/nonexistent/abs.cfg\"\n", {}, "readf", ["incdir %s" % hx(b"inc")])) + "\n")
    meta[cases[-1]] = ("errloc", (b"top.cfg", 2), None)
    cases.append("\n".join(forest_script(b"z = 0;\n@include \"x\"\n", {}, "readf", ["incfn fail %s" % hx(b"custom failure")])) + "\n")
    meta[cases[-1]] = ("errloc", (b"top.cfg", 2), None)
    cases.append("\n".join(forest_script(b"z = 0;\n\n@include \"missing2.cfg\"\n", {}, "readf", ["incfn empty", "incfn default"])) + "\n")
    meta[cases[-1]] = ("errloc", (b"top.cfg", 3), None)
    # later path of a multi-path include cannot be opened (known finding F13 on the unchanged tree)
    cases.append("\n".join(forest_script(b"\n\n@include \"x\"\n", {b"m1.cfg": b"q = 1;\n\n\n"}, "readf",
                                         ["incfn multi %s,%s" % (hx(b"m1.cfg"), hx(b"m2missing.cfg"))])) + "\n")
    meta[cases[-1]] = ("errloc", (b"top.cfg", 3), None)
    return cases, meta


def c10_oracle_factory(meta):
    def oracle(script, rec):
        bad = died(script, rec)
        kind = meta.get(script)
        al = align(script, rec["impl"])
        dumps = [parse_dump(out) for op, out in al if op == "dump"]
        rets = [out[0] for op, out in al if op.split(" ")[0] in ("readf", "reads", "readst") and out]
        if kind is None:
            return bad
        if kind[0] == "inline" and len(dumps) >= 2 and len(rets) >= 2:
            (r1, _, e1, _), (r2, _, e2, _) = dumps[0], dumps[1]
            if rets[0] != rets[1]:
                bad.append("reading the include forest returned %s, reading the spliced text %s" % (rets[0], rets[1]))
            elif rets[0] == "R i1" and tree_sig(r1, with_pos=False) != tree_sig(r2, with_pos=False):
                bad.append("the include forest and the spliced text give different configurations")
            # provenance: the line of that file starts the setting
            if rets[0] == "R i1":
                files = dict(kind[2])
                files[b"top.cfg"] = kind[1]
                for n in flatten(r1):
                    if n.name == "-" or n.file == "-":
                        continue
                    fn = unhx(n.file)
                    content = files.get(fn, files.get(fn.split(b"/")[-1]))
                    if content is None:
                        if fn == b"" or n.file == "-":
                            continue
                        bad.append("setting %s reports file %r which is not part of the forest" % (unhx(n.name), fn))
                        continue
                    lines = content.split(b"\n")
                    nm = unhx(n.name)
                    if not (1 <= n.line <= len(lines)) or not re.search(rb"(^|[\s;,{(])" + re.escape(nm) + rb"\s*[=:]", b" " + lines[n.line - 1]):
                        bad.append("setting %r reports %r line %d, which does not contain it" % (nm, fn, n.line))
                        break
        elif kind[0] == "depth" and rets:
            depth = kind[1]
            e = dumps[0][2] if dumps else None
            if depth <= 10 and rets[0] != "R i1":
                bad.append("a chain of %d nested includes failed" % depth)
            if depth > 10 and (rets[0] != "R i0" or not e or unhx(e[1]) != b"include file nesting too deep"):
                bad.append("a chain of %d nested includes: %s %s" % (depth, rets[0], e))
        elif kind[0] == "errloc" and rets and dumps:
            e = dumps[0][2]
            fn, line = kind[1]
            if rets[0] != "R i0" or e[0] != "2" or e[2] == "-" or not unhx(e[2]).endswith(fn) or int(e[3]) != line:
                bad.append("include failure should be a parse error located at %r line %d; got %s %s" % (fn, line, rets[0], e))
        return bad
    return oracle


def run_c10(ctx):
    res = Result()
    rc = replay_cases(ctx)
    if rc is not None:
        cases, meta = rc, {}
    else:
        cases, meta = c10_cases(ctx.rng, 40 if ctx.tier == "quick" else 800, 8 if ctx.tier == "quick" else 40)
    res.rule = ("generated include forests (a text cut at line boundaries into a tree of files: depth <= 4, files ending with "
                "and without newline, files ending inside a group opened by the parent) read with and without an include "
                "directory and through a custom multi-path include function; settings, order, values AND per-setting file/line "
                "compared with the model; model-free: same configuration as config_read_string of the spliced text, each "
                "setting's reported line of its reported file contains it; chains of 9..12 nested files; missing target at top "
                "level / nested / absolute path / include-function error located at the directive")
    res.distinct = len(set(cases))
    res.distribution["cases"] = len(cases)
    res.samples = [cases[0][:600]] if cases else []
    keep = lambda l: l if l.startswith(("R ", "T ", "E ")) else None
    correspond(ctx, res, cases, line_filter=keep, oracle=c10_oracle_factory(meta),
               known=lambda s, r, o: match_known("C10", s, r, o), per_proc=8)
    # many failing reads inside included files, then a valid include, in a process that may hold only 48 descriptors
    # (DRV_NOFILE): a failure that leaves streams open makes a later include impossible
    if rc is None and not res.violations:
        hist = ["init", "fs put %s %s" % (hx(b"cyc.cfg"), hx(b"a = 1;\n@include \"cyc.cfg\"\n")),
                "fs put %s %s" % (hx(b"bad.cfg"), hx(b"b = 1;\nc = = 2;\n")),
                "fs put %s %s" % (hx(b"top.cfg"), hx(b"t = 1;\n@include \"bad.cfg\"\n")),
                "fs put %s %s" % (hx(b"in.cfg"), hx(b"x = 7;\n")),
                "fs put %s %s" % (hx(b"ok.cfg"), hx(b"first = 1;\n@include \"in.cfg\"\nlast = 2;\n"))]
        for k in range(12):
            hist += ["readf %s" % hx(b"cyc.cfg"), "readf %s" % hx(b"top.cfg"), "reads %s" % hx(b"@include \"top.cfg\"\n")]
        hist += ["readf %s" % hx(b"ok.cfg"), "dump", "reads %s" % hx(b"p = 0;\n@include \"ok.cfg\"\n"), "dump"]
        script = "\n".join(hist) + "\n"
        rr = run_single(ctx.runner("asan"), script, line_filter=keep, impl_env={"DRV_NOFILE": "48"})
        res.evaluations += 1
        oks = [l for l in rr["impl"] if l.startswith("R i")][-2:]
        if rr["diff"] is not None or oks != ["R i1", "R i1"]:
            text = "# property C10 -- reads that fail inside included files, then a valid include (descriptor limit 48: DRV_NOFILE=48)\n%s#--- problem: %s; the last two reads answered %s\n#--- impl transcript (tail):\n#%s\n" % (
                script, rr["diff"], oks, "\n#".join(rr["impl"][-14:]))
            if oks != ["R i1", "R i1"]:
                res.violations.append(dict(name="nofile_history", replay=text))
            else:
                res.corr_broken.append(text)
        res.distribution["descriptor_limit_histories"] = 1
    # known finding F13: replay the witness on the implementation
    runner = ctx.runner()
    w = ("init\nfs put %s %s\nincfn multi %s,%s\nreads %s\ndump\n" % (
        hx(b"a"), hx(b"x=1;\n\n\n"), hx(b"a"), hx(b"b"), hx(b"\n\n@include \"z\"\n")))
    r = run_single(runner, w)
    e = next((l for l in r["impl"] if l.startswith("E ")), "")
    f = e.split(" ")
    if len(f) >= 5 and f[3] != "-" and unhx(f[3]) == b"b" and not any(h.startswith("F13") for h in res.known_hits):
        res.known_hits.append("F13: a later, unopenable path of a multi-path include is reported at the missing file "
                              "(file 'b', line %s) instead of at the directive (line 3)" % f[4])
    return res


REGISTRY["C10"] = dict(module="Properties_C10", run=run_c10)


# ------------------------------------------------------------------------------------------
# C02: grammar
import refparse


def tnode_sig(n, with_line=True):
    return (n.name, n.ty, n.fmt, n.val, n.line if (with_line and n.name != "-") else None,
            tuple(tnode_sig(k, with_line) for k in n.kids))


def c02_oracle(script, rec):
    bad = died(script, rec)
    al = align(script, rec["impl"])
    ov = False
    cur = None
    for op, out in al:
        f = op.split(" ")
        if f[0] == "option" and f[1] == "128":
            ov = f[2] != "0"
        elif f[0] == "options":
            ov = bool(int(f[1]) & 128)
        elif f[0] == "reads":
            cur = (unhx(f[1]) or b"", out[0] if out else None)
        elif op == "dump" and cur:
            text, r = cur
            cur = None
            if b"\0" in text:
                continue
            exp = refparse.parse(text, ov)
            root, _, err, _ = parse_dump(out)
            if exp[0] == "skip" or root is None:
                continue
            if exp[0] == "ok":
                if r != "R i1":
                    bad.append("text %r is derivable from the documented grammar but the read failed (%s line %s)" % (
                        text[:80], unhx(err[1]) if err and err[1] != "-" else None, err[3] if err else None))
                elif tnode_sig(root) != refparse.sig(exp[1]):
                    bad.append("text %r: the configuration built differs from what the text denotes" % text[:80])
            else:
                if r == "R i1":
                    bad.append("text %r is not derivable (%s at line %d) but the read succeeded" % (text[:80], exp[1], exp[2]))
                else:
                    got = (unhx(err[1]).decode("latin-1") if err[1] != "-" else None, int(err[3]))
                    if got != (exp[1], exp[2]):
                        if exp[1] == got[0] == "mismatched element type in array" and got[1] > exp[2] and is_string_mismatch(text, ov):
                            bad.append("mismatched STRING element reported at line %d, the element is at line %d (text %r)" % (
                                got[1], exp[2], text[:60]))
                        else:
                            bad.append("text %r: expected parse error '%s' at line %d, got '%s' at line %d" % (
                                text[:80], exp[1], exp[2], got[0], got[1]))
    return bad


def is_string_mismatch(text, ov):
    """F4 class: the first mismatching array element is a string"""
    toks = [t for t in speclex.tokens(text) if t.startswith("K ")]
    depth_arr = False
    first_ty = None
    for t in toks:
        k = t.split(" ")[1]
        if k == "p[":
            depth_arr, first_ty = True, None
        elif k == "p]":
            depth_arr = False
        elif depth_arr and k != "p,":
            ty = "s" if k.startswith("sh") else k[0]
            ty = {"x": "i", "X": "l"}.get(ty, ty)
            if first_ty is None:
                first_ty = ty
            elif ty != first_ty:
                return ty == "s"
    return False


def c02_cases(rng, maxlen, spellings, nrandom):
    texts = []
    seqs = gen_text.viable_sequences(maxlen)
    stats = {"token_sequences": len(seqs), "viable": sum(1 for s, v in seqs if v)}
    for seq, viable in seqs:
        for k in range(spellings):
            texts.append(gen_text.render(rng, seq, linebreaks=(k > 0)))
    for _ in range(nrandom):
        t = gen_text.rand_config(rng, size=rng.choice([3, 8, 20]))
        r = rng.random()
        if r < 0.4:
            t = gen_text.mutate_tokens(rng, t)
        texts.append(t)
    # literals whose conversion consults errno, after literals that leave ERANGE behind (an underflowing float is a valid
    # token; an overflowing one is rejected): every kind of integer literal must still be read, in the same text and in
    # the next text read by the same thread
    texts = [b"t = 1e-400;\nm = 0x1F;\nn = 0x10L;\nk = 5;\nbig = 99999999999;\no = 017;\nl = ( 0xFFFFFFFFFFFFFFFFL, -1L, 0xffffffff );",
             b"x = 1e999;", b"m = 0xFF;\nn = 0xFFFFFFFFFFFFFFFFL;\nk = -5;\nj = 077L;\na = [ 0x0, 0x7fffffff ];",
             b"d = 4.9e-324;\nh = 0x7fffffff;\nH = 0x7FFFFFFFFFFFFFFFL;\ni = 2147483647;\nI = 9223372036854775807;",
             b"v = 99999999999999999999;", b"h = 0x10; k = 1; f = 2.5e-310; g = 0x20L;",
             b"w = 0x10000000000000000L;", b"ok = 0xABCDEFL; also = 12L; tiny = -1e-320; again = 0x1;"] + texts
    # semantic errors at known places
    texts += [b"a = 1;\nb = 2;\n\na = 3;", b"g = { x = 1;\n y = 2;\n x = 3; };", b"a = [ 1, 2,\n 3.0 ];", b"a = [ 1,\n\n\"s\" ];",
              b"a = [ \"s\", \"t\"\n\n, 1 ];", b"a = [ 1, \"s\"\n\n];", b"a = ( 1, \"s\", [ true, 0 ] );", b"a = [ 1, 2L ];", b"a = [ 0x1, 2 ];",
              b"a = [ 1L, 0x2L ];", b"x = { y = { z = [ ]; }; };", b"a = \"p\" \"q\"\n\"r\";", b"a : 1, b = 2 c = 3;"]
    cases = []
    per = 12
    for ov in (0, 1):
        for i in range(0, len(texts), per):
            body = ["init", "option 128 %d" % ov]
            for t in texts[i:i + per]:
                body += ["reads %s" % hx(t), "dump"]
            cases.append("\n".join(body) + "\n")
    # the grammar does not depend on the other options: arrays mixing numeric types are rejected with auto-conversion on
    # too (the option is about get / set / lookup), and everything else reads the same
    mixed = [b"a = [ 1, 2.5 ];", b"a = [ 1.5, 3 ];", b"a = [ 1, 2L ];", b"a = [ 2L, 1 ];", b"a = [ 0x1, 2.0 ];", b"a = [ 1.0,\n 2,\n 3 ];",
             b"a = [ 1L, 2.5e3 ];", b"l = ( 1, 2.5, 3L );", b"a = [ 1, 2 ]; b = [ 1.5, 2.5 ]; c = [ 1L ];", b"g = { a = [ 1, 2,\n\n 3.0 ]; };",
             b"a = [ true, 1 ];", b"a = [ 1, \"s\" ];"]
    sel = mixed + texts[8::max(1, len(texts) // 60)]
    for opts in (1, 1 | 128, 1 | 4 | 8 | 16 | 32):
        for i in range(0, len(sel), per):
            body = ["init", "options %d" % opts]
            for t in sel[i:i + per]:
                body += ["reads %s" % hx(t), "dump"]
            cases.append("\n".join(body) + "\n")
    # the caller's errno is not an input of the reader: every kind of numeric literal at the edges of its range is read
    # the same with errno preloaded with ERANGE (34), EINVAL (22), ENOENT (2) - as after the application's own strtol,
    # getcwd, fopen - and after a path lookup whose index overflows a long
    edge = [b"a = 9223372036854775807;", b"a = -9223372036854775808;", b"a = 9223372036854775807L;", b"a = 0xFFFFFFFFFFFFFFFFL;",
            b"a = 0x7FFFFFFF; b = 0xFFFFFFFF;", b"port = 8080; o = 0777; l = 12L; n = -1;", b"a = [ 2147483647, -2147483648 ];",
            b"f = 1.5; g = 1e-320; h = 2.5e3;", b"a = 9223372036854775808;", b"x = 0x10000000000000000L;", b"s = \"t\"; k = 5;"]
    for en in (34, 22, 2):
        body = ["init"]
        for t in edge:
            body += ["seterrno %d" % en, "reads %s" % hx(t), "dump"]
        cases.append("\n".join(body) + "\n")
    body = ["init", "reads %s" % hx(b"l = ( 1, 2 );")]
    for t in edge:
        body += ["look . %s" % hx(b"l.[99999999999999999999999]"), "reads %s" % hx(t), "dump"]
    cases.append("\n".join(body) + "\n")
    stats["texts_with_preloaded_errno"] = 4 * len(edge)
    stats["texts_under_other_options"] = 3 * len(sel)
    stats["texts"] = len(texts)
    return cases, stats


def run_c02(ctx):
    res = Result()
    rc = replay_cases(ctx)
    if rc is not None:
        cases, stats = rc, {}
    else:
        cases, stats = c02_cases(ctx.rng, 5 if ctx.tier == "quick" else 7, 2 if ctx.tier == "quick" else 4,
                                 300 if ctx.tier == "quick" else 6000)
        res.exhaustive = True
    res.rule = ("exhaustively every viable token-kind prefix up to length %s over 14 token kinds and each one-token invalid "
                "extension, each rendered in several concrete spellings (whitespace, three comment styles, ;/,/nothing, =/:, "
                "number spellings, split strings, escapes, line breaks at every gap), plus grammar-based random texts with "
                "token-level mutations, overrides off and on; return value, full tree with types/values/formats/source lines, "
                "error text and line compared with the model and, model-free, with a reference parser written from the "
                "manual's grammar (pygen/refparse.py)" % (5 if ctx.tier == "quick" else 7))
    res.distinct = len(set(cases))
    res.distribution = stats
    res.samples = [cases[len(cases) // 3][:500]] if cases else []
    keep = lambda l: l if l.startswith(("R ", "T ", "E ")) else None
    correspond(ctx, res, cases, line_filter=keep, oracle=c02_oracle,
               known=lambda s, r, o: match_known("C02", s, r, o), per_proc=6)
    return res


REGISTRY["C02"] = dict(module="Properties_C02", run=run_c02)


# ------------------------------------------------------------------------------------------
# C17: the C++ binding

import gen_cpp


def c17_filter(l):
    """wrapper objects live in the hooks: the model marks them 1, the implementation stores a pointer; the calls
    of Config's own destructor are not visible from outside (LeakSanitizer accounts for them)"""
    if l.startswith("L dtor"):
        return None
    if l.startswith("T "):
        f = l.split(" ")
        if len(f) > 6 and f[6] != "-":
            f[6] = "1"
        return " ".join(f)
    if l.startswith("A "):
        f = l.split(" ")
        if len(f) > 7 and f[7] != "-":
            f[7] = "1"
        return " ".join(f)
    return True


def c17_oracle(script, rec):
    """the documented contract (pygen/gen_cpp.py DocCpp) replayed over the script, against the implementation"""
    bad = []
    if rec.get("status", "ok") != "ok":
        err = rec.get("stderr", "")
        if "LeakSanitizer" in err:
            bad.append("wrapper objects leaked (LeakSanitizer): %s" % " ".join(err.split()[:40]))
        elif "AddressSanitizer" in err or "runtime error" in err or rec["status"].startswith("signal"):
            bad.append("the C++ call crashed: %s %s" % (rec["status"], " ".join(err.split()[:40])))
    for l in rec["impl"]:
        if l.startswith("L expath BAD"):
            f = l.split(" ")
            bad.append("the SettingException of a failed indexed access carries the path %r, not %r (parent's path + .[index])" % (
                unhx(f[4]) if len(f) > 4 else None, unhx(f[6]) if len(f) > 6 else None))
    try:
        exps = gen_cpp.doc_expectations(script)
        pairs = align(script, [l for l in rec["impl"]])
    except Exception as e:      # malformed replay script
        return bad + ["oracle could not interpret the script: %r" % (e,)]
    for (line, exp), (op, out) in zip(exps, pairs):
        got = out[0] if out else None
        if got is None:
            break                   # the process stopped here
        if got.startswith("R it-disagree"):
            bad.append("'%s': walking the children with %s does not visit them once, in order, as the plain "
                       "begin()..end() loop does" % (line, got.split(" ")[2]))
            continue
        if got.endswith(" CHANGED"):
            bad.append("%s: lookupValue returned false but modified its output argument" % line)
        if exp is None or exp == gen_cpp.UB:
            continue
        ok = got.startswith(exp[1]) if isinstance(exp, tuple) else got == exp
        if not ok:
            bad.append("%s: documented %r, C++ API reports %r" % (line, exp if not isinstance(exp, tuple) else exp[1] + "...", got))
        if len(bad) >= 4:
            break
    return bad


def c17_cases(rng, n):
    return [gen_cpp.history(rng, rng.choice([15, 30, 60])) for _ in range(n)]


C17_CORPUS = [
    # the example named in the property: lookupValue(std::string &) on a string that still has its default value
    "init\nxinit\nxadd . h73 4\nxlook s h73\nxmlook s . h73\nxcast s 0\ndestroy\n",
    # ranges at the edges
    "init\nxinit\nxadd . h61 2\nxset l 0 2147483648\nxcast i 0\nxcast u 0\nxset l 0 4294967296\nxcast u 0\nxset l 0 -1\nxcast U 0\nxcast l 0\ndestroy\n",
    # default format changed after the wrapper exists
    "init\nxinit\nxadd . h61 1\nxinfo 0\ndeffmt 1\nxinfo 0\ndeffmt 0\nxinfo 0\ndestroy\n",
    # auto-convert escape of assertType only for numbers
    "init\nxinit\noption 1 1\nxadd . h73 4\nxadd . h62 5\nxadd . h66 3\nxcast i 0\nxcast f 1\nxcast i 2\nxset i 0 3\nxset f 1 x3ff0000000000000\nxlook i h73\nxlook f h62\ndump\ndestroy\n",
]


# a ParseException that is kept (copied) must keep reporting what it reported when it was caught, whatever happens to
# its Config afterwards: the harness keeps a copy of the last one and re-reads it after clear / re-read / destruction
_BADF = hx(b"bad.cfg")
C17_CORPUS += [
    "init\nxinit\nfs put %s %s\nxreadf %s\nxclear\nxadd . h61 1\ndestroy\n" % (_BADF, hx(b"a = 1;\nb = ;\n"), _BADF),
    "init\nxinit\nfs put %s %s\nxreadf %s\nxreads %s\nxinfo .\ndestroy\n" % (_BADF, hx(b"a = 1;\n\nb = [1, \"x\"];\n"), _BADF, hx(b"ok = 1;")),
    "init\nxinit\nfs put %s %s\nxreadf %s\ndestroy\n" % (_BADF, hx(b"a = 1; a = 2;\n"), _BADF),
    "init\nxinit\nfs put %s %s\nfs put %s %s\nxreadf %s\nxreadf %s\nxclear\ninit\nxinit\nxadd . h61 1\ndestroy\n" % (
        hx(b"inc.cfg"), hx(b"x = 1;\ny = ;\n"), _BADF, hx(b"a = 1;\n@include \"inc.cfg\"\n"), _BADF, _BADF),
    "init\nxinit\nxreads %s\nxclear\nxreads %s\ndestroy\n" % (hx(b"a = 1;\nb = ;"), hx(b"a = ;")),
]


def run_c17(ctx):
    res = Result()
    rc = replay_cases(ctx)
    n = 400 if ctx.tier == "quick" else 6000
    cases = rc if rc is not None else C17_CORPUS + c17_cases(ctx.rng, n)
    res.rule = ("harness variant cxx: one libconfig::Config whose config_t the C operations of the harness also act on. "
                "Histories: a tree built through Setting::add/operator= alone (depth 1-3, all 8 types), then 15-60 calls "
                "drawn from casts to int/unsigned/long long/unsigned long long/double/bool/std::string, Config::lookupValue "
                "and Setting::lookupValue for the same 7 types (sentinel-initialised outputs), exists, lookup, operator[] "
                "by name and index, getPath, getType/getFormat/getLength/getIndex/isRoot/is*/getName, iteration, add (named, "
                "element; valid, duplicate, invalid names; invalid types), remove by name and index, assignments of every "
                "type (matching, mismatching, with and without auto-convert), setFormat, option and default-format changes, "
                "each followed by the C call answering the same question; ends with writeFile/readFile/readString (good, "
                "missing file, syntax errors) and destruction under LeakSanitizer.  Every line is compared three ways: Coq "
                "model (Cpp.v) vs implementation, and implementation vs the documented contract replayed by "
                "pygen/gen_cpp.py (DocCpp)")
    res.distinct = distinct_count(cases)
    res.distribution["ops"] = summarize_ops(cases)
    exp_kinds = {}
    for c in cases[:200]:
        for l, e in gen_cpp.doc_expectations(c):
            k = "none" if e is None else ("throw " + e.split(" ")[2] if isinstance(e, str) and e.startswith("R throw") else
                                          ("prefix" if isinstance(e, tuple) else "value"))
            exp_kinds[k] = exp_kinds.get(k, 0) + 1
    res.distribution["documented_outcomes_first_200_cases"] = exp_kinds
    res.samples = [cases[len(C17_CORPUS)][:1500]] if len(cases) > len(C17_CORPUS) else [cases[0]]
    correspond(ctx, res, cases, drop_prefixes=("E ",), line_filter=c17_filter, oracle=c17_oracle, variant="cxx",
               known=lambda s, r, o: match_known("C17", s, r, o))
    if res.corr_broken and not res.violations:
        foc = []
        for text in res.corr_broken:
            for l in [x for x in text.splitlines() if x.startswith("x")][-2:]:
                op = {"xcast": "cast", "xlook": "look", "xmlook": "mlook", "xlookup": "lookup", "xidx": "idx", "xmem": "mlook",
                      "xinfo": "info", "xpath": "path", "xiter": "iter", "xadd": "add_named", "xrm": "rm", "xrmi": "rmi",
                      "xset": "set", "xsetfmt": "setfmt", "xexists": "look", "xmexists": "mlook"}.get(l.split(" ")[0])
                if op and op not in foc:
                    foc.append(op)
        if foc:
            rng = random.Random(ctx.seed + 17)
            extra = [gen_cpp.history(rng, rng.choice([15, 30, 60]), focus=foc + (["add_elem"] if "add_named" in foc else []))
                     for _ in range(600)]
            res.notes.append("focus search around %s: %d histories" % (foc, len(extra)))
            keep = list(res.corr_broken)
            correspond(ctx, res, extra, drop_prefixes=("E ",), line_filter=c17_filter, oracle=c17_oracle, variant="cxx",
                       known=lambda s, r, o: match_known("C17", s, r, o), label="search")
            res.corr_broken = keep
    return res


REGISTRY["C17"] = dict(module="Properties_C17", run=run_c17)


# ------------------------------------------------------------------------------------------
# C01: written configurations read back as the same configuration

import struct as _struct
import refparse
import gen_text

BOOLWORD = re.compile(rb"^\s*(true|false)\s*[=:]", re.I)


def _dbl(bits):
    return _struct.unpack("<d", _struct.pack("<Q", bits))[0]


def _bits(x):
    return _struct.unpack("<Q", _struct.pack("<d", x))[0]


def printf_rendering(bits, prec, sci):
    """the printf-style rendering the manual promises (%.*f, or %.*g with scientific notation allowed), uncut,
    with libconfig's documented cosmetic: a trailing .0 when there is neither point nor exponent, excess zeros
    removed"""
    x = _dbl(bits)
    r = ("%.*g" if sci else "%.*f") % (prec, x)
    raw_len = len(r)
    if "e" not in r:
        if "." not in r:
            r += ".0"
        else:
            head, frac = r.split(".")
            frac = frac.rstrip("0")
            r = head + "." + (frac if frac else "0")
    return r, raw_len


def c01_blocks(script, lines):
    """[(tree1, attrs1, r, text1, tree2, err2, text2)] for every complete rtrip of the script"""
    res = []
    last = None
    for op, out in align(script, lines):
        if op == "dump" and out:
            last = parse_dump(out)
        elif op == "rtrip" and out and out[0].startswith("R rt") and last is not None:
            ws = [l for l in out if l.startswith("W ")]
            if len(ws) != 2:
                continue
            tree2, _, err2, _ = parse_dump([l for l in out if l[:2] in ("T ", "E ")])
            res.append((last[0], last[1], int(out[0].split(" ")[2]), bytes.fromhex(ws[0][3:]), tree2, err2,
                        bytes.fromhex(ws[1][3:])))
    return res


def c01_equiv(a, b, deffmt, prec, sci, path, bad):
    """the property's equivalence between the written tree (a) and the re-read tree (b)"""
    where = "/".join(map(str, path)) or "."
    if a.name != b.name or a.ty != b.ty or len(a.kids) != len(b.kids):
        bad.append("setting %s: name/type/arity %s %d %d became %s %d %d" % (where, a.name, a.ty, len(a.kids), b.name, b.ty, len(b.kids)))
        return
    if a.ty in (2, 3):
        if a.val != b.val:
            bad.append("setting %s: integer %s read back as %s" % (where, a.val, b.val))
        if (a.fmt or deffmt) != (b.fmt or deffmt):
            bad.append("setting %s: integer format %d read back as %d (default format %d)" % (where, a.fmt, b.fmt, deffmt))
    elif a.ty == 6:
        if (a.val != "b0") != (b.val != "b0"):
            bad.append("setting %s: boolean %s read back as %s" % (where, a.val, b.val))
    elif a.ty == 5:
        if (a.val if a.val != "s-" else "sh") != (b.val if b.val != "s-" else "sh"):
            bad.append("setting %s: string %s read back as %s" % (where, a.val[:80], b.val[:80]))
    elif a.ty == 4:
        bits = int(a.val[1:], 16)
        r, raw_len = printf_rendering(bits, prec, sci)
        try:
            want = "f%016x" % _bits(float(r))
        except (OverflowError, ValueError):
            want = "?"
        if b.val != want:
            cls = ""
            if not sci and raw_len > 60:
                cls = " [class F1: the %%f rendering has %d characters, the writer's buffer holds 60]" % raw_len
            bad.append("setting %s: float %s (rendering %s) read back as %s, the rendering denotes %s%s" % (
                where, a.val, r[:70], b.val, want, cls))
    for i, (x, y) in enumerate(zip(a.kids, b.kids)):
        c01_equiv(x, y, deffmt, prec, sci, path + [i], bad)
        if len(bad) > 3:
            return


FLOAT_LIT = re.compile(rb"[-+]?(?:[0-9]+\.[0-9]*|\.[0-9]+|[0-9]+)(?:[eE][-+]?[0-9]+)?")


def c01_oracle(script, rec):
    bad = died(script, rec)
    for (t1, attrs, r, text1, t2, err2, text2) in c01_blocks(script, rec["impl"]):
        options, tab, prec, deffmt = int(attrs[0]), int(attrs[1]), int(attrs[2]), int(attrs[3])
        sci = bool(options & 32)
        lines1 = text1.split(b"\n")
        if r != 1:
            ln = int(err2[3]) if err2 else 0
            src = lines1[ln - 1] if 0 < ln <= len(lines1) else b""
            cls = ""
            if BOOLWORD.match(src):
                cls = " [class F2: member named like a boolean keyword]"
            else:
                for m in FLOAT_LIT.finditer(src):
                    try:
                        if float(m.group(0)) in (float("inf"), float("-inf")):
                            cls = " [class F1b: the %g rendering rounds above DBL_MAX]"
                    except ValueError:
                        pass
                if b"inf" in src or b"nan" in src:
                    cls = " [class F1b: non-finite rendering]"
            bad.append("the written text is rejected by the reader (%s, line %d: %r)%s" % (
                bytes.fromhex(err2[1][1:]).decode("latin-1") if err2 and err2[1] != "-" else "?", ln, src[:80], cls))
            continue
        b0 = len(bad)
        c01_equiv(t1, t2, deffmt, prec, sci, [], bad)
        # the documented reading of the text (reference tokenizer/parser) must be what the library read
        ref = refparse.parse(text1)
        if ref[0] == "ok":
            if refparse.sig(ref[1], with_line=False) != (lambda f: f(f, t2))(lambda f, n: (n.name, n.ty, n.fmt, n.val, None, tuple(f(f, k) for k in n.kids))):
                if len(bad) == b0:
                    bad.append("the library's reading of the written text differs from the documented reading of that text")
        if text2 != text1:
            l2 = text2.split(b"\n")
            k = next((i for i in range(min(len(lines1), len(l2))) if lines1[i] != l2[i]), min(len(lines1), len(l2)))
            a_ = lines1[k] if k < len(lines1) else b"<end>"
            b_ = l2[k] if k < len(l2) else b"<end>"
            cls = ""
            if sci:
                for m in FLOAT_LIT.finditer(a_):
                    try:
                        v = float(m.group(0))
                        if v != 0.0 and abs(v) < 2.2250738585072014e-308:
                            cls = " [class F1c: denormal in scientific notation]"
                    except ValueError:
                        pass
            if len(bad) == b0 or cls:
                bad.append("writing the re-read configuration gives a different text: line %d %r became %r%s" % (k + 1, a_[:80], b_[:80], cls))
        if len(bad) > 4:
            break
    return bad


def known_c01(script, rec, orc):
    """every message of the case must fall into a recorded class (otherwise the case is reported)"""
    if not orc:
        return None
    hits = []
    for o in orc:
        m = match_known("C01", script, rec, [o])
        if m is None:
            return None
        if m not in hits:
            hits.append(m)
    return "; ".join(hits)


def c01_vectors(rng, n_random, full):
    vs = []
    if full:
        for o in range(32):
            vs.append((o << 1, 2, 6, 0))
    else:
        vs.append((0x16, 2, 6, 0))
        for bit in (2, 4, 8, 16, 32):
            vs.append((0x16 ^ bit, 2, 6, 0))
    for _ in range(n_random):
        vs.append((rng.randrange(32) << 1, rng.choice([0, 1, 2, 8, 15, 16, 200]), rng.randrange(16), rng.choice([0, 1])))
    return vs


def c01_cases(rng, ntrees, nparsed, big=False):
    cases = []
    for t in range(ntrees):
        root = gen_api.gen_tree(rng, max_depth=rng.choice([1, 2, 3, 4, 6]), max_fan=rng.choice([2, 3, 5]), big=(big or t % 7 == 0))
        body = ["init"] + gen_api.tree_script(root)
        for p, n in gen_api.all_nodes(root):
            if n.ty in (gen_api.T_INT, gen_api.T_INT64) and rng.random() < 0.3:
                body.append("setfmt %s 1" % gen_api.path_str(p))
        for (o, tab, prec, dfmt) in c01_vectors(rng, 4, full=(t % 10 == 0)):
            body += ["options %d" % o, "tab %d" % tab, "prec %d" % prec, "deffmt %d" % dfmt, "dump", "rtrip"]
        cases.append("\n".join(body) + "\n")
    # precisions beyond the 17 significant digits of a double (the precision counts decimal PLACES in %f): small
    # magnitudes whose later places matter, in fixed and scientific notation
    import struct as _st
    smalls = [1.2345678901234567e-10, 4.9406564584124654e-5, 1e-18, 3e-19, 7.0e-23, 0.1, 2.5, -1234.0625, 1.0 / 3.0, 6.02214076e-8]
    body = ["init"]
    for i, x in enumerate(smalls):
        body += ["add . %s 4" % hx(b"f%d" % i), "set f %d x%016x" % (i, _st.unpack("<Q", _st.pack("<d", x))[0])]
    for prec in (16, 17, 18, 20, 25, 30, 40):
        for o in (0x16, 0x36):
            body += ["options %d" % o, "tab 2", "prec %d" % prec, "deffmt 0", "dump", "rtrip"]
    cases.append("\n".join(body) + "\n")
    for t in range(nparsed):
        text = gen_text.rand_config(rng, depth=rng.choice([2, 3, 4]))
        body = ["init", "reads " + hx(text)]
        for (o, tab, prec, dfmt) in c01_vectors(rng, 3, full=False)[:5]:
            body += ["options %d" % o, "tab %d" % tab, "prec %d" % prec, "deffmt %d" % dfmt, "dump", "rtrip"]
        cases.append("\n".join(body) + "\n")
    return cases


def run_c01(ctx):
    res = Result()
    rc = replay_cases(ctx)
    q = ctx.tier == "quick"
    cases = rc if rc is not None else c01_cases(ctx.rng, 150 if q else 3000, 60 if q else 1500)
    res.rule = ("trees built through the API (depth 1-6, fan-out incl. 15/16/17/31/33, every scalar type, integer and "
                "double boundary values, random finite doubles, strings over bytes 1..255 and lengths around 64, all "
                "accepted name shapes incl. keyword look-alikes, own hex formats) and trees obtained by parsing random "
                "texts; for each, several vectors of (all 5 output bits, tab 0..200, precision 0..15, default format): "
                "dump; rtrip = config_write, config_read_string of that text into a second configuration with the same "
                "settings, dump of it, config_write again.  Compared: model vs implementation line by line (texts byte "
                "for byte), and on the implementation alone: the text is accepted, the re-read tree is equivalent "
                "(nesting, names, order, types, integers, effective format, boolean truth, byte-exact strings, float = "
                "value of its printf rendering computed independently), the library's reading equals the documented "
                "reading (reference parser), and the second text equals the first")
    res.distinct = len(set(cases))
    res.distribution["ops"] = summarize_ops(cases[:40])
    res.distribution["cases_api_built_vs_parsed"] = [len([c for c in cases if "\nreads " not in c]), len([c for c in cases if "\nreads " in c])]
    res.samples = [cases[0][:700]] if cases else []
    correspond(ctx, res, cases, drop_prefixes=(), oracle=c01_oracle, known=known_c01, per_proc=8)
    return res


REGISTRY["C01"] = dict(module="Properties_C01", run=run_c01)
