"""props.py -- per-property check definitions: generators, correspondence scope, implementation-level
oracles, known-finding classes."""
import os, random, json, hashlib
import common
from common import *
import gen_api

TRUSTED_BASE = [
    "Coq 8.16.1 kernel incl. vm_compute (no native_compute)",
    "translators tools/gen_*.py (regenerate coq/gen/*.v from /repo on every run)",
    "extraction: ExtrOcamlBasic only (bool/option/unit/list/prod/sumbool/sumor + andb/orb inlined); "
    "no Extract Constant of our own; OCaml 4.13.1; harness/model_driver.ml (bytes<->Z glue)",
    "correspondence harness harness/drv.c built from /repo/lib (gcc, ASan+UBSan) and pygen/*.py",
    "hand-written Gallina model of libconfig.c/scanctx.c/strbuf.c/strvec.c/util.c, tied to the code by "
    "the correspondence run, not verified against the source text",
]
ASSUMPTIONS = [
    "LP64, two's-complement narrowing (gcc), C locale ctype",
    "the model's executable definitions agree with the implementation on every script of this run "
    "(checked), and beyond them by the structural argument in DESIGN.md section 3",
]


class Result:
    def __init__(self):
        self.evaluations = 0
        self.distinct = 0
        self.rule = ""
        self.samples = []
        self.distribution = {}
        self.exhaustive = False
        self.violations = []     # dict(name, replay)
        self.corr_broken = []    # strings
        self.known_hits = []     # strings
        self.notes = []


class Ctx:
    def __init__(self, pid, tier, seed, model_exe, replay):
        self.pid, self.tier, self.seed, self.model_exe, self.replay = pid, tier, seed, model_exe, replay
        self.rng = random.Random(seed)
        self._runners = []
        self.impl = {}

    def harness(self, variant="asan"):
        if variant not in self.impl:
            exe, log = build_harness(variant)
            if exe is None:
                raise RuntimeError("harness build failed:\n" + log[-3000:])
            self.impl[variant] = exe
        return self.impl[variant]

    def runner(self, variant="asan"):
        r = Runner(self.model_exe, self.harness(variant), self.pid)
        self._runners.append(r)
        return r

    def close(self):
        for r in self._runners:
            r.close()


# ------------------------------------------------------------------------------------------
# transcript parsing (for the implementation-level oracles)

class TNode:
    __slots__ = ("path", "name", "ty", "fmt", "val", "hook", "line", "file", "kids")

    def key(self, with_pos=True):
        return (self.name, self.ty, self.fmt, self.val, self.hook) + ((self.line, self.file) if with_pos else ())


def parse_dump(lines):
    """lines of one dump -> (root TNode, attrs, err, sflags)"""
    root = None
    attrs = err = sflags = None
    index = {}
    for l in lines:
        f = l.split(" ")
        if f[0] == "T":
            n = TNode()
            n.path = () if f[1] == "." else tuple(int(x) for x in f[1].split("/"))
            n.name, n.ty, n.fmt, n.val, n.hook, n.line, n.file = f[2], int(f[3]), int(f[4]), f[5], f[6], int(f[7]), f[8]
            n.kids = []
            index[n.path] = n
            if n.path == ():
                root = n
            else:
                index[n.path[:-1]].kids.append(n)
        elif f[0] == "A":
            attrs = f[1:]
        elif f[0] == "E":
            err = f[1:]
        elif f[0] == "S":
            sflags = l
    return root, attrs, err, sflags


def tree_sig(n, with_pos=True):
    return (n.key(with_pos), tuple(tree_sig(k, with_pos) for k in n.kids))


def align(script, transcript):
    """Pair each script line with its output lines.  Returns list of (op-line, [output lines])."""
    ops = [l for l in script.splitlines() if l]
    res = []
    i = 0
    for op in ops:
        chunk = []
        if op == "dump":
            while i < len(transcript) and transcript[i][:2] in ("T ", "A ", "E ", "S "):
                chunk.append(transcript[i])
                i += 1
                if chunk[-1].startswith("S ") or (chunk[-1].startswith("E ") and
                                                   (i >= len(transcript) or not transcript[i].startswith("S "))):
                    break
        else:
            if i < len(transcript) and transcript[i].startswith("R "):
                chunk.append(transcript[i])
                i += 1
                while i < len(transcript) and transcript[i].startswith("L "):
                    chunk.append(transcript[i])
                    i += 1
        res.append((op, chunk))
    return res


# ------------------------------------------------------------------------------------------
# Invariant of C04 evaluated on a dumped tree (implementation-level oracle)

def inv_violations(root):
    bad = []
    if root is None:
        return ["no root"]
    if root.name != "-" or root.ty != 1:
        bad.append("root is not a nameless group")

    def rec(n):
        if n.ty == 1:
            names = [k.name for k in n.kids]
            for k in n.kids:
                if k.name == "-":
                    bad.append("nameless member at %s" % (k.path,))
                elif not gen_api.valid_name(unhx(k.name)):
                    bad.append("invalid name at %s" % (k.path,))
            if len(set(names)) != len(names):
                bad.append("duplicate names in %s" % (n.path,))
        elif n.ty in (7, 8):
            for k in n.kids:
                if k.name != "-":
                    bad.append("named element at %s" % (k.path,))
            if n.ty == 7:
                tys = set(k.ty for k in n.kids)
                if len(tys) > 1:
                    bad.append("array %s has element types %s" % (n.path, sorted(tys)))
                if tys - {2, 3, 4, 5, 6}:
                    bad.append("array %s has non-scalar elements" % (n.path,))
        elif n.kids:
            bad.append("scalar with children at %s" % (n.path,))
        for k in n.kids:
            rec(k)
    rec(root)
    return bad


# ------------------------------------------------------------------------------------------
# C05 oracle: ordered-tree behaviour read off the implementation's own dumps

def died(script, rec):
    """the process must survive every in-contract call"""
    if rec["status"] == "ok":
        return []
    al = align(script, rec["impl"])
    k = next((i for i, (op, out) in enumerate(al) if not out), len(al) - 1)
    op = al[k][0] if al else "?"
    return ["process died (%s) during call #%d '%s'" % (rec["status"], k, op)]


def subtree_at(root, path):
    n = root
    for i in path:
        if i >= len(n.kids):
            return None
        n = n.kids[i]
    return n


def c05_oracle(script, rec):
    """Returns list of violation descriptions."""
    impl_lines = rec["impl"]
    bad = died(script, rec)
    al = align(script, impl_lines)
    prev = None
    last_op = None
    for op, out in al:
        if op == "dump":
            root, attrs, err, s = parse_dump(out)
            cur = (root, attrs)
            if last_op is not None and prev is not None and root is not None and prev[0] is not None:
                bad += c05_step(last_op[0], last_op[1], prev, cur)
            prev = cur
            last_op = None
        else:
            if last_op is not None:
                prev = None    # two ops without a dump in between: cannot attribute
            last_op = (op, out)
    return bad


def c05_step(op, out, before, after):
    f = op.split(" ")
    r = out[0][2:] if out else "?"
    b_root, b_attr = before
    a_root, a_attr = after
    bsig, asig = tree_sig(b_root), tree_sig(a_root)
    bad = []
    cmd = f[0]
    if cmd in ("add", "rm", "rmi", "set", "eset", "setfmt"):
        if b_attr != a_attr:
            bad.append("%s changed attributes" % op)
    failed = r in ("n-", "i0") if cmd in ("add", "eset", "rm", "rmi", "set", "setfmt") else False
    if cmd in ("add", "eset") and r == "n-" or cmd in ("rm", "rmi", "set", "setfmt") and r == "i0":
        if bsig != asig:
            bad.append("'%s' reported failure but changed the configuration" % op)
        return bad
    if r in ("badhandle", "?", "unspec"):
        if bsig != asig:
            bad.append("'%s' (%s) changed the configuration" % (op, r))
        return bad
    if cmd == "add" or (cmd == "eset" and int(f[3]) < 0):
        ppath = () if f[1 if cmd == "add" else 2] == "." else tuple(int(x) for x in f[1 if cmd == "add" else 2].split("/"))
        bp, ap = subtree_at(b_root, ppath), subtree_at(a_root, ppath)
        if ap is None or not ap.kids:
            bad.append("'%s' succeeded but parent has no children" % op)
            return bad
        newpath = tuple(int(x) for x in r[1:].split("/"))
        if newpath != ppath + (len(ap.kids) - 1,):
            bad.append("'%s': new setting is not the last child" % op)
        bk = [tree_sig(k) for k in bp.kids]
        ak = [tree_sig(k) for k in ap.kids[:-1]]
        if bk != ak:
            # override: exactly one member of the same name removed
            newname = ap.kids[-1].name
            cand = [tree_sig(k) for k in bp.kids if k.name != newname or newname == "-"]
            if not (cmd == "add" and cand == ak and len(bk) == len(ak) + 1):
                bad.append("'%s': existing children changed" % op)
        # everything outside the parent unchanged
        if frame_sig(b_root, ppath) != frame_sig(a_root, ppath):
            bad.append("'%s': settings outside the parent changed" % op)
    elif cmd in ("rm", "rmi") and r == "i1":
        # exactly one subtree disappeared, order of the others kept
        nb, na = count(b_root), count(a_root)
        if not removed_one(b_root, a_root):
            bad.append("'%s': result is not the tree with exactly one setting removed" % op)
    elif cmd in ("set", "setfmt") or cmd == "eset":
        tgt = f[2] if cmd in ("set", "eset") else f[1]
        tpath = () if tgt == "." else tuple(int(x) for x in tgt.split("/"))
        if cmd == "eset":
            tpath = tuple(int(x) for x in r[1:].split("/")) if r.startswith("n") and r != "n-" else tpath
        if frame_sig(b_root, tpath) != frame_sig(a_root, tpath):
            bad.append("'%s': a setting other than the addressed one changed" % op)
        bn, an = subtree_at(b_root, tpath), subtree_at(a_root, tpath)
        if bn is not None and an is not None:
            if (bn.name, bn.hook, [tree_sig(k) for k in bn.kids]) != (an.name, an.hook, [tree_sig(k) for k in an.kids]):
                bad.append("'%s': name, hook or children of the addressed setting changed" % op)
    elif cmd in ("clear",):
        if b_attr != a_attr:
            bad.append("clear changed attributes %s -> %s" % (b_attr, a_attr))
        if a_root.kids:
            bad.append("clear left settings")
    elif cmd in ("tab", "prec", "deffmt", "option", "options", "incdir", "dtor", "chook", "incfn", "hook"):
        if cmd != "hook" and bsig != asig:
            bad.append("'%s' changed settings" % op)
        if cmd == "tab":
            w = int(f[1]) % 65536
            if int(a_attr[1]) != min(w, 15):
                bad.append("tab width %s stored as %s" % (f[1], a_attr[1]))
    else:
        # queries
        if bsig != asig or b_attr != a_attr:
            bad.append("query '%s' changed the configuration" % op)
    return bad


def count(n):
    return 1 + sum(count(k) for k in n.kids)


def frame_sig(root, path):
    """signature of the tree with the subtree at path replaced by a hole"""
    def rec(n, p):
        if p == path:
            return "HOLE"
        return (n.key(), tuple(rec(k, p + (i,)) for i, k in enumerate(n.kids)))
    return rec(root, ())


def removed_one(b, a):
    """a equals b with exactly one subtree deleted somewhere"""
    if b.key()[:1] != a.key()[:1] and b.key() != a.key():
        return False
    # aggregate value shows the child count, so compare keys modulo count
    def k2(n):
        k = n.key()
        return (k[0], k[1], k[2], k[3] if not k[3].startswith("a") else "a", k[4], k[5], k[6])
    if k2(b) != k2(a):
        return False
    if len(b.kids) == len(a.kids) + 1:
        # find the deleted index
        for i in range(len(b.kids)):
            rest = b.kids[:i] + b.kids[i + 1:]
            if [tree_sig(x) for x in rest] == [tree_sig(x) for x in a.kids]:
                return True
        return False
    if len(b.kids) != len(a.kids):
        return False
    diffs = [i for i in range(len(b.kids)) if tree_sig(b.kids[i]) != tree_sig(a.kids[i])]
    if len(diffs) != 1:
        return False
    return removed_one(b.kids[diffs[0]], a.kids[diffs[0]])


# ------------------------------------------------------------------------------------------
# generic correspondence driver

def correspond(ctx, res, cases, drop_prefixes=(), line_filter=None, oracle=None, known=None,
               per_proc=40, variant="asan", label="corr"):
    """cases: list of script bodies.  Fills res; returns list of failing records."""
    runner = ctx.runner(variant)
    ids = list(range(len(cases)))
    recs = run_batch(runner, list(zip(ids, cases)), drop_prefixes=drop_prefixes, per_proc=per_proc,
                     line_filter=line_filter)
    res.evaluations += len(recs)
    failing = []
    seen_status = {}
    for r in recs:
        st = r["status"]
        seen_status[st] = seen_status.get(st, 0) + 1
        problem = None
        if r["diff"] is not None:
            problem = "transcripts differ at line %d: model=%r impl=%r" % r["diff"]
        if r["sbad"]:
            problem = "pointer-level self-check failed: %s" % r["sbad"][0]
        if st != "ok":
            problem = (problem or "") + " [process status %s]" % st
        orc = oracle(r["script"], r) if oracle and st == "ok" else []
        if problem or orc:
            r["problem"] = problem
            r["oracle"] = orc
            failing.append(r)
    res.distribution[label + "_process_status"] = seen_status
    # group failing records per process chunk: a crash poisons the whole chunk, so re-run singly
    final = []
    for r in failing[:60]:
        rr = run_single(runner, r["script"], drop_prefixes=drop_prefixes, line_filter=line_filter)
        problem = None
        if rr["diff"] is not None:
            problem = "transcripts differ at line %d: model=%r impl=%r" % rr["diff"]
        if rr["sbad"]:
            problem = "pointer-level self-check failed: %s" % rr["sbad"][0]
        if rr["status"] != "ok":
            problem = (problem or "") + " [process status %s] %s" % (rr["status"], rr["stderr"][-600:])
        if rr["status"] != "ok" and rr["diff"] is None:
            problem = None      # model predicted the crash
        orc = oracle(rr["script"], rr) if oracle else []
        if not problem and not orc:
            continue
        # shrink
        def still(body):
            x = run_single(runner, body, drop_prefixes=drop_prefixes, line_filter=line_filter)
            o = oracle(body, x) if oracle else []
            if orc:
                return bool(o)
            return x["diff"] is not None or bool(x["sbad"])
        small = shrink_script(rr["script"], still)
        rs = run_single(runner, small, drop_prefixes=drop_prefixes, line_filter=line_filter)
        o2 = oracle(small, rs) if oracle else []
        cls = known(small, rs, o2) if known else None
        if cls:
            if cls not in res.known_hits:
                res.known_hits.append(cls)
            continue
        text = "# property %s -- %s\n# script (replay with: ./check %s --replay <this file>)\n%s" % (
            ctx.pid, "implementation violates the property" if o2 else "model/implementation disagree", ctx.pid, small)
        text += "#--- oracle: %s\n#--- problem: %s\n#--- impl transcript:\n#%s\n#--- model transcript:\n#%s\n" % (
            o2, problem, "\n#".join(rs["impl"]), "\n#".join(rs["model"]))
        if o2:
            res.violations.append(dict(name="%s_%d" % (label, len(res.violations)), replay=text))
        else:
            res.corr_broken.append(text)
        final.append(rs)
        if len(res.violations) + len(res.corr_broken) >= 5:
            break
    return final


def summarize_ops(cases):
    d = {}
    n = 0
    for c in cases:
        for l in c.splitlines():
            if l:
                k = l.split(" ")[0]
                d[k] = d.get(k, 0) + 1
                n += 1
    d["_total_ops"] = n
    return d


def distinct_count(cases):
    return len(set(script_hash(c) for c in cases if len([l for l in c.splitlines() if l and l != "dump"]) > 2))


# ------------------------------------------------------------------------------------------
# C05 / C04

def replay_cases(ctx):
    if ctx.replay:
        body = "".join(l for l in open(ctx.replay, encoding="latin-1") if not l.startswith("#"))
        return [body]
    return None


def run_c05(ctx):
    res = Result()
    rc = replay_cases(ctx)
    rng = ctx.rng
    if rc is not None:
        cases = rc
    else:
        cases = []
        depth = 2 if ctx.tier == "quick" else 3
        for ov in (False, True):
            cases += list(gen_api.exhaustive_histories(depth, ov))
        res.exhaustive = True
        nrand = 600 if ctx.tier == "quick" else 6000
        for i in range(nrand):
            cases.append(gen_api.random_history(rng, rng.choice([10, 30, 60, 120]), crossing=(i % 5 == 0)))
    res.rule = ("every history over a %d-op alphabet on a 4-setting seed tree to depth %s (overrides off and on), "
                "plus random histories of 10-120 calls with boundary arguments; a dump after every call; "
                "distinct = SHA-1 of the script without dump lines, non-trivial = more than 2 calls"
                % (len(gen_api.ALPHABET), 2 if ctx.tier == "quick" else 3))
    res.distinct = distinct_count(cases)
    res.distribution["ops"] = summarize_ops(cases)
    res.samples = [cases[0], cases[len(cases) // 2], cases[-1]]
    # scope: return values, tree dump (no source lines/files: API-built), attributes; no E line
    correspond(ctx, res, cases, drop_prefixes=("E ",), oracle=c05_oracle, known=known_c05)
    crash_cases(ctx, res)
    return res


def known_c05(script, rec, orc):
    return match_known("C05", script, rec, orc)


def match_known(pid, script, rec, orc):
    """A failing input falls in a known class iff known_findings.json lists a finding of this property
    whose 'match' strings all occur in the shrunk script (op words) and whose 'oracle' substring occurs
    in the oracle text."""
    for f in load_findings()["findings"]:
        if f["property"] != pid:
            continue
        if all(m in script for m in f.get("match", [])) and \
           any(f.get("oracle", "") in o for o in (orc or [""])):
            return "%s: %s" % (f["id"], f["what"])
    return None


def run_singles(ctx, res, cases, drop_prefixes=(), line_filter=None, oracle=None, known=None, label="single"):
    """Cases run one per process (operations that may kill the process)."""
    runner = ctx.runner()
    for body in cases:
        rs = run_single(runner, body, drop_prefixes=drop_prefixes, line_filter=line_filter)
        res.evaluations += 1
        problem = None
        if rs["diff"] is not None:
            problem = "transcripts differ at line %d: model=%r impl=%r" % rs["diff"]
        orc = oracle(body, rs) if oracle else []
        if not problem and not orc:
            continue
        cls = known(body, rs, orc) if known else None
        if cls and not problem:
            if cls not in res.known_hits:
                res.known_hits.append(cls)
            continue
        text = "# property %s -- %s\n%s#--- oracle: %s\n#--- problem: %s\n#--- status: %s\n#--- impl transcript:\n#%s\n#--- model transcript:\n#%s\n#--- stderr tail:\n#%s\n" % (
            ctx.pid, "implementation violates the property" if orc else "model/implementation disagree",
            body, orc, problem, rs["status"], "\n#".join(rs["impl"]), "\n#".join(rs["model"]),
            "\n#".join(rs["stderr"][-1500:].splitlines()))
        if orc:
            res.violations.append(dict(name="%s_%d" % (label, len(res.violations)), replay=text))
        else:
            res.corr_broken.append(text)


def crash_cases(ctx, res):
    """Argument conventions whose violation kills the process: run one per process."""
    cases = ["init\nincdir -\ndump\n",
             "init\nincdir %s\nincdir -\ndump\nincdir %s\ndump\n" % (hx(b"inc"), hx(b"x"))]
    run_singles(ctx, res, cases, drop_prefixes=("E ",), oracle=c05_oracle, known=known_c05, label="argconv")


def c04_oracle(script, rec):
    impl_lines = rec["impl"]
    bad = died(script, rec)
    for op, out in align(script, impl_lines):
        if op == "dump":
            root, attrs, err, s = parse_dump(out)
            for b in inv_violations(root):
                bad.append("after the calls before this dump: " + b)
            if s and "BAD" in s:
                bad.append("query/link self-check: " + s)
            if bad:
                break
    return bad


def run_c04(ctx):
    res = Result()
    rc = replay_cases(ctx)
    rng = ctx.rng
    if rc is not None:
        cases = rc
    else:
        cases = []
        depth = 2 if ctx.tier == "quick" else 3
        for ov in (False, True):
            cases += list(gen_api.exhaustive_histories(depth, ov))
        res.exhaustive = True
        nrand = 500 if ctx.tier == "quick" else 5000
        for i in range(nrand):
            cases.append(gen_api.random_history(rng, rng.choice([20, 60, 200]), crossing=(i % 3 == 0)))
    res.rule = ("exhaustive histories to depth %s over a %d-op alphabet + random histories of 20-200 calls, a "
                "third of them growing aggregates across the 16/32-child boundaries; after every call the "
                "dumped real tree is checked against the invariant and the harness's pointer-level flags; "
                "distinct = SHA-1 of script without dumps" % (2 if ctx.tier == "quick" else 3, len(gen_api.ALPHABET)))
    res.distinct = distinct_count(cases)
    res.distribution["ops"] = summarize_ops(cases)
    res.samples = [cases[0], cases[len(cases) // 2], cases[-1]]
    # scope: structure only -- T lines without value/format/hook/position, S flags
    def structure_only(l):
        # T <path> <name> <ty> <fmt> <val> ... -> path, name, type and child count
        if l.startswith("T "):
            f = l.split(" ")
            return "T %s %s %s %s" % (f[1], f[2], f[3], f[5] if f[5].startswith("a") else "")
        if l.startswith("R n") or l.startswith("R crash") or l.startswith("R badhandle"):
            return l
        return None
    correspond(ctx, res, cases, line_filter=structure_only, oracle=c04_oracle)
    return res


REGISTRY = {
    "C05": dict(module="Properties_C05", run=run_c05),
    "C04": dict(module="Properties_C04", run=run_c04),
}
