"""gen_text.py — generators of configuration texts: grammar-based random configurations with many
spellings, token-sequence enumeration (viable prefixes + one-token invalid extensions), byte mutations,
numeric literal spellings, include forests."""
import itertools, struct

KINDS = ["NAME", "=", ";", ",", "INT", "STR", "FLT", "BOOL", "[", "]", "(", ")", "{", "}"]
VALUE_START_SIMPLE = {"INT", "STR", "FLT", "BOOL"}
VALUE_START = VALUE_START_SIMPLE | {"[", "(", "{"}

NAMES = [b"a", b"b", b"c", b"x", b"y", b"zz", b"a-b", b"q_1", b"*", b"n*", b"Tru", b"truex", b"L", b"e5", b"x0"]


def viable_step(stack, tok):
    """Pushdown recogniser of the grammar.  stack: list of frames (ctx, state).  Returns new stack or None.
    ctx: 'G' group/top, 'A' array, 'L' list.  Group states: 'n' expect name or close, '=' expect '=',
    'v' expect value, 't' after value (terminator optional).  Agg states: 'f' first (value or close),
    'a' after value (comma or close), 'c' after comma (value, comma or close)."""
    stack = list(stack)
    ctx, st = stack[-1]

    def after_value():
        c, s = stack[-1]
        if c == 'G':
            stack[-1] = ('G', 't')
        else:
            stack[-1] = (c, 'a')

    if ctx == 'G':
        if st == 't':
            if tok in (";", ","):
                stack[-1] = ('G', 'n')
                return stack
            st = 'n'
        if st == 'n':
            if tok == "NAME":
                stack[-1] = ('G', '=')
                return stack
            if tok == "}" and len(stack) > 1:
                stack.pop()
                after_value()
                return stack
            return None
        if st == '=':
            if tok == "=":
                stack[-1] = ('G', 'v')
                return stack
            return None
        if st == 'v':
            if tok in VALUE_START_SIMPLE:
                after_value()
                return stack
            if tok == "[":
                stack.append(('A', 'f'))
                return stack
            if tok == "(":
                stack.append(('L', 'f'))
                return stack
            if tok == "{":
                stack.append(('G', 'n'))
                return stack
            return None
    else:
        close = "]" if ctx == 'A' else ")"
        starts = VALUE_START_SIMPLE if ctx == 'A' else VALUE_START
        if tok == close:
            stack.pop()
            after_value()
            return stack
        if st == 'a':
            if tok == ",":
                stack[-1] = (ctx, 'c')
                return stack
            if tok == "STR":   # adjacent strings concatenate: only valid if previous value was a string;
                return None     # the enumerator treats STR STR through the renderer instead
            return None
        if st in ('f', 'c'):
            if st == 'c' and tok == ",":
                return stack
            if tok in starts:
                if tok in VALUE_START_SIMPLE:
                    stack[-1] = (ctx, 'a')
                    return stack
                stack[-1] = (ctx, 'a')
                stack.append({"[": ('A', 'f'), "(": ('L', 'f'), "{": ('G', 'n')}[tok])
                return stack
            return None
    return None


def complete(stack):
    return len(stack) == 1 and stack[0][1] in ('n', 't')


def viable_sequences(maxlen):
    """All viable token-kind prefixes up to maxlen, and each one-token invalid extension."""
    out = []
    frontier = [((), [('G', 'n')])]
    out.append(((), True))
    for n in range(maxlen):
        nxt = []
        for seq, stack in frontier:
            for k in KINDS:
                s2 = viable_step(stack, k)
                if s2 is not None:
                    nxt.append((seq + (k,), s2))
                    out.append((seq + (k,), True))
                else:
                    out.append((seq + (k,), False))
        frontier = nxt
    return out


def spell(rng, kind, names=NAMES, simple=False):
    if kind == "NAME":
        return rng.choice(names)
    if kind == "=":
        return rng.choice([b"=", b":"])
    if kind == "INT":
        if simple:
            return rng.choice([b"1", b"7", b"42"])
        return rng.choice([b"1", b"-2", b"+3", b"0", b"007", b"42", b"0x1F", b"0XaL", b"5L", b"-6LL",
                           b"2147483647", b"2147483648", b"-2147483648", b"-2147483649", b"017"])
    if kind == "FLT":
        return rng.choice([b"1.5", b"-0.25", b".5", b"5.", b"1e3", b"2.5E-2", b"+1.0", b"-.5e+1", b"1e0", b"1e-310", b"4e-400",
                           b"2.5e-320", b"1.7976931348623157e308", b"0.1"])
    if kind == "BOOL":
        return rng.choice([b"true", b"false", b"TRUE", b"False", b"tRuE"])
    if kind == "STR":
        s = rng.choice([b'"s"', b'""', b'"a b"', b'"x\\n\\t\\"q\\\\"', b'"\\x41\\x7e"', b'"a" "b"', b'"a"\n "b"',
                        b'"#no /*c*/ //c"', b'"\\q\\e"', b'"multi\nline"', b'"\x80\xff"', b'"a"/*c*/"b"'])
        return s
    return kind.encode()


SEPS = [b" ", b" ", b" ", b"\n", b"\t", b"  ", b" \n ", b" # c\n", b" // c\n", b" /* c */ ", b"/*\n*/", b"\r\n", b"\f",
        b"/** d **/", b"/***/", b"/**/", b" /* * ** / */ ", b"/*\n * d\n **/", b"//*\n", b"#*/\n"]


def render(rng, seq, linebreaks=True, simple=False):
    parts = []
    for i, k in enumerate(seq):
        parts.append(spell(rng, k, simple=simple))
        sep = rng.choice(SEPS) if linebreaks else b" "
        parts.append(sep)
    return b"".join(parts)


# ---- random configurations from the grammar ----
def rand_scalar(rng, kind=None):
    kind = kind or rng.choice(["INT", "INT", "FLT", "BOOL", "STR", "INT64", "HEX"])
    if kind == "INT":
        v = rng.choice([0, 1, -1, 42, 2**31 - 1, -2**31, rng.randint(-10**6, 10**6)])
        return ("INT", b"%d" % v)
    if kind == "INT64":
        v = rng.choice([2**31, -2**31 - 1, 2**63 - 1, -2**63, 5, rng.randint(-2**62, 2**62)])
        return ("INT64", b"%dL" % v)
    if kind == "HEX":
        return ("INT", b"0x%X" % rng.choice([0, 1, 255, 0x7fffffff, 0xffffffff, 0xdeadbeef]))
    if kind == "FLT":
        return ("FLT", rng.choice([b"1.5", b"-2.25", b"1e10", b"3.0", b"0.1", b"1.0e-5", b"123456.789", b"-0.0", b"2.5e+300"]))
    if kind == "BOOL":
        return ("BOOL", rng.choice([b"true", b"false"]))
    s = bytes(rng.choice(b"abc xyz_-09\\\"\n\t#/*;") for _ in range(rng.choice([0, 1, 3, 10, 70])))
    esc = s.replace(b"\\", b"\\\\").replace(b'"', b'\\"').replace(b"\n", b"\\n").replace(b"\t", b"\\t")
    return ("STR", b'"' + esc + b'"')


def rand_value(rng, depth, simple=False):
    r = rng.random()
    if simple or depth <= 0 or r < 0.55:
        return rand_scalar(rng)[1]
    sep = lambda: rng.choice([b", ", b",", b" , ", b",\n"])
    if r < 0.7:
        kind = rng.choice(["INT", "FLT", "STR", "BOOL", "INT64"])
        n = rng.choice([0, 1, 2, 3, 5, 17])
        body = sep().join(rand_scalar(rng, kind)[1] for _ in range(n))
        if n and rng.random() < 0.2:
            body += b","
        return b"[ " + body + b" ]"
    if r < 0.85:
        n = rng.choice([0, 1, 2, 4])
        body = sep().join(rand_value(rng, depth - 1) for _ in range(n))
        if n and rng.random() < 0.2:
            body += b","
        return b"( " + body + b" )"
    return b"{ " + rand_settings(rng, depth - 1, rng.choice([0, 1, 2, 4])) + b" }"


def rand_settings(rng, depth, n):
    names = list(NAMES) + [b"s%d" % i for i in range(40)]
    rng.shuffle(names)
    out = []
    for i in range(n):
        nm = names[i % len(names)]
        out.append(nm + rng.choice([b" = ", b"=", b" : ", b":"]) + rand_value(rng, depth)
                   + rng.choice([b";", b";", b",", b"", b" ;"]) + rng.choice([b"\n", b"\n", b" ", b"\n\n", b" # c\n"]))
    return b"".join(out)


def rand_config(rng, size=None, depth=3):
    n = size if size is not None else rng.choice([0, 1, 3, 6, 12, 20, 40])
    return rand_settings(rng, depth, n)


def mutate_tokens(rng, text):
    """error injection at token level on a rendered text (split on whitespace)"""
    toks = text.split(b" ")
    if not toks:
        return text
    i = rng.randrange(len(toks))
    r = rng.random()
    if r < 0.3:
        del toks[i]
    elif r < 0.6:
        toks.insert(i, rng.choice([b"=", b";", b",", b"[", b"]", b"(", b")", b"{", b"}", b"x", b"1", b'"s"', b"$", b"@", b"1.5"]))
    elif r < 0.8:
        toks[i] = rng.choice([b"=", b"]", b")", b"}", b"x", b"1", b'"s"', b"99999999999999999999", b"08", b"0x", b"1e", b"\\"])
    else:
        toks[i] = toks[i] + rng.choice([b"$", b'"', b"/*", b"#", b"\x01", b"\x80"])
    return b" ".join(toks)


def mutate_bytes(rng, text, n=1):
    b = bytearray(text)
    for _ in range(n):
        r = rng.random()
        if not b or r < 0.3:
            b.insert(rng.randrange(len(b) + 1), rng.choice(b"={}[]();,:\"\\#/*@.-+eExXL0123456789aZ \n\t\x01\x7f\x80\xff"))
        elif r < 0.6:
            del b[rng.randrange(len(b))]
        else:
            b[rng.randrange(len(b))] = rng.choice(b"={}[]();,:\"\\#/*@.-+eExXL0123456789aZ \n\t\x01\x7f\x80\xff")
    return bytes(b).replace(b"\x00", b"\x01")


# ---- numeric literal spellings (C08) ----
def midpoint_literals(rng, n):
    """Decimal literals a hair above / below the exact midpoint of two adjacent doubles (and the tie itself): a
    conversion that rounds twice (through a wider format) or truncates the digit string gets these wrong."""
    import struct
    from fractions import Fraction
    from decimal import Decimal, getcontext
    getcontext().prec = 1200
    res = []
    seeds = [0x3ff0000000000000, 0x3ff0000000000001, 0x433fffffffffffff, 0x4340000000000000, 0x0010000000000000,
             0x000fffffffffffff, 0x0000000000000001, 0x7fefffffffffffff - 1, 0x3fb999999999999a]
    while len(seeds) < n:
        seeds.append(rng.randrange(1, 0x7fe0000000000000))
    for b in seeds[:n]:
        lo = Fraction(struct.unpack("<d", struct.pack("<Q", b))[0])
        hi = Fraction(struct.unpack("<d", struct.pack("<Q", b + 1))[0])
        mid = (lo + hi) / 2
        d = Decimal(mid.numerator) / Decimal(mid.denominator)          # exact: the denominator is a power of two
        txt = format(d, "f")
        if "." not in txt:
            txt += ".0"
        kind = rng.choice(["above", "below", "tie"])
        if kind == "above":
            lit = txt + "0000000001"
        elif kind == "below":
            # one unit in the last place less, then nines
            digits = txt.rstrip("0")
            if digits.endswith("."):
                lit = txt
            else:
                lit = digits[:-1] + str(int(digits[-1]) - 1) + "9999999999"
        else:
            lit = txt
        if len(lit) < 1100:
            res.append(lit.encode())
    return res


def literal_spellings(rng, n_random=300):
    out = []
    edges = [0, 1, 7, 8, 9, 10, 2**31 - 1, 2**31, 2**31 + 1, 2**32 - 1, 2**32, 2**32 + 1, 2**63 - 1, 2**63, 2**63 + 1,
             2**64 - 1, 2**64, 2**64 + 1, 10**19, 10**20, 99999999999999999999, 123456789]
    for v in edges:
        for sign in (b"", b"-", b"+"):
            for suffix in (b"", b"L", b"LL"):
                for lead in (b"", b"0", b"00"):
                    out.append(sign + lead + b"%d" % v + suffix)
                    out.append(sign + lead + b"%o" % v + suffix)
        for pre in (b"0x", b"0X"):
            for suffix in (b"", b"L", b"LL"):
                out.append(pre + b"%x" % v + suffix)
                out.append(pre + b"%X" % v + suffix)
                out.append(pre + b"000" + b"%x" % v + suffix)
    for nd in range(1, 21):
        out.append(b"0x" + b"F" * nd)
        out.append(b"0x" + b"f" * nd + b"L")
        out.append(b"0x1" + b"0" * nd)
        out.append(b"0x8" + b"0" * (nd - 1) + b"L")
    out += [b"08", b"09", b"018", b"0777", b"-0", b"+0", b"00", b"0L", b"-08L", b"010", b"010L", b"-010", b"0x0", b"0x"]
    floats = [b"1.5", b"1e5", b"1E5", b"1e+5", b"1e-5", b".5", b"5.", b".", b"-.", b"+.5", b"-5.e2", b"1e999", b"-1e999",
              b"1e-999", b"1e308", b"1.7976931348623157e308", b"1.7976931348623159e308", b"2e308", b"4.9e-324",
              b"2.4e-324", b"2.5e-324", b"2.2250738585072014e-308", b"0.1", b"0.30000000000000004",
              b"9007199254740993.0", b"9007199254740992.5", b"1e22", b"1e23", b"123456789012345678901234567890.0",
              b"0." + b"0" * 400 + b"1", b"1" + b"0" * 400 + b".0", b"1" * 800 + b"e-400", b"0.5e1", b"00001.5",
              b"1.e0", b"1e00000000000000000001", b"1e-00000000000000000001", b"1e99999999999999999999", b"4e-400"]
    out += floats
    out += midpoint_literals(rng, 24)
    for _ in range(n_random):
        r = rng.random()
        if r < 0.3:
            out.append(rng.choice([b"", b"-", b"+"]) + b"%d" % rng.randint(0, 2**70) + rng.choice([b"", b"L", b"LL"]))
        elif r < 0.5:
            out.append(b"0x" + b"%x" % rng.randint(0, 2**70) + rng.choice([b"", b"L", b"LL"]))
        else:
            m = b"%d" % rng.randint(0, 10**rng.choice([1, 5, 17, 25]))
            f = b"%d" % rng.randint(0, 10**rng.choice([1, 5, 17]))
            e = rng.choice([b"", b"e%d" % rng.randint(-330, 310), b"E+%d" % rng.randint(0, 30)])
            out.append(rng.choice([b"", b"-", b"+"]) + m + b"." + f + e)
    return out


# ---- include forests (C10 / C11) ----
def cut_into_files(rng, text, max_depth=3, max_files=8, prefix=b"f"):
    """Cut a configuration text at line boundaries into a tree of files.  Returns (top_text, {name: content})."""
    files = {}
    counter = [0]

    def cut(txt, depth):
        lines = txt.split(b"\n")
        if depth <= 0 or len(lines) < 3 or counter[0] >= max_files:
            return txt
        out = []
        i = 0
        while i < len(lines):
            if rng.random() < 0.25 and counter[0] < max_files and i + 1 < len(lines):
                j = min(len(lines), i + rng.randint(1, max(1, len(lines) // 2)))
                counter[0] += 1
                name = prefix + b"%d.cfg" % counter[0]
                body = b"\n".join(lines[i:j])
                if rng.random() < 0.7:
                    body += b"\n"
                files[name] = cut(body, depth - 1)
                out.append(rng.choice([b"", b"  ", b"\t"]) + b'@include "' + name + b'"' + rng.choice([b"", b" ", b"\t"]))
                i = j
            else:
                out.append(lines[i])
                i += 1
        return b"\n".join(out)

    top = cut(text, max_depth)
    return top, files
