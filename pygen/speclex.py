"""speclex.py -- an independent tokenizer written from the documented token definitions (manual + scanner.l
patterns) with Python's re module: longest match, earliest rule on ties.  Used only as the search oracle of
C18/C08/C02 (to find a concrete failing input when a proof or the correspondence breaks)."""
import re, struct

P = {
    "true": rb"[Tt][Rr][Uu][Ee]", "false": rb"[Ff][Aa][Ll][Ss][Ee]",
    "name": rb"[A-Za-z\*][-A-Za-z0-9_\*]*",
    "integer": rb"[-+]?[0-9]+", "integer64": rb"[-+]?[0-9]+L(L)?",
    "hex": rb"0[Xx][0-9A-Fa-f]+", "hex64": rb"0[Xx][0-9A-Fa-f]+L(L)?",
    "float": rb"([-+]?([0-9]*)?\.[0-9]*([eE][-+]?[0-9]+)?)|([-+]?([0-9]+)(\.[0-9]*)?[eE][-+]?[0-9]+)",
}
INITIAL = [("c1", rb"#|//"), ("cm", rb"/\*"), ("q", rb"\""), ("inc", rb"[ \t]*@include[ \t]+\""),
           ("ws1", rb"[\n\r\f\a\b\v]"), ("ws", rb"[ \t]+"), ("eq", rb"[=:]"), ("comma", rb","), ("{", rb"\{"),
           ("}", rb"\}"), ("true", P["true"]), ("false", P["false"]), ("name", P["name"]), ("float", P["float"]),
           ("integer", P["integer"]), ("integer64", P["integer64"]), ("hex", P["hex"]), ("hex64", P["hex64"]),
           ("[", rb"\["), ("]", rb"\]"), ("(", rb"\("), (")", rb"\)"), (";", rb";"), ("garbage", rb"[^\n]")]
STRING = [("text", rb"[^\"\\]+"), ("ea", rb"\\a"), ("eb", rb"\\b"), ("en", rb"\\n"), ("er", rb"\\r"), ("et", rb"\\t"),
          ("ev", rb"\\v"), ("ef", rb"\\f"), ("ebs", rb"\\\\"), ("eq", rb"\\\""), ("ex", rb"\\[Xx][0-9A-Fa-f]{2}"),
          ("bs", rb"\\"), ("end", rb"\"")]
ESC = {"ea": 7, "eb": 8, "en": 10, "er": 13, "et": 9, "ev": 11, "ef": 12, "ebs": 92, "eq": 34, "bs": 92}
COMP = {k: [(n, re.compile(p, re.S)) for n, p in v] for k, v in (("I", INITIAL), ("S", STRING))}


def longest(rules, data, pos, bol):
    best = None
    for name, rx in rules:
        if name == "inc" and not bol:
            continue
        m = rx.match(data, pos)
        if m and m.end() > pos and (best is None or m.end() - pos > best[1]):
            best = (name, m.end() - pos)
    return best


def dbl_bits(text):
    mant = re.split(rb"[eE]", text)[0]
    if not re.search(rb"[0-9]", mant):
        return 0                      # strtod finds no number: 0.0
    try:
        d = float(text.decode("ascii"))
    except ValueError:
        return 0
    if d in (float("inf"), float("-inf")):
        return None
    return struct.unpack("<Q", struct.pack("<d", d))[0]


def int_value(text):
    """decimal, or octal with a leading 0; optional L/LL suffix; None = rejected"""
    t = text.rstrip(b"L")
    neg = t.startswith(b"-")
    ds = t.lstrip(b"+-")
    if len(ds) > 1 and ds.startswith(b"0"):
        if re.search(rb"[89]", ds):
            return None
        v = int(ds, 8)
    else:
        v = int(ds, 10)
    v = -v if neg else v
    if not (-2**63 <= v <= 2**63 - 1):
        return None
    return v


def tokens(data, files=None, depth=0, nothing=False):
    """-> list of transcript lines as the harness prints them for 'lex' (NUL-free input).  Without [files] the list
    ends at the first include directive with an INCLUDE marker (callers decide what an include does); with [files]
    (a dict path -> content) a directive at the beginning of a line is replaced by the tokens of the named file,
    scanned from its own line 1, after which the including text goes on in the middle of its line (so a second
    directive on that line is not one); a missing file or the 11th level is an error token at the directive."""
    out = []
    st = _scan(data, files, depth, out, nothing)
    if st == "eof":
        out.append("K Z %d" % out.pop())
        out.append("R eof")
    elif st == "err":
        out.append("R err")
    elif st == "stuck":
        out.append("R stuck")
    return out


def _scan(data, files, depth, out, nothing=False):
    """appends token lines to out; returns 'eof' (then the last element of out is the final line number, to be popped
    by the caller), 'err', 'stuck' or 'include' (marker appended)"""
    pos, line, bol = 0, 1, True
    n = len(data)
    while pos < n:
        m = longest(COMP["I"], data, pos, bol)
        if m is None:
            # only \n can fail [^\n] -- but ws1 matches it
            return "stuck"
        name, ln = m
        text = data[pos:pos + ln]
        pos += ln
        line += text.count(b"\n")
        bol = text.endswith(b"\n")
        if name in ("ws", "ws1"):
            continue
        if name == "c1":
            j = data.find(b"\n", pos)
            if j < 0:
                pos = n
            else:
                pos = j + 1
                line += 1
                bol = True
            continue
        if name == "cm":
            j = data.find(b"*/", pos)
            if j < 0:
                line += data[pos:].count(b"\n")
                pos = n
            else:
                line += data[pos:j].count(b"\n")
                pos = j + 2
                bol = False
            continue
        if name in ("q", "inc"):
            acc = bytearray()
            closed = False
            while pos < n:
                mm = longest(COMP["S"], data, pos, False)
                nm, l2 = mm
                tx = data[pos:pos + l2]
                if name == "inc" and nm in ("ea", "eb", "en", "er", "et", "ev", "ef", "ex"):
                    # include paths know only \\ and \" ; another backslash is kept literally
                    nm, l2, tx = "bs", 1, data[pos:pos + 1]
                pos += l2
                line += tx.count(b"\n")
                if nm == "text":
                    acc += tx
                elif nm == "ex":
                    acc.append(int(tx[2:], 16))
                elif nm == "end":
                    closed = True
                    break
                else:
                    acc.append(ESC[nm])
            if not closed:
                break
            bol = False
            if name == "inc":
                if files is None:
                    out.append("INCLUDE %s %d" % (bytes(acc).hex(), line))
                    return "include"    # callers decide what an include does
                path = bytes(acc).split(b"\0")[0]
                if nothing:
                    continue            # an include function that returns no file: the directive expands to nothing
                if depth >= 10 or path not in files:
                    out.append("K E %d" % line)
                    return "err"
                sub = _scan(files[path], files, depth + 1, out, nothing)
                if sub != "eof":
                    return sub
                out.pop()               # the included file's last line number
                continue
            s = bytes(acc)
            s = s.split(b"\0")[0]
            out.append("K sh%s %d" % (s.hex(), line))
            continue
        if name == "true":
            out.append("K b1 %d" % line)
        elif name == "false":
            out.append("K b0 %d" % line)
        elif name == "name":
            out.append("K nh%s %d" % (text.hex(), line))
        elif name == "float":
            b = dbl_bits(text)
            if b is None:
                out.append("K E %d" % line)
                return "err"
            out.append("K f%016x %d" % (b, line))
        elif name in ("integer", "integer64"):
            v = int_value(text)
            if v is None:
                out.append("K E %d" % line)
                return "err"
            if name == "integer" and -2**31 <= v <= 2**31 - 1:
                out.append("K i%d %d" % (v, line))
            else:
                out.append("K l%d %d" % (v, line))
        elif name in ("hex", "hex64"):
            v = int(text.rstrip(b"L")[2:], 16)
            bits = 32 if name == "hex" else 64
            if v >= 2**bits:
                out.append("K E %d" % line)
                return "err"
            if v >= 2**(bits - 1):
                v -= 2**bits
            out.append("K %s%d %d" % ("x" if name == "hex" else "X", v, line))
        else:
            ch = {"eq": "=", "comma": ",", "garbage": "?"}.get(name, name)
            out.append("K p%s %d" % (ch, line))
    out.append(line)
    return "eof"
