"""gen_cpp.py -- C17: the documented contract of the C++ binding as an interpreter of harness scripts, and
a generator of C++ call histories that uses it.

DocCpp.step(line) returns what doc/libconfig.texi (chapter "The C++ API") says the call on that line must
report, in the transcript syntax of harness/drvxx.cc, computed from a shadow tree kept here -- independently
of the Coq model and of the C library.  It is the third party in the comparison model / implementation /
documented contract: the oracle of the C17 runner replays a script through DocCpp and compares with the
implementation's transcript, so it stays valid for shrunk and replayed scripts.

An expectation is None (no prediction: model only), the exact transcript line, or ("prefix", text)."""
import struct
from common import hx
from gen_api import (VALID_NAMES, INVALID_NAMES, INT_EDGES, INT64_EDGES, FLOAT_EDGES, STRINGS, path_str, valid_name,
                     doc_parse_path)

# Setting::Type
X_NONE, X_INT, X_INT64, X_FLOAT, X_STRING, X_BOOL, X_GROUP, X_ARRAY, X_LIST = range(9)
X_SCALARS = (X_INT, X_INT64, X_FLOAT, X_STRING, X_BOOL)
X_AGGS = (X_GROUP, X_ARRAY, X_LIST)
X_NUM = (X_INT, X_INT64, X_FLOAT)
C_CODE = {X_NONE: 0, X_INT: 2, X_INT64: 3, X_FLOAT: 4, X_STRING: 5, X_BOOL: 6, X_GROUP: 1, X_ARRAY: 7, X_LIST: 8}
SETK = {X_INT: "i", X_INT64: "l", X_FLOAT: "f", X_STRING: "s", X_BOOL: "b"}
KSET = {v: k for k, v in SETK.items()}
CASTS = "iulUfbs"

INT_MIN, INT_MAX, UINT_MAX = -2**31, 2**31 - 1, 2**32 - 1
T_TYPE = "R throw SettingTypeException"
T_RANGE = "R throw SettingRangeException"
T_NOTFOUND = "R throw SettingNotFoundException"
T_NAME = "R throw SettingNameException"
UB = "UB"


class N:
    __slots__ = ("ty", "name", "kids", "val", "fmt")

    def __init__(self, ty, name=None):
        self.ty, self.name, self.kids, self.fmt = ty, name, [], 0
        self.val = {X_INT: 0, X_INT64: 0, X_FLOAT: 0, X_STRING: None, X_BOOL: 0}.get(ty)


def dbits(x):
    return struct.unpack("<Q", struct.pack("<d", x))[0]


def bdbl(b):
    return struct.unpack("<d", struct.pack("<Q", b))[0]


def trunc_in(bits, lo, hi):
    """the C conversion double -> integer type [lo,hi]: the truncated value, or None when undefined"""
    d = bdbl(bits)
    if d != d or d in (float("inf"), float("-inf")):
        return None
    v = int(d)
    return v if lo <= v <= hi else None


def fits(k, v):
    return {"i": INT_MIN <= v <= INT_MAX, "u": 0 <= v <= UINT_MAX, "l": True, "U": v >= 0}[k]


def cast_expect(n, k, auto):
    """documented outcome of (T)setting: the value line, a throw line, or UB when the C conversion the
    documentation refers to is undefined for the stored value"""
    if k in "iulU":
        if n.ty in (X_INT, X_INT64):
            return ("R i%d" % n.val) if fits(k, n.val) else T_RANGE
        if n.ty == X_FLOAT and auto:
            v = trunc_in(n.val, INT_MIN, INT_MAX) if k in "iu" else trunc_in(n.val, -2**63, 2**63 - 1)
            if v is None:
                return UB
            return ("R i%d" % v) if fits(k, v) else T_RANGE
        return T_TYPE
    if k == "f":
        if n.ty == X_FLOAT:
            return "R f%016x" % n.val
        if n.ty in (X_INT, X_INT64) and auto:
            return "R f%016x" % dbits(float(n.val))
        return T_TYPE
    if k == "b":
        return ("R i%d" % (1 if n.val else 0)) if n.ty == X_BOOL else T_TYPE
    return ("R s" + hx(n.val or b"")) if n.ty == X_STRING else T_TYPE


def look_expect(n, k, auto):
    """lookupValue: never throws; true + value, or false"""
    if n is None:
        return "R k0"
    e = cast_expect(n, k, auto)
    if e == UB:
        return UB
    if e.startswith("R throw"):
        return "R k0"
    return "R k1 " + e[2:]


def unhx(tok):
    if tok == "-":
        return None
    return bytes.fromhex(tok[1:])


def ppath(tok):
    return [] if tok == "." else [int(x) for x in tok.split("/")]


class DocCpp:
    def __init__(self):
        self.root = N(X_GROUP)
        self.auto = False
        self.overrides = False
        self.deffmt = 0
        self.live = False       # no prediction before init+xinit or after a call whose effect is not documented

    # ---- shadow helpers
    def get(self, p):
        cur = self.root
        for i in p:
            if i >= len(cur.kids):
                return None
            cur = cur.kids[i]
        return cur

    def nodes(self):
        res = []

        def rec(n, p):
            res.append((p, n))
            for i, k in enumerate(n.kids):
                rec(k, p + [i])
        rec(self.root, [])
        return res

    def path_of(self, n):
        for p, x in self.nodes():
            if x is n:
                return p
        return None

    def node_path(self, p):
        """the path getPath() is documented to return: names, [i] for unnamed elements"""
        out = []
        cur = self.root
        for i in p:
            k = cur.kids[i]
            out.append(k.name if k.name is not None else b"[%d]" % i)
            cur = k
        return b".".join(out)

    def resolve(self, path, base=None):
        comps = doc_parse_path(path)
        if comps is None:
            return None
        cur = base or self.root
        for c in comps:
            if isinstance(c, int):
                if cur.ty not in X_AGGS or c >= len(cur.kids):
                    return None
                cur = cur.kids[c]
            else:
                if cur.ty != X_GROUP:
                    return None
                m = [k for k in cur.kids if k.name == c]
                if not m:
                    return None
                cur = m[0]
        return cur

    def info_line(self, p, n):
        length = len(n.kids) if n.ty in X_AGGS else 0
        idx = p[-1] if p else -1
        cfmt = n.fmt if n.fmt != 0 else self.deffmt
        name = hx(n.name) if n.name is not None else "-"
        return ("R t%d f%d len%d idx%d root%d grp%d arr%d lst%d agg%d sca%d num%d name%s | c=t%d f%d len%d idx%d root%d name%s"
                % (n.ty, 1 if cfmt == 1 else 0, length, idx, 0 if p else 1, n.ty == X_GROUP, n.ty == X_ARRAY, n.ty == X_LIST,
                   n.ty in X_AGGS, n.ty in X_SCALARS, n.ty in X_NUM, name,
                   C_CODE[n.ty], cfmt, length, idx, 0 if p else 1, name))

    # ---- the interpreter
    def step(self, line):
        f = line.split(" ")
        c = f[0]
        if c == "init":
            self.__init__()
            return "R unit"
        if c == "xinit":
            self.live = True
            return "R unit"
        if not self.live:
            return None
        if c == "option" and len(f) == 3 and f[1] == "1":
            self.auto = f[2] != "0"
            return "R unit"
        if c == "option" and len(f) == 3 and f[1] == "128":
            self.overrides = f[2] != "0"
            return "R unit"
        if c == "deffmt":
            self.deffmt = int(f[1]) & 0xffff
            return "R unit"
        if c in ("dump", "get", "plook", "member", "clook", "elem", "type", "len"):
            return None
        if not c.startswith("x"):
            self.live = False           # some other C call: its effect is not part of this contract
            return None
        m = getattr(self, "do_" + c, None)
        if m is None:
            self.live = False
            return None
        return m(f)

    def node_arg(self, tok):
        n = self.get(ppath(tok))
        return n

    def do_xcast(self, f):
        n = self.node_arg(f[2])
        if n is None:
            return "R badhandle"
        return cast_expect(n, f[1], self.auto)

    def do_xlook(self, f):
        return look_expect(self.resolve(unhx(f[2]) or b""), f[1], self.auto)

    def member(self, par, name):
        if par.ty != X_GROUP:
            return None
        m = [k for k in par.kids if k.name == name]
        return m[0] if m else None

    def do_xmlook(self, f):
        par = self.node_arg(f[2])
        if par is None:
            return "R badhandle"
        return look_expect(self.member(par, unhx(f[3]) or b""), f[1], self.auto)

    def do_xexists(self, f):
        path = unhx(f[1]) or b""
        if doc_parse_path(path) is None:
            return None                 # not a path in the documented syntax: model only
        return "R i%d" % (1 if self.resolve(path) is not None else 0)

    def do_xmexists(self, f):
        par = self.node_arg(f[1])
        if par is None:
            return "R badhandle"
        return "R i%d" % (1 if self.member(par, unhx(f[2]) or b"") is not None else 0)

    def do_xlookup(self, f):
        path = unhx(f[1]) or b""
        if path == b"":
            return None
        n = self.resolve(path)
        return T_NOTFOUND if n is None else "R n" + path_str(self.path_of(n))

    def do_xidx(self, f):
        p = ppath(f[1])
        par = self.get(p)
        if par is None:
            return "R badhandle"
        i = int(f[2])
        if par.ty not in X_AGGS:
            return T_TYPE
        return ("R n" + path_str(p + [i])) if 0 <= i < len(par.kids) else T_NOTFOUND

    def do_xmem(self, f):
        p = ppath(f[1])
        par = self.get(p)
        if par is None:
            return "R badhandle"
        if par.ty != X_GROUP:
            return T_TYPE
        m = self.member(par, unhx(f[2]) or b"")
        return T_NOTFOUND if m is None else "R n" + path_str(p + [par.kids.index(m)])

    def do_xpath(self, f):
        p = ppath(f[1])
        if self.get(p) is None:
            return "R badhandle"
        return "R s%s back=n%s" % (hx(self.node_path(p)), path_str(p))

    def do_xinfo(self, f):
        p = ppath(f[1])
        n = self.get(p)
        if n is None:
            return "R badhandle"
        return self.info_line(p, n)

    def do_xiter(self, f):
        p = ppath(f[1])
        n = self.get(p)
        if n is None:
            return "R badhandle"
        if n.ty not in X_AGGS:
            return T_TYPE
        return "R it" + (" " + ",".join("n" + path_str(p + [i]) for i in range(len(n.kids))) if n.kids else "") \
               + " n=%d" % len(n.kids)

    def do_xadd(self, f):
        p = ppath(f[1])
        par = self.get(p)
        if par is None:
            return "R badhandle"
        ty = int(f[3])
        if f[2] != "-":
            name = unhx(f[2]) or b""
            if par.ty != X_GROUP or ty not in range(1, 9):
                return T_TYPE
            if not valid_name(name):
                return T_NAME
            old = [k for k in par.kids if k.name == name]
            if old:
                if not self.overrides:
                    return T_NAME
                par.kids.remove(old[0])     # CONFIG_OPTION_ALLOW_OVERRIDES: the new setting replaces the old one
            par.kids.append(N(ty, name))
            return "R n" + path_str(p + [len(par.kids) - 1])
        if par.ty not in (X_ARRAY, X_LIST):
            return T_TYPE
        if par.ty == X_ARRAY and (ty != par.kids[0].ty if par.kids else ty not in X_SCALARS):
            return T_TYPE
        if ty not in range(1, 9):
            self.live = False           # a list given an element of no type: not documented
            return None
        par.kids.append(N(ty))
        return "R n" + path_str(p + [len(par.kids) - 1])

    def do_xrm(self, f):
        par = self.node_arg(f[1])
        if par is None:
            return "R badhandle"
        if par.ty != X_GROUP:
            return T_TYPE
        name = unhx(f[2]) or b""
        if not valid_name(name):
            self.live = False           # remove() takes a path in the C layer; keep to plain names
            return None
        m = self.member(par, name)
        if m is None:
            return T_NOTFOUND
        par.kids.remove(m)
        return "R unit"

    def do_xrmi(self, f):
        par = self.node_arg(f[1])
        if par is None:
            return "R badhandle"
        if par.ty not in X_AGGS:
            return T_TYPE
        i = int(f[2])
        if 0 <= i < len(par.kids):
            del par.kids[i]
            return "R unit"
        return T_NOTFOUND

    def do_xset(self, f):
        n = self.node_arg(f[2])
        if n is None:
            return "R badhandle"
        ty = KSET[f[1]]
        tok = f[3]
        if ty == X_STRING:
            v = unhx(tok) or b""
        elif ty == X_FLOAT:
            v = int(tok[1:], 16)
        else:
            v = int(tok)
        if n.ty == ty:
            n.val = v
            return "R unit"
        if n.ty in X_NUM and ty in X_NUM and self.auto:
            # with auto-convert the assignment is accepted and the value converted to the stored type
            if n.ty == X_FLOAT:
                n.val = dbits(float(v))
            elif ty == X_FLOAT:
                lo, hi = (INT_MIN, INT_MAX) if n.ty == X_INT else (-2**63, 2**63 - 1)
                t = trunc_in(v, lo, hi)
                if t is None:
                    return UB
                n.val = t
            elif n.ty == X_INT and not (INT_MIN <= v <= INT_MAX):
                pass                    # does not fit: the stored value stays
            else:
                n.val = v
            return "R unit"
        return T_TYPE

    def do_xsetfmt(self, f):
        n = self.node_arg(f[1])
        if n is None:
            return "R badhandle"
        if n.ty in (X_INT, X_INT64):
            n.fmt = 1 if int(f[2]) == 1 else 0
        return "R unit"

    def do_xwritef(self, f):
        path = unhx(f[1]) or b""
        return "R throw FileIOException" if b"no-such-dir/" in path else "R unit"

    def do_xreadf(self, f):
        path = unhx(f[1]) or b""
        self.live = False
        return "R throw FileIOException" if b"does-not-exist" in path else None

    def do_xreads(self, f):
        self.live = False
        return None


def doc_expectations(script):
    """[(line, expectation)] for the non-empty lines of a script"""
    d = DocCpp()
    return [(l, d.step(l)) for l in script.splitlines() if l]


# ------------------------------------------------------------------------------------------
# generator

class Gen:
    def __init__(self, rng):
        self.rng = rng
        self.doc = DocCpp()
        self.lines = []

    def emit(self, line):
        """append the line unless the documented contract calls it undefined behaviour; returns the expectation"""
        e = self.doc.step(line)         # (a step that answers UB has not changed the shadow)
        if e == UB:
            return UB
        self.lines.append(line)
        return e

    def pick(self, pred=None):
        ns = [(p, n) for p, n in self.doc.nodes() if pred is None or pred(n)]
        return self.rng.choice(ns) if ns else None

    def value_token(self, ty):
        rng = self.rng
        if ty == X_INT:
            return str(rng.choice(INT_EDGES) if rng.random() < 0.7 else rng.randint(INT_MIN, INT_MAX))
        if ty == X_INT64:
            return str(rng.choice(INT64_EDGES) if rng.random() < 0.7 else rng.randint(-2**63, 2**63 - 1))
        if ty == X_BOOL:
            return str(rng.choice([0, 1]))
        if ty == X_FLOAT:
            return "x%016x" % rng.choice(FLOAT_EDGES)
        s = rng.choice(STRINGS) if rng.random() < 0.8 else bytes(rng.randint(1, 255) for _ in range(rng.randint(0, 70)))
        return hx(s)

    def op_add_named(self):
        rng = self.rng
        p, par = self.pick(lambda n: n.ty == X_GROUP) if rng.random() < 0.85 else self.pick()
        ty = rng.choice(X_SCALARS + X_AGGS) if rng.random() < 0.93 else rng.choice([0, 9, 99, -1])
        r = rng.random()
        if r < 0.8:
            name = rng.choice(VALID_NAMES)
        elif r < 0.9 and par.kids and par.ty == X_GROUP:
            name = rng.choice(par.kids).name
        else:
            name = rng.choice(INVALID_NAMES)
        self.emit("xadd %s %s %d" % (path_str(p), hx(name), ty))

    def op_add_elem(self):
        rng = self.rng
        p, par = self.pick(lambda n: n.ty in (X_ARRAY, X_LIST)) or self.pick()
        if rng.random() < 0.1:
            p, par = self.pick()
        if par.ty == X_ARRAY and par.kids and rng.random() < 0.8:
            ty = par.kids[0].ty
        else:
            ty = rng.choice(X_SCALARS + X_AGGS) if rng.random() < 0.97 else rng.choice([0, 9])
        self.emit("xadd %s - %d" % (path_str(p), ty))

    def op_set(self):
        rng = self.rng
        p, n = self.pick(lambda n: n.ty in X_SCALARS) or self.pick()
        if rng.random() < 0.1:
            p, n = self.pick()
        ty = n.ty if (n.ty in X_SCALARS and rng.random() < 0.8) else rng.choice(X_SCALARS)
        self.emit("xset %s %s %s" % (SETK[ty], path_str(p), self.value_token(ty)))
        if ty == n.ty:
            self.emit("get %s %s" % (SETK[ty], path_str(p)))

    def op_cast(self):
        p, n = (self.pick(lambda n: n.ty in X_SCALARS) or self.pick()) if self.rng.random() < 0.9 else self.pick()
        k = self.rng.choice(CASTS)
        if self.emit("xcast %s %s" % (k, path_str(p))) != UB and k in "ilfbs":
            self.emit("get %s %s" % (k, path_str(p)))       # the C API on the same setting

    def some_path(self):
        rng = self.rng
        p, n = self.pick()
        if not p:
            return rng.choice([b"zz", b"a.zz", b"[0]", b"a", b"b.[1]"])
        path = self.doc.node_path(p)
        r = rng.random()
        if r < 0.75:
            return path
        if r < 0.85:
            return path + b".nope"
        if r < 0.95:
            return path.replace(b".", rng.choice([b"/", b":"]))
        return path + b".[%d]" % (len(n.kids) + rng.randint(0, 2))

    def op_look(self):
        path = self.some_path()
        k = self.rng.choice(CASTS)
        if self.emit("xlook %s %s" % (k, hx(path))) != UB and k in "ilfbs":
            self.emit("plook %s %s" % (k, hx(path)))
        self.emit("xexists %s" % hx(path))

    def op_mlook(self):
        rng = self.rng
        p, par = self.pick(lambda n: n.ty == X_GROUP and n.kids) or self.pick()
        if rng.random() < 0.15:
            p, par = self.pick()
        if par.kids and par.ty == X_GROUP and rng.random() < 0.8:
            name = rng.choice(par.kids).name
        else:
            name = rng.choice(VALID_NAMES + [b"", b"a.b"])
        k = rng.choice(CASTS)
        self.emit("xmlook %s %s %s" % (k, path_str(p), hx(name)))
        self.emit("xmexists %s %s" % (path_str(p), hx(name)))
        self.emit("xmem %s %s" % (path_str(p), hx(name)))
        self.emit("member %s %s" % (path_str(p), hx(name)))

    def op_lookup(self):
        path = self.some_path()
        self.emit("xlookup %s" % hx(path))
        self.emit("clook %s" % hx(path))

    def op_idx(self):
        rng = self.rng
        p, par = (self.pick(lambda n: n.ty in X_AGGS) or self.pick()) if rng.random() < 0.85 else self.pick()
        i = rng.choice([0, 1, len(par.kids) - 1, len(par.kids), len(par.kids) + 3, -1]) if rng.random() < 0.7 \
            else rng.randint(0, max(0, len(par.kids)))
        if rng.random() < 0.12:      # indices with many digits: the exception's path has to spell them out
            i = rng.choice([999999999, 1000000000, 2147483647, -2147483648, -999999999, -1000000000, 123456789])
        self.emit("xidx %s %d" % (path_str(p), i))
        self.emit("elem %s %d" % (path_str(p), i))

    def op_info(self):
        p, n = self.pick()
        self.emit("xinfo %s" % path_str(p))

    def op_path(self):
        p, n = self.pick()
        self.emit("xpath %s" % path_str(p))

    def op_iter(self):
        p, n = (self.pick(lambda n: n.ty in X_AGGS) or self.pick()) if self.rng.random() < 0.9 else self.pick()
        self.emit("xiter %s" % path_str(p))

    def op_rm(self):
        rng = self.rng
        p, par = self.pick(lambda n: n.ty == X_GROUP and n.kids) or self.pick()
        if rng.random() < 0.15:
            p, par = self.pick()
        if par.kids and par.ty == X_GROUP and rng.random() < 0.75:
            name = rng.choice(par.kids).name
        else:
            name = rng.choice(VALID_NAMES)
        self.emit("xrm %s %s" % (path_str(p), hx(name)))

    def op_rmi(self):
        rng = self.rng
        p, par = self.pick(lambda n: n.ty in X_AGGS and n.kids) or self.pick()
        if rng.random() < 0.15:
            p, par = self.pick()
        i = rng.choice([0, len(par.kids) - 1, len(par.kids), len(par.kids) + 5]) if rng.random() < 0.8 else rng.randint(0, 40)
        if rng.random() < 0.1:
            i = rng.choice([999999999, 1000000000, 2147483647, 123456789])
        self.emit("xrmi %s %d" % (path_str(p), max(i, 0)))

    def op_setfmt(self):
        p, n = (self.pick(lambda n: n.ty in (X_INT, X_INT64)) or self.pick()) if self.rng.random() < 0.8 else self.pick()
        self.emit("xsetfmt %s %d" % (path_str(p), self.rng.choice([0, 1, 1, 2])))
        self.emit("xinfo %s" % path_str(p))

    def op_config(self):
        rng = self.rng
        r = rng.random()
        if r < 0.4:
            self.emit("option 1 %d" % (0 if self.doc.auto else 1))
        elif r < 0.7:
            self.emit("option 128 %d" % (0 if self.doc.overrides else 1))
        else:
            self.emit("deffmt %d" % rng.choice([0, 1]))

    def build(self, max_depth):
        """a tree built through the C++ API alone"""
        rng = self.rng

        def fill(p, depth):
            par = self.doc.get(p)
            fan = rng.randint(0, 4) if depth < max_depth else rng.randint(0, 2)
            names = rng.sample(VALID_NAMES, fan)
            et = rng.choice(X_SCALARS)
            for j in range(fan):
                if par.ty == X_GROUP:
                    ty = rng.choice(X_SCALARS + X_AGGS)
                    e = self.emit("xadd %s %s %d" % (path_str(p), hx(names[j]), ty))
                else:
                    ty = et if par.ty == X_ARRAY else rng.choice(X_SCALARS + X_AGGS)
                    e = self.emit("xadd %s - %d" % (path_str(p), ty))
                if not (e or "").startswith("R n"):
                    continue
                q = p + [len(par.kids) - 1]
                if ty in X_SCALARS:
                    if rng.random() < 0.85:
                        self.emit("xset %s %s %s" % (SETK[ty], path_str(q), self.value_token(ty)))
                elif depth < max_depth:
                    fill(q, depth + 1)
        fill([], 0)


OPS = [("cast", 18), ("look", 10), ("mlook", 8), ("lookup", 6), ("idx", 6), ("info", 8), ("path", 5), ("iter", 5),
       ("add_named", 6), ("add_elem", 5), ("set", 8), ("rm", 3), ("rmi", 3), ("setfmt", 3), ("config", 4)]


def history(rng, nops, focus=None):
    g = Gen(rng)
    g.emit("init")
    g.emit("xinit")
    if rng.random() < 0.4:
        g.emit("option 1 1")
    if rng.random() < 0.15:
        g.emit("deffmt 1")
    if rng.random() < 0.3:
        g.emit("option 128 1")
    g.build(rng.choice([1, 2, 3]))
    names = [o for o, w in OPS for _ in range(w)]
    if focus:
        names = names + [f for f in focus if hasattr(g, "op_" + f) for _ in range(60)]
    for _ in range(nops):
        if not g.doc.live:
            break
        getattr(g, "op_" + rng.choice(names))()
    # the end of the story: I/O through the C++ API, then destruction (LeakSanitizer watches the wrappers)
    g.emit("dump")
    r = rng.random()
    if r < 0.25:
        g.emit("xwritef %s" % hx(b"out.cfg"))
        g.emit("xreadf %s" % hx(b"out.cfg"))
        g.emit("dump")
    elif r < 0.4:
        g.emit("xreadf %s" % hx(b"does-not-exist.cfg"))
    elif r < 0.5:
        g.emit("xwritef %s" % hx(b"no-such-dir/out.cfg"))
    elif r < 0.65:
        g.emit("xreads %s" % hx(b"a = 1;\nb = { c = [1, 2]; d = \"x\"; };\n"))
        g.emit("xinfo .")
        g.emit("xiter .")
        g.emit("xlook i %s" % hx(b"b.c.[1]"))
        g.emit("xlook s %s" % hx(b"b.d"))
    elif r < 0.8:
        bad = rng.choice([b"a = ;", b"a = 1;\nb = [1, \"x\"];", b"a = 1; a = 2;", b"x = 99999999999999999999;", b"\""])
        g.emit("xreads %s" % hx(bad))
        g.emit("dump")
    g.emit("destroy")
    return "\n".join(g.lines) + "\n"
