"""gen_api.py — generators of API operation histories (C04, C05, C07, C16 ...).
Every random choice is drawn from the rng handed in (seeded from VERIF_SEED)."""
import itertools
from common import hx

T_NONE, T_GROUP, T_INT, T_INT64, T_FLOAT, T_STRING, T_BOOL, T_ARRAY, T_LIST = range(9)
SCALARS = (T_INT, T_INT64, T_FLOAT, T_STRING, T_BOOL)
AGGS = (T_GROUP, T_ARRAY, T_LIST)
KIND = {T_INT: "i", T_INT64: "l", T_FLOAT: "f", T_BOOL: "b", T_STRING: "s"}
KINDS = "ilfbs"

VALID_NAMES = [b"a", b"b", b"ab", b"a-", b"a*", b"*", b"abc", b"x_1", b"true", b"TRUE", b"g", b"Z9",
               b"a-b_c*", b"list", b"q", b"r", b"s", b"t", b"u", b"v", b"w"]
INVALID_NAMES = [b"", b"1a", b"-a", b"a.b", b"a b", b"_a", b"a:b", b"a/b", b"[0]", b"\xe9", b"a\xe9", b"a["]

INT_EDGES = [0, 1, -1, 2, 42, 2**31 - 1, -2**31, 2**24 + 1, 16777216, 16777217, -16777217, 255, 65535]
INT64_EDGES = INT_EDGES + [2**31, -2**31 - 1, 2**32, 2**32 + 1, 2**53 + 1, 2**53, 2**63 - 1, -2**63,
                           2**62, -(2**53 + 1), 10**18]
FLOAT_EDGES = [0x0000000000000000, 0x8000000000000000, 0x3ff0000000000000, 0xbff0000000000000,
               0x3ff8000000000000, 0x4000000000000000, 0x41dfffffffc00000,  # 2147483647.0
               0xc1e0000000000000,  # -2147483648.0
               0x41dfffffffe00000,  # 2147483647.5
               0x4340000000000000,  # 2^53
               0x43dfffffffffffff,  # just below 2^63
               0xc3e0000000000000,  # -2^63
               0x3fe0000000000000, 0xbfe0000000000000, 0x3fefffffffffffff, 0x0000000000000001,
               0x4059000000000000, 0x4024000000000000, 0x3fb999999999999a, 0x40f86a0000000000,
               0x4170000010000000,  # 16777217.0
               ] + [0x420bf08eb0000000, 0x3df12e0be826d695, 0xc443a6b2b564871a, 0x3bcd83c94fb6d2ac, 0x54b249ad2594c37d, 0x54d0007780e22b0d, 0x4202a05f20000000, 0x3ea0c6f7a0b5ed8d, 0x44dfc3842bd1f072, 0x4415af1d78b58c40, 0x442043561a882930, 0x419d6f3454000000, 0x3f50624dd2f1a9fc, 0x3ee4f8b588e368f1, 0x430c6bf526340000, 0x4341c37937e08000, 0x4376345785d8a000, 0x4480f0cf064dd592, 0x44b52d02c7e14af6, 0x4023000000000000, 0x4025000000000000, 0x3fe0000000000000, 0x4004000000000000, 0x4c2fdca16e04b86d, 0x4c63e9e4e4c2f344, 0xcc37e57912838a52, 0x7fefffffffffffff, 0x0010000000000000, 0x0000000000000001, 0x4340000000000000, 0x3fb999999999999a, 0x3fd3333333333334, 0x4059000000000000, 0x412e848000000000, 0x416312d000000000]
STRINGS = [b"", b"x", b"hello", b"a\"b\\c", b"\n\t\r\f", b"\x01\x1f\x7f\x80\xff", b"a" * 63, b"b" * 64,
           b"c" * 65, b"semi;colon", b"#//*"]


def fbits(x):
    return "x%016x" % x


class Node:
    __slots__ = ("ty", "name", "kids", "val")

    def __init__(self, ty, name=None):
        self.ty = ty
        self.name = name
        self.kids = []


def path_str(p):
    return "." if not p else "/".join(str(i) for i in p)


def valid_name(n):
    if not n:
        return False
    def alpha(c): return 65 <= c <= 90 or 97 <= c <= 122
    if not (alpha(n[0]) or n[0] == 42):
        return False
    return all(alpha(c) or 48 <= c <= 57 or c in (42, 95, 45) for c in n[1:])


class Shadow:
    """Approximate mirror of the tree, only used to pick in-contract handles and arguments."""

    def __init__(self):
        self.root = Node(T_GROUP)
        self.overrides = False

    def nodes(self):
        res = []
        def rec(n, p):
            res.append((p, n))
            for i, k in enumerate(n.kids):
                rec(k, p + [i])
        rec(self.root, [])
        return res

    def get(self, p):
        n = self.root
        for i in p:
            if i >= len(n.kids):
                return None
            n = n.kids[i]
        return n

    def add(self, p, name, ty):
        par = self.get(p)
        if par is None or ty < 0 or ty > 8:
            return
        if par.ty == T_ARRAY and ty not in SCALARS:
            return
        if par.ty in (T_ARRAY, T_LIST):
            name = None
        if name is not None and not valid_name(name):
            return
        if par.ty == T_GROUP and name is not None:
            for i, k in enumerate(par.kids):
                if k.name == name:
                    if self.overrides:
                        del par.kids[i]
                        break
                    return
        if par.ty not in AGGS:
            return
        par.kids.append(Node(ty, name))

    def rm_name(self, p, name):
        par = self.get(p)
        if par is None or par.ty != T_GROUP:
            return
        for i, k in enumerate(par.kids):
            if k.name == name:
                del par.kids[i]
                return

    def rm_path(self, p, path):
        par = self.get(p)
        if par is None or par.ty != T_GROUP:
            return
        comps = doc_parse_path(path)
        if comps is None or isinstance(comps[-1], int):
            return
        ch = doc_resolve(par, comps, lambda n: n.kids, lambda n: n.name, lambda n: n.ty)
        if not ch:
            return
        holder = ch[-2] if len(ch) > 1 else par
        holder.kids.remove(ch[-1])

    def rm_idx(self, p, idx):
        par = self.get(p)
        if par is None or par.ty not in AGGS:
            return
        if 0 <= idx < len(par.kids):
            del par.kids[idx]

    def append_elem(self, p, ty):
        par = self.get(p)
        if par is None or par.ty not in (T_ARRAY, T_LIST):
            return
        if par.ty == T_ARRAY and par.kids and par.kids[0].ty != ty:
            return
        par.kids.append(Node(ty))

    def set_type_if_none(self, p, ty):
        n = self.get(p)
        if n is not None and n.ty == T_NONE:
            n.ty = ty


def rand_value(rng, k):
    if k == "i":
        return str(rng.choice(INT_EDGES) if rng.random() < 0.7 else rng.randint(-2**31, 2**31 - 1))
    if k == "l":
        return str(rng.choice(INT64_EDGES) if rng.random() < 0.7 else rng.randint(-2**63, 2**63 - 1))
    if k == "b":
        return str(rng.choice([0, 1, 1, 0, 2, -1]))
    if k == "f":
        if rng.random() < 0.35:
            while True:
                b = rng.getrandbits(64)
                if (b >> 52) & 0x7ff != 0x7ff:      # finite
                    return fbits(b)
        return fbits(rng.choice(FLOAT_EDGES))
    s = rng.choice(STRINGS) if rng.random() < 0.8 else bytes(rng.randint(1, 255) for _ in range(rng.randint(0, 130)))
    return "-" if rng.random() < 0.08 else hx(s)


def float_castable(bits, lo, hi):
    """is trunc(double) within [lo,hi]? (to keep the C cast defined)"""
    import struct
    d = struct.unpack("<d", struct.pack("<Q", bits))[0]
    if d != d or d in (float("inf"), float("-inf")):
        return False
    return lo <= int(d) <= hi


SEPS = [b".", b":", b"/"]


def doc_parse_path(path):
    """The documented path syntax, strictly: [sep] comp (sep comp)* with comp = name | '[' digits ']'.
    Returns a list of components (bytes name or int index) or None when the text is not of that form."""
    i = 0
    n = len(path)
    comps = []
    if i < n and path[i:i + 1] in SEPS:
        i += 1
    while True:
        if i >= n:
            return None
        if path[i:i + 1] == b"[":
            j = path.find(b"]", i)
            if j < 0 or not path[i + 1:j].isdigit():
                return None
            comps.append(int(path[i + 1:j]))
            i = j + 1
        else:
            j = i
            while j < n and path[j:j + 1] not in SEPS:
                j += 1
            if not valid_name(path[i:j]):
                return None
            comps.append(path[i:j])
            i = j
        if i == n:
            return comps
        if path[i:i + 1] not in SEPS:
            return None
        i += 1


def doc_resolve(node, comps, kids, name_of, ty_of):
    """Resolve parsed components from [node] by the documented rule.  Returns the chain of nodes (excluding the
    start) or None."""
    chain = []
    cur = node
    for c in comps:
        ks = kids(cur)
        if isinstance(c, int):
            if ty_of(cur) not in AGGS or c >= len(ks):
                return None
            cur = ks[c]
        else:
            if ty_of(cur) != T_GROUP:
                return None
            m = [k for k in ks if name_of(k) == c]
            if not m:
                return None
            cur = m[0]
        chain.append(cur)
    return chain


def rel_paths(rng, n, depth=3):
    """Spellings of paths from node n to some descendant: list of (bytes, ends_in_name)."""
    comps = []
    cur = n
    for _ in range(rng.randint(1, depth)):
        if not cur.kids:
            break
        i = rng.randrange(len(cur.kids))
        k = cur.kids[i]
        if k.name is not None and cur.ty == T_GROUP and rng.random() < 0.85:
            comps.append((k.name, True))
        else:
            comps.append((b"[%d]" % i, False))
        cur = k
    if not comps:
        return None
    out = b""
    if rng.random() < 0.25:
        out += rng.choice(SEPS)
    for j, (c, _) in enumerate(comps):
        if j:
            out += rng.choice(SEPS)
        out += c
    return out


def focus_op(rng, sh, f, auto, pick):
    """An operation of the same command/kind as a disagreeing one, on a random node with random arguments."""
    cmd, k = f
    kt = {"i": T_INT, "l": T_INT64, "f": T_FLOAT, "b": T_BOOL, "s": T_STRING}
    if cmd == "set" and k:
        p, n = pick(lambda n: n.ty in SCALARS or n.ty == T_NONE)
        v = rand_value(rng, k)
        if k == "f" and auto and n.ty in (T_INT, T_INT64):
            lo, hi = (-2**31, 2**31 - 1) if n.ty == T_INT else (-2**63 + 1024, 2**63 - 1024)
            if not float_castable(int(v[1:], 16), lo, hi):
                v = fbits(0x4045000000000000)
        sh.set_type_if_none(p, kt[k])
        return "set %s %s %s" % (k, path_str(p), v)
    if cmd == "eset" and k:
        p, n = pick(lambda n: n.ty in (T_ARRAY, T_LIST))
        L = len(n.kids)
        idx = rng.choice([-1, 0, L - 1, L // 2]) if L else -1
        v = rand_value(rng, k)
        tgt = n.kids[idx].ty if 0 <= idx < L else None
        if k == "f" and auto and tgt in (T_INT, T_INT64):
            lo, hi = (-2**31, 2**31 - 1) if tgt == T_INT else (-2**63 + 1024, 2**63 - 1024)
            if not float_castable(int(v[1:], 16), lo, hi):
                v = fbits(0x4045000000000000)
        if idx < 0:
            sh.append_elem(p, kt[k])
        elif tgt == T_NONE:
            n.kids[idx].ty = kt[k]
        return "eset %s %s %d %s" % (k, path_str(p), idx, v)
    if cmd == "rm":
        p, n = pick(lambda n: n.ty == T_GROUP and n.kids)
        pa = rel_paths(rng, n)
        if pa is None:
            return None
        sh.rm_path(p, pa)
        return "rm %s %s" % (path_str(p), hx(pa))
    if cmd == "add":
        p, n = pick(lambda n: n.ty in (T_ARRAY, T_LIST))
        ty = rng.choice(SCALARS + AGGS)
        sh.add(p, None, ty)
        return "add %s - %d" % (path_str(p), ty)
    return None


def random_history(rng, nops, opts=None, dump_every=1, hooks=False, crossing=False, focus=None, paths=False):
    """One history as script text.  Starts with 'init'."""
    sh = Shadow()
    out = ["init"]
    auto = False
    if opts is None:
        opts = rng.choice([0x16, 0x96, 0x17, 0x97, 0, 0x80, 0x81])
    out.append("options %d" % opts)
    sh.overrides = bool(opts & 0x80)
    auto = bool(opts & 1)
    if hooks:
        out.append("dtor 1")
    hook_id = [100]

    def pick(pred=lambda n: True):
        c = [(p, n) for p, n in sh.nodes() if pred(n)]
        return rng.choice(c) if c else ([], sh.root)

    for _ in range(nops):
        r = rng.random()
        if focus and rng.random() < 0.35:
            op = focus_op(rng, sh, rng.choice(focus), auto, pick)
            if op:
                out.append(op)
                if op.startswith("rm "):
                    # keep the shadow usable: structural removal by path is not mirrored, so rebuild lazily
                    pass
                out.append("dump")
                continue
        if paths and r < 0.12:
            p, n = pick(lambda n: n.ty == T_GROUP and n.kids)
            pa = rel_paths(rng, n)
            if pa is not None:
                if rng.random() < 0.5:
                    out.append("look %s %s" % (path_str(p), hx(pa)))
                    continue
        if crossing and r < 0.45:
            # grow one aggregate across the 16/32 boundaries, then shrink it back
            p, n = pick(lambda n: n.ty in AGGS)
            if n.ty == T_GROUP:
                base = len(n.kids)
                nm = b"m%d" % rng.randint(0, 40)
                out.append("add %s %s %d" % (path_str(p), hx(nm), rng.choice(SCALARS + AGGS)))
                sh.add(p, nm, T_INT)
            else:
                out.append("eset i %s -1 %d" % (path_str(p), rng.randint(0, 99)))
                sh.append_elem(p, T_INT)
        elif r < 0.28:
            p, n = pick(lambda n: n.ty in AGGS) if rng.random() < 0.9 else pick()
            if rng.random() < 0.85:
                name = rng.choice(VALID_NAMES)
            else:
                name = rng.choice(INVALID_NAMES)
            ty = rng.choice([T_GROUP, T_INT, T_INT64, T_FLOAT, T_STRING, T_BOOL, T_ARRAY, T_LIST, T_NONE,
                             T_GROUP, T_LIST, T_ARRAY, T_INT]) if rng.random() < 0.95 else rng.choice([-1, 9, 100])
            ns = "-" if (n.ty in (T_ARRAY, T_LIST) and rng.random() < 0.7) else hx(name)
            if ns == "-" and n.ty == T_GROUP:
                ns = hx(name)   # NULL name in a group is out of contract
            out.append("add %s %s %d" % (path_str(p), ns, ty))
            sh.add(p, None if ns == "-" else name, ty)
        elif r < 0.36:
            p, n = pick(lambda n: n.ty == T_GROUP) if rng.random() < 0.9 else pick()
            if n.kids and rng.random() < 0.8:
                k = rng.choice(n.kids)
                nm = k.name if k.name is not None else b"zz"
            else:
                nm = rng.choice(VALID_NAMES + INVALID_NAMES)
            pa = rel_paths(rng, n) if (paths and n.ty == T_GROUP and rng.random() < 0.5) else None
            if pa is not None:
                out.append("rm %s %s" % (path_str(p), hx(pa)))
                sh.rm_path(p, pa)
            else:
                out.append("rm %s %s" % (path_str(p), hx(nm)))
                sh.rm_name(p, nm)
        elif r < 0.44:
            p, n = pick(lambda n: n.ty in AGGS) if rng.random() < 0.9 else pick()
            L = len(n.kids)
            idx = rng.choice([0, L - 1, L // 2, L, L + 1, -1, 2**32 - 1] if L else [0, 1, -1])
            out.append("rmi %s %d" % (path_str(p), idx))
            sh.rm_idx(p, idx if idx >= 0 else 2**32 + idx)
        elif r < 0.62:
            p, n = pick(lambda n: n.ty in SCALARS or n.ty == T_NONE) if rng.random() < 0.9 else pick()
            k = KIND.get(n.ty, rng.choice(KINDS)) if rng.random() < 0.7 else rng.choice(KINDS)
            v = rand_value(rng, k)
            if k == "f" and auto and n.ty in (T_INT, T_INT64):
                lo, hi = (-2**31, 2**31 - 1) if n.ty == T_INT else (-2**63 + 1024, 2**63 - 1024)
                if not float_castable(int(v[1:], 16), lo, hi):
                    v = fbits(0x4045000000000000)
            out.append("set %s %s %s" % (k, path_str(p), v))
            sh.set_type_if_none(p, {"i": T_INT, "l": T_INT64, "f": T_FLOAT, "b": T_BOOL, "s": T_STRING}[k])
        elif r < 0.74:
            p, n = pick(lambda n: n.ty in (T_ARRAY, T_LIST)) if rng.random() < 0.9 else pick()
            L = len(n.kids)
            if n.kids and n.ty == T_ARRAY and rng.random() < 0.75:
                k = KIND.get(n.kids[0].ty, "i")
            else:
                k = rng.choice(KINDS)
            idx = rng.choice([-1, -1, -1, 0, L - 1, L, L + 3, -2, -7, -2**31]) if L else rng.choice([-1, -1, 0, 1, -3])
            v = rand_value(rng, k)
            tgt = n.kids[idx].ty if 0 <= idx < L else None
            if k == "f" and auto and tgt in (T_INT, T_INT64):
                lo, hi = (-2**31, 2**31 - 1) if tgt == T_INT else (-2**63 + 1024, 2**63 - 1024)
                if not float_castable(int(v[1:], 16), lo, hi):
                    v = fbits(0x4045000000000000)
            out.append("eset %s %s %d %s" % (k, path_str(p), idx, v))
            if idx < 0:
                sh.append_elem(p, {"i": T_INT, "l": T_INT64, "f": T_FLOAT, "b": T_BOOL, "s": T_STRING}[k])
            elif tgt == T_NONE:
                n.kids[idx].ty = {"i": T_INT, "l": T_INT64, "f": T_FLOAT, "b": T_BOOL, "s": T_STRING}[k]
        elif r < 0.78:
            p, n = pick()
            out.append("setfmt %s %d" % (path_str(p), rng.choice([0, 1, 1, 2, 65535, 65536, 65537])))
        elif r < 0.80:
            which = rng.random()
            if which < 0.3:
                out.append("tab %d" % rng.choice([0, 1, 2, 8, 15, 16, 17, 65535, 65536 + 3]))
            elif which < 0.5:
                out.append("prec %d" % rng.choice([0, 1, 6, 15, 16, 65535]))
            elif which < 0.65:
                out.append("deffmt %d" % rng.choice([0, 1]))
            elif which < 0.85:
                bit = rng.choice([1, 2, 4, 8, 16, 32, 64, 128])
                fl = rng.choice([0, 1])
                out.append("option %d %d" % (bit, fl))
                if bit == 128:
                    sh.overrides = bool(fl)
                if bit == 1:
                    auto = bool(fl)
            else:
                out.append("incdir %s" % hx(rng.choice([b"inc", b"/abs/dir", b""])))
        elif r < 0.81:
            out.append("clear")
            sh.root = Node(T_GROUP)
        elif hooks and r < 0.88:
            p, n = pick()
            hook_id[0] += 1
            out.append("hook %s %s" % (path_str(p), "-" if rng.random() < 0.1 else str(hook_id[0])))
        else:
            # queries (no state change)
            p, n = pick()
            q = rng.random()
            if q < 0.2:
                out.append("get %s %s" % (rng.choice(KINDS) if rng.random() < 0.5 else KIND.get(n.ty, "i"), path_str(p)))
                if out[-1].startswith("get i") or out[-1].startswith("get l"):
                    # (int)double must stay defined: only on non-float or with autoconvert off
                    if n.ty == T_FLOAT and auto:
                        out.pop()
                        out.append("get f %s" % path_str(p))
            elif q < 0.35:
                L = len(n.kids)
                k = rng.choice(KINDS)
                idx = rng.choice([0, L - 1, L, -1, 2**31 - 1])
                tgt = n.kids[idx].ty if 0 <= idx < L else None
                if k in "il" and tgt == T_FLOAT and auto:
                    k = "f"
                out.append("eget %s %s %d" % (k, path_str(p), idx))
            elif q < 0.5:
                nm = rng.choice([k.name for k in n.kids if k.name] or VALID_NAMES)
                k = rng.choice(KINDS)
                m = next((kk for kk in n.kids if kk.name == nm), None)
                if k in "il" and m is not None and m.ty == T_FLOAT and auto:
                    k = "f"
                out.append("mlook %s %s %s" % (k, path_str(p), hx(nm)))
            elif q < 0.6:
                out.append("member %s %s" % (path_str(p), hx(rng.choice([k.name for k in n.kids if k.name] or VALID_NAMES))))
            elif q < 0.7:
                L = len(n.kids)
                out.append("elem %s %d" % (path_str(p), rng.choice([0, L - 1, L, 2**32 - 1, 2**32])))
            elif q < 0.78:
                out.append("len %s" % path_str(p))
            elif q < 0.84:
                out.append("idx %s" % path_str(p))
            elif q < 0.88:
                out.append("name %s" % path_str(p))
            elif q < 0.92:
                out.append("kind %s" % path_str(p))
            elif q < 0.95:
                out.append("getfmt %s" % path_str(p))
            elif q < 0.97:
                out.append("parent %s" % path_str(p))
            else:
                out.append("isroot %s" % path_str(p))
            continue
        if dump_every and (len(out) % dump_every == 0):
            out.append("dump")
    out.append("dump")
    return "\n".join(out) + "\n"


# ---- exhaustive layer: every history over a small alphabet on a seed tree ----
SEED_TREE = ["init", "add . %s 1" % hx(b"g"), "add . %s 7" % hx(b"a"), "add . %s 8" % hx(b"l"),
             "add 0 %s 2" % hx(b"x")]

ALPHABET = [
    "add . %s 2" % hx(b"x"),
    "add 0 %s 5" % hx(b"x"),
    "add 0 %s 1" % hx(b"y"),
    "add 1 - 2",
    "add 1 - 5",
    "add 2 - 8",
    "eset i 1 -1 7",
    "eset s 1 -1 %s" % hx(b"s"),
    "eset f 2 -1 x3ff8000000000000",
    "rm . %s" % hx(b"g"),
    "rm 0 %s" % hx(b"x"),
    "rmi 1 0",
    "rmi . 1",
    "set l 0/0 4294967296",
    "set i 0/0 5",
    "clear",
]


def exhaustive_histories(depth, with_overrides):
    pre = list(SEED_TREE)
    if with_overrides:
        pre.insert(1, "option 128 1")
    for combo in itertools.product(range(len(ALPHABET)), repeat=depth):
        body = pre + ["dump"]
        for i in combo:
            body.append(ALPHABET[i])
            body.append("dump")
        yield "\n".join(body) + "\n"


# ---- random trees built without failing calls (C06, C16, C01, C19) ----
def gen_tree(rng, max_depth=4, max_fan=5, big=False):
    """A random well-formed tree as Shadow Nodes with values in .val (script token)."""
    names = list(VALID_NAMES)

    def mk(ty, name, depth):
        n = Node(ty, name)
        n.val = None
        if ty in SCALARS:
            n.val = rand_value(rng, KIND[ty])
            if n.val == "-":
                n.val = hx(b"")
            return n
        fan = rng.randint(0, max_fan) if depth < max_depth else 0
        if big and depth == 1 and rng.random() < 0.3:
            fan = rng.choice([15, 16, 17, 31, 33])
        if ty == T_GROUP:
            nm = rng.sample(names, min(fan, len(names)))
            for x in nm:
                n.kids.append(mk(rng.choice(SCALARS + AGGS), x, depth + 1))
        elif ty == T_ARRAY:
            et = rng.choice(SCALARS)
            for _ in range(fan):
                n.kids.append(mk(et, None, depth + 1))
        else:
            for _ in range(fan):
                n.kids.append(mk(rng.choice(SCALARS + AGGS), None, depth + 1))
        return n
    root = mk(T_GROUP, None, 0)
    return root


def tree_script(root):
    """add/set calls that build the tree (depth first); no call fails"""
    out = []

    def rec(n, p):
        for i, k in enumerate(n.kids):
            out.append("add %s %s %d" % (path_str(p), hx(k.name) if k.name is not None else "-", k.ty))
            if k.ty in SCALARS:
                out.append("set %s %s %s" % (KIND[k.ty], path_str(p + [i]), k.val))
            rec(k, p + [i])
    rec(root, [])
    return out


def all_nodes(root):
    res = []

    def rec(n, p):
        res.append((p, n))
        for i, k in enumerate(n.kids):
            rec(k, p + [i])
    rec(root, [])
    return res


def spell(rng, base, rel):
    """a random documented spelling of the index path rel below node base"""
    out = b""
    cur = base
    for j, i in enumerate(rel):
        k = cur.kids[i]
        if j > 0 or rng.random() < 0.3:
            out += rng.choice(SEPS)
        if k.name is not None and rng.random() < 0.8:
            out += k.name
        else:
            out += b"[" + (b"0" * rng.choice([0, 0, 0, 1, 3])) + b"%d" % i + b"]"
        cur = k
    return out


def corrupt_paths(rng, base, rel):
    """paths that must resolve to nothing (documented syntax, naming something that does not exist)"""
    res = []
    cur = base
    pre = b""
    for j, i in enumerate(rel):
        k = cur.kids[i]
        sep = rng.choice(SEPS) if j > 0 else b""
        L = len(cur.kids)
        if cur.ty == T_GROUP:
            res.append(pre + sep + b"nosuch")
            if k.name is not None:
                res.append(pre + sep + k.name + b"x")          # extension of a sibling name
                if len(k.name) > 1:
                    res.append(pre + sep + k.name[:-1])       # prefix of a name (may exist: filtered by the oracle)
        for big in (L, L + 1, 2**31, 2**32, 2**32 + i, 2**32 + L - 1 if L else 2**32, 2**63, 2**64 + i, 10**25):
            res.append(pre + sep + b"[%d]" % big)
        # negative indices, among them those that an unsigned conversion maps back onto an existing element
        for neg in (-1, -(2**32 - i), -(2**64 - i), -(2**64 - (L - 1 if L else 0)), -(2**63), -(i + 1)):
            if neg < 0:
                res.append(pre + sep + b"[%d]" % neg)
        comp = k.name if (k.name is not None) else b"[%d]" % i
        pre = pre + sep + comp
        cur = k
    # an empty component: the valid spelling with one separator doubled (a member with an empty name cannot exist)
    comps = []
    c2 = base
    for i in rel:
        k = c2.kids[i]
        comps.append(k.name if (k.name is not None and c2.ty == T_GROUP) else b"[%d]" % i)
        c2 = k
    for cut in range(len(comps) + 1):
        if cut == 0:
            dbl = rng.choice(SEPS) + rng.choice(SEPS) + rng.choice(SEPS).join(comps)
        elif cut == len(comps):
            continue
        else:
            dbl = rng.choice(SEPS).join(comps[:cut]) + rng.choice(SEPS) + rng.choice(SEPS) + rng.choice(SEPS).join(comps[cut:])
        res.insert(rng.randrange(len(res) + 1), dbl)
    if cur.ty in SCALARS:
        res.append(pre + b".x")
        res.append(pre + b".[0]")
        res.append(pre + b"/[0]/y")
    return res
