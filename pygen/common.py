"""common.py — shared machinery of the checks: build steps, running model and implementation on
operation scripts, diffing transcripts, evidence files, known findings."""
import hashlib, json, os, re, subprocess, sys, time, random, shutil, tempfile
from concurrent.futures import ThreadPoolExecutor

VERIF = os.path.dirname(os.path.dirname(os.path.abspath(__file__)))
REPO = os.environ.get("REPO", "/repo")
COQ = os.path.join(VERIF, "coq")
BUILD = os.path.join(VERIF, "build")
NPROC = int(os.environ.get("VERIF_JOBS", "16"))

FORBIDDEN = re.compile(
    r"\b(Admitted|admit|Axiom|Axioms|Parameter|Parameters|Conjecture|Conjectures|Abort All|"
    r"Unset\s+Guard\s+Checking|Unset\s+Positivity\s+Checking|Unset\s+Universe\s+Checking|"
    r"bypass_check|Admit\s+Obligations|native_compute|type-in-type|impredicative-set)\b")

ALLOWED_AXIOMS = set()   # target: every property theorem is closed under the global context


def sh(cmd, timeout=None, cwd=None, env=None, input=None):
    e = dict(os.environ)
    if env:
        e.update(env)
    p = subprocess.run(cmd, shell=isinstance(cmd, str), cwd=cwd, env=e, input=input,
                       stdout=subprocess.PIPE, stderr=subprocess.STDOUT, timeout=timeout)
    return p.returncode, p.stdout.decode("utf-8", "replace")


# ------------------------------------------------------------------------------------------
# build steps

def regen():
    """Run the translators: /repo sources -> coq/gen/*.v (rewritten only when changed)."""
    msgs = []
    ok = True
    enabled = os.path.join(VERIF, "tools", "TRANSLATORS")
    tools = open(enabled).read().split() if os.path.exists(enabled) else []
    for tool in tools:
        path = os.path.join(VERIF, "tools", tool)
        rc, out = sh([sys.executable, path], timeout=300)
        if rc != 0:
            ok = False
        msgs.append("%s: rc=%d %s" % (tool, rc, out.strip()[-2000:]))
    return ok, "\n".join(msgs)


def coq_sources():
    res = []
    for root, _, files in os.walk(COQ):
        for f in files:
            if f.endswith(".v"):
                res.append(os.path.join(root, f))
    return sorted(res)


def grep_forbidden():
    bad = []
    for f in coq_sources():
        txt = open(f, encoding="utf-8", errors="replace").read()
        # strip comments (non-nested is enough for our sources; nested handled by loop)
        prev = None
        while prev != txt:
            prev = txt
            txt = re.sub(r"\(\*[^()]*?\*\)", " ", txt, flags=re.S)
        txt = re.sub(r'"[^"]*"', '""', txt)
        for m in FORBIDDEN.finditer(txt):
            bad.append("%s: %s" % (os.path.relpath(f, VERIF), m.group(0)))
    return bad


def coq_make(targets, timeout=3000):
    """make the given .vo targets (full .vo build).  Returns (ok, log)."""
    if not os.path.exists(os.path.join(COQ, "Makefile")) or \
       os.path.getmtime(os.path.join(COQ, "Makefile")) < os.path.getmtime(os.path.join(COQ, "_CoqProject")):
        rc, out = sh("coq_makefile -f _CoqProject -o Makefile", cwd=COQ, timeout=120)
        if rc != 0:
            return False, out
    cmd = ["make", "-k", "-j%d" % NPROC] + list(targets)
    rc, out = sh(cmd, cwd=COQ, timeout=timeout, env={"TIMED": "", "COQC": "timeout 1500 coqc"})
    return rc == 0, out


def theorem_names(vfile):
    txt = open(os.path.join(COQ, vfile)).read()
    return re.findall(r"^\s*(?:Theorem|Corollary)\s+([A-Za-z0-9_']+)", txt, flags=re.M)


def print_assumptions(module, names):
    """Returns {theorem: [axioms...]} ([] = closed under the global context), or None on failure."""
    d = os.path.join(BUILD, "assum")
    os.makedirs(d, exist_ok=True)
    f = os.path.join(d, "Assum_%s.v" % module)
    with open(f, "w") as fh:
        fh.write("From LC Require Import %s.\n" % module)
        for n in names:
            fh.write('Goal True. idtac "@@BEGIN %s". Abort.\nPrint Assumptions %s.\n' % (n, n))
        fh.write('Goal True. idtac "@@END". Abort.\n')
    rc, out = sh(["timeout", "600", "coqc", "-Q", COQ, "LC", f], cwd=d, timeout=700)
    if rc != 0:
        return None, out
    res = {}
    cur = None
    buf = []
    for line in out.splitlines():
        m = re.match(r"@@BEGIN (\S+)", line)
        if m or line.startswith("@@END"):
            if cur is not None:
                txt = "\n".join(buf)
                if "Closed under the global context" in txt:
                    res[cur] = []
                else:
                    res[cur] = re.findall(r"^([A-Za-z0-9_.']+)\s*:", txt, flags=re.M)
            cur = m.group(1) if m else None
            buf = []
        else:
            buf.append(line)
    return res, out


def build_model():
    """Compile the extracted model + driver.  Returns path of the binary or raises."""
    ml = os.path.join(COQ, "model.ml")
    mli = os.path.join(COQ, "model.mli")
    drv = os.path.join(VERIF, "harness", "model_driver.ml")
    h = hashlib.sha256()
    for f in (ml, mli, drv):
        h.update(open(f, "rb").read())
    d = os.path.join(BUILD, "model", h.hexdigest()[:16])
    exe = os.path.join(d, "model_driver")
    if not os.path.exists(exe):
        os.makedirs(d, exist_ok=True)
        for f in (ml, mli, drv):
            shutil.copy(f, d)
        rc, out = sh("ocamlfind ocamlopt -w -a model.mli model.ml model_driver.ml -o model_driver.tmp "
                     "&& mv model_driver.tmp model_driver", cwd=d, timeout=600)
        if not os.path.exists(exe):
            raise RuntimeError("model build failed: " + out[-3000:])
        # prune old builds
        base = os.path.join(BUILD, "model")
        ds = sorted((os.path.join(base, x) for x in os.listdir(base)), key=os.path.getmtime, reverse=True)
        for old in ds[6:]:
            shutil.rmtree(old, ignore_errors=True)
    return exe


def build_harness(variant="asan"):
    rc, out = sh([os.path.join(VERIF, "tools", "build_harness.sh"), variant], timeout=600,
                 env={"REPO": REPO})
    if rc != 0:
        return None, out
    return out.strip().splitlines()[-1], out


# ------------------------------------------------------------------------------------------
# running scripts

ASAN_ENV = {"LOCPATH": os.path.join(VERIF, "build", "locale"),
            "ASAN_OPTIONS": "detect_leaks=1:abort_on_error=0:exitcode=97:allocator_may_return_null=1",
            "UBSAN_OPTIONS": "print_stacktrace=1:halt_on_error=1:exitcode=98",
            "LSAN_OPTIONS": "exitcode=96:print_suppressions=0:suppressions=" + os.path.join(VERIF, "tools", "lsan.supp")}


class Runner:
    def __init__(self, model_exe, impl_exe, tag):
        self.model_exe = model_exe
        self.impl_exe = impl_exe
        self.root = tempfile.mkdtemp(prefix="run_%s_" % tag, dir=os.path.join(BUILD, "run"))
        self.n = 0

    def close(self):
        shutil.rmtree(self.root, ignore_errors=True)

    def workdir(self):
        self.n += 1
        d = os.path.join(self.root, "w%d" % self.n)
        os.makedirs(d)
        return d

    def run_model(self, script, timeout=300):
        def big_stack():
            import resource
            try:
                resource.setrlimit(resource.RLIMIT_STACK, (resource.RLIM_INFINITY, resource.RLIM_INFINITY))
            except Exception:
                pass
        p = subprocess.run([self.model_exe], input=script.encode("latin-1"), stdout=subprocess.PIPE,
                           stderr=subprocess.PIPE, timeout=timeout, preexec_fn=big_stack)
        if p.returncode != 0:
            return p.stdout.decode("latin-1") + "\nMODEL-FAILED rc=%d %s\n" % (
                p.returncode, p.stderr.decode("latin-1", "replace")[-500:])
        return p.stdout.decode("latin-1")

    def run_impl(self, script, wd=None, timeout=120, env=None):
        """Returns (transcript, status) where status is 'ok' or 'exit=<n>' / 'signal=<n>' / 'HANG'
        and stderr text (sanitizer reports)."""
        own = wd is None
        if own:
            wd = self.workdir()
        sf = os.path.join(wd, ".script")
        with open(sf, "w", encoding="latin-1") as fh:
            fh.write(script)
        e = dict(os.environ)
        e.update(ASAN_ENV)
        if env:
            e.update(env)
        try:
            p = subprocess.run([self.impl_exe, sf, wd], stdout=subprocess.PIPE, stderr=subprocess.PIPE,
                               timeout=timeout, env=e)
            rc = p.returncode
            status = "ok" if rc == 0 else ("signal=%d" % -rc if rc < 0 else "exit=%d" % rc)
            out, err = p.stdout.decode("latin-1"), p.stderr.decode("latin-1", "replace")
        except subprocess.TimeoutExpired as ex:
            status = "HANG"
            out = (ex.stdout or b"").decode("latin-1")
            err = ""
        if own:
            shutil.rmtree(wd, ignore_errors=True)
        return out, status, err


def split_cases(transcript):
    """Split a multi-case transcript at 'C <id>' lines -> {id: [lines]}"""
    cases = {}
    cur = None
    for line in transcript.splitlines():
        if line.startswith("C "):
            cur = line[2:].strip()
            cases[cur] = []
        elif cur is not None:
            cases[cur].append(line)
    return cases


def canon(lines, keep=None, drop_prefixes=()):
    """Scope filter.  [keep] may be a predicate (line -> bool) or a transformer (line -> str|None)."""
    res = []
    for l in lines:
        if l.startswith("S "):
            continue
        if any(l.startswith(p) for p in drop_prefixes):
            continue
        if keep is not None:
            k = keep(l)
            if k is False or k is None:
                continue
            if isinstance(k, str):
                l = k
        res.append(l)
    return res


def first_diff(a, b):
    for i in range(max(len(a), len(b))):
        x = a[i] if i < len(a) else "<missing>"
        y = b[i] if i < len(b) else "<missing>"
        if x != y:
            return i, x, y
    return None


def compare(ml, il, status, line_filter, drop_prefixes):
    """Model vs implementation lines.  Returns None when they agree.  The model's final 'R crash'
    means: the process dies during that operation.  A model line 'R unspec' (a C cast outside its
    defined domain) ends the comparison of that case: the state may legitimately diverge."""
    a0 = [l for l in ml if not l.startswith("S ")]
    b0 = [l for l in il if not l.startswith("S ")]
    if "R unspec" in a0:
        k = a0.index("R unspec")
        a0, b0 = a0[:k], b0[:k]
        status = "ok"
    a = canon(a0, line_filter, drop_prefixes)
    b = canon(b0, line_filter, drop_prefixes)
    if a and a[-1] == "R crash":
        if status != "ok" and b == a[:-1]:
            return None
        if status == "ok":
            d = first_diff(a, b)
            return d if d is not None else (len(a) - 1, "R crash", "<no crash>")
    d = first_diff(a, b)
    if d is None and status != "ok":
        return (len(b), "<model continues>", "<process status %s>" % status)
    return d


def run_batch(runner, cases, drop_prefixes=(), per_proc=40, line_filter=None, impl_env=None):
    """cases: list of (id, script-body).  Bodies are concatenated per process behind 'case <id>' lines.
    Returns list of dict(id, script, model, impl, diff, status, stderr, sbad)."""
    chunks = [cases[i:i + per_proc] for i in range(0, len(cases), per_proc)]

    def work(chunk):
        script = "".join("case %s\n%s" % (cid, body if body.endswith("\n") else body + "\n")
                         for cid, body in chunk)
        m = runner.run_model(script)
        o, status, err = runner.run_impl(script, env=impl_env)
        mc, oc = split_cases(m), split_cases(o)
        res = []
        for cid, body in chunk:
            ml = mc.get(str(cid), ["<no model output>"])
            il = oc.get(str(cid), ["<no impl output>"])
            sbad = [l for l in il if l.startswith("S ") and "BAD" in l]
            res.append(dict(id=cid, script=body, model=ml, impl=il,
                            diff=compare(ml, il, status if len(chunk) == 1 else "ok", line_filter, drop_prefixes),
                            status=status, stderr=err, sbad=sbad))
        return res

    out = []
    with ThreadPoolExecutor(max_workers=NPROC) as ex:
        for r in ex.map(work, chunks):
            out.extend(r)
    return out


def run_single(runner, body, drop_prefixes=(), line_filter=None, impl_env=None, wd=None):
    script = "case 0\n" + (body if body.endswith("\n") else body + "\n")
    m = runner.run_model(script)
    o, status, err = runner.run_impl(script, env=impl_env, wd=wd)
    ml = split_cases(m).get("0", [])
    il = split_cases(o).get("0", [])
    sbad = [l for l in il if l.startswith("S ") and "BAD" in l]
    return dict(id=0, script=body, model=ml, impl=il,
                diff=compare(ml, il, status, line_filter, drop_prefixes), status=status,
                stderr=err, sbad=sbad)


def shrink_script(body, still_fails, max_steps=400):
    """Delta-debug the script lines (keeps the first line, normally 'init')."""
    lines = [l for l in body.splitlines() if l]
    n = 2
    steps = 0
    while len(lines) > 1 and steps < max_steps:
        chunk = max(1, len(lines) // n)
        removed = False
        i = 1
        while i < len(lines) and steps < max_steps:
            cand = lines[:i] + lines[i + chunk:]
            steps += 1
            if len(cand) < len(lines) and still_fails("\n".join(cand) + "\n"):
                lines = cand
                removed = True
            else:
                i += chunk
        if not removed:
            if chunk == 1:
                break
            n = min(len(lines), n * 2)
    return "\n".join(lines) + "\n"


# ------------------------------------------------------------------------------------------
# known findings / evidence

def load_findings():
    p = os.path.join(VERIF, "known_findings.json")
    if not os.path.exists(p):
        return {"findings": [], "fixed": []}
    return json.load(open(p))


def hx(b):
    if isinstance(b, str):
        b = b.encode("latin-1")
    return "h" + b.hex()


def unhx(s):
    if s == "-":
        return None
    return bytes.fromhex(s[1:])


def script_hash(body, trivial=("dump",)):
    lines = [l for l in body.splitlines() if l and l.split(" ")[0] not in trivial]
    return hashlib.sha1("\n".join(lines).encode("latin-1")).hexdigest()


def write_evidence(pid, tier, seed, coverage, wall, violations, assumptions):
    ev = {"property_id": pid, "tier": tier, "seed": seed, "level": "proof", "coverage": coverage,
          "assumptions": assumptions, "wall_s": round(wall, 2), "violations": violations}
    os.makedirs(os.path.join(VERIF, "evidence"), exist_ok=True)
    with open(os.path.join(VERIF, "evidence", "%s.json" % pid), "w") as fh:
        json.dump(ev, fh, indent=1)
        fh.write("\n")


def write_replay(pid, name, content):
    d = os.path.join(VERIF, "build", "replay")
    os.makedirs(d, exist_ok=True)
    p = os.path.join(d, "%s_%s.txt" % (pid, name))
    with open(p, "w", encoding="latin-1") as fh:
        fh.write(content)
    return p
