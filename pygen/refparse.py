"""refparse.py -- an independent reference for C02: the documented grammar and what a text denotes, written
directly from the manual (recursive descent over the documented tokens of speclex.py).  Used only as the
model-free oracle.  Result: ("ok", tree) | ("err", message, line) | ("skip", why)
tree node = dict(name, ty, fmt, val, line, kids)"""
import speclex

T_GROUP, T_INT, T_INT64, T_FLOAT, T_STRING, T_BOOL, T_ARRAY, T_LIST = 1, 2, 3, 4, 5, 6, 7, 8


class Err(Exception):
    def __init__(self, msg, line):
        self.msg, self.line = msg, line


def parse(text, overrides=False):
    raw = speclex.tokens(text)
    toks = []
    for t in raw:
        if t.startswith("INCLUDE"):
            return ("skip", "include")
        if t.startswith("K "):
            f = t.split(" ")
            toks.append((f[1], int(f[2])))
    if not toks or toks[-1][0] not in ("Z", "E"):
        return ("skip", "no end")
    pos = [0]

    def peek():
        return toks[pos[0]]

    def nxt():
        t = toks[pos[0]]
        pos[0] += 1
        return t

    def syntax(t):
        raise Err("syntax error", t[1])

    def scalar(t):
        k = t[0]
        if k[0] == "b":
            return (T_BOOL, 0, k)
        if k[0] == "i":
            return (T_INT, 0, k)
        if k[0] == "l":
            return (T_INT64, 0, k)
        if k[0] == "x":
            return (T_INT, 1, "i" + k[1:])
        if k[0] == "X":
            return (T_INT64, 1, "l" + k[1:])
        if k[0] == "f":
            return (T_FLOAT, 0, k)
        return None

    def value(simple):
        t = peek()
        k = t[0]
        if k.startswith("sh"):
            s = b""
            while peek()[0].startswith("sh"):
                s += bytes.fromhex(nxt()[0][2:])
            return dict(ty=T_STRING, fmt=0, val="sh" + s.hex(), kids=[], line=t[1], strline=t[1])
        sc = scalar(t)
        if sc is not None:
            nxt()
            return dict(ty=sc[0], fmt=sc[1], val=sc[2], kids=[], line=t[1])
        if simple:
            syntax(t)
        if k == "p[":
            nxt()
            kids = elems(True, "p]")
            return dict(ty=T_ARRAY, fmt=0, val="a%d" % len(kids), kids=kids, line=t[1])
        if k == "p(":
            nxt()
            kids = elems(False, "p)")
            return dict(ty=T_LIST, fmt=0, val="a%d" % len(kids), kids=kids, line=t[1])
        if k == "p{":
            nxt()
            kids = settings()
            c = nxt()
            if c[0] != "p}":
                syntax(c)
            return dict(ty=T_GROUP, fmt=0, val="a%d" % len(kids), kids=kids, line=t[1])
        syntax(t)

    def starts_value(t, simple):
        k = t[0]
        return k.startswith("sh") or scalar(t) is not None or (not simple and k in ("p[", "p(", "p{"))

    def elems(simple, close):
        kids = []
        first = True
        while True:
            t = peek()
            if t[0] == close:
                nxt()
                return kids
            if first:
                if not starts_value(t, simple):
                    syntax(t)
                v = value(simple)
                if simple and kids and kids[0]["ty"] != v["ty"]:
                    raise Err("mismatched element type in array", v["line"])
                v["name"] = "-"
                kids.append(v)
                first = False
            else:
                if t[0] != "p,":
                    syntax(t)
                nxt()
                t2 = peek()
                if starts_value(t2, simple):
                    v = value(simple)
                    if simple and kids and kids[0]["ty"] != v["ty"]:
                        raise Err("mismatched element type in array", v["line"])
                    v["name"] = "-"
                    kids.append(v)

    def settings():
        kids = []
        while True:
            t = peek()
            if not t[0].startswith("nh"):
                return kids
            nxt()
            name = t[0][1:]
            dup = [i for i, k in enumerate(kids) if k["name"] == name]
            if dup:
                if not overrides:
                    raise Err("duplicate setting name", t[1])
                del kids[dup[0]]
            e = nxt()
            if e[0] != "p=":
                syntax(e)
            v = value(False)
            v["name"] = name
            v["line"] = t[1]
            kids.append(v)
            if peek()[0] in ("p;", "p,"):
                nxt()

    try:
        kids = settings()
        t = nxt()
        if t[0] != "Z":
            syntax(t)
        return ("ok", dict(name="-", ty=T_GROUP, fmt=0, val="a%d" % len(kids), kids=kids, line=0))
    except Err as e:
        return ("err", e.msg, e.line)


def sig(n, with_line=True):
    """comparable with props.TNode trees: (name, ty, fmt, val, line-if-named, kids)"""
    return (n["name"], n["ty"], n["fmt"], n["val"], n["line"] if (with_line and n["name"] != "-") else None,
            tuple(sig(k, with_line) for k in n["kids"]))
