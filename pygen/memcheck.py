"""memcheck.py — correspondence for the capacity arithmetic of lib/strbuf.c, lib/strvec.c and the element vectors of
lib/libconfig.c: MemModel.v (extracted, `#mem` scripts of the model driver) against harness/memdrv.c (built from /repo's
sources with ASan/UBSan, realloc observed with --wrap), op by op, plus a model-free rule on the implementation's own
numbers (what MemFacts.v proves of the model): every length stays inside what was last requested."""
import os, subprocess, random
from common import ASAN_ENV

BLOCK = 64
SV_CHUNK = 32
LS_CHUNK = 16


def scripts(rng, nrandom):
    cases = []
    # strbuf: every length around the block boundaries, appended to every fill level around them
    for base in (0, 1, 62, 63, 64, 65, 126, 127, 128, 191, 192):
        for add in (0, 1, 2, 62, 63, 64, 65, 127, 128, 129, 1000):
            cases.append(["ss %d" % base, "ss %d" % add, "sc", "sc", "sr", "sc", "ss %d" % add])
    cases.append(["sc"] * 200 + ["sr"] + ["ss 63", "sc", "ss 64", "sr", "sr", "ss 0", "sc"])
    # strvec: across the chunk boundaries, release in between
    cases.append(["va"] * 31 + ["vr"] + ["va"] * 33 + ["vr", "vr"] + ["va"] * 65 + ["vr"])
    cases.append(["vr", "va", "vr"] + ["va"] * 32 + ["va", "vr"])
    # element vectors: grow across 16/32/48, shrink back over the boundaries, grow again; removals at both ends and inside
    for n, down in ((17, 16), (33, 16), (34, 1), (49, 31), (16, 15), (32, 0)):
        ops = ["la"] * n
        cur = n
        k = 0
        while cur > down:
            idx = [0, cur - 1, cur // 2][k % 3]
            ops.append("lr %d" % idx)
            cur -= 1
            k += 1
        ops += ["la"] * 20
        cases.append(ops)
    # random mixes
    for _ in range(nrandom):
        ops = []
        ln = 0
        for _ in range(rng.randint(20, 300)):
            r = rng.random()
            if r < 0.25:
                ops.append("ss %d" % rng.choice([0, 1, 5, 30, 63, 64, 65, 100, 127, 128, 500]))
            elif r < 0.4:
                ops.append("sc")
            elif r < 0.45:
                ops.append("sr")
            elif r < 0.6:
                ops.append("va")
            elif r < 0.63:
                ops.append("vr")
            elif r < 0.85 or ln == 0:
                ops.append("la")
                ln += 1
            else:
                ops.append("lr %d" % rng.choice([0, ln - 1, rng.randrange(ln)]))
                ln -= 1
        cases.append(ops)
    return cases


def impl_rule(ops, lines):
    """what must hold of the implementation's own numbers, whatever the model says"""
    bad = []
    sb_alloc = sv_alloc = 0
    for op, l in zip(ops, lines):
        f = l.split(" ")
        if f[0] != "M" or len(f) != 4 or not all(x.isdigit() for x in f[1:]):
            bad.append("'%s' answered %r" % (op, l))
            break
        ln, cap, req = int(f[1]), int(f[2]), int(f[3])
        k = op.split(" ")[0]
        if k in ("ss", "sc", "sr"):
            if req:
                sb_alloc = req
            if k == "sr":
                sb_alloc = 0
            if cap != sb_alloc:
                bad.append("'%s': capacity %d but the buffer was last (re)allocated with %d bytes" % (op, cap, sb_alloc))
            if cap and ln + 1 > cap:
                bad.append("'%s': length %d + terminator exceeds the capacity %d" % (op, ln, cap))
            if not cap and ln:
                bad.append("'%s': length %d without a buffer" % (op, ln))
        elif k in ("va", "vr"):
            if req:
                sv_alloc = req // 8
            if k == "vr":
                sv_alloc = 0
            if k == "va" and not (ln <= cap and cap + 1 <= sv_alloc):
                bad.append("'%s': length %d, capacity %d, but %d slots were last requested (terminator slot included)" % (op, ln, cap, sv_alloc))
        else:
            if ln > cap:
                bad.append("'%s': %d elements but the vector was last (re)allocated with %d slots" % (op, ln, cap))
        if bad:
            break
    return bad


def run(ctx, res, nrandom):
    """fills res.violations / res.corr_broken; returns number of scripts"""
    exe = ctx.harness("asan")
    memdrv = os.path.join(os.path.dirname(exe), "memdrv") if exe else None
    runner = ctx.runner("asan")
    if not memdrv or not os.path.exists(memdrv):
        res.corr_broken.append("memdrv (capacity-arithmetic driver) was not built")
        return 0
    cases = scripts(ctx.rng, nrandom)
    env = dict(os.environ)
    env.update(ASAN_ENV)
    nops = 0
    for i, ops in enumerate(cases):
        text = "\n".join(ops) + "\n"
        nops += len(ops)
        m = runner.run_model("#mem\n" + text)
        ml = (m if isinstance(m, str) else m[0] if isinstance(m, (tuple, list)) else str(m)).splitlines()
        try:
            p = subprocess.run([memdrv], input=text.encode(), stdout=subprocess.PIPE, stderr=subprocess.PIPE, timeout=60, env=env)
            il, rc, err = p.stdout.decode("latin-1").splitlines(), p.returncode, p.stderr.decode("latin-1", "replace")
        except subprocess.TimeoutExpired:
            il, rc, err = [], "HANG", ""
        res.evaluations += 1
        bad = []
        if rc != 0:
            bad.append("the process ended with status %s: %s" % (rc, " ".join(err.split()[:40])))
        bad += impl_rule(ops, il)
        diff = next((k for k, (a, b) in enumerate(zip(ml, il)) if a != b), None)
        if diff is None and len(ml) != len(il):
            diff = min(len(ml), len(il))
        if bad:
            res.violations.append(dict(name="mem_%d" % i, replay=(
                "# property C03 -- capacity arithmetic (strbuf / strvec / element vector): %s\n"
                "# replay: <asan build>/memdrv < this script (lines not starting with #)\n%s#--- implementation: %s\n#--- model: %s\n" % (
                    bad[0], text, " | ".join(il[-6:]), " | ".join(ml[-6:])))))
            if len(res.violations) >= 3:
                break
        elif diff is not None:
            res.corr_broken.append("capacity arithmetic: model and implementation differ at op %d '%s': model=%r impl=%r\n%s" % (
                diff, ops[diff] if diff < len(ops) else "?", ml[diff] if diff < len(ml) else None,
                il[diff] if diff < len(il) else None, text[:400]))
    res.distinct += len(set("\n".join(c) for c in cases))
    res.distribution["mem_scripts"] = len(cases)
    res.distribution["mem_ops"] = nops
    return len(cases)
