/* drv.c — correspondence harness: executes an operation script (DESIGN.md Appendix C) against the
 * real libconfig built from /repo's working tree and prints the canonical transcript.
 *
 * usage: drv <script-file> [workdir]
 * The transcript goes to the file descriptor given by env DRV_OUT_FD (default: stdout).
 */
#define _GNU_SOURCE
#include <stdio.h>
#include <pthread.h>
#include <stdlib.h>
#include <string.h>
#include <stdint.h>
#include <inttypes.h>
#include <unistd.h>
#include <errno.h>
#include <locale.h>
#include <sys/stat.h>
#include <sys/types.h>
#include <sys/resource.h>
#include <signal.h>
#include <fcntl.h>
#include <dirent.h>
#include <sys/mman.h>
#include "libconfig.h"
#include "scanctx.h"
#include "parsectx.h"
#include "grammar.h"
#include "scanner.h"
#include "strvec.h"

#ifdef DRV_CXX
/* C++ variant: the configuration lives inside a libconfig::Config object owned by harness/drvxx.cc; the C
   operations of this file act on that object's config_t, so both APIs see the same data */
FILE *out;
config_t *drv_cfgp;
#define cfg (*drv_cfgp)
extern void xx_new_config(void);
extern void xx_delete_config(void);
extern void xx_reload_config(void);
extern int xx_op(int n, char **tok);        /* returns 1 if it handled the line */
#else
static FILE *out;
static config_t cfg;
#endif
static int live = 0;

/* ---- event buffer (printed after the R line of the op during which they happened) ---- */
static char *evbuf = NULL;
static size_t evlen = 0, evcap = 0;
static void ev_add(const char *s)
{
  size_t n = strlen(s);
  if(evlen + n + 2 > evcap)
  {
    evcap = (evlen + n + 2) * 2;
    evbuf = (char *)realloc(evbuf, evcap);
  }
  memcpy(evbuf + evlen, s, n);
  evlen += n;
  evbuf[evlen++] = '\n';
  evbuf[evlen] = 0;
}
static void ev_flush(void)
{
  if(evlen) fwrite(evbuf, 1, evlen, out);
  evlen = 0;
}

/* ---- hex helpers ---- */
static int hv(int c)
{
  if(c >= '0' && c <= '9') return c - '0';
  if(c >= 'a' && c <= 'f') return c - 'a' + 10;
  if(c >= 'A' && c <= 'F') return c - 'A' + 10;
  return 0;
}
/* "-" -> NULL ; "h<hex>" -> malloc'd NUL-terminated string (length in *len) */
#ifdef DRV_CXX
char *parse_hs(const char *tok, size_t *len);
char *parse_hs(const char *tok, size_t *len)
#else
static char *parse_hs(const char *tok, size_t *len)
#endif
{
  if(tok[0] != 'h') { if(len) *len = 0; return NULL; }
  size_t n = strlen(tok + 1) / 2;
  char *r = (char *)malloc(n + 1);
  for(size_t i = 0; i < n; i++) r[i] = (char)(hv(tok[1 + 2 * i]) * 16 + hv(tok[2 + 2 * i]));
  r[n] = 0;
  if(len) *len = n;
  return r;
}
#ifdef DRV_CXX
void put_hs(const char *s);
void put_hs(const char *s)
#else
static void put_hs(const char *s)
#endif
{
  if(!s) { fputc('-', out); return; }
  fputc('h', out);
  for(const unsigned char *p = (const unsigned char *)s; *p; p++) fprintf(out, "%02x", *p);
}
static void ev_hs(const char *kind, const char *s)
{
  size_t n = strlen(s);
  char *b = (char *)malloc(strlen(kind) + 2 * n + 8);
  char *q = b + sprintf(b, "L %s h", kind);
  for(size_t i = 0; i < n; i++) q += sprintf(q, "%02x", (unsigned char)s[i]);
  ev_add(b);
  free(b);
}
/* numbers: x<hex> (unsigned 64-bit pattern) or signed decimal */
static long long parse_num(const char *tok)
{
  if(tok[0] == 'x') return (long long)strtoull(tok + 1, NULL, 16);
  return strtoll(tok, NULL, 10);
}
static double bits_to_double(uint64_t b) { double d; memcpy(&d, &b, 8); return d; }
static uint64_t double_to_bits(double d) { uint64_t b; memcpy(&b, &d, 8); return b; }

/* ---- handles: index path from the root ---- */
#ifdef DRV_CXX
config_setting_t *resolve(const char *tok)
#else
static config_setting_t *resolve(const char *tok)
#endif
{
  config_setting_t *s = cfg.root;
  if(!strcmp(tok, ".")) return s;
  const char *p = tok;
  while(*p && s)
  {
    char *q;
    long i = strtol(p, &q, 10);
    if(s->type != CONFIG_TYPE_GROUP && s->type != CONFIG_TYPE_ARRAY && s->type != CONFIG_TYPE_LIST)
      return NULL;
    if(!s->value.list || i < 0 || (unsigned long)i >= s->value.list->length) return NULL;
    s = s->value.list->elements[i];
    p = (*q == '/') ? q + 1 : q;
  }
  return s;
}
static void put_path_of(const config_setting_t *s)
{
  /* index path by walking parents; position found by pointer identity */
  int idx[4096], n = 0;
  const config_setting_t *c = s;
  while(c->parent)
  {
    const config_list_t *l = c->parent->value.list;
    int found = -1;
    for(unsigned i = 0; l && i < l->length; i++) if(l->elements[i] == c) { found = (int)i; break; }
    if(found < 0 || n >= 4096) { fputs("?", out); return; }
    idx[n++] = found;
    c = c->parent;
  }
  if(c != cfg.root) { fputs("?", out); return; }
  if(n == 0) { fputc('.', out); return; }
  for(int i = n - 1; i >= 0; i--) fprintf(out, "%d%s", idx[i], i ? "/" : "");
}
#ifdef DRV_CXX
void put_node(const config_setting_t *s)
#else
static void put_node(const config_setting_t *s)
#endif
{
  fputc('n', out);
  if(!s) fputc('-', out); else put_path_of(s);
}

/* ---- destructor ---- */
static void dtor(void *hook)
{
  char b[64];
  snprintf(b, sizeof b, "L dtor %" PRIdPTR, (intptr_t)hook);
  ev_add(b);
}

/* ---- custom include functions ---- */
static char **multi_paths = NULL;
static int multi_n = 0;
static char *fail_msg = NULL;
static char **fail_msgs = NULL;
static int fail_n = 0;
static const char **incfn_multi(config_t *c, const char *dir, const char *path, const char **error)
{
  (void)c; (void)dir;
  ev_hs("incl", path);
  *error = NULL;
  const char **r = (const char **)malloc(sizeof(char *) * (multi_n + 1));
  for(int i = 0; i < multi_n; i++) r[i] = strdup(multi_paths[i]);
  r[multi_n] = NULL;
  return r;
}
static const char **incfn_fail(config_t *c, const char *dir, const char *path, const char **error)
{
  (void)c; (void)dir;
  ev_hs("incl", path);
  *error = fail_msg;
  return NULL;
}
static const char **incfn_empty(config_t *c, const char *dir, const char *path, const char **error)
{
  (void)c; (void)dir;
  ev_hs("incl", path);
  *error = NULL;
  const char **r = (const char **)malloc(sizeof(char *));
  r[0] = NULL;
  return r;
}
/* an include function that uses the library itself (reads and writes another configuration) before answering like the
   default one: re-entrant use from inside a read */
static int incfn_switched = 0;     /* the include function changed the process-wide locale (DRV_INCFN_SETLOCALE) */
static const char **incfn_nested(config_t *c, const char *dir, const char *path, const char **error)
{
  config_t inner;
  /* application code running in the middle of a read may change the process-wide locale (a late setlocale(LC_ALL, "")):
     what the library reads afterwards, in the same call, must not depend on it */
  if(getenv("DRV_INCFN_SETLOCALE")) { if(setlocale(LC_NUMERIC, getenv("DRV_INCFN_SETLOCALE"))) incfn_switched = 1; }
  config_init(&inner);
  if(config_read_string(&inner, "nested = 2.5; other = ( 1.25, 1e3 );"))
  {
    char *b = NULL; size_t l = 0;
    FILE *m = open_memstream(&b, &l);
    if(m) { config_write(&inner, m); fclose(m); free(b); }
  }
  (void)config_read_string(&inner, "broken = ;");
  config_destroy(&inner);
  return config_default_include_func(c, dir, path, error);
}
static const char **incfn_null(config_t *c, const char *dir, const char *path, const char **error)
{
  (void)c; (void)dir;
  ev_hs("incl", path);
  *error = NULL;
  return NULL;
}

/* ---- dump ---- */
static int links_ok, queries_ok, names_ok;
/* is [name] (a pointer) one of the strings of the configuration's own vector of file names (config->filenames)?  Pointer
   identity, no dereference: the names handed out by config_setting_source_file / config_error_file live exactly as long
   as that vector */
static int name_owned(const config_t *c, const char *name)
{
  if(!c->filenames) return 0;
  for(const char **f = c->filenames; *f; f++) if(*f == name) return 1;
  return 0;
}

/* ---- strings handed out by the library: each pointer returned by get_string / name / lookup_string is
   remembered with a copy of its bytes; after every later operation, as long as some live setting still
   holds that very pointer (as its name or string value), the bytes must be unchanged (and readable: ASan
   turns a premature free into a crash). ---- */
struct handed { const char *ptr; char *copy; size_t len; };
static struct handed *handed_tab; static size_t handed_n, handed_cap;
static int strings_ok = 1;
static void hand_out(const char *p)
{
  if(!p) return;
  for(size_t i = 0; i < handed_n; i++) if(handed_tab[i].ptr == p) return;
  if(handed_n == handed_cap) { handed_cap = handed_cap ? handed_cap * 2 : 64; handed_tab = realloc(handed_tab, handed_cap * sizeof *handed_tab); }
  handed_tab[handed_n].ptr = p; handed_tab[handed_n].len = strlen(p); handed_tab[handed_n].copy = strdup(p); handed_n++;
}
static int ptr_live(const config_setting_t *s, const char *p, int depth)
{
  if(!s || depth > 4000) return 0;
  if(s->name == p) return 1;
  if(s->type == CONFIG_TYPE_STRING && s->value.sval == p) return 1;
  if((s->type == CONFIG_TYPE_GROUP || s->type == CONFIG_TYPE_ARRAY || s->type == CONFIG_TYPE_LIST) && s->value.list)
    for(unsigned i = 0; i < s->value.list->length; i++)
      if(ptr_live(s->value.list->elements[i], p, depth + 1)) return 1;
  return 0;
}
static void check_handed(void)
{
  size_t w = 0;
  for(size_t i = 0; i < handed_n; i++)
  {
    struct handed h = handed_tab[i];
    if(cfg.root && ptr_live(cfg.root, h.ptr, 0))
    {
      if(strlen(h.ptr) != h.len || memcmp(h.ptr, h.copy, h.len + 1) != 0) strings_ok = 0;
      handed_tab[w++] = h;
    }
    else free(h.copy);
  }
  handed_n = w;
}
static config_t *dump_owner = NULL;    /* the configuration whose tree is being dumped (NULL: cfg) */
static void dump_node(const config_setting_t *s, const config_setting_t *parent, int *path, int depth)
{
  fputs("T ", out);
  if(depth == 0) fputc('.', out);
  for(int i = 0; i < depth; i++) fprintf(out, "%d%s", path[i], i + 1 < depth ? "/" : "");
  fputc(' ', out);
  put_hs(s->name);
  fprintf(out, " %d %d ", (int)s->type, (int)s->format);
  int agg = 0;
  switch(s->type)
  {
    case CONFIG_TYPE_NONE: fputc('-', out); break;
    case CONFIG_TYPE_INT: fprintf(out, "i%d", s->value.ival); break;
    case CONFIG_TYPE_INT64: fprintf(out, "l%lld", s->value.llval); break;
    case CONFIG_TYPE_FLOAT: fprintf(out, "f%016" PRIx64, double_to_bits(s->value.fval)); break;
    case CONFIG_TYPE_BOOL: fprintf(out, "b%d", s->value.ival); break;
    case CONFIG_TYPE_STRING: fputc('s', out); put_hs(s->value.sval); break;
    case CONFIG_TYPE_GROUP: case CONFIG_TYPE_ARRAY: case CONFIG_TYPE_LIST:
      agg = 1;
      fprintf(out, "a%u", s->value.list ? s->value.list->length : 0u);
      break;
    default: fprintf(out, "?%d", (int)s->type); break;
  }
  if(s->hook) fprintf(out, " %" PRIdPTR, (intptr_t)s->hook); else fputs(" -", out);
  fprintf(out, " %u ", s->line);
  put_hs(s->file);
  fputc('\n', out);

  /* every public accessor of a setting answers what the structure holds */
  {
    config_t *owner = dump_owner ? dump_owner : &cfg;
    int t = s->type;
    if(config_setting_get_hook(s) != s->hook) queries_ok = 0;
    if(config_setting_name(s) != s->name) queries_ok = 0;
    if(config_setting_type(s) != t) queries_ok = 0;
    if(config_setting_parent(s) != parent) queries_ok = 0;
    if(config_setting_source_line(s) != s->line) queries_ok = 0;
    if(config_setting_source_file(s) != s->file) queries_ok = 0;
    if(config_setting_get_format(s) != (s->format != 0 ? s->format : owner->default_format)) queries_ok = 0;
    if(!!config_setting_is_group(s) != (t == CONFIG_TYPE_GROUP)) queries_ok = 0;
    if(!!config_setting_is_array(s) != (t == CONFIG_TYPE_ARRAY)) queries_ok = 0;
    if(!!config_setting_is_list(s) != (t == CONFIG_TYPE_LIST)) queries_ok = 0;
    if(!!config_setting_is_aggregate(s) != (t == CONFIG_TYPE_GROUP || t == CONFIG_TYPE_ARRAY || t == CONFIG_TYPE_LIST)) queries_ok = 0;
    if(!!config_setting_is_number(s) != (t == CONFIG_TYPE_INT || t == CONFIG_TYPE_INT64 || t == CONFIG_TYPE_FLOAT)) queries_ok = 0;
    if(!!config_setting_is_scalar(s) != (t == CONFIG_TYPE_INT || t == CONFIG_TYPE_INT64 || t == CONFIG_TYPE_FLOAT
                                          || t == CONFIG_TYPE_BOOL || t == CONFIG_TYPE_STRING)) queries_ok = 0;
  }
  /* pointer-level facts the functional model cannot express */
  if(s->file && !name_owned(dump_owner ? dump_owner : &cfg, s->file)) names_ok = 0;
  if(s->parent != parent) links_ok = 0;
  if(s->config != (dump_owner ? dump_owner : &cfg)) links_ok = 0;
  if(config_setting_is_root(s) != (parent == NULL)) queries_ok = 0;
  if(parent)
  {
    if(config_setting_index(s) != path[depth - 1]) queries_ok = 0;
    if(config_setting_get_elem(parent, (unsigned)path[depth - 1]) != s) queries_ok = 0;
  }
  else if(config_setting_index(s) != -1) queries_ok = 0;

  if(agg)
  {
    unsigned n = s->value.list ? s->value.list->length : 0u;
    if(config_setting_length(s) != (int)n) queries_ok = 0;
    if(config_setting_get_elem(s, n) != NULL) queries_ok = 0;
    for(unsigned i = 0; i < n; i++)
    {
      const config_setting_t *k = s->value.list->elements[i];
      if(s->type == CONFIG_TYPE_GROUP && k->name)
      {
        /* member-by-name agrees with the first child of that name */
        const config_setting_t *m = config_setting_get_member(s, k->name);
        unsigned first = i;
        for(unsigned j = 0; j < i; j++)
          if(s->value.list->elements[j]->name && !strcmp(s->value.list->elements[j]->name, k->name))
          { first = j; break; }
        if(m != s->value.list->elements[first]) queries_ok = 0;
      }
      if(depth < 4000)
      {
        path[depth] = (int)i;
        dump_node(k, s, path, depth + 1);
      }
    }
  }
  else if(config_setting_length(s) != 0) queries_ok = 0;
}
/* config_clear frees the vector that owns the error file's name and leaves error_file alone (validity is promised only
   until the configuration is cleared): dump must not read through a pointer into a freed vector.  A copy of the name is
   taken after every call while the vector exists; once it is gone, the copy stands for the name. */
static char *ef_copy;
static void note_error_file(void)
{
  if(!cfg.error_file) { free(ef_copy); ef_copy = NULL; }
  else if(cfg.filenames || !ef_copy) { free(ef_copy); ef_copy = strdup(cfg.error_file); }
}
static void dump(void)
{
  static int path[4096];
  links_ok = queries_ok = names_ok = 1;
  /* the error file is owned by the configuration's vector of file names as long as that vector exists (config_clear
     frees it and leaves the error fields alone: validity is promised only until the configuration is cleared) */
  if(cfg.filenames && cfg.error_file && !name_owned(&cfg, cfg.error_file)) names_ok = 0;
  if(!cfg.root) { fputs("T destroyed\n", out); return; }
  dump_node(cfg.root, NULL, path, 0);
  /* ... and so does every public accessor of the configuration */
  if(config_root_setting(&cfg) != cfg.root) queries_ok = 0;
  if(config_get_hook(&cfg) != cfg.hook) queries_ok = 0;
  if(config_get_include_dir(&cfg) != cfg.include_dir) queries_ok = 0;
  if(config_get_options(&cfg) != cfg.options) queries_ok = 0;
  if(!!config_get_auto_convert(&cfg) != !!(cfg.options & CONFIG_OPTION_AUTOCONVERT)) queries_ok = 0;
  if(!!config_get_option(&cfg, CONFIG_OPTION_FSYNC) != !!(cfg.options & CONFIG_OPTION_FSYNC)) queries_ok = 0;
  if(config_get_tab_width(&cfg) != cfg.tab_width) queries_ok = 0;
  if(config_get_float_precision(&cfg) != cfg.float_precision) queries_ok = 0;
  if(config_get_default_format(&cfg) != cfg.default_format) queries_ok = 0;
  if(config_error_type(&cfg) != cfg.error_type || config_error_text(&cfg) != cfg.error_text
     || config_error_file(&cfg) != cfg.error_file || config_error_line(&cfg) != cfg.error_line) queries_ok = 0;
  if(cfg.root && cfg.root->type == CONFIG_TYPE_GROUP && cfg.root->value.list)
    for(unsigned i = 0; i < cfg.root->value.list->length; i++)
    {
      const config_setting_t *k = cfg.root->value.list->elements[i];
      if(k->name && config_lookup_const(&cfg, k->name) != config_lookup(&cfg, k->name)) queries_ok = 0;
    }
  fprintf(out, "A %d %u %u %u ", cfg.options, (unsigned)cfg.tab_width, (unsigned)cfg.float_precision,
          (unsigned)cfg.default_format);
  put_hs(cfg.include_dir);
  fprintf(out, " %d ", cfg.destructor ? 1 : 0);
  if(cfg.hook) fprintf(out, "%" PRIdPTR, (intptr_t)cfg.hook); else fputc('-', out);
  fputc('\n', out);
  fprintf(out, "E %d ", (int)cfg.error_type);
  put_hs(cfg.error_text);
  fputc(' ', out);
  put_hs(cfg.error_file ? (cfg.filenames || !ef_copy ? cfg.error_file : ef_copy) : NULL);
  fprintf(out, " %d\n", cfg.error_line);
  fprintf(out, "S links=%s queries=%s strings=%s names=%s\n", links_ok ? "ok" : "BAD", queries_ok ? "ok" : "BAD", strings_ok ? "ok" : "BAD",
          names_ok ? "ok" : "BAD");
}

/* ---- file system helpers (paths are used exactly as the script gives them; cwd = workdir) ---- */
static void mkdirs_for(const char *path, int include_last)
{
  char *p = strdup(path);
  for(char *q = p + 1; *q; q++)
    if(*q == '/') { *q = 0; mkdir(p, 0777); *q = '/'; }
  if(include_last) mkdir(p, 0777);
  free(p);
}

/* ---- fopen/fclose observation (linked with --wrap=fopen,--wrap=fclose) ---- */
FILE *__real_fopen(const char *path, const char *mode);
int __real_fclose(FILE *f);
static int rec_io = 0;
#define MAXOPEN 256
static FILE *open_f[MAXOPEN];
static char *open_p[MAXOPEN];
#ifdef DRV_FAULT
/* ---- allocation fault injection (variant "fault"): the library sources are compiled with
   -Dmalloc=lc_malloc -Dcalloc=lc_calloc -Drealloc=lc_realloc -Dstrdup=lc_strdup, so exactly the
   library's own requests come through here; the DRV_FAULT_K-th one returns NULL ---- */
static long fault_k = -1, alloc_count = 0; static int fault_seen = 0;
static int fail_now(void) { alloc_count++; if(alloc_count == fault_k) { fault_seen = 1; return 1; } return 0; }
void *lc_malloc(size_t n) { return fail_now() ? NULL : malloc(n); }
void *lc_calloc(size_t a, size_t b) { return fail_now() ? NULL : calloc(a, b); }
void *lc_realloc(void *q, size_t n) { return fail_now() ? NULL : realloc(q, n); }
char *lc_strdup(const char *t) { return fail_now() ? NULL : strdup(t); }
#include <setjmp.h>
static jmp_buf recover_env; static int recover_mode = 0; static long fault_k2 = -1;
static void fatal_handler(const char *msg)
{
  (void)msg;
  fprintf(out, "FATAL fault_seen=%d at_alloc=%ld\n", fault_seen, alloc_count);
  fflush(out);
  if(recover_mode && fault_k2 >= 0) longjmp(recover_env, 1);   /* a handler that recovers instead of exiting */
  _exit(0);
}
#endif
struct ckstate { const char *data; size_t len, pos; size_t sizes[64]; int nsizes, cur; };
static ssize_t ck_read(void *cookie, char *buf, size_t size)
{
  struct ckstate *ck = (struct ckstate *)cookie;
  size_t want = ck->sizes[ck->cur % ck->nsizes]; ck->cur++;
  if(want == 0) want = 1;
  if(want > size) want = size;
  if(want > ck->len - ck->pos) want = ck->len - ck->pos;
  memcpy(buf, ck->data + ck->pos, want);
  ck->pos += want;
  return (ssize_t)want;
}
static locale_t thread_loc; static char *thread_name, *glob_name;
static long long wdev_cap = -1; static int wdev_fsync_fails, wdev_close_fails, wdev_open_fails, wdev_active;
static FILE *wdev_stream;
int __real_fsync(int fd);
int __wrap_fsync(int fd)
{
  /* which errno the failing fsync reports: 1 EIO, 2 EINVAL, 3 ENOSYS, 4 ENOTSUP (a failure is a failure) */
  if(wdev_active && wdev_fsync_fails)
  { errno = wdev_fsync_fails == 2 ? EINVAL : wdev_fsync_fails == 3 ? ENOSYS : wdev_fsync_fails == 4 ? ENOTSUP : EIO; return -1; }
  return __real_fsync(fd);
}
FILE *__wrap_fopen(const char *path, const char *mode)
{
  if(wdev_active && wdev_open_fails && mode[0] == 'w') { errno = EACCES; return NULL; }
  FILE *f = __real_fopen(path, mode);
  if(wdev_active && mode[0] == 'w') wdev_stream = f;
  if(rec_io && f)
  {
    ev_hs("open", path);
    for(int i = 0; i < MAXOPEN; i++)
      if(!open_f[i]) { open_f[i] = f; open_p[i] = strdup(path); break; }
  }
  return f;
}
int __wrap_fclose(FILE *f)
{
  for(int i = 0; i < MAXOPEN; i++)
    if(open_f[i] == f && f)
    {
      if(rec_io) ev_hs("close", open_p[i]);
      free(open_p[i]);
      open_f[i] = NULL;
      open_p[i] = NULL;
      break;
    }
  if(wdev_active && f && f == wdev_stream)
  {
    wdev_stream = NULL;
    int rc = __real_fclose(f);
    if(wdev_close_fails) { errno = EIO; return EOF; }
    return rc;
  }
  return __real_fclose(f);
}
static int count_open_tracked(void)
{
  int n = 0;
  for(int i = 0; i < MAXOPEN; i++) if(open_f[i]) n++;
  return n;
}
static int count_fds(void)
{
  int n = 0;
  DIR *d = opendir("/proc/self/fd");
  if(!d) return -1;
  while(readdir(d)) n++;
  closedir(d);
  return n;
}

/* ---- stray output on stdout: fd 1 is a memfd; its content is reported after every op ---- */
static int capfd = -1;
static void cap_init(void)
{
  capfd = memfd_create("stdout-capture", 0);
  if(capfd >= 0) { fflush(stdout); dup2(capfd, 1); }
}
static void cap_report(void)
{
  if(capfd < 0) return;
  fflush(stdout);
  off_t n = lseek(1, 0, SEEK_CUR);
  if(n > 0)
  {
    char *b = (char *)malloc((size_t)n + 1);
    ssize_t r = pread(1, b, (size_t)n, 0);
    if(r > 0)
    {
      char *h = (char *)malloc(2 * (size_t)r + 16);
      char *q = h + sprintf(h, "L stdout h");
      for(ssize_t i = 0; i < r; i++) q += sprintf(q, "%02x", (unsigned char)b[i]);
      ev_add(h);
      free(h);
    }
    free(b);
    if(ftruncate(1, 0) != 0) {}
    lseek(1, 0, SEEK_SET);
  }
}

/* ---- token-level access to the scanner ---- */
static void do_lex(const char *txt)
{
  yyscan_t scanner;
  struct scan_context scan_ctx;
  YYSTYPE lval;
  libconfig_scanctx_init(&scan_ctx, NULL);
  scan_ctx.config = &cfg;
  libconfig_yylex_init_extra(&scan_ctx, &scanner);
  (void)libconfig_yy_scan_string(txt, scanner);
  libconfig_yyset_lineno(1, scanner);
  const char *res = "eof";
  for(;;)
  {
    int t = libconfig_yylex(&lval, scanner);
    int line = libconfig_yyget_lineno(scanner);
    fputs("K ", out);
    switch(t)
    {
      case 0: fputs("Z", out); break;
      case TOK_BOOLEAN: fprintf(out, "b%d", lval.ival); break;
      case TOK_INTEGER: fprintf(out, "i%d", lval.ival); break;
      case TOK_INTEGER64: fprintf(out, "l%lld", lval.llval); break;
      case TOK_HEX: fprintf(out, "x%d", lval.ival); break;
      case TOK_HEX64: fprintf(out, "X%lld", lval.llval); break;
      case TOK_FLOAT: fprintf(out, "f%016" PRIx64, double_to_bits(lval.fval)); break;
      case TOK_STRING: fputc('s', out); put_hs(lval.sval); free(lval.sval); break;
      case TOK_NAME: fputc('n', out); put_hs(lval.sval); break;
      case TOK_EQUALS: fputs("p=", out); break;
      case TOK_COMMA: fputs("p,", out); break;
      case TOK_GROUP_START: fputs("p{", out); break;
      case TOK_GROUP_END: fputs("p}", out); break;
      case TOK_ARRAY_START: fputs("p[", out); break;
      case TOK_ARRAY_END: fputs("p]", out); break;
      case TOK_LIST_START: fputs("p(", out); break;
      case TOK_LIST_END: fputs("p)", out); break;
      case TOK_SEMICOLON: fputs("p;", out); break;
      case TOK_GARBAGE: fputs("p?", out); break;
      case TOK_ERROR: fputs("E", out); break;
      default: fprintf(out, "?%d", t); break;
    }
    fprintf(out, " %d\n", line);
    if(t == 0) break;
    if(t == TOK_ERROR) { res = "err"; break; }
  }
  {
    YY_BUFFER_STATE buf;
    while((buf = (YY_BUFFER_STATE)libconfig_scanctx_pop_include(&scan_ctx)) != NULL)
      libconfig_yy_delete_buffer(buf, scanner);
  }
  libconfig_yylex_destroy(scanner);
  libconfig_strvec_delete(libconfig_scanctx_cleanup(&scan_ctx));
  fprintf(out, "R %s\n", res);
}

/* ---- the interpreter ---- */
#define MAXTOK 8
static const long long SENT_I = -7777777;
static const long long SENT_L = -777777777777LL;
static const uint64_t SENT_F = 0x7ff8dead0000beefULL;
static const char *SENT_S = "<sentinel>";

static void r_unit(void) { fputs("R unit\n", out); }
static void r_int(long long v) { fprintf(out, "R i%lld\n", v); }
static void r_node(const config_setting_t *s) { fputs("R ", out); put_node(s); fputc('\n', out); }

static int kind_of(const char *t)
{
  switch(t[0]) { case 'i': return 0; case 'l': return 1; case 'f': return 2; case 'b': return 3; default: return 4; }
}

static void typed_look_result(int k, int ok, int iv, long long lv, double fv, int bv, const char *sv)
{
  fprintf(out, "R k%d", ok);
  int changed = 0;
  switch(k)
  {
    case 0: changed = (iv != (int)SENT_I); if(ok) fprintf(out, " i%d", iv); break;
    case 1: changed = (lv != SENT_L); if(ok) fprintf(out, " i%lld", lv); break;
    case 2: changed = (double_to_bits(fv) != SENT_F); if(ok) fprintf(out, " f%016" PRIx64, double_to_bits(fv)); break;
    case 3: changed = (bv != (int)SENT_I); if(ok) fprintf(out, " i%d", bv); break;
    case 4: changed = (sv != SENT_S); if(ok) { hand_out(sv); fputs(" s", out); put_hs(sv); } break;
  }
  if(!ok && changed) fputs(" CHANGED", out);
  fputc('\n', out);
}

/* after the configuration has been destroyed nothing the library allocated may be left: ask LeakSanitizer now, so
   that a leak is attributed to this history and not to the process that runs several of them */
#if defined(__SANITIZE_ADDRESS__) && !defined(DRV_FAULT)
int __lsan_do_recoverable_leak_check(void);
static void leak_probe(void) { fflush(out); if(__lsan_do_recoverable_leak_check()) fputs("L LEAK\n", out); }
#else
static void leak_probe(void) { }
#endif

static int pending_errno = 0, pending_errno_set = 0;
static struct rlimit xfsz_old; static volatile int xfsz_fired;
static void xfsz_handler(int sig) { (void)sig; xfsz_fired++; setrlimit(RLIMIT_FSIZE, &xfsz_old); }
static int run_line(char *line)
{
  char *tok[MAXTOK];
  int n = 0;
  char *p = line;
  while(n < MAXTOK)
  {
    tok[n++] = p;
    char *sp = strchr(p, ' ');
    if(!sp) break;
    *sp = 0;
    p = sp + 1;
  }
  const char *c = tok[0];
#define IS(s) (!strcmp(c, s))
#define NODE(var, t) config_setting_t *var = resolve(t); if(!var) { fputs("R badhandle\n", out); return 0; }

  if(n == 2 && IS("seterrno")) { pending_errno = (int)parse_num(tok[1]); pending_errno_set = 1; r_unit(); return 0; }
  if(pending_errno_set) { pending_errno_set = 0; errno = pending_errno; }   /* the state the caller's errno is in when it calls the library */
  if(n == 1 && IS("dump")) { dump(); return 0; }
  if(n == 2 && IS("case"))
  {
#ifdef DRV_CXX
    if(live) { xx_delete_config(); live = 0; leak_probe(); }
#else
    if(live) { config_destroy(&cfg); live = 0; leak_probe(); }   /* a leak is attributed to the case that ends here */
#endif
    evlen = 0;
    strings_ok = 1;
    if(thread_loc) { uselocale(LC_GLOBAL_LOCALE); freelocale(thread_loc); thread_loc = (locale_t)0; free(thread_name); thread_name = NULL; }
    if(glob_name) { setlocale(LC_ALL, "C"); free(glob_name); glob_name = NULL; }
    fprintf(out, "C %s\n", tok[1]);
    return 0;
  }
  if(n == 1 && IS("init"))
  {
#ifdef DRV_CXX
    if(live) xx_reload_config();     /* the hot-reload idiom: the new Config exists before the old one is deleted */
    else xx_new_config();
#else
    config_init(&cfg);
#endif
    live = 1; r_unit(); return 0;
  }
  if(n == 1 && IS("clear")) { config_clear(&cfg); r_unit(); return 0; }
#ifdef DRV_CXX
  if(n == 1 && IS("destroy")) { xx_delete_config(); live = 0; leak_probe(); r_unit(); return 0; }
  if(c[0] == 'x')
  {
    rec_io = !strncmp(c, "xread", 5);     /* Config::readString / readFile: files opened and closed are logged */
    int handled = xx_op(n, tok);
    rec_io = 0;
    if(handled) return 0;
  }
#else
  if(n == 1 && IS("destroy")) { config_destroy(&cfg); live = 0; leak_probe(); r_unit(); return 0; }
#endif
  if(n == 2 && IS("options")) { config_set_options(&cfg, (int)parse_num(tok[1])); r_unit(); return 0; }
  if(n == 3 && IS("option"))
  {
    int bit = (int)parse_num(tok[1]), flag = (int)parse_num(tok[2]);
    if(bit == CONFIG_OPTION_AUTOCONVERT) config_set_auto_convert(&cfg, flag);    /* the dedicated accessor */
    else config_set_option(&cfg, bit, flag);
    r_unit(); return 0;
  }
  if(n == 2 && IS("getoption")) { r_int(config_get_option(&cfg, (int)parse_num(tok[1]))); return 0; }
  if(n == 2 && IS("tab")) { config_set_tab_width(&cfg, (unsigned short)parse_num(tok[1])); r_unit(); return 0; }
  if(n == 2 && IS("prec")) { config_set_float_precision(&cfg, (unsigned short)parse_num(tok[1])); r_unit(); return 0; }
  if(n == 2 && IS("deffmt")) { config_set_default_format(&cfg, (unsigned short)parse_num(tok[1])); r_unit(); return 0; }
  if(n == 2 && IS("incdir"))
  {
    char *d = parse_hs(tok[1], NULL);
    config_set_include_dir(&cfg, d);
    free(d);
    r_unit();
    return 0;
  }
  if(IS("incfn"))
  {
    if(n == 2 && !strcmp(tok[1], "default")) config_set_include_func(&cfg, NULL);
    else if(n == 2 && !strcmp(tok[1], "empty")) config_set_include_func(&cfg, incfn_empty);
    else if(n == 2 && !strcmp(tok[1], "null")) config_set_include_func(&cfg, incfn_null);
    else if(n == 2 && !strcmp(tok[1], "nested")) config_set_include_func(&cfg, incfn_nested);
    else if(n == 3 && !strcmp(tok[1], "fail"))
    {
      /* kept alive until exit: error_text may point to it */
      fail_msgs = (char **)realloc(fail_msgs, sizeof(char *) * (fail_n + 1));
      fail_msgs[fail_n++] = fail_msg = parse_hs(tok[2], NULL);
      config_set_include_func(&cfg, incfn_fail);
    }
    else if(n == 3 && !strcmp(tok[1], "multi"))
    {
      for(int i = 0; i < multi_n; i++) free(multi_paths[i]);
      free(multi_paths);
      multi_n = 0;
      multi_paths = NULL;
      char *q = tok[2];
      while(*q)
      {
        char *comma = strchr(q, ',');
        if(comma) *comma = 0;
        if(*q)
        {
          multi_paths = (char **)realloc(multi_paths, sizeof(char *) * (multi_n + 1));
          multi_paths[multi_n++] = parse_hs(q, NULL);
        }
        if(!comma) break;
        q = comma + 1;
      }
      config_set_include_func(&cfg, incfn_multi);
    }
    else { fputs("R ?\n", out); return 0; }
    r_unit();
    return 0;
  }
  if(n == 2 && IS("dtor")) { config_set_destructor(&cfg, parse_num(tok[1]) ? dtor : NULL); r_unit(); return 0; }
  if(n == 2 && IS("chook"))
  {
    config_set_hook(&cfg, tok[1][0] == '-' && !tok[1][1] ? NULL : (void *)(intptr_t)parse_num(tok[1]));
    r_unit(); return 0;
  }
  if(n == 3 && IS("hook"))
  {
    NODE(s, tok[1]);
    config_setting_set_hook(s, tok[2][0] == '-' && !tok[2][1] ? NULL : (void *)(intptr_t)parse_num(tok[2]));
    r_unit(); return 0;
  }
  if(n == 4 && IS("add"))
  {
    NODE(s, tok[1]);
    char *name = parse_hs(tok[2], NULL);
    config_setting_t *r = config_setting_add(s, name, (int)parse_num(tok[3]));
    free(name);
    r_node(r); return 0;
  }
  if(n == 3 && IS("rm"))
  {
    NODE(s, tok[1]);
    char *name = parse_hs(tok[2], NULL);
    int r = config_setting_remove(s, name);
    free(name);
    r_int(r); return 0;
  }
  if(n == 3 && IS("rmi"))
  {
    NODE(s, tok[1]);
    r_int(config_setting_remove_elem(s, (unsigned int)parse_num(tok[2]))); return 0;
  }
  if(n == 4 && IS("set"))
  {
    int k = kind_of(tok[1]);
    NODE(s, tok[2]);
    int r = 0;
    switch(k)
    {
      case 0: r = config_setting_set_int(s, (int)parse_num(tok[3])); break;
      case 1: r = config_setting_set_int64(s, parse_num(tok[3])); break;
      case 2: r = config_setting_set_float(s, bits_to_double((uint64_t)parse_num(tok[3]))); break;
      case 3: r = config_setting_set_bool(s, (int)parse_num(tok[3])); break;
      case 4: { char *v = parse_hs(tok[3], NULL); r = config_setting_set_string(s, v); free(v); break; }
    }
    r_int(r); return 0;
  }
  if(n == 5 && IS("eset"))
  {
    int k = kind_of(tok[1]);
    NODE(s, tok[2]);
    int idx = (int)parse_num(tok[3]);
    config_setting_t *r = NULL;
    switch(k)
    {
      case 0: r = config_setting_set_int_elem(s, idx, (int)parse_num(tok[4])); break;
      case 1: r = config_setting_set_int64_elem(s, idx, parse_num(tok[4])); break;
      case 2: r = config_setting_set_float_elem(s, idx, bits_to_double((uint64_t)parse_num(tok[4]))); break;
      case 3: r = config_setting_set_bool_elem(s, idx, (int)parse_num(tok[4])); break;
      case 4: { char *v = parse_hs(tok[4], NULL); r = config_setting_set_string_elem(s, idx, v); free(v); break; }
    }
    r_node(r); return 0;
  }
  if(n == 3 && IS("setfmt"))
  {
    NODE(s, tok[1]);
    r_int(config_setting_set_format(s, (unsigned short)parse_num(tok[2]))); return 0;
  }
  if(n == 3 && IS("get"))
  {
    int k = kind_of(tok[1]);
    NODE(s, tok[2]);
    switch(k)
    {
      case 0: r_int(config_setting_get_int(s)); break;
      case 1: r_int(config_setting_get_int64(s)); break;
      case 2: fprintf(out, "R f%016" PRIx64 "\n", double_to_bits(config_setting_get_float(s))); break;
      case 3: r_int(config_setting_get_bool(s)); break;
      case 4: { const char *hp = config_setting_get_string(s); hand_out(hp); fputs("R s", out); put_hs(hp); fputc('\n', out); break; }
    }
    return 0;
  }
  if(n == 4 && IS("eget"))
  {
    int k = kind_of(tok[1]);
    NODE(s, tok[2]);
    int idx = (int)parse_num(tok[3]);
    switch(k)
    {
      case 0: r_int(config_setting_get_int_elem(s, idx)); break;
      case 1: r_int(config_setting_get_int64_elem(s, idx)); break;
      case 2: fprintf(out, "R f%016" PRIx64 "\n", double_to_bits(config_setting_get_float_elem(s, idx))); break;
      case 3: r_int(config_setting_get_bool_elem(s, idx)); break;
      case 4: { const char *hp = config_setting_get_string_elem(s, idx); hand_out(hp); fputs("R s", out); put_hs(hp); fputc('\n', out); break; }
    }
    return 0;
  }
  if(n == 2 && IS("getfmt")) { NODE(s, tok[1]); r_int(config_setting_get_format(s)); return 0; }
  if((n == 4 && IS("mlook")) || (n == 3 && IS("plook")))
  {
    int member = IS("mlook");
    int k = kind_of(tok[1]);
    config_setting_t *s = NULL;
    if(member) { s = resolve(tok[2]); if(!s) { fputs("R badhandle\n", out); return 0; } }
    char *name = parse_hs(member ? tok[3] : tok[2], NULL);
    int iv = (int)SENT_I, bv = (int)SENT_I, ok = 0;
    long long lv = SENT_L;
    double fv = bits_to_double(SENT_F);
    const char *sv = SENT_S;
    switch(k)
    {
      case 0: ok = member ? config_setting_lookup_int(s, name, &iv) : config_lookup_int(&cfg, name, &iv); break;
      case 1: ok = member ? config_setting_lookup_int64(s, name, &lv) : config_lookup_int64(&cfg, name, &lv); break;
      case 2: ok = member ? config_setting_lookup_float(s, name, &fv) : config_lookup_float(&cfg, name, &fv); break;
      case 3: ok = member ? config_setting_lookup_bool(s, name, &bv) : config_lookup_bool(&cfg, name, &bv); break;
      case 4: ok = member ? config_setting_lookup_string(s, name, &sv) : config_lookup_string(&cfg, name, &sv); break;
    }
    typed_look_result(k, ok, iv, lv, fv, bv, sv);
    free(name);
    return 0;
  }
  if(n == 3 && IS("look"))
  {
    NODE(s, tok[1]);
    char *path = parse_hs(tok[2], NULL);
    const config_setting_t *r = config_setting_lookup(s, path);
    if(r != config_setting_lookup_const(s, path)) queries_ok = 0;
    free(path);
    r_node(r); return 0;
  }
  if(n == 2 && IS("clook"))
  {
    char *path = parse_hs(tok[1], NULL);
    const config_setting_t *r = config_lookup(&cfg, path);
    free(path);
    r_node(r); return 0;
  }
  if(n == 3 && IS("member"))
  {
    NODE(s, tok[1]);
    char *name = parse_hs(tok[2], NULL);
    r_node(config_setting_get_member(s, name));
    free(name);
    return 0;
  }
  if(n == 3 && IS("elem")) { NODE(s, tok[1]); r_node(config_setting_get_elem(s, (unsigned int)parse_num(tok[2]))); return 0; }
  if(n == 2 && IS("len")) { NODE(s, tok[1]); r_int(config_setting_length(s)); return 0; }
  if(n == 2 && IS("idx")) { NODE(s, tok[1]); r_int(config_setting_index(s)); return 0; }
  if(n == 2 && IS("name")) { NODE(s, tok[1]); const char *hp = config_setting_name(s); hand_out(hp); fputs("R s", out); put_hs(hp); fputc('\n', out); return 0; }
  if(n == 2 && IS("type")) { NODE(s, tok[1]); r_int(config_setting_type(s)); return 0; }
  if(n == 2 && IS("isroot")) { NODE(s, tok[1]); r_int(config_setting_is_root(s)); return 0; }
  if(n == 2 && IS("parent")) { NODE(s, tok[1]); r_node(config_setting_parent(s)); return 0; }
  if(n == 2 && IS("kind"))
  {
    NODE(s, tok[1]);
    int b = (config_setting_is_group(s) ? 1 : 0) | (config_setting_is_array(s) ? 2 : 0)
          | (config_setting_is_list(s) ? 4 : 0) | (config_setting_is_number(s) ? 8 : 0)
          | (config_setting_is_scalar(s) ? 16 : 0) | (config_setting_is_aggregate(s) ? 32 : 0);
    r_int(b); return 0;
  }

  /* ---- text I/O ---- */
  if(n == 2 && IS("lex"))
  {
    char *txt = parse_hs(tok[1], NULL);
    rec_io = 1;
    do_lex(txt ? txt : "");
    rec_io = 0;
    evlen = 0;
    free(txt);
    return 0;
  }
  if(n == 2 && IS("reads"))
  {
    char *txt = parse_hs(tok[1], NULL);
    int fds = count_fds();
    rec_io = 1;
    int r = config_read_string(&cfg, txt ? txt : "");
    rec_io = 0;
    free(txt);
    cap_report();
    if(count_fds() != fds || count_open_tracked() != 0) ev_add("L FDLEAK");
    r_int(r); return 0;
  }
  if(n == 2 && IS("readf"))
  {
    char *path = parse_hs(tok[1], NULL);
    int fds = count_fds();
    rec_io = 1;
    int r = config_read_file(&cfg, path);
    rec_io = 0;
    free(path);
    cap_report();
    if(count_fds() != fds || count_open_tracked() != 0) ev_add("L FDLEAK");
    r_int(r); return 0;
  }
  if(n == 2 && IS("readst"))
  {
    /* config_read from a stream over the given bytes (may contain NULs) */
    size_t len;
    char *txt = parse_hs(tok[1], &len);
    int fds = count_fds();
    FILE *f = fmemopen(txt, len ? len : 1, "r");
    if(!len) { fclose(f); f = fopen("/dev/null", "r"); }
    rec_io = 1;
    int r = config_read(&cfg, f);
    rec_io = 0;
    long pos = ftell(f);
    int cr = fclose(f);
    free(txt);
    cap_report();
    if(count_fds() != fds || count_open_tracked() != 0) ev_add("L FDLEAK");
    if(!(pos >= 0 && cr == 0)) ev_add("L STREAMBAD");
    r_int(r);
    return 0;
  }
  if(n == 3 && IS("readck"))
  {
    /* config_read from a cookie stream that hands out the bytes in the given chunk sizes (cyclically) */
    size_t len;
    char *txt = parse_hs(tok[2], &len);
    struct ckstate ck; memset(&ck, 0, sizeof ck);
    ck.data = txt; ck.len = len;
    for(char *q = tok[1]; *q && ck.nsizes < 64; ) { ck.sizes[ck.nsizes++] = (size_t)strtoul(q, &q, 10); if(*q == ',') q++; }
    if(ck.nsizes == 0) { ck.sizes[0] = 1; ck.nsizes = 1; }
    cookie_io_functions_t io = { ck_read, NULL, NULL, NULL };
    int fds = count_fds();
    FILE *f = fopencookie(&ck, "r", io);
    rec_io = 1;
    int r = config_read(&cfg, f);
    rec_io = 0;
    int cr = fclose(f);
    free(txt);
    cap_report();
    if(count_fds() != fds || count_open_tracked() != 0) ev_add("L FDLEAK");
    if(cr != 0) ev_add("L STREAMBAD");
    r_int(r);
    return 0;
  }
  if(n == 1 && IS("rtrip"))
  {
    /* C01: write the configuration, read the text back into a second configuration carrying the same output
       settings, dump that, write it again */
    char *t1 = NULL, *t2 = NULL; size_t l1 = 0, l2 = 0;
    FILE *f = open_memstream(&t1, &l1);
    config_write(&cfg, f);
    fclose(f);
    config_t c2;
    config_init(&c2);
    config_set_options(&c2, config_get_options(&cfg));
    config_set_tab_width(&c2, config_get_tab_width(&cfg));
    config_set_float_precision(&c2, config_get_float_precision(&cfg));
    config_set_default_format(&c2, config_get_default_format(&cfg));
    int r = (memchr(t1, 0, l1) == NULL) ? config_read_string(&c2, t1) : -1;
    fprintf(out, "R rt %d\n", r);
    fputs("W h", out);
    for(size_t i = 0; i < l1; i++) fprintf(out, "%02x", (unsigned char)t1[i]);
    fputc('\n', out);
    {
      static int path2[4096];
      int lk = links_ok, qk = queries_ok;
      dump_owner = &c2;
      links_ok = queries_ok = 1;
      dump_node(c2.root, NULL, path2, 0);
      if(!links_ok || !queries_ok) fputs("S links=BAD (second configuration)\n", out);
      dump_owner = NULL;
      links_ok = lk; queries_ok = qk;
    }
    fprintf(out, "E %d ", (int)c2.error_type);
    put_hs(c2.error_text);
    fputc(' ', out);
    put_hs(c2.error_file);
    fprintf(out, " %d\n", c2.error_line);
    f = open_memstream(&t2, &l2);
    config_write(&c2, f);
    fclose(f);
    fputs("W h", out);
    for(size_t i = 0; i < l2; i++) fprintf(out, "%02x", (unsigned char)t2[i]);
    fputc('\n', out);
    config_destroy(&c2);
    free(t1); free(t2);
    return 0;
  }
  if(n == 1 && IS("write"))
  {
    char *buf = NULL; size_t len = 0;
    FILE *f = open_memstream(&buf, &len);
    config_write(&cfg, f);
    fclose(f);
    fputs("R sh", out);
    for(size_t i = 0; i < len; i++) fprintf(out, "%02x", (unsigned char)buf[i]);
    fputc('\n', out);
    free(buf);
    return 0;
  }
  if(n == 3 && IS("locale"))
  {
    char *nm = parse_hs(tok[2], NULL);
    if(!strcmp(tok[1], "global"))
    {
      if(!setlocale(LC_ALL, nm ? nm : "C")) { fputs("R locale-unavailable\n", out); free(nm); return 0; }
      free(glob_name); glob_name = strdup(nm ? nm : "C");
    }
    else if(!strcmp(tok[1], "swap") && nm)
    {
      /* replace the thread's locale object by a fresh one for <name>, released and allocated back to back (the
         locale data is loaded beforehand, so that nothing else is allocated in between): as a server does per request */
      locale_t warm = newlocale(LC_ALL_MASK, nm, (locale_t)0), old = thread_loc;
      if(!warm) { fputs("R locale-unavailable\n", out); free(nm); return 0; }
      freelocale(warm);
      uselocale(LC_GLOBAL_LOCALE);
      if(old) freelocale(old);
      thread_loc = newlocale(LC_ALL_MASK, nm, (locale_t)0);
      uselocale(thread_loc);
      free(thread_name); thread_name = strdup(nm);
      fprintf(out, "R swap %d\n", old && thread_loc == old);
      free(nm);
      return 0;
    }
    else
    {
      if(thread_loc) { uselocale(LC_GLOBAL_LOCALE); freelocale(thread_loc); thread_loc = (locale_t)0; free(thread_name); thread_name = NULL; }
      if(nm)
      {
        thread_loc = newlocale(LC_ALL_MASK, nm, (locale_t)0);
        if(!thread_loc) { fputs("R locale-unavailable\n", out); free(nm); return 0; }
        uselocale(thread_loc);
        thread_name = strdup(nm);
      }
    }
    free(nm);
    r_unit(); return 0;
  }
  if(n == 1 && IS("locq"))
  {
    /* what the caller sees: global locale name, identity of the thread locale, radix of the caller's printf */
    char b[32];
    locale_t cur = uselocale((locale_t)0);
    snprintf(b, sizeof b, "%.1f", 1.5);
    fputs("R loc ", out); put_hs(glob_name ? glob_name : "C"); fputc(' ', out);
    if(cur == LC_GLOBAL_LOCALE) fputc('-', out);
    else if(cur == thread_loc) put_hs(thread_name);
    else fputs("OTHER", out);
    fprintf(out, " %d\n", (int)(unsigned char)b[1]);
    /* the global locale string must also be what was set */
    if(strcmp(setlocale(LC_NUMERIC, NULL), glob_name ? glob_name : "C") != 0) fputs("L GLOBAL-LOCALE-CHANGED\n", out);
    return 0;
  }
  if(n == 5 && IS("wdev"))
  {
    wdev_cap = parse_num(tok[1]); wdev_fsync_fails = (int)parse_num(tok[2]);
    wdev_close_fails = parse_num(tok[3]) != 0; wdev_open_fails = parse_num(tok[4]) != 0;
    r_unit(); return 0;
  }
  if(n == 2 && IS("writef"))
  {
    char *path = parse_hs(tok[1], NULL);
    struct rlimit old, lim;
    getrlimit(RLIMIT_FSIZE, &old);
    if(wdev_cap >= 0) { lim = old; lim.rlim_cur = (rlim_t)wdev_cap; setrlimit(RLIMIT_FSIZE, &lim); }
    wdev_active = 1;
    int r = config_write_file(&cfg, path);
    wdev_active = 0;
    setrlimit(RLIMIT_FSIZE, &old);
    free(path);
    r_int(r); return 0;
  }
  if(n == 3 && IS("writeft"))
  {
    /* config_write_file with ONE transient write failure: the file size limit is <cap> until the first write hits it
       (SIGXFSZ: the write fails with EFBIG), then the limit is lifted and every later write, the flush and the close
       succeed.  stdio has dropped a buffer and set the stream's error indicator: the call must report failure. */
    char *path = parse_hs(tok[1], NULL);
    struct rlimit old, lim;
    struct sigaction sa, osa;
    getrlimit(RLIMIT_FSIZE, &old);
    xfsz_old = old; xfsz_fired = 0;
    memset(&sa, 0, sizeof sa); sa.sa_handler = xfsz_handler; sigaction(SIGXFSZ, &sa, &osa);
    lim = old; lim.rlim_cur = (rlim_t)parse_num(tok[2]); setrlimit(RLIMIT_FSIZE, &lim);
    int r = config_write_file(&cfg, path);
    setrlimit(RLIMIT_FSIZE, &old);
    sigaction(SIGXFSZ, &osa, NULL);
    free(path);
    r_int(r);
    fprintf(out, "L xfsz %d\n", xfsz_fired);
    return 0;
  }
  if(IS("fs") && n >= 3)
  {
    char *path = parse_hs(tok[2], NULL);
    if(!strcmp(tok[1], "put") && n == 4)
    {
      size_t len;
      char *content = parse_hs(tok[3], &len);
      mkdirs_for(path, 0);
      FILE *f = fopen(path, "wb");
      if(f) { if(len) fwrite(content, 1, len, f); fclose(f); }
      free(content);
    }
    else if(!strcmp(tok[1], "dir")) mkdirs_for(path, 1);
    else if(!strcmp(tok[1], "rm")) { if(unlink(path) != 0) rmdir(path); }
    else if(!strcmp(tok[1], "cat"))
    {
      FILE *f = fopen(path, "rb");
      if(!f) fputs("R s-\n", out);
      else
      {
        fputs("R sh", out);
        int ch;
        while((ch = fgetc(f)) != EOF) fprintf(out, "%02x", ch);
        fputc('\n', out);
        fclose(f);
      }
      free(path);
      return 0;
    }
    free(path);
    r_unit();
    return 0;
  }

  fputs("R ?\n", out);
  return 0;
}

#ifdef DRV_FAULT
static void *worker_line(void *arg) { run_line((char *)arg); return NULL; }
#endif

int main(int argc, char **argv)
{
  if(argc < 2) { fprintf(stderr, "usage: drv script [workdir]\n"); return 2; }
  const char *fdenv = getenv("DRV_OUT_FD");
  out = fdenv ? fdopen(atoi(fdenv), "w") : fdopen(dup(1), "w");
  if(!out) { perror("out"); return 2; }
  cap_init();
  signal(SIGXFSZ, SIG_IGN);
#ifdef DRV_FAULT
  if(getenv("DRV_FAULT_K")) fault_k = atol(getenv("DRV_FAULT_K"));
  if(getenv("DRV_FAULT_K2")) { fault_k2 = atol(getenv("DRV_FAULT_K2")); recover_mode = 1; }
#ifndef DRV_CXX
  config_set_fatal_error_func(fatal_handler);
#endif
#endif

  FILE *sf = fopen(argv[1], "r");
  if(!sf) { perror(argv[1]); return 2; }
  if(argc > 2 && chdir(argv[2]) != 0) { perror(argv[2]); return 2; }

  char *line = NULL;
  size_t cap = 0;
  ssize_t len;
#ifdef DRV_FAULT
  if(recover_mode && setjmp(recover_env))
  {
    /* recovered from the first failure: abandon the configuration, run the script again with the second fault */
    fputs("RECOVERED\n", out);
    live = 0; fault_seen = 0; alloc_count = 0; fault_k = fault_k2; fault_k2 = -1;
    rewind(sf);
  }
#endif
  if(getenv("DRV_NOFILE"))                       /* a process that may hold only so many descriptors */
  {
    struct rlimit nf; getrlimit(RLIMIT_NOFILE, &nf); nf.rlim_cur = (rlim_t)atol(getenv("DRV_NOFILE")); setrlimit(RLIMIT_NOFILE, &nf);
  }
  if(getenv("DRV_CLOSE_STDIN")) close(0);      /* a process started with standard input closed: descriptor 0 is free */
  while((len = getline(&line, &cap, sf)) >= 0)
  {
    while(len > 0 && (line[len - 1] == '\n' || line[len - 1] == '\r')) line[--len] = 0;
    if(len == 0) continue;
#ifdef DRV_FAULT
    if(getenv("DRV_WORKER") && !recover_mode)
    {
      /* the call is made on another thread than the one that registered the fatal-error function */
      pthread_t th;
      if(pthread_create(&th, NULL, worker_line, line) == 0) pthread_join(th, NULL); else run_line(line);
    }
    else
#endif
    run_line(line);
    if(incfn_switched) { setlocale(LC_NUMERIC, glob_name ? glob_name : "C"); incfn_switched = 0; }
    if(live) check_handed();
    if(live) note_error_file();
    ev_flush();
#if defined(DRV_FAULT) && defined(DRV_CXX)
    fprintf(out, "N %ld\n", alloc_count);      /* library allocations so far (to aim faults at the C++ calls) */
#endif
    fflush(out);
  }
  free(line);
  fclose(sf);
#ifdef DRV_CXX
  if(live) { xx_delete_config(); leak_probe(); }
#else
  if(live) { config_destroy(&cfg); leak_probe(); }
#endif
  free(evbuf);
  for(size_t i = 0; i < handed_n; i++) free(handed_tab[i].copy);
  free(handed_tab);
  for(int i = 0; i < multi_n; i++) free(multi_paths[i]);
  free(multi_paths);
  for(int i = 0; i < fail_n; i++) free(fail_msgs[i]);
  free(fail_msgs);
#ifdef DRV_FAULT
  fprintf(out, "ALLOCS %ld fault_seen=%d\n", alloc_count, fault_seen);
#endif
  fflush(out);
  return 0;
}
