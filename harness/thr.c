/* thr.c — C14 harness: N threads each read, query, modify and write their OWN configuration objects
   concurrently; every thread's results must equal the results of the same program run alone (serially,
   before the threads start).  Built with -fsanitize=thread: a data race report ends the process with
   exit code 66.  usage: thr <workdir> <nthreads> <iterations> */
#define _GNU_SOURCE
#include <stdio.h>
#include <stdlib.h>
#include <string.h>
#include <pthread.h>
#include <unistd.h>
#include <sys/stat.h>
#include "libconfig.h"

static char workdir[512];

static void put(char **buf, size_t *len, size_t *cap, const char *fmt, ...)
  __attribute__((format(printf, 4, 5)));
#include <stdarg.h>
static void put(char **buf, size_t *len, size_t *cap, const char *fmt, ...)
{
  char tmp[2048];
  va_list ap; va_start(ap, fmt);
  int n = vsnprintf(tmp, sizeof tmp, fmt, ap);
  va_end(ap);
  if(n < 0) return;
  if((size_t)n >= sizeof tmp) n = sizeof tmp - 1;
  if(*len + (size_t)n + 1 > *cap) { *cap = (*len + (size_t)n + 1) * 2; *buf = realloc(*buf, *cap); }
  memcpy(*buf + *len, tmp, (size_t)n + 1);
  *len += (size_t)n;
}

static void hook_dtor(void *h) { (void)h; }

/* an include function that refuses every include with a message of the calling thread's own (kept in thread-local storage):
   the error text of a configuration is that message, whatever other threads' include functions say in the meantime */
#include <stdint.h>
static const char **refuse_inc(config_t *c, const char *dir, const char *path, const char **error)
{
  static __thread char msg[80];
  (void)dir;
  snprintf(msg, sizeof msg, "include of %s refused for thread %d", path, (int)(intptr_t)config_get_hook(c));
  *error = msg;
  return NULL;
}

/* the program of thread [id]: everything it observes goes into the result string */
static char *run_program(int id)
{
  char *res = NULL; size_t len = 0, cap = 0;
  char text[1024], dir[600], path[700];
  config_t c;
  config_init(&c);
  config_set_float_precision(&c, (unsigned short)(2 + id % 9));
  config_set_tab_width(&c, (unsigned short)(id % 6));
  config_set_options(&c, (id % 2 ? CONFIG_OPTION_SEMICOLON_SEPARATORS : 0) | (id % 3 ? CONFIG_OPTION_COLON_ASSIGNMENT_FOR_GROUPS : 0)
                          | CONFIG_OPTION_OPEN_BRACE_ON_SEPARATE_LINE | (id % 4 == 1 ? CONFIG_OPTION_ALLOW_SCIENTIFIC_NOTATION : 0)
                          | (id % 2 ? CONFIG_OPTION_AUTOCONVERT : 0) | CONFIG_OPTION_ALLOW_OVERRIDES);
  config_set_destructor(&c, hook_dtor);
  snprintf(dir, sizeof dir, "%s/t%d", workdir, id);
  config_set_include_dir(&c, dir);
  snprintf(text, sizeof text,
           "a%d = %d;\nf = %d.625;\ns = \"thread %d \\x41\\n\";\n@include \"site.cfg\"\n"
           "g = { l = ( 1, 2.5e%d, \"x\", [ %d, %d ] ); big = %dL; hex = 0x%X; };\n# comment %d\n",
           id, id * 7, id, id, id % 5, id, id + 1, id + 100000, (unsigned)(id * 37 + 255), id);
  int rc = config_read_string(&c, text);
  put(&res, &len, &cap, "read=%d err=%s line=%d\n", rc, config_error_text(&c) ? config_error_text(&c) : "-", config_error_line(&c));
  int iv = -1; double fv = -1; const char *sv = "?"; long long lv = -1;
  char name[32]; snprintf(name, sizeof name, "a%d", id);
  put(&res, &len, &cap, "look %d", config_lookup_int(&c, name, &iv)); put(&res, &len, &cap, " %d\n", iv);
  put(&res, &len, &cap, "look %d", config_lookup_float(&c, "f", &fv)); put(&res, &len, &cap, " %.6f\n", fv);
  put(&res, &len, &cap, "look %d", config_lookup_string(&c, "s", &sv)); put(&res, &len, &cap, " %s\n", sv);
  put(&res, &len, &cap, "look %d", config_lookup_int64(&c, "g.big", &lv)); put(&res, &len, &cap, " %lld\n", lv);
  put(&res, &len, &cap, "look %d", config_lookup_int(&c, "site.owner", &iv)); put(&res, &len, &cap, " %d\n", iv);
  config_setting_t *site = config_lookup(&c, "site");
  put(&res, &len, &cap, "src %s:%u\n", site && config_setting_source_file(site) ? strrchr(config_setting_source_file(site), '/') - 3 : "-",
      site ? config_setting_source_line(site) : 0u);
  /* modify */
  config_setting_t *root = config_root_setting(&c);
  config_setting_t *n = config_setting_add(root, "added", CONFIG_TYPE_LIST);
  for(int i = 0; i < 20 + id; i++) config_setting_set_int_elem(n, -1, i * id);
  config_setting_set_hook(n, (void *)(long)(id + 1));
  config_setting_t *st = config_setting_add(root, "s", CONFIG_TYPE_STRING);    /* override */
  config_setting_set_string(st, text + 10);
  put(&res, &len, &cap, "rm %d %d\n", config_setting_remove(root, "g.hex"), config_setting_remove_elem(n, (unsigned)id));
  put(&res, &len, &cap, "len %d idx %d\n", config_setting_length(n), config_setting_index(n));
  /* floats whose rendering is long (more than the 64 bytes of the writer's formatting buffer without scientific notation):
     whatever the writer does with them, it must not involve memory shared between the threads */
  config_setting_t *hf = config_setting_add(root, "huge", CONFIG_TYPE_FLOAT);
  config_setting_set_float(hf, 1.5e70 * (id + 1));
  hf = config_setting_add(root, "tiny", CONFIG_TYPE_FLOAT);
  config_setting_set_float(hf, -2.5e-70 / (id + 1));
  /* write to memory and to a file of its own, read the file back */
  char *wbuf = NULL; size_t wlen = 0;
  FILE *m = open_memstream(&wbuf, &wlen);
  config_write(&c, m); fclose(m);
  put(&res, &len, &cap, "written %zu bytes\n%s", wlen, wbuf);
  snprintf(path, sizeof path, "%s/out.cfg", dir);
  put(&res, &len, &cap, "writef %d\n", config_write_file(&c, path));
  config_t c2; config_init(&c2);
  put(&res, &len, &cap, "readf %d\n", config_read_file(&c2, path));
  char *wbuf2 = NULL; size_t wlen2 = 0;
  m = open_memstream(&wbuf2, &wlen2);
  config_write(&c2, m); fclose(m);
  put(&res, &len, &cap, "reread %zu\n", wlen2);
  /* a failing read */
  snprintf(text, sizeof text, "x = 1;\n\n\ny%d = [ 1, \"a\" ];", id);
  rc = config_read_string(&c2, text);
  put(&res, &len, &cap, "bad=%d err=%s line=%d type=%d\n", rc, config_error_text(&c2), config_error_line(&c2), (int)config_error_type(&c2));
  snprintf(path, sizeof path, "%s/nosuch%d.cfg", dir, id);
  rc = config_read_file(&c2, path);
  put(&res, &len, &cap, "missing=%d type=%d\n", rc, (int)config_error_type(&c2));
  /* an include that cannot be opened, with an include directory in effect (the library resolves the name); the error is
     looked at only after more work on another configuration: it belongs to this configuration alone */
  {
    config_t c3; char *w3 = NULL; size_t l3 = 0;
    config_init(&c3);
    config_set_include_dir(&c3, dir);
    snprintf(text, sizeof text, "k%d = 1;\n\n@include \"absent%d.cfg\"\n", id, id);
    rc = config_read_string(&c3, text);
    m = open_memstream(&w3, &l3); config_write(&c, m); fclose(m); free(w3);
    (void)config_lookup(&c, name);
    put(&res, &len, &cap, "absent=%d err=%s file=%s line=%d type=%d\n", rc, config_error_text(&c3) ? config_error_text(&c3) : "-",
        config_error_file(&c3) ? "set" : "-", config_error_line(&c3), (int)config_error_type(&c3));
    config_destroy(&c3);
  }
  /* an include refused by the application's include function, with a message of this thread's own; looked at after more work */
  {
    config_t c4; char *w4 = NULL; size_t l4 = 0;
    config_init(&c4);
    config_set_hook(&c4, (void *)(intptr_t)id);
    config_set_include_func(&c4, refuse_inc);
    snprintf(text, sizeof text, "r%d = 1;\n@include \"part%d.cfg\"\n", id, id);
    rc = config_read_string(&c4, text);
    m = open_memstream(&w4, &l4); config_write(&c, m); fclose(m); free(w4);
    put(&res, &len, &cap, "refused=%d err=%s line=%d\n", rc, config_error_text(&c4) ? config_error_text(&c4) : "-", config_error_line(&c4));
    config_destroy(&c4);
  }
  free(wbuf); free(wbuf2);
  config_destroy(&c2);
  config_destroy(&c);
  return res;
}

static char **expected; static int iterations; static volatile int mismatches;

/* optional: threads use locales of their own (argv[4] = "loc"): thread 0 a comma-decimal one, every third thread a
   point-decimal object, the others none - what one thread does under its locale must not reach the others */
#include <locale.h>
static int use_locales;
static locale_t thread_locale(int id)
{
  if(!use_locales) return (locale_t)0;
  const char *nm = (id == 0) ? "xx_XX.utf8" : ((id % 3 == 2) ? "yy_YY.utf8" : NULL);
  if(!nm) return (locale_t)0;
  locale_t l = newlocale(LC_ALL_MASK, nm, (locale_t)0);
  if(l) uselocale(l);
  return l;
}
static void drop_locale(locale_t l) { if(l) { uselocale(LC_GLOBAL_LOCALE); freelocale(l); } }

static void *worker(void *arg)
{
  int id = (int)(long)arg;
  locale_t tl = thread_locale(id);
  for(int it = 0; it < iterations; it++)
  {
    char *r = run_program(id);
    if(strcmp(r, expected[id]) != 0)
    {
      __sync_fetch_and_add(&mismatches, 1);
      if(it == 0 || mismatches < 3)
        fprintf(stderr, "MISMATCH thread %d iteration %d\n--- alone ---\n%s--- concurrent ---\n%s", id, it, expected[id], r);
    }
    free(r);
  }
  drop_locale(tl);
  return NULL;
}

int main(int argc, char **argv)
{
  if(argc < 4) { fprintf(stderr, "usage: thr workdir nthreads iterations\n"); return 2; }
  snprintf(workdir, sizeof workdir, "%s", argv[1]);
  int nt = atoi(argv[2]); iterations = atoi(argv[3]);
  expected = calloc((size_t)nt, sizeof *expected);
  for(int id = 0; id < nt; id++)
  {
    char p[700];
    snprintf(p, sizeof p, "%s/t%d", workdir, id); mkdir(p, 0777);
    snprintf(p, sizeof p, "%s/t%d/site.cfg", workdir, id);
    FILE *f = fopen(p, "w"); fprintf(f, "site = { owner = %d; name = \"site%d\"; };\n", id * 11, id); fclose(f);
  }
  use_locales = (argc > 4 && !strcmp(argv[4], "loc"));
  if(use_locales)
  {
    locale_t probe = newlocale(LC_ALL_MASK, "xx_XX.utf8", (locale_t)0);
    if(!probe) { printf("locale-unavailable\n"); return 3; }
    freelocale(probe);
  }
  for(int id = 0; id < nt; id++)                                      /* alone, under the thread's own locale */
  {
    locale_t tl = thread_locale(id);
    expected[id] = run_program(id);
    drop_locale(tl);
  }
  pthread_t *th = calloc((size_t)nt, sizeof *th);
  for(int id = 0; id < nt; id++) pthread_create(&th[id], NULL, worker, (void *)(long)id);
  for(int id = 0; id < nt; id++) pthread_join(th[id], NULL);
  printf("threads=%d iterations=%d mismatches=%d\n", nt, iterations, mismatches);
  if(argc > 4 && strcmp(argv[4], "loc")) fputs(expected[nt - 1], stdout);
  return mismatches ? 1 : 0;
}
