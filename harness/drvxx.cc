// drvxx.cc — the C++ side of the correspondence harness (variant "cxx"): the configuration is a
// libconfig::Config object; the C operations of drv.c act on its config_t, the x* operations below go
// through the C++ API.  Every x* operation prints its C++ outcome (value or exception class) in the
// transcript format of drv.c; where a C function answers the same question its answer is printed too
// (suffix "| c=...") so that the agreement can be checked on the implementation alone.
#include <cstdio>
#include <unistd.h>
#include <cstdlib>
#include <cstring>
#include <cinttypes>
#include <string>
#include <vector>
#include <sstream>
#include <locale>
#define private public
#define protected public
#include "libconfig.h++"
#include "libconfig.h"
#undef private
#undef protected

using namespace libconfig;

extern "C" {
extern FILE *out;
extern config_t *drv_cfgp;
config_setting_t *resolve(const char *tok);
void put_node(const config_setting_t *s);
void put_hs(const char *s);
char *parse_hs(const char *tok, size_t *len);
void xx_new_config(void);
void xx_delete_config(void);
void xx_reload_config(void);
int xx_op(int n, char **tok);
}

static Config *cx = NULL;

// the last ParseException caught, kept as a copy (as a program that stores or rethrows it would), with what it
// reported when it was caught: it must keep reporting that, whatever happens to the Config afterwards
static ParseException *kept_pe = NULL;
static std::string kept_file, kept_err;
static int kept_line = 0, kept_has_file = 0;
static void check_kept(void)
{
  if(!kept_pe) return;
  const char *f = kept_pe->getFile(), *e = kept_pe->getError();
  int ok = (kept_pe->getLine() == kept_line) && ((f != NULL) == (kept_has_file != 0)) && (!f || kept_file == f) && e && kept_err == e;
  if(!ok) fputs("L EXCBAD\n", out);
}
static void drop_kept(void) { delete kept_pe; kept_pe = NULL; }

void xx_new_config(void) { cx = new Config(); drv_cfgp = cx->_config; }
void xx_delete_config(void) { delete cx; cx = NULL; drv_cfgp = NULL; check_kept(); drop_kept(); }
void xx_reload_config(void)
{
  Config *old = cx;
  try { cx = new Config(); }
  catch(const std::bad_alloc &)
  {
    /* an allocation failed inside Config::Config(): the documented exception */
    fputs("R throw bad_alloc\n", out);
#ifdef DRV_FAULT
    fflush(out); _exit(0);
#endif
    cx = old; return;
  }
  drv_cfgp = cx->_config; delete old; check_kept(); drop_kept();
}

static uint64_t dbits(double d) { uint64_t b; memcpy(&b, &d, 8); return b; }
static double bdbl(uint64_t b) { double d; memcpy(&d, &b, 8); return d; }

static const char *exn_name(const ConfigException &e)
{
  if(dynamic_cast<const SettingTypeException *>(&e)) return "SettingTypeException";
  if(dynamic_cast<const SettingRangeException *>(&e)) return "SettingRangeException";
  if(dynamic_cast<const SettingNotFoundException *>(&e)) return "SettingNotFoundException";
  if(dynamic_cast<const SettingNameException *>(&e)) return "SettingNameException";
  if(dynamic_cast<const ParseException *>(&e)) return "ParseException";
  if(dynamic_cast<const FileIOException *>(&e)) return "FileIOException";
  return "ConfigException";
}
/* the path a SettingException must carry when an indexed access on [exp_parent] with index [exp_idx] fails: the parent's
   own path (Setting::getPath, compared with the model elsewhere) followed by ".[<index>]", the index in plain decimal */
static config_setting_t *exp_parent; static long exp_idx; static int exp_on;
static void put_throw(const ConfigException &e)
{
  if(exp_on)
  {
    exp_on = 0;
    if(const SettingException *se = dynamic_cast<const SettingException *>(&e))
    {
      char want[4200];
      std::string pp = Setting::wrapSetting(exp_parent).getPath();
      snprintf(want, sizeof want, "%s.[%ld]", pp.c_str(), exp_idx);
      const char *got = se->getPath();
      if(!got || (strcmp(got, want) && !(pp.empty() && !strcmp(got, want + 1))))
      {
        fputs("L expath BAD got ", out); put_hs(got); fputs(" want ", out); put_hs(want); fputc('\n', out);
      }
    }
  }
  fprintf(out, "R throw %s", exn_name(e));
  if(const ParseException *p = dynamic_cast<const ParseException *>(&e))
  {
    fputc(' ', out); put_hs(p->getFile()); fprintf(out, " %d ", p->getLine()); put_hs(p->getError());
    check_kept(); drop_kept();         /* the earlier one has survived a re-read of its Config */
    kept_pe = new ParseException(*p);
    kept_has_file = p->getFile() != NULL; kept_file = p->getFile() ? p->getFile() : ""; kept_line = p->getLine();
    kept_err = p->getError() ? p->getError() : "";
  }
  fputc('\n', out);
}

#define SENT_I 0x5a5a5a5a
#define SENT_L 0x5a5a5a5a5a5a5a5aLL
#define SENT_F 0x7ff8dead0000beefULL

// cast of a setting to kind k: i int, u unsigned, l long long, U unsigned long long, f double, b bool, s string
static void cast_and_print(const Setting &s, char k)
{
  switch(k)
  {
    case 'i': { int v = s; fprintf(out, "i%d", v); break; }
    case 'u': { unsigned int v = s; fprintf(out, "i%u", v); break; }
    case 'l': { long long v = s; fprintf(out, "i%lld", v); break; }
    case 'U': { unsigned long long v = s; fprintf(out, "i%llu", v); break; }
    case 'f': { double v = s; fprintf(out, "f%016" PRIx64, dbits(v)); break; }
    case 'b': { bool v = s; fprintf(out, "i%d", v ? 1 : 0); break; }
    default: { std::string v = s; fputc('s', out); put_hs(v.c_str()); break; }
  }
}

template <class C> static void lookup_value(const C &obj, const char *key, char k)
{
  bool ok = false, changed = false;
  switch(k)
  {
    case 'i': { int v = SENT_I; ok = obj.lookupValue(key, v); changed = v != (int)SENT_I; fprintf(out, "R k%d", ok); if(ok) fprintf(out, " i%d", v); break; }
    case 'u': { unsigned int v = SENT_I; ok = obj.lookupValue(key, v); changed = v != SENT_I; fprintf(out, "R k%d", ok); if(ok) fprintf(out, " i%u", v); break; }
    case 'l': { long long v = SENT_L; ok = obj.lookupValue(key, v); changed = v != SENT_L; fprintf(out, "R k%d", ok); if(ok) fprintf(out, " i%lld", v); break; }
    case 'U': { unsigned long long v = SENT_L; ok = obj.lookupValue(key, v); changed = v != (unsigned long long)SENT_L; fprintf(out, "R k%d", ok); if(ok) fprintf(out, " i%llu", v); break; }
    case 'f': { double v = bdbl(SENT_F); ok = obj.lookupValue(key, v); changed = dbits(v) != SENT_F; fprintf(out, "R k%d", ok); if(ok) fprintf(out, " f%016" PRIx64, dbits(v)); break; }
    case 'b': { bool v = false; bool v2 = true; ok = obj.lookupValue(key, v); bool ok2 = obj.lookupValue(key, v2); changed = !ok && (v != false || v2 != true); (void)ok2;
                fprintf(out, "R k%d", ok); if(ok) fprintf(out, " i%d", v ? 1 : 0); break; }
    default: { std::string v = "\x01sentinel"; ok = obj.lookupValue(key, v); changed = v != "\x01sentinel"; fprintf(out, "R k%d", ok); if(ok) { fputs(" s", out); put_hs(v.c_str()); } break; }
  }
  if(!ok && changed) fputs(" CHANGED", out);
  fputc('\n', out);
}

int xx_op(int n, char **tok)
{
  const char *c = tok[0];
#define IS(s) (!strcmp(c, s))
  try
  {
    if(n == 3 && IS("xcast"))
    {
      config_setting_t *cs = resolve(tok[2]);
      if(!cs) { fputs("R badhandle\n", out); return 1; }
      Setting &s = Setting::wrapSetting(cs);
      // evaluate first, print afterwards: casts may throw
      FILE *save = out; char *mem = NULL; size_t ml = 0; FILE *m = open_memstream(&mem, &ml); out = m;
      try { cast_and_print(s, tok[1][0]); } catch(...) { out = save; fclose(m); free(mem); throw; }
      out = save; fclose(m); fputs("R ", out); fputs(mem, out); free(mem); fputc('\n', out);
      return 1;
    }
    if(n == 3 && IS("xlook")) { char *path = parse_hs(tok[2], NULL); lookup_value(*cx, path ? path : "", tok[1][0]); free(path); return 1; }
    if(n == 4 && IS("xmlook"))
    {
      config_setting_t *cs = resolve(tok[2]);
      if(!cs) { fputs("R badhandle\n", out); return 1; }
      char *name = parse_hs(tok[3], NULL);
      lookup_value(Setting::wrapSetting(cs), name ? name : "", tok[1][0]); free(name); return 1;
    }
    if(n == 2 && IS("xexists")) { char *path = parse_hs(tok[1], NULL); fprintf(out, "R i%d\n", cx->exists(path ? path : "") ? 1 : 0); free(path); return 1; }
    if(n == 3 && IS("xmexists"))
    {
      config_setting_t *cs = resolve(tok[1]);
      if(!cs) { fputs("R badhandle\n", out); return 1; }
      char *name = parse_hs(tok[2], NULL);
      fprintf(out, "R i%d\n", Setting::wrapSetting(cs).exists(name ? name : "") ? 1 : 0); free(name); return 1;
    }
    if(n == 2 && IS("xlookup"))
    {
      char *path = parse_hs(tok[1], NULL); std::string p(path ? path : ""); free(path);
      Setting &s = cx->lookup(p.c_str()); fputs("R ", out); put_node(s._setting); fputc('\n', out); return 1;
    }
    if(n == 3 && IS("xidx"))
    {
      config_setting_t *cs = resolve(tok[1]);
      if(!cs) { fputs("R badhandle\n", out); return 1; }
      exp_parent = cs; exp_idx = atoi(tok[2]); exp_on = 1;
      Setting &s = Setting::wrapSetting(cs)[atoi(tok[2])]; exp_on = 0; fputs("R ", out); put_node(s._setting); fputc('\n', out); return 1;
    }
    if(n == 3 && IS("xmem"))
    {
      config_setting_t *cs = resolve(tok[1]);
      if(!cs) { fputs("R badhandle\n", out); return 1; }
      char *name = parse_hs(tok[2], NULL); std::string nm(name ? name : ""); free(name);
      Setting &s = Setting::wrapSetting(cs)[nm.c_str()]; fputs("R ", out); put_node(s._setting); fputc('\n', out); return 1;
    }
    if(n == 2 && IS("xpath"))
    {
      config_setting_t *cs = resolve(tok[1]);
      if(!cs) { fputs("R badhandle\n", out); return 1; }
      std::string p = Setting::wrapSetting(cs).getPath();
      // the path reported by getPath() must resolve back to the same setting
      config_setting_t *back = p.empty() ? cs : config_lookup(drv_cfgp, p.c_str());
      fputs("R s", out); put_hs(p.c_str()); fputs(" back=", out); put_node(back); fputc('\n', out);
      return 1;
    }
    if(n == 2 && IS("xinfo"))
    {
      config_setting_t *cs = resolve(tok[1]);
      if(!cs) { fputs("R badhandle\n", out); return 1; }
      Setting &s = Setting::wrapSetting(cs);
      const char *nm = s.getName();
      fprintf(out, "R t%d f%d len%d idx%d root%d grp%d arr%d lst%d agg%d sca%d num%d name", (int)s.getType(), (int)s.getFormat(), s.getLength(),
              s.getIndex(), s.isRoot() ? 1 : 0, s.isGroup(), s.isArray(), s.isList(), s.isAggregate(), s.isScalar(), s.isNumber());
      put_hs(nm);
      fprintf(out, " | c=t%d f%d len%d idx%d root%d name", config_setting_type(cs), config_setting_get_format(cs), config_setting_length(cs),
              config_setting_index(cs), config_setting_is_root(cs));
      put_hs(config_setting_name(cs));
      fputc('\n', out);
      return 1;
    }
    if(n == 2 && IS("xiter"))
    {
      config_setting_t *cs = resolve(tok[1]);
      if(!cs) { fputs("R badhandle\n", out); return 1; }
      Setting &s = Setting::wrapSetting(cs);
      FILE *save = out; char *mem = NULL; size_t ml = 0; FILE *m = open_memstream(&mem, &ml); out = m;
      int count = 0;
      try
      {
        for(Setting::iterator it = s.begin(); it != s.end(); ++it, ++count)
        {
          fputc(count ? ',' : ' ', out); put_node(it->_setting);
          if(count > 100000) break;
        }
      }
      catch(...) { out = save; fclose(m); free(mem); throw; }
      out = save; fclose(m);
      /* every other way of walking the same children must visit the same settings in the same order */
      {
        std::vector<config_setting_t *> seq, alt;
        for(Setting::iterator it = s.begin(); it != s.end(); ++it) seq.push_back(it->_setting);
        const char *bad = NULL;
        Setting &rt = cx->getRoot();
        const Setting &cs_ = s;
        /* an iterator variable first bound to another aggregate, then assigned */
        { Setting::iterator it = rt.begin(); it = s.begin(); alt.clear();
          for(Setting::iterator e = s.end(); it != e && alt.size() <= seq.size(); ++it) alt.push_back(it->_setting);
          if(alt != seq) bad = "iterator="; }
        { Setting::const_iterator it = static_cast<const Setting &>(rt).begin(); it = cs_.begin(); alt.clear();
          for(Setting::const_iterator e = cs_.end(); it != e && alt.size() <= seq.size(); ++it)
            alt.push_back(const_cast<config_setting_t *>(it->_setting));
          if(alt != seq && !bad) bad = "const_iterator="; }
        /* post-increment, copies */
        { alt.clear(); Setting::iterator it = s.begin();
          while(it != s.end() && alt.size() <= seq.size()) { Setting::iterator c(it++); alt.push_back(c->_setting); }
          if(alt != seq && !bad) bad = "it++"; }
        /* backwards from end() */
        { alt.clear(); Setting::iterator it = s.end();
          while(it != s.begin() && alt.size() <= seq.size()) { --it; alt.insert(alt.begin(), it->_setting); }
          if(alt != seq && !bad) bad = "--it"; }
        /* arithmetic */
        { alt.clear();
          if((s.end() - s.begin()) != (int)seq.size() && !bad) bad = "end-begin";
          for(int i = 0; i < (int)seq.size(); i++)
          { Setting::iterator it = s.begin() + i; alt.push_back(it->_setting);
            Setting::iterator b2 = s.end(); b2 -= ((int)seq.size() - i);
            if(b2->_setting != it->_setting && !bad) bad = "end-=k";
            /* (operator< is declared in libconfig.h++ but defined nowhere in the library: not used) */ }
          if(alt != seq && !bad) bad = "begin+i"; }
        if(bad) { fprintf(out, "R it-disagree %s\n", bad); free(mem); return 1; }
      }
      fputs("R it", out); fputs(mem, out); free(mem);
      fprintf(out, " n=%d\n", count);
      return 1;
    }
    if(n == 4 && IS("xadd"))
    {
      config_setting_t *cs = resolve(tok[1]);
      if(!cs) { fputs("R badhandle\n", out); return 1; }
      Setting &p = Setting::wrapSetting(cs);
      int t = atoi(tok[3]);
      if(!strcmp(tok[2], "-")) { Setting &s = p.add((Setting::Type)t); fputs("R ", out); put_node(s._setting); fputc('\n', out); }
      else { char *name = parse_hs(tok[2], NULL); std::string nm(name ? name : ""); free(name);
             Setting &s = p.add(nm.c_str(), (Setting::Type)t); fputs("R ", out); put_node(s._setting); fputc('\n', out); }
      return 1;
    }
    if(n == 3 && IS("xrm"))
    {
      config_setting_t *cs = resolve(tok[1]);
      if(!cs) { fputs("R badhandle\n", out); return 1; }
      char *name = parse_hs(tok[2], NULL); std::string nm(name ? name : ""); free(name);
      Setting::wrapSetting(cs).remove(nm.c_str()); fputs("R unit\n", out); return 1;
    }
    if(n == 3 && IS("xrmi"))
    {
      config_setting_t *cs = resolve(tok[1]);
      if(!cs) { fputs("R badhandle\n", out); return 1; }
      exp_parent = cs; exp_idx = (int)(unsigned int)strtoul(tok[2], NULL, 10); exp_on = 1;
      Setting::wrapSetting(cs).remove((unsigned int)strtoul(tok[2], NULL, 10)); exp_on = 0; fputs("R unit\n", out); return 1;
    }
    if(n == 4 && IS("xset"))
    {
      config_setting_t *cs = resolve(tok[2]);
      if(!cs) { fputs("R badhandle\n", out); return 1; }
      Setting &s = Setting::wrapSetting(cs);
      switch(tok[1][0])
      {
        case 'i': s = (int)strtoll(tok[3], NULL, 10); break;
        case 'l': s = (long long)strtoll(tok[3], NULL, 10); break;
        case 'f': s = bdbl((uint64_t)strtoull(tok[3] + 1, NULL, 16)); break;
        case 'b': s = (strtoll(tok[3], NULL, 10) != 0); break;
        default: { char *v = parse_hs(tok[3], NULL); std::string sv(v ? v : ""); free(v); s = sv; break; }
      }
      fputs("R unit\n", out); return 1;
    }
    if(n == 1 && IS("xinit")) { fputs("R unit\n", out); return 1; }
    if(n == 1 && IS("xgrouploc"))
    {
      /* a global C++ locale that groups digits (1,000): nothing the library reports may depend on it */
      struct grp : std::numpunct<char> { char do_thousands_sep() const { return ','; } std::string do_grouping() const { return "\3"; } };
      std::locale::global(std::locale(std::locale::classic(), new grp));
      fputs("R unit\n", out); return 1;
    }
    if(n == 1 && IS("xclear")) { cx->clear(); check_kept(); fputs("R unit\n", out); return 1; }
    if(n == 1 && IS("xtemp")) { { Config tmp; tmp.getRoot().add("t", Setting::TypeInt) = 1; } fputs("R unit\n", out); return 1; }   /* a second Config with a nested lifetime */
    if(n == 3 && IS("xsetfmt"))
    {
      config_setting_t *cs = resolve(tok[1]);
      if(!cs) { fputs("R badhandle\n", out); return 1; }
      Setting::wrapSetting(cs).setFormat((Setting::Format)atoi(tok[2])); fputs("R unit\n", out); return 1;
    }
    if(n == 2 && IS("xreads")) { char *t = parse_hs(tok[1], NULL); std::string txt(t ? t : ""); free(t); cx->readString(txt); check_kept(); fputs("R unit\n", out); return 1; }
    if(n == 2 && IS("xreadf")) { char *t = parse_hs(tok[1], NULL); std::string p(t ? t : ""); free(t); cx->readFile(p.c_str()); check_kept(); fputs("R unit\n", out); return 1; }
    if(n == 2 && IS("xwritef")) { char *t = parse_hs(tok[1], NULL); std::string p(t ? t : ""); free(t); cx->writeFile(p.c_str()); fputs("R unit\n", out); return 1; }
  }
  catch(const ConfigException &e) { put_throw(e); return 1; }
  catch(const std::bad_alloc &)
  {
    fputs("R throw bad_alloc\n", out);
#ifdef DRV_FAULT
    fflush(out); _exit(0);      /* the injected failure was reported as the documented exception: done */
#endif
    return 1;
  }
  return 0;
}
