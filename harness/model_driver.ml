(* model_driver.ml — reads a script on stdin, runs the extracted Coq model, prints the transcript.
   The only glue: bytes <-> the extracted inductive Z. *)
open Model

let rec pos_of_int (n : int) : positive =
  if n = 1 then XH
  else if n land 1 = 0 then XO (pos_of_int (n lsr 1))
  else XI (pos_of_int (n lsr 1))

let z_of_int (n : int) : z =
  if n = 0 then Z0 else if n > 0 then Zpos (pos_of_int n) else Zneg (pos_of_int (-n))

let rec int_of_pos (p : positive) : int =
  match p with XH -> 1 | XO q -> 2 * int_of_pos q | XI q -> 2 * int_of_pos q + 1

let int_of_z (x : z) : int =
  match x with Z0 -> 0 | Zpos p -> int_of_pos p | Zneg p -> - (int_of_pos p)

let ztab = Array.init 256 z_of_int

let read_all ic =
  let buf = Buffer.create 65536 in
  (try while true do Buffer.add_channel buf ic 1 done with End_of_file -> ());
  Buffer.contents buf

let () =
  set_binary_mode_in stdin true;
  set_binary_mode_out stdout true;
  let s = read_all stdin in
  let n = String.length s in
  let rec build i acc = if i < 0 then acc else build (i - 1) (ztab.(Char.code s.[i]) :: acc) in
  (* a script that starts with the line "#mem" goes to the capacity-arithmetic model (MemModel.v) *)
  let is_mem = n >= 5 && String.sub s 0 5 = "#mem\n" in
  let input = if is_mem then (let rec b i acc = if i < 5 then acc else b (i - 1) (ztab.(Char.code s.[i]) :: acc) in b (n - 1) [])
              else build (n - 1) [] in
  let out = if is_mem then run_mem_script input else run_script input in
  let b = Buffer.create 65536 in
  List.iter (fun x -> Buffer.add_char b (Char.chr ((int_of_z x) land 255))) out;
  print_string (Buffer.contents b)
