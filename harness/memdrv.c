/* memdrv.c — the capacity arithmetic of lib/strbuf.c, lib/strvec.c and of the element vectors of lib/libconfig.c
   (__config_list_add / __config_list_remove, reached through config_setting_add / config_setting_remove_elem), run op by op
   against MemModel.v.  Script (stdin): one op per line
     ss <len>   libconfig_strbuf_append_string of a string of <len> bytes      sc  libconfig_strbuf_append_char      sr  release
     va         libconfig_strvec_append                                         vr  libconfig_strvec_release
     la         append an element to a list setting                             lr <idx>  config_setting_remove_elem
   Output: one line per op  "M <length> <capacity or allocated slots> <bytes requested from realloc by this op, 0 if none>".
   Built with ASan/UBSan: an index outside its allocation aborts the run.  realloc is observed with --wrap. */
#include <stdio.h>
#include <stdlib.h>
#include <string.h>
#include "libconfig.h"
#include "strbuf.h"
#include "strvec.h"

static size_t last_req = 0;      /* bytes requested by the most recent library realloc during the current op */
static int watching = 0;
void *__real_realloc(void *p, size_t n);
void *__wrap_realloc(void *p, size_t n)
{
  if(watching) last_req = n;
  return __real_realloc(p, n);
}

int main(void)
{
  strbuf_t sb; strvec_t sv; config_t cfg; config_setting_t *lst;
  size_t list_alloc = 0;           /* slots of the element vector, as last requested */
  char line[256];
  memset(&sb, 0, sizeof sb); memset(&sv, 0, sizeof sv);
  config_init(&cfg);
  lst = config_setting_add(config_root_setting(&cfg), "l", CONFIG_TYPE_LIST);
  while(fgets(line, sizeof line, stdin))
  {
    unsigned long arg = 0;
    char op[8] = "";
    if(sscanf(line, "%7s %lu", op, &arg) < 1) continue;
    last_req = 0; watching = 1;
    if(!strcmp(op, "ss"))
    {
      watching = 0; char *s = (char *)malloc(arg + 1); memset(s, 'x', arg); s[arg] = 0; watching = 1;
      libconfig_strbuf_append_string(&sb, s);
      watching = 0; free(s);
      if(sb.string && strlen(sb.string) != sb.length) { puts("M BAD-NUL"); continue; }
      printf("M %zu %zu %zu\n", sb.length, sb.capacity, last_req);
    }
    else if(!strcmp(op, "sc"))
    {
      libconfig_strbuf_append_char(&sb, 'c'); watching = 0;
      if(sb.string && strlen(sb.string) != sb.length) { puts("M BAD-NUL"); continue; }
      printf("M %zu %zu %zu\n", sb.length, sb.capacity, last_req);
    }
    else if(!strcmp(op, "sr"))
    {
      char *r = libconfig_strbuf_release(&sb); watching = 0; free(r);
      printf("M %zu %zu %zu\n", sb.length, sb.capacity, last_req);
    }
    else if(!strcmp(op, "va"))
    {
      libconfig_strvec_append(&sv, "s"); watching = 0;
      printf("M %zu %zu %zu\n", sv.length, sv.capacity, last_req);
    }
    else if(!strcmp(op, "vr"))
    {
      size_t n = sv.length;
      const char **r = libconfig_strvec_release(&sv); watching = 0;
      if(r && r[n] != NULL) { puts("M BAD-TERMINATOR"); free((void *)r); continue; }
      free((void *)r);
      printf("M %zu %zu %zu\n", sv.length, sv.capacity, last_req);
    }
    else if(!strcmp(op, "la"))
    {
      config_setting_t *e = config_setting_add(lst, NULL, CONFIG_TYPE_INT); watching = 0;
      if(!e) { puts("M ADD-FAILED"); continue; }
      if(last_req) list_alloc = last_req / sizeof(config_setting_t *);
      printf("M %d %zu %zu\n", config_setting_length(lst), list_alloc, last_req);
    }
    else if(!strcmp(op, "lr"))
    {
      int ok = config_setting_remove_elem(lst, (unsigned int)arg); watching = 0;
      if(!ok) { puts("M REMOVE-FAILED"); continue; }
      if(last_req) list_alloc = last_req / sizeof(config_setting_t *);
      printf("M %d %zu %zu\n", config_setting_length(lst), list_alloc, last_req);
    }
    else { watching = 0; puts("M ?"); }
  }
  watching = 0;
  free(libconfig_strbuf_release(&sb));
  free((void *)libconfig_strvec_release(&sv));
  config_destroy(&cfg);
  return 0;
}
