#!/usr/bin/env python3
"""gen_consts.py — translator: named constants and message strings of /repo/lib -> coq/gen/Consts.v.
The model uses these names, so a changed constant changes the model.  Rewritten only on change."""
import os, re, sys
REPO = os.environ.get("REPO", "/repo")
VERIF = os.path.dirname(os.path.dirname(os.path.abspath(__file__)))
OUT = os.path.join(VERIF, "coq", "gen", "Consts.v")
L = os.path.join(REPO, "lib")


def rd(f):
    return open(os.path.join(L, f), encoding="latin-1").read()


def die(m):
    print("gen_consts: " + m)
    sys.exit(1)


def define(src, name, which=0):
    ms = re.findall(r"#\s*define\s+" + name + r"\s+\(?(-?(?:0x[0-9a-fA-F]+|\d+))\)?", src)
    if not ms:
        die("constant %s not found" % name)
    return int(ms[which], 0)


def all_sources():
    import glob
    return "\n".join(open(f, encoding="latin-1").read() for f in sorted(glob.glob(os.path.join(L, "*.[ch]"))))


def evalc(expr, srcs, depth=0):
    """value of a C integer constant expression made of literals, named constants, + - * << | and casts"""
    e = re.sub(r"/\*.*?\*/", " ", expr, flags=re.S)
    e = re.sub(r"\(\s*(?:unsigned\s+|signed\s+)?(?:int|long|short|char|size_t|unsigned)\s*\)", " ", e)     # casts
    e = re.sub(r"\b(0[xX][0-9a-fA-F]+|\d+)[uUlL]*\b", lambda m: str(int(m.group(1), 0)), e)
    def name(m):
        if depth > 6:
            die("constant expression too deep: %s" % expr)
        return str(resolve(m.group(0), srcs, depth + 1))
    e = re.sub(r"\b[A-Za-z_]\w*\b", name, e)
    if not re.fullmatch(r"[\d\s()+\-*|<>]+", e):
        die("cannot evaluate constant expression %r" % expr)
    return int(eval(e, {"__builtins__": {}}, {}))


def resolve(name, srcs, depth=0):
    """value of a named constant, however it is written: #define, enumerator, static const object"""
    if re.fullmatch(r"(0[xX][0-9a-fA-F]+|\d+)[uUlL]*", name):
        return int(re.match(r"0[xX][0-9a-fA-F]+|\d+", name).group(0), 0)
    pats = [r"#\s*define\s+%s[ \t]+([^\n]+?)[ \t]*(?:/\*.*)?\n" % name,
            r"\b%s\s*=\s*([^,}\n;]+?)\s*[,}\n]" % name,                                  # enumerator
            r"static\s+const\s+[\w\s]+?\b%s\s*=\s*([^;]+);" % name]
    vals = set()
    for p in pats:
        for m in re.finditer(p, srcs):
            vals.add(evalc(m.group(1), srcs, depth))
    if len(vals) != 1:
        die("constant %s: %s" % (name, "not found" if not vals else "several values %s" % sorted(vals)))
    return vals.pop()


def used(src, pat, what):
    """the constant the code USES at a given place (by the shape of the expression, whatever the constant is called)"""
    ms = set(re.findall(pat, src))
    if len(ms) != 1:
        die("%s: usage site not found (or ambiguous): %s" % (what, sorted(ms)))
    return ms.pop()


def cstr(src, pat):
    m = re.search(pat, src)
    if not m:
        die("string %s not found" % pat)
    return m.group(1)


def coq_bytes(s):
    return "[" + "; ".join(str(b) for b in s.encode("latin-1")) + "]"


def main():
    lc, h, sx, sxc, sb, sv, g, sc, gy = (rd("libconfig.c"), rd("libconfig.h"), rd("scanctx.h"), rd("scanctx.c"),
                                         rd("strbuf.c"), rd("strvec.c"), rd("grammar.c"), rd("scanner.c"),
                                         rd("grammar.y"))
    z = {}
    # the constants of the hand-written sources are taken from the places that USE them (the shape of the expression),
    # and their values resolved through #define / enum / static const, so that renaming a constant or writing its value
    # differently does not matter while a changed value does
    srcs = all_sources()
    srcs_no_gen = "\n".join(rd(f) for f in ("libconfig.c", "libconfig.h", "scanctx.c", "scanctx.h", "strbuf.c", "strbuf.h",
                                            "strvec.c", "strvec.h", "util.c", "util.h", "parsectx.h"))
    z["MAX_INCLUDE_DEPTH"] = resolve(used(sxc, r"ctx->stack_depth\s*==\s*([A-Za-z_]\w*|[1-9]\d*)", "include depth limit"), sxc + sx)
    z["LIST_CHUNK_SIZE"] = resolve(used(lc, r"list->length\s*%\s*(\w+)\)\s*==\s*0", "element vector chunk"), lc + h)
    if set(re.findall(r"list->length\s*\+\s*(\w+)\)\s*\*\s*sizeof", lc)) != {used(lc, r"list->length\s*%\s*(\w+)\)\s*==\s*0", "chunk")}:
        die("element vector: the growth step and the boundary test use different constants")
    mi = re.search(r"\nvoid\s+config_init\s*\([^)]*\)\s*\{(.*?)\n\}", lc, re.S)
    if not mi:
        die("config_init not found")
    z["DEFAULT_TAB_WIDTH"] = resolve(used(mi.group(1), r"config->tab_width\s*=\s*(\w+)\s*;", "default tab width"), lc + h)
    z["DEFAULT_FLOAT_PRECISION"] = resolve(used(mi.group(1), r"config->float_precision\s*=\s*(\w+)\s*;", "default float precision"), lc + h)
    z["STRING_BLOCK_SIZE"] = resolve(used(sb, r"newlen\s*\+\s*\(\s*(\w+)\s*-\s*1\s*\)", "string block size"), sb + rd("strbuf.h"))
    z["STRVEC_CHUNK_SIZE"] = resolve(used(sv, r"vec->capacity\s*\+=\s*(\w+)\s*;", "string vector chunk"), rd("strvec.c") + rd("strvec.h"))
    z["YYMAXDEPTH"] = define(g, "YYMAXDEPTH")
    z["YYINITDEPTH"] = define(g, "YYINITDEPTH")
    z["YY_BUF_SIZE"] = define(sc, "YY_BUF_SIZE", 1)          # the non-__ia64__ branch
    z["YY_READ_BUF_SIZE"] = define(sc, "YY_READ_BUF_SIZE", 1)
    for n in ("CONFIG_TYPE_NONE", "CONFIG_TYPE_GROUP", "CONFIG_TYPE_INT", "CONFIG_TYPE_INT64", "CONFIG_TYPE_FLOAT",
              "CONFIG_TYPE_STRING", "CONFIG_TYPE_BOOL", "CONFIG_TYPE_ARRAY", "CONFIG_TYPE_LIST",
              "CONFIG_FORMAT_DEFAULT", "CONFIG_FORMAT_HEX",
              "CONFIG_OPTION_AUTOCONVERT", "CONFIG_OPTION_SEMICOLON_SEPARATORS",
              "CONFIG_OPTION_COLON_ASSIGNMENT_FOR_GROUPS", "CONFIG_OPTION_COLON_ASSIGNMENT_FOR_NON_GROUPS",
              "CONFIG_OPTION_OPEN_BRACE_ON_SEPARATE_LINE", "CONFIG_OPTION_ALLOW_SCIENTIFIC_NOTATION",
              "CONFIG_OPTION_FSYNC", "CONFIG_OPTION_ALLOW_OVERRIDES", "CONFIG_TRUE", "CONFIG_FALSE"):
        z[n] = define(h, n)
    z["FBUF_SIZE"] = resolve(used(lc, r"char\s+fbuf\[(\w+)\]\s*;", "float buffer size"), lc + h)
    m = re.search(r"config->options = \((.*?)\);", lc, re.S)
    if not m:
        die("default options not found")
    dflt = 0
    for name in re.findall(r"CONFIG_OPTION_\w+", m.group(1)):
        dflt |= z[name]
    z["DEFAULT_OPTIONS"] = dflt
    slack = set(re.findall(r"snprintf\(\s*buf\s*,\s*buflen\s*-\s*(\d+)\s*,", rd("util.c")))
    if len(slack) != 1:
        die("format_double snprintf size not found (or not unique): %s" % sorted(slack))
    z["FORMAT_DOUBLE_SLACK"] = int(slack.pop())
    s = {}
    s["PATH_TOKENS"] = cstr(lc, r'#define PATH_TOKENS "([^"]*)"')
    s["ERR_IO"] = cstr(lc, r'__io_error = "([^"]*)"')
    s["ERR_BAD_INCLUDE"] = cstr(sxc, r'err_bad_include = "([^"]*)"')
    s["ERR_INCLUDE_TOO_DEEP"] = cstr(sxc, r'err_include_too_deep = "([^"]*)"')
    s["ERR_ARRAY_ELEM_TYPE"] = cstr(gy, r'err_array_elem_type = "([^"]*)"')
    s["ERR_DUPLICATE_SETTING"] = cstr(gy, r'err_duplicate_setting = "([^"]*)"')
    s["ERR_SYNTAX"] = cstr(g, r'yyerror \(scanner, ctx, scan_ctx, YY_\("(syntax error)"\)\)')
    s["ERR_MEMORY"] = cstr(g, r'yyerror \(scanner, ctx, scan_ctx, YY_\("(memory exhausted)"\)\)')
    # the same strings must be what grammar.c (compiled) contains, not only grammar.y
    for k in ("ERR_ARRAY_ELEM_TYPE", "ERR_DUPLICATE_SETTING"):
        if '"%s"' % s[k] not in g:
            die("%s differs between grammar.y and grammar.c" % k)
    out = ["(* GENERATED by tools/gen_consts.py from lib/ -- do not edit. *)",
           "From Coq Require Import List ZArith.", "Import ListNotations.", "Local Open Scope Z_scope.", ""]
    for k in sorted(z):
        out.append("Definition %s : Z := %d." % (k, z[k]))
    out.append("")
    for k in sorted(s):
        out.append("Definition %s : list Z := %s.  (* \"%s\" *)" % (k, coq_bytes(s[k]), s[k]))
    text = "\n".join(out) + "\n"
    os.makedirs(os.path.dirname(OUT), exist_ok=True)
    old = open(OUT).read() if os.path.exists(OUT) else None
    if old != text:
        open(OUT, "w").write(text)
    print("gen_consts: %d numbers, %d strings%s" % (len(z), len(s), "" if old == text else " (rewritten)"))


main()
