#!/bin/bash
# seed_verify.sh <agent-worktree> <seed-id>: copy the agent's deliverables to /verif/seeded/<seed-id> and confirm, in a
# fresh scratch worktree of /repo HEAD, that the patch applies, builds, passes the 15 tests, and that the
# demonstration fails with the patch and passes without it.
set -u
wt=$1; id=$2
dst=/verif/seeded/$id
mkdir -p $dst
cp -r $wt/seeded/* $dst/ 2>/dev/null
scratch=$(mktemp -d /tmp/seedchk_XXXX)
rmdir $scratch
git -C /repo worktree add -q --detach $scratch HEAD || exit 2
res=ok
cd $scratch
if ! git apply $dst/patch.diff; then echo "PATCH DOES NOT APPLY"; res=noapply; fi
if [ $res = ok ]; then
  (cmake -G Ninja -S . -B _b >/dev/null && cmake --build _b >/dev/null 2>&1) || { echo BUILD-FAIL; res=buildfail; }
fi
if [ $res = ok ]; then
  (cd tests && ../_b/out/libconfig_tests 2>&1 | tail -1) | tee /tmp/seed_tests.txt
  grep -q "15 passed, 0 failed" /tmp/seed_tests.txt || res=testsfail
  chmod +x $dst/run_demo.sh
  (cd $dst && timeout 300 ./run_demo.sh $scratch >/tmp/seed_demo_mut.txt 2>&1); rc_mut=$?
  git -C $scratch checkout -q -- . 
  (cd $dst && timeout 300 ./run_demo.sh $scratch >/tmp/seed_demo_clean.txt 2>&1); rc_clean=$?
  echo "demo with patch rc=$rc_mut, clean rc=$rc_clean"
  [ $rc_mut -ne 0 ] && [ $rc_clean -eq 0 ] || res="demo-mismatch($rc_mut,$rc_clean)"
fi
cd /
git -C /repo worktree remove --force $scratch
python3 - "$dst" "$res" <<'PY'
import json,sys,os
d,res=sys.argv[1],sys.argv[2]
p=os.path.join(d,'meta.json')
try: m=json.load(open(p))
except Exception: m={}
m['confirmed']={'result':res,'how':'tools/seed_verify.sh: fresh worktree of /repo HEAD; git apply patch.diff; cmake+ninja build; tests/libconfig_tests (15 passed); run_demo.sh non-zero with the patch and zero without it','repo_head':os.popen('git -C /repo rev-parse --short HEAD').read().strip()}
json.dump(m,open(p,'w'),indent=1)
PY
echo "RESULT $id $res"
