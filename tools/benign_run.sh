#!/bin/bash
# benign_run.sh <name>... : apply the behaviour-preserving change seeded/benign_<name>/patch.diff to /repo, run every
# check (quick), list the checks that raise an alarm (there should be none), undo the change.
cd "$(dirname "$0")/.."
for n in "$@"; do
  git -C /repo apply "$PWD/seeded/benign_$n/patch.diff" || { echo "BENIGN $n cannot-apply"; continue; }
  # the 15 tests must pass with it (it is supposed to be harmless)
  out=$(tools/run_all.sh quick 2>&1)
  git -C /repo checkout -- .
  bad=$(echo "$out" | grep -v "^OK " | grep -v "^WARNING" )
  if [ -z "$bad" ]; then echo "BENIGN $n quiet (20 checks OK)"; else echo "BENIGN $n ALARMS:"; echo "$bad" | sed 's/^/   /'; fi
done
for t in $(cat tools/TRANSLATORS); do python3 tools/$t >/dev/null; done
