#!/bin/bash
# run_all.sh [tier] — every claimed check on the unchanged tree, in parallel groups; prints one line per property
cd "$(dirname "$0")/.."
tier=${1:-quick}
ids=$(python3 -c "import json; print(' '.join(c['property_id'] for c in json.load(open('MANIFEST.json'))['checks']))")
for p in $ids; do
  ( ./check $p $tier 2>&1 | grep -v "^KNOWN" | tail -1 ) &
  if (( $(jobs -r | wc -l) >= 3 )); then wait -n; fi
done
wait
