#!/usr/bin/env python3
"""gen_tables.py — translator: /repo/lib/scanner.c (the flex scanner that is COMPILED into the library)
-> /verif/coq/gen/ScannerTables.v.

Extracts the seven DFA tables, yy_rule_can_match_eol, the jam state and state count used by the matching
loop, YY_NUM_RULES, the start-condition numbering, and every `case N:` action body, classified by its
canonical text (tools/ccanon.py, against the reference texts of tools/action_texts.py) into the closed datatype
LC.ScanAction.action (AUnknown otherwise).  The file is
rewritten only when its content changes."""
import os, re, sys, json
sys.path.insert(0, os.path.dirname(os.path.abspath(__file__)))

REPO = os.environ.get("REPO", "/repo")
VERIF = os.path.dirname(os.path.dirname(os.path.abspath(__file__)))
SRC = os.path.join(REPO, "lib", "scanner.c")
OUT = os.path.join(VERIF, "coq", "gen", "ScannerTables.v")


def die(msg):
    print("gen_tables: " + msg)
    sys.exit(1)


def table(src, name):
    m = re.search(r"static\s+const\s+\w+\s+" + name + r"\[(\d+)\]\s*=\s*\{(.*?)\}\s*;", src, re.S)
    if not m:
        die("table %s not found" % name)
    vals = [int(x) for x in re.findall(r"-?\d+", m.group(2))]
    if len(vals) != int(m.group(1)):
        die("table %s: %d values, declared %s" % (name, len(vals), m.group(1)))
    return vals


SKEL_REF = os.path.join(VERIF, "tools", "skel_ref", "flex_skeleton.json")
SKEL_FUNCTIONS = ["yy_get_next_buffer", "yy_get_previous_state", "yy_try_NUL_trans", "yyrestart", "yy_switch_to_buffer",
                  "yy_load_buffer_state", "yy_create_buffer", "yy_delete_buffer", "yy_init_buffer", "yy_flush_buffer",
                  "yy_scan_buffer", "yy_scan_string", "yy_scan_bytes", "yyensure_buffer_stack", "yypush_buffer_state",
                  "yypop_buffer_state"]


def _balanced(src, i):
    """src[i] == '{': index just past the matching '}' (string and character literals and comments skipped)"""
    d = 0
    j = i
    n = len(src)
    while j < n:
        c = src[j]
        if src.startswith("/*", j):
            j = src.index("*/", j) + 2
            continue
        if c in "\"'":
            k = j + 1
            while src[k] != c:
                k += 2 if src[k] == "\\" else 1
            j = k + 1
            continue
        if c == "{":
            d += 1
        elif c == "}":
            d -= 1
            if d == 0:
                return j + 1
        j += 1
    return -1


def skeleton_texts(src):
    import ccanon
    res = {}
    for name in SKEL_FUNCTIONS:
        m = re.search(r"^[ \t]*(?:static\s+)?[A-Za-z_][\w \t\*]*?\b" + name + r"\s*\([^;{]*\)\s*\{", src, re.M)
        if not m:
            res[name] = None
            continue
        e = _balanced(src, m.end() - 1)
        res[name] = " ".join(ccanon.tokens(src[m.start():e]))
    m = re.search(r"#define YY_INPUT\(buf,result,max_size\)(?:[^\n]*\\\n)*[^\n]*\n", src)
    res["YY_INPUT"] = " ".join(ccanon.tokens(m.group(0).replace("\\\n", " "))) if m else None
    # the end-of-buffer action of yylex up to the `default:` of the action switch
    i = src.find("case YY_END_OF_BUFFER:")
    j = src.find("fatal flex scanner internal error--no action found", i)
    res["case YY_END_OF_BUFFER"] = " ".join(ccanon.tokens(src[i:j])) if i >= 0 and j > i else None
    # the matching loop: from yy_match: to the action switch
    i = src.find("yy_match:")
    j = src.find("switch ( yy_act )", i)
    res["yy_match"] = " ".join(ccanon.tokens(src[i:j])) if i >= 0 and j > i else None
    return res


def strip_comments(t):
    t = re.sub(r"/\*.*?\*/", " ", t, flags=re.S)
    t = re.sub(r"//[^\n]*", " ", t)
    t = re.sub(r"#line[^\n]*", " ", t)
    return t


def norm(t):
    return re.sub(r"\s+", "", strip_comments(t))


TOKS = {"TOK_EQUALS": "TEquals", "TOK_COMMA": "TComma", "TOK_GROUP_START": "TGroupStart",
        "TOK_GROUP_END": "TGroupEnd", "TOK_ARRAY_START": "TArrayStart", "TOK_ARRAY_END": "TArrayEnd",
        "TOK_LIST_START": "TListStart", "TOK_LIST_END": "TListEnd", "TOK_SEMICOLON": "TSemicolon",
        "TOK_GARBAGE": "TGarbage"}

CHARS = {r"'\n'": 10, r"'\r'": 13, r"'\t'": 9, r"'\f'": 12, r"'\a'": 7, r"'\b'": 8, r"'\v'": 11,
         r"'\\'": 92, r"'\"'": 34}

FIXED = {
    "{}": "AIgnore",
    "{libconfig_scanctx_append_string(yyextra,yytext);}": "AAppendText",
    "{charc=(char)(strtol(yytext+2,NULL,16)&0xFF);libconfig_scanctx_append_char(yyextra,c);}": "AAppendHex",
    "{yylval->sval=libconfig_scanctx_take_string(yyextra);BEGININITIAL;return(TOK_STRING);}": "AEndString",
    "{yylval->ival=1;return(TOK_BOOLEAN);}": "(ABool 1)",
    "{yylval->ival=0;return(TOK_BOOLEAN);}": "(ABool 0)",
    "{yylval->sval=yytext;return(TOK_NAME);}": "AName",
    "{doublefval=atof(yytext);if((fval>DBL_MAX)||(fval<-DBL_MAX))return(TOK_ERROR);yylval->fval=fval;"
    "return(TOK_FLOAT);}": "AFloat",
    "{intok;longlongllval=libconfig_parse_integer(yytext,&ok);if(!ok)return(TOK_ERROR);"
    "if((llval<INT_MIN)||(llval>INT_MAX)){yylval->llval=llval;return(TOK_INTEGER64);}"
    "else{yylval->ival=(int)llval;return(TOK_INTEGER);}}": "AInteger",
    "{intok;longlongllval=libconfig_parse_integer(yytext,&ok);if(!ok)return(TOK_ERROR);yylval->llval=llval;"
    "return(TOK_INTEGER64);}": "AInteger64",
    "{intok;unsignedlonglongullval=libconfig_parse_hex64(yytext,&ok);if(!ok||(ullval>0xFFFFFFFFULL))"
    "return(TOK_ERROR);yylval->ival=(int)(unsignedint)ullval;return(TOK_HEX);}": "AHex",
    "{intok;unsignedlonglongullval=libconfig_parse_hex64(yytext,&ok);if(!ok)return(TOK_ERROR);"
    "yylval->llval=(longlong)ullval;return(TOK_HEX64);}": "AHex64",
    "{constchar*error=NULL;constchar*path=libconfig_scanctx_take_string(yyextra);"
    "FILE*fp=libconfig_scanctx_push_include(yyextra,(void*)YY_CURRENT_BUFFER,path,&error);__delete(path);"
    "if(fp){yyin=fp;yy_switch_to_buffer(yy_create_buffer(yyin,YY_BUF_SIZE,yyscanner),yyscanner);}"
    "elseif(error){yyextra->config->error_text=error;"
    "yyextra->config->error_file=libconfig_scanctx_current_filename(yyextra);"
    "yyextra->config->error_line=libconfig_yyget_lineno(yyscanner);returnTOK_ERROR;}BEGININITIAL;}": "AIncludeEnd",
    "ECHO;": "AEcho",
}

EOF_BODY = (
    "{constchar*error=NULL;FILE*fp;fp=libconfig_scanctx_next_include_file(yyextra,&error);"
    "if(fp){yyin=fp;yy_delete_buffer(YY_CURRENT_BUFFER,yyscanner);"
    "yy_switch_to_buffer(yy_create_buffer(yyin,YY_BUF_SIZE,yyscanner),yyscanner);}"
    "elseif(error){yyextra->config->error_text=error;"
    "yyextra->config->error_file=libconfig_scanctx_current_filename(yyextra);"
    "yyextra->config->error_line=libconfig_yyget_lineno(yyscanner);returnTOK_ERROR;}"
    "else{YY_BUFFER_STATEbuf=(YY_BUFFER_STATE)libconfig_scanctx_pop_include(yyextra);"
    "if(buf){yy_delete_buffer(YY_CURRENT_BUFFER,yyscanner);yy_switch_to_buffer(buf,yyscanner);}"
    "elseyyterminate();}}")


sys.path.insert(0, os.path.dirname(os.path.abspath(__file__)))
import ccanon
import action_texts

# canonical form (tools/ccanon.py: blanks, comments, `return(E)`, split declarations, braces around one statement, names
# of locals) of the reference tree's action texts -> constructor
CANON = {ccanon.canon(t): c for c, t in action_texts.SCANNER_ACTIONS.items()}
CANON_EOF = ccanon.canon(action_texts.SCANNER_EOF_ACTION)


def classify(body, scs):
    n = ccanon.canon(body)
    if n in CANON:
        return CANON[n]
    m = re.fullmatch(r"\{ BEGIN (\w+) ; \}", n)
    if m and m.group(1) in scs:
        return "(ABegin %d)" % scs[m.group(1)]
    m = re.fullmatch(r"\{ return (\w+) ; \}", n)
    if m and m.group(1) in TOKS:
        return "(ARet %s)" % TOKS[m.group(1)]
    m = re.fullmatch(r"\{ libconfig_scanctx_append_char \( yyextra , ('.{1,2}') \) ; \}", n)
    if m and m.group(1) in CHARS:
        return "(AAppendChar %d)" % CHARS[m.group(1)]
    return None


def coq_list(vals, per=16):
    rows = []
    for i in range(0, len(vals), per):
        rows.append("; ".join(("(%d)" % v) if v < 0 else str(v) for v in vals[i:i + per]))
    return "[" + ";\n   ".join(rows) + "]"


def main():
    src = open(SRC, encoding="latin-1").read()
    names = ["yy_accept", "yy_ec", "yy_meta", "yy_base", "yy_def", "yy_nxt", "yy_chk", "yy_rule_can_match_eol"]
    tabs = {n: table(src, n) for n in names}
    m = re.search(r"while\s*\(\s*yy_current_state\s*!=\s*(\d+)\s*\)", src)
    if not m:
        die("jam state not found")
    jam = int(m.group(1))
    m = re.search(r"if\s*\(\s*yy_current_state\s*>=\s*(\d+)\s*\)", src)
    if not m:
        die("state count not found")
    nstates = int(m.group(1))
    num_rules = int(re.search(r"#define\s+YY_NUM_RULES\s+(\d+)", src).group(1))
    eob = int(re.search(r"#define\s+YY_END_OF_BUFFER\s+(\d+)", src).group(1))
    # all jam / nstates literals in the three matching loops must agree
    if set(re.findall(r"yy_current_state\s*>=\s*(\d+)", src)) != {str(nstates)}:
        die("inconsistent state-count literals")
    jams = set(re.findall(r"yy_current_state\s*!=\s*(\d+)", src)) | set(re.findall(r"yy_current_state\s*==\s*(\d+)", src))
    if jams != {str(jam)}:
        die("inconsistent jam-state literals %s" % jams)
    # NUL byte class in yy_get_previous_state / yy_try_NUL_trans
    m = re.search(r"\(\*yy_cp\s*\?\s*yy_ec\[YY_SC_TO_UI\(\*yy_cp\)\]\s*:\s*(\d+)\)", src)
    nul_class = int(m.group(1)) if m else -1
    m2 = re.search(r"yy_try_NUL_trans.*?YY_CHAR yy_c = (\d+);", src, re.S)
    if not m2 or int(m2.group(1)) != nul_class:
        die("NUL class literals disagree")
    # start conditions
    scs = {}
    blk = src[src.index("#define INITIAL"):]
    for mm in re.finditer(r"#define\s+(\w+)\s+(\d+)\s*\n", blk[:400]):
        scs[mm.group(1)] = int(mm.group(2))
    if scs.get("INITIAL") != 0:
        die("INITIAL is not 0")
    # actions
    start = src.index("/* beginning of action switch */")
    end = src.index("/* end of action switch */")
    sw = src[start:end]
    actions = {}
    unknown = []
    for mm in re.finditer(r"\ncase\s+(\d+):\s*\n(.*?)\n\s*YY_BREAK", sw, re.S):
        n = int(mm.group(1))
        if n == 0:
            continue
        body = mm.group(2)
        if "YY_RULE_SETUP" not in body:
            die("rule %d has no YY_RULE_SETUP" % n)
        body = body.split("YY_RULE_SETUP", 1)[1]
        c = classify(body, scs)
        if c is None:
            unknown.append((n, norm(body)))
            c = "AUnknown"
        actions[n] = c
    if sorted(actions) != list(range(1, num_rules + 1)):
        die("rule cases %s do not cover 1..%d" % (sorted(actions), num_rules))
    # EOF rules
    meof = re.search(r"((?:case YY_STATE_EOF\(\w+\):\s*)+)(.*?)\n\s*YY_BREAK", sw, re.S)
    if not meof:
        die("EOF rule not found")
    eof_scs = re.findall(r"YY_STATE_EOF\((\w+)\)", meof.group(1))
    eof_ok = ccanon.canon(meof.group(2)) == CANON_EOF and sorted(eof_scs) == sorted(scs)
    # the macro YY_RULE_SETUP: at-bol update
    rs = re.search(r"#define YY_RULE_SETUP \\\n(.*?)\n\n", src, re.S)
    bol_ok = rs is not None and norm(rs.group(1).replace("\\\n", "")) == \
        "if(yyleng>0)YY_CURRENT_BUFFER_LVALUE->yy_at_bol=(yytext[yyleng-1]=='\\n');YY_USER_ACTION"
    start_ok = re.search(r"yy_current_state\s*=\s*yyg->yy_start;\s*yy_current_state\s*\+=\s*YY_AT_BOL\(\);", src) is not None \
        and re.search(r"#define BEGIN yyg->yy_start = 1 \+ 2 \*", src) is not None
    reentrant = "yyguts_t" in src and re.search(r"^\s*(static\s+)?(int|char\s*\*|FILE\s*\*)\s+yy(leng|text|in|out|lineno)\s*[;=]", src, re.M) is None

    out = []
    out.append("(* GENERATED by tools/gen_tables.py from lib/scanner.c -- do not edit. *)")
    out.append("From Coq Require Import List ZArith.")
    out.append("Import ListNotations.")
    out.append("From LC Require Import ScanAction.")
    out.append("Local Open Scope Z_scope.\n")
    for n in names:
        out.append("Definition %s : list Z :=\n  %s.\n" % (n, coq_list(tabs[n])))
    out.append("Definition yy_jam : Z := %d." % jam)
    out.append("Definition yy_nstates : Z := %d." % nstates)
    out.append("Definition yy_num_rules : Z := %d." % num_rules)
    out.append("Definition yy_end_of_buffer : Z := %d." % eob)
    out.append("Definition yy_nul_class : Z := %d." % nul_class)
    for k in ("INITIAL", "SINGLE_LINE_COMMENT", "MULTI_LINE_COMMENT", "STRING", "INCLUDE"):
        out.append("Definition sc_%s : Z := %d." % (k, scs.get(k, -1)))
    out.append("Definition yy_num_start_conditions : Z := %d." % len(scs))
    out.append("")
    for n, t in unknown:
        out.append("(* rule %d: unrecognised action text: %s *)" % (n, t.replace("*)", "* )")))
    out.append("Definition yy_actions : list (Z * action) :=\n  [%s]." %
               ";\n   ".join("(%d, %s)" % (n, actions[n]) for n in sorted(actions)))
    out.append("")
    out.append("(* structural facts read from the generated skeleton (true = as the model assumes) *)")
    out.append("Definition skel_eof_rule_as_modelled : bool := %s." % ("true" if eof_ok else "false"))
    out.append("Definition skel_rule_setup_sets_bol : bool := %s." % ("true" if bol_ok else "false"))
    out.append("Definition skel_start_state_formula : bool := %s." % ("true" if start_ok else "false"))
    out.append("Definition skel_reentrant : bool := %s." % ("true" if reentrant else "false"))
    # the buffer machinery of the skeleton (what FlexBuf.v / FlexEngine.v transcribe by hand): token-for-token the
    # text the transcription was made from (tools/skel_ref/flex_skeleton.json; comments, #line and white space aside)
    cur = skeleton_texts(src)
    if "--write-skel-ref" in sys.argv:
        os.makedirs(os.path.dirname(SKEL_REF), exist_ok=True)
        with open(SKEL_REF, "w") as fh:
            json.dump(cur, fh, indent=1, sort_keys=True)
    ref = json.load(open(SKEL_REF)) if os.path.exists(SKEL_REF) else {}
    differ = sorted(k for k in set(ref) | set(cur) if ref.get(k) != cur.get(k))
    for k in differ:
        out.append("(* skeleton code differs from the transcribed text: %s *)" % k)
    out.append("Definition skel_buffer_code_as_transcribed : bool := %s." % ("true" if ref and not differ else "false"))
    text = "\n".join(out) + "\n"
    os.makedirs(os.path.dirname(OUT), exist_ok=True)
    old = open(OUT).read() if os.path.exists(OUT) else None
    if old != text:
        with open(OUT, "w") as fh:
            fh.write(text)
    print("gen_tables: %d rules, %d states, jam %d, %d unknown actions, eof_ok=%s bol_ok=%s%s" % (
        num_rules, nstates, jam, len(unknown), eof_ok, bol_ok, "" if old == text else " (rewritten)"))


main()
