#!/bin/bash
# census_selftest.sh -- regression self-test of tools/gen_census.py
#
#  (1) the census of the unchanged $REPO (default /repo) equals tools/census_expected.txt
#      (stable rendering without line numbers; every row was checked by hand against the
#      C/C++ text when the file was created), the generated Coq file compiles, and the
#      output file is not rewritten when nothing changed;
#  (2) planted mutations on a private copy of $REPO/lib (under mktemp -d, removed on exit)
#      change the census exactly as predicted -- and a behaviour-preserving edit does not;
#  (3) internal errors (clang failure, missing source) give a non-zero exit status;
#  (4) synthetic C and C++ files (tools/census_cases/) exercise the write / escape /
#      const-ness classification and the site detection far more than the library does.
#
# Exit status 0 iff every assertion holds.  Never writes to $REPO or to coq/gen.
set -u
HERE=$(cd "$(dirname "$0")" && pwd)
GEN="$HERE/gen_census.py"
EXPECTED="$HERE/census_expected.txt"
SRC_REPO=${REPO:-/repo}

WORK=$(mktemp -d "${TMPDIR:-/tmp}/census_selftest.XXXXXX") || exit 2
trap 'rm -rf "$WORK"' EXIT
case "$(cd "$WORK" && pwd -P)/" in
  "$(cd "$SRC_REPO" && pwd -P)"/*|"$(cd "$HERE/.." && pwd -P)"/*)
    echo "selftest: temp dir $WORK lies inside the repo or the verification tree" >&2; exit 2 ;;
esac

nfail=0
npass=0
ok()   { npass=$((npass+1)); echo "  ok    $1"; }
bad()  { nfail=$((nfail+1)); echo "  FAIL  $1"; }

# gen <repo> <tag>: run the generator on <repo>, outputs $WORK/<tag>.v / .txt / .log
gen() {
  REPO="$1" python3 "$GEN" --out "$WORK/$2.v" --text "$WORK/$2.txt" >"$WORK/$2.log" 2>&1
}

# fresh: a pristine private copy of the sources in $WORK/m/lib
fresh() {
  rm -rf "$WORK/m"
  mkdir -p "$WORK/m"
  cp -r "$SRC_REPO/lib" "$WORK/m/lib"
}

# subst <file> <python-regex> <replacement>: exactly one substitution, else error
subst() {
  python3 - "$@" <<'PY'
import re, sys
path, pat, rep = sys.argv[1:4]
s = open(path, encoding="latin-1").read()
t, n = re.subn(pat, rep, s, flags=re.S | re.M)
if n != 1:
    sys.stderr.write("subst: %d matches (want 1) for %r in %s\n" % (n, pat, path))
    sys.exit(1)
open(path, "w", encoding="latin-1").write(t)
PY
}

# delta <tag> <label> <expected diff lines>: the rendering of <tag> must differ from the
# base rendering by exactly the given '<'/'>' lines (in diff order)
delta() {
  local got want
  if [ ! -f "$WORK/$1.txt" ]; then
    bad "$2 (mutation or generator failed)"; [ -f "$WORK/$1.log" ] && sed 's/^/      /' "$WORK/$1.log" | tail -5
    return
  fi
  got=$(diff "$WORK/base.txt" "$WORK/$1.txt" | grep '^[<>]')
  want=$3
  if [ "$got" == "$want" ]; then ok "$2"; else
    bad "$2"; echo "    expected delta:"; echo "$want" | sed 's/^/      /'
    echo "    actual delta:"; echo "$got" | sed 's/^/      /'
    echo "    log:"; sed 's/^/      /' "$WORK/$1.log" | tail -5
  fi
}

echo "== (1) unchanged tree: $SRC_REPO"
if gen "$SRC_REPO" base; then ok "generator runs"; else bad "generator runs"; cat "$WORK/base.log"; echo "selftest: FAILED"; exit 1; fi
if diff -u "$EXPECTED" "$WORK/base.txt" >"$WORK/exp.diff"; then ok "census equals census_expected.txt"
else bad "census equals census_expected.txt"; sed 's/^/    /' "$WORK/exp.diff"; fi
grep -q '^census: ' "$WORK/base.log" && [ "$(wc -l <"$WORK/base.log")" -eq 1 ] \
  && ok "one-line summary" || bad "one-line summary"
grep -q ' written$' "$WORK/base.log" && ok "first run reports 'written'" || bad "first run reports 'written'"
# Coq file compiles
if command -v coqc >/dev/null 2>&1; then
  mkdir -p "$WORK/coq/gen" && cp "$WORK/base.v" "$WORK/coq/gen/Census.v"
  if (cd "$WORK/coq" && coqc -Q . LC gen/Census.v >"$WORK/coqc.log" 2>&1); then ok "Census.v compiles (coqc -Q . LC gen/Census.v)"
  else bad "Census.v compiles"; sed 's/^/    /' "$WORK/coqc.log"; fi
  if grep -qE '^[[:space:]]*(Axiom|Axioms|Parameter|Parameters|Conjecture|Hypothesis|Variable|Admitted|Admit)\b' "$WORK/base.v"; then bad "no axioms in Census.v"; else ok "no axioms in Census.v"; fi
else
  echo "  skip  coqc not found"
fi
# second run must not rewrite the file
before=$(stat -c '%i %y' "$WORK/base.v")
sleep 0.05
if gen "$SRC_REPO" base && [ "$(stat -c '%i %y' "$WORK/base.v")" == "$before" ] && grep -q ' unchanged$' "$WORK/base.log"
then ok "unchanged sources do not rewrite Census.v"; else bad "unchanged sources do not rewrite Census.v"; fi
# the fast loader (skips system-header blocks of the JSON) agrees with a full parse
if CENSUS_FULL_PARSE=1 REPO="$SRC_REPO" python3 "$GEN" --out "$WORK/full.v" >"$WORK/full.log" 2>&1 \
   && cmp -s "$WORK/base.v" "$WORK/full.v"
then ok "fast JSON loader agrees with full parse"; else bad "fast JSON loader agrees with full parse"; fi

echo "== (2) planted mutations"
# (a) new writable static object with a writer
fresh
subst "$WORK/m/lib/libconfig.c" '^static const char \*__io_error = ' 'static int call_count; \g<0>' &&
subst "$WORK/m/lib/libconfig.c" '(^config_setting_t \*config_setting_add\([^{]*\{)' '\1 call_count++;' &&
gen "$WORK/m" a
delta a "(a) static int call_count; call_count++ in config_setting_add" \
"> static | libconfig.c | call_count | int | writers=[config_setting_add]"

# (b) a checked allocation replaced by a raw one
fresh
subst "$WORK/m/lib/libconfig.c" 'file = \(char \*\)libconfig_malloc\(' 'file = (char *)malloc(' &&
gen "$WORK/m" b
delta b "(b) libconfig_malloc( -> malloc( in config_default_include_func" \
"> alloc | libconfig.c | config_default_include_func | malloc | Raw"

# (c) wrapper no longer checks its result
fresh
subst "$WORK/m/lib/util.c" '(ptr = realloc\(ptr, size\);\n)\s*if\(!ptr\)\n\s*libconfig_fatal_error\([^;]*\);\n' '\1' &&
gen "$WORK/m" c
delta c "(c) NULL test removed from libconfig_realloc" \
"< wrapper | libconfig_realloc | true
> wrapper | libconfig_realloc | false"

# (c2) wrapper tests with the wrong polarity
fresh
subst "$WORK/m/lib/util.c" '(void \*ptr = calloc\(nmemb, size\);\n\s*)if\(!ptr\)' '\1if(ptr)' &&
gen "$WORK/m" c2
delta c2 "(c2) inverted NULL test in libconfig_calloc" \
"< wrapper | libconfig_calloc | true
> wrapper | libconfig_calloc | false"

# (c3) wrapper tests a different variable
fresh
subst "$WORK/m/lib/util.c" '(void \*ptr = malloc\(size\);\n\s*)if\(!ptr\)' '\1if(!size)' &&
gen "$WORK/m" c3
delta c3 "(c3) libconfig_malloc tests the wrong variable" \
"< wrapper | libconfig_malloc | true
> wrapper | libconfig_malloc | false"

# (c4) the wrappers hand their result to a checking helper (behaviour-preserving refactoring): still checked
fresh
subst "$WORK/m/lib/util.c" '^void \*libconfig_malloc\(size_t size\)\n\{.*?\n\}\n' 'static void *chk(void *p)\n{\n  if(!p)\n    libconfig_fatal_error(__libconfig_malloc_failure_message);\n  return(p);\n}\n\nvoid *libconfig_malloc(size_t size)\n{\n  return(chk(malloc(size)));\n}\n' &&
gen "$WORK/m" c4
delta c4 "(c4) libconfig_malloc returns chk(malloc(size)) with a checking helper: census unchanged" ""

# (c5) ... and a helper that does not check its parameter does not count
fresh
subst "$WORK/m/lib/util.c" '^void \*libconfig_malloc\(size_t size\)\n\{.*?\n\}\n' 'static void *chk(void *p)\n{\n  if(p)\n    libconfig_fatal_error(__libconfig_malloc_failure_message);\n  return(p);\n}\n\nvoid *libconfig_malloc(size_t size)\n{\n  return(chk(malloc(size)));\n}\n' &&
gen "$WORK/m" c5
delta c5 "(c5) the helper tests with the wrong polarity" \
"< wrapper | libconfig_malloc | true
> wrapper | libconfig_malloc | false"

# (d) process exit and a write to stderr
fresh
subst "$WORK/m/lib/scanctx.c" '(^void libconfig_scanctx_init\([^{]*\{)' '\1 exit(3);' &&
subst "$WORK/m/lib/strbuf.c" '^#include <string.h>' '#include <stdio.h>\n\g<0>' &&
subst "$WORK/m/lib/strbuf.c" '(^char \*libconfig_strbuf_release\([^{]*\{)' '\1 fprintf(stderr, "x");' &&
gen "$WORK/m" d
delta d "(d) exit(3) in scanctx.c, fprintf(stderr) in strbuf.c" \
"> exit | scanctx.c | libconfig_scanctx_init | exit | stream=
> exit | strbuf.c | libconfig_strbuf_release | fprintf | stream=stderr"

# (e) behaviour-preserving edits
fresh
subst "$WORK/m/lib/libconfig.c" '(^config_setting_t \*config_setting_add\([^{]*\{)' '\1 /* census selftest */ int census_unused = 0; (void)census_unused;' &&
gen "$WORK/m" e1
delta e1 "(e1) comment + local variable, no line shift: census unchanged" ""
cmp -s "$WORK/base.v" "$WORK/e1.v" && ok "(e1) Census.v byte-identical" || bad "(e1) Census.v byte-identical"
fresh
subst "$WORK/m/lib/libconfig.c" '(^config_setting_t \*config_setting_add\([^{]*\{)' '\1\n  /* census\n     selftest */\n  int census_unused = 0;\n  (void)census_unused;\n' &&
subst "$WORK/m/lib/util.c" '^void \*libconfig_malloc' '/* a comment\n   spanning lines */\n\g<0>' &&
gen "$WORK/m" e2
delta e2 "(e2) comment + local variable, lines shifted: census unchanged" ""
if cmp -s "$WORK/base.v" "$WORK/e2.v"; then bad "(e2) line numbers in Census.v follow the source"; else ok "(e2) line numbers in Census.v follow the source"; fi
if CENSUS_FULL_PARSE=1 REPO="$WORK/m" python3 "$GEN" --out "$WORK/e2full.v" >"$WORK/e2full.log" 2>&1 \
   && cmp -s "$WORK/e2.v" "$WORK/e2full.v"
then ok "(e2) fast JSON loader agrees with full parse"; else bad "(e2) fast JSON loader agrees with full parse"; fi

echo "== (3) internal errors are fatal"
fresh
echo 'int broken( {' >>"$WORK/m/lib/strvec.c"
if gen "$WORK/m" x1; then bad "clang error gives non-zero exit"; else ok "clang error gives non-zero exit"; fi
[ ! -e "$WORK/x1.v" ] && ok "no output written on error" || bad "no output written on error"
fresh
rm "$WORK/m/lib/util.c"
if gen "$WORK/m" x2; then bad "missing source gives non-zero exit"; else ok "missing source gives non-zero exit"; fi
if gen "$WORK/nonexistent" x3; then bad "missing repo gives non-zero exit"; else ok "missing repo gives non-zero exit"; fi

echo "== (4) synthetic classification cases"
# unit <file> <c|c++> <tag>: analyse one stand-alone file, rendering to $WORK/<tag>.txt
unit() {
  python3 - "$HERE" "$WORK/u/lib" "$1" "$2" >"$WORK/$3.txt" 2>"$WORK/$3.log" <<'PYUNIT'
import sys
sys.path.insert(0, sys.argv[1])
import gen_census as g
r = g.analyse((sys.argv[2], sys.argv[3], sys.argv[4] == "c++"))
sys.stdout.write(g.render_text(g.merge([r])))
PYUNIT
}
mkdir -p "$WORK/u/lib"
cp "$HERE/census_cases/t.c" "$HERE/census_cases/t.c++" "$WORK/u/lib/"
if unit t.c c u_c && diff -u "$HERE/census_cases/t_c.expected" "$WORK/u_c.txt" >"$WORK/u_c.diff"
then ok "C cases (writes, escapes, const-ness, sites)"
else bad "C cases (writes, escapes, const-ness, sites)"; sed 's/^/    /' "$WORK/u_c.diff" "$WORK/u_c.log"; fi
if CENSUS_FULL_PARSE=1 unit t.c c u_c_full && cmp -s "$WORK/u_c.txt" "$WORK/u_c_full.txt"
then ok "C cases: fast JSON loader agrees with full parse"; else bad "C cases: fast JSON loader agrees with full parse"; fi
if unit t.c++ c++ u_cxx && diff -u "$HERE/census_cases/t_cxx.expected" "$WORK/u_cxx.txt" >"$WORK/u_cxx.diff"
then ok "C++ cases (members, references, new, namespaces)"
else bad "C++ cases (members, references, new, namespaces)"; sed 's/^/    /' "$WORK/u_cxx.diff" "$WORK/u_cxx.log"; fi
if CENSUS_FULL_PARSE=1 unit t.c++ c++ u_cxx_full && cmp -s "$WORK/u_cxx.txt" "$WORK/u_cxx_full.txt"
then ok "C++ cases: fast JSON loader agrees with full parse"; else bad "C++ cases: fast JSON loader agrees with full parse"; fi

rm -rf "$WORK"
trap - EXIT
echo "selftest: $npass passed, $nfail failed"
[ "$nfail" -eq 0 ] && { echo "selftest: OK"; exit 0; }
echo "selftest: FAILED"
exit 1
