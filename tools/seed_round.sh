#!/bin/bash
# seed_round.sh <prop> <suffix>: take the deliverables of the agent that worked in /tmp/mut2/<prop>, confirm them,
# run the property's check against the change, remove the scratch worktree.  One at a time (it patches /repo).
p=$1; sfx=${2:-b}
wt=${MUTROOT:-/tmp/mut2}/$p
[ -d $wt/seeded ] || { echo "no deliverables in $wt"; exit 2; }
/verif/tools/seed_verify.sh $wt ${p}_$sfx 2>&1 | tail -3
rm -f /verif/seeded/${p}_$sfx/*.o
/verif/tools/seed_run.sh ${p}_$sfx $p 2>&1 | tail -5
git -C /repo worktree remove --force $wt 2>/dev/null
git -C /repo status --short | grep -v "_build" | head -3
