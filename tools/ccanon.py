"""ccanon.py — a canonical form for small C statement blocks (the rule actions of scanner.l / grammar.y), used by the
translators gen_tables.py and gen_grammar.py to classify an action by its text without being upset by rewrites that cannot
change its meaning.  Every step is a meaning-preserving rewrite of the token sequence:

  * comments, `#line` directives and white space are dropped (tokens are re-joined with single blanks);
  * `return ( E ) ;` where the parentheses enclose the whole expression becomes `return E ;`;
  * `T v ; v = E ;` (a declaration immediately followed by the first assignment of that variable) becomes `T v = E ;`;
  * braces around ONE simple statement (no nested braces, no `if` / `for` / `while` / `do` / `switch` inside, exactly one
    `;`) after `if ( ... )` or `else` are dropped;
  * block-local variables are renamed v1, v2, ... in order of declaration (a name after `->` or `.` is a member, not a
    variable, and is left alone).

Anything else (reordered statements, swapped operands, different calls) gives a different canonical form: the action is
then not recognised and the proofs that depend on it do not check."""
import re

TOKEN = re.compile(r"""
    \s+                                   |   # white space
    /\*.*?\*/ | //[^\n]*                  |   # comments
    \#\s*line[^\n]*                       |   # line directives
    (?P<id>[A-Za-z_]\w*)                  |
    (?P<num>(?:0[xX][0-9a-fA-F]+|\d+\.?\d*(?:[eE][-+]?\d+)?)[uUlLfF]*) |
    (?P<str>"(?:[^"\\]|\\.)*")            |
    (?P<chr>'(?:[^'\\]|\\.)*')            |
    (?P<op>->|\+\+|--|&&|\|\||==|!=|<=|>=|<<=|>>=|<<|>>|\+=|-=|\*=|/=|%=|&=|\|=|\^=|.)
""", re.S | re.X)

TYPE_WORDS = {"const", "unsigned", "signed", "long", "short", "int", "char", "double", "float", "size_t", "FILE",
              "config_setting_t", "config_t", "YY_BUFFER_STATE", "struct", "void", "static"}
CTRL = {"if", "for", "while", "do", "switch", "else"}


def tokens(text):
    out = []
    for m in TOKEN.finditer(text):
        if m.lastgroup:
            out.append(m.group(m.lastgroup))
    return out


def _match_paren(toks, i):
    """index of the ')' matching the '(' at i, or -1"""
    d = 0
    for j in range(i, len(toks)):
        if toks[j] == "(":
            d += 1
        elif toks[j] == ")":
            d -= 1
            if d == 0:
                return j
    return -1


def _return_parens(toks):
    out = []
    i = 0
    while i < len(toks):
        if toks[i] == "return" and i + 1 < len(toks) and toks[i + 1] == "(":
            j = _match_paren(toks, i + 1)
            if j > 0 and j + 1 < len(toks) and toks[j + 1] == ";":
                out.append("return")
                out.extend(toks[i + 2:j])
                i = j + 1
                continue
        out.append(toks[i])
        i += 1
    return out


def _decl_at(toks, i):
    """if a declaration `T... [*]* id` starts at i (statement start), return (index of id); else None"""
    j = i
    seen_type = False
    while j < len(toks) and (toks[j] in TYPE_WORDS or (seen_type and toks[j] == "*") or
                             (j > i and toks[j - 1] == "struct")):
        if toks[j] != "*":
            seen_type = True
        j += 1
    if not seen_type or j >= len(toks) or not re.match(r"[A-Za-z_]\w*$", toks[j]) or toks[j] in TYPE_WORDS:
        return None
    if j + 1 < len(toks) and toks[j + 1] in ("=", ";"):
        return j
    return None


def _stmt_starts(toks):
    return [i for i in range(len(toks)) if i == 0 or toks[i - 1] in ("{", "}", ";")]


def _merge_decls(toks):
    changed = True
    while changed:
        changed = False
        for i in _stmt_starts(toks):
            k = _decl_at(toks, i)
            if k is None or toks[k + 1] != ";":
                continue
            v = toks[k]
            if k + 3 < len(toks) and toks[k + 2] == v and toks[k + 3] == "=":
                toks = toks[:k + 1] + toks[k + 3:]          # T v ; v = E ;  ->  T v = E ;
                changed = True
                break
    return toks


def _strip_single_braces(toks):
    changed = True
    while changed:
        changed = False
        for i, t in enumerate(toks):
            if t != "{" or i == 0:
                continue
            prev = toks[i - 1]
            if prev == "else":
                ok = True
            elif prev == ")":
                # the ')' must close the condition of an `if`
                d = 0
                j = i - 1
                while j >= 0:
                    if toks[j] == ")":
                        d += 1
                    elif toks[j] == "(":
                        d -= 1
                        if d == 0:
                            break
                    j -= 1
                ok = j > 0 and toks[j - 1] == "if"
            else:
                ok = False
            if not ok:
                continue
            # find the matching '}' and check the body is one simple statement
            d = 0
            e = -1
            for j in range(i, len(toks)):
                if toks[j] == "{":
                    d += 1
                elif toks[j] == "}":
                    d -= 1
                    if d == 0:
                        e = j
                        break
            if e < 0:
                continue
            body = toks[i + 1:e]
            if not body or "{" in body or any(b in CTRL for b in body) or body.count(";") != 1 or body[-1] != ";":
                continue
            if _decl_at(body, 0) is not None:
                continue                     # a declaration needs its block
            # dangling else: `if (a) { s; } else ...` -> `if (a) s; else ...` is the same statement
            toks = toks[:i] + body + toks[e + 1:]
            changed = True
            break
    return toks


def _rename_locals(toks):
    names = []
    for i in _stmt_starts(toks):
        k = _decl_at(toks, i)
        if k is not None and toks[k] not in names:
            names.append(toks[k])
    if not names:
        return toks
    ren = {n: "v%d_" % (i + 1) for i, n in enumerate(names)}
    out = []
    for i, t in enumerate(toks):
        if t in ren and not (i > 0 and toks[i - 1] in ("->", ".")):
            out.append(ren[t])
        else:
            out.append(t)
    return out


def canon(text):
    t = tokens(text)
    t = _return_parens(t)
    t = _merge_decls(t)
    t = _strip_single_braces(t)
    t = _rename_locals(t)
    return " ".join(t)
