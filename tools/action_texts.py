"""action_texts.py — the rule actions of scanner.l and grammar.y as they stand in the reference tree, each with the
constructor the model gives it (LC.ScanAction.action / LC.GramAction.gaction).  The translators compare the CANONICAL FORM
(tools/ccanon.py) of an action found in /repo with the canonical form of these texts."""

SCANNER_ACTIONS = {
    'AIgnore': '{ /* ignore */ }',
    'AAppendText': '{ libconfig_scanctx_append_string(yyextra, yytext); }',
    'AAppendHex': '{ char c = (char)(strtol(yytext + 2, NULL, 16) & 0xFF); libconfig_scanctx_append_char(yyextra, c); }',
    'AEndString': '{ yylval->sval = libconfig_scanctx_take_string(yyextra); BEGIN INITIAL; return(TOK_STRING); }',
    'AIncludeEnd': '{ const char *error = NULL; const char *path = libconfig_scanctx_take_string(yyextra); FILE *fp = libconfig_scanctx_push_include(yyextra, (void *)YY_CURRENT_BUFFER, path, &error); __delete(path); if(fp) { yyin = fp; yy_switch_to_buffer(yy_create_buffer(yyin, YY_BUF_SIZE, yyscanner), yyscanner); } else if(error) { yyextra->config->error_text = error; yyextra->config->error_file = libconfig_scanctx_current_filename(yyextra); yyextra->config->error_line = libconfig_yyget_lineno(yyscanner); return TOK_ERROR; } BEGIN INITIAL; }',
    '(ABool 1)': '{ yylval->ival = 1; return(TOK_BOOLEAN); }',
    '(ABool 0)': '{ yylval->ival = 0; return(TOK_BOOLEAN); }',
    'AName': '{ yylval->sval = yytext; return(TOK_NAME); }',
    'AFloat': '{ double fval = atof(yytext); if((fval > DBL_MAX) || (fval < -DBL_MAX)) return(TOK_ERROR); /* out of range */ yylval->fval = fval; return(TOK_FLOAT); }',
    'AInteger': '{ int ok; long long llval = libconfig_parse_integer(yytext, &ok); if(!ok) return(TOK_ERROR); if((llval < INT_MIN) || (llval > INT_MAX)) { yylval->llval = llval; return(TOK_INTEGER64); } else { yylval->ival = (int)llval; return(TOK_INTEGER); } }',
    'AInteger64': '{ int ok; long long llval = libconfig_parse_integer(yytext, &ok); if(!ok) return(TOK_ERROR); yylval->llval = llval; return(TOK_INTEGER64); }',
    'AHex': '{ int ok; unsigned long long ullval = libconfig_parse_hex64(yytext, &ok); if(!ok || (ullval > 0xFFFFFFFFULL)) return(TOK_ERROR); /* more than 32 bits */ yylval->ival = (int)(unsigned int)ullval; return(TOK_HEX); }',
    'AHex64': '{ int ok; unsigned long long ullval = libconfig_parse_hex64(yytext, &ok); if(!ok) return(TOK_ERROR); /* more than 64 bits */ yylval->llval = (long long)ullval; return(TOK_HEX64); }',
    'AEcho': 'ECHO;',
}
SCANNER_EOF_ACTION = '{ const char *error = NULL; FILE *fp; fp = libconfig_scanctx_next_include_file(yyextra, &error); if(fp) { yyin = fp; yy_delete_buffer(YY_CURRENT_BUFFER, yyscanner); yy_switch_to_buffer(yy_create_buffer(yyin, YY_BUF_SIZE, yyscanner), yyscanner); } else if(error) { yyextra->config->error_text = error; yyextra->config->error_file = libconfig_scanctx_current_filename(yyextra); yyextra->config->error_line = libconfig_yyget_lineno(yyscanner); return TOK_ERROR; } else { /* No more files in the current include list. */ YY_BUFFER_STATE buf = (YY_BUFFER_STATE)libconfig_scanctx_pop_include(yyextra); if(buf) { yy_delete_buffer(YY_CURRENT_BUFFER, yyscanner); yy_switch_to_buffer(buf, yyscanner); } else yyterminate(); } }'

GRAMMAR_ACTIONS = {
    'GName': '{ ctx->setting = config_setting_add(ctx->parent, (yyvsp[0].sval), CONFIG_TYPE_NONE); if(ctx->setting == NULL) { libconfig_yyerror(scanner, ctx, scan_ctx, err_duplicate_setting); YYABORT; } else { CAPTURE_PARSE_POS(ctx->setting); } }',
    '(GOpen 7)': '{ if(IN_LIST()) { ctx->parent = config_setting_add(ctx->parent, NULL, CONFIG_TYPE_ARRAY); CAPTURE_PARSE_POS(ctx->parent); } else { ctx->setting->type = CONFIG_TYPE_ARRAY; ctx->parent = ctx->setting; ctx->setting = NULL; } }',
    'GClose': '{ if(ctx->parent) ctx->parent = ctx->parent->parent; }',
    '(GOpen 8)': '{ if(IN_LIST()) { ctx->parent = config_setting_add(ctx->parent, NULL, CONFIG_TYPE_LIST); CAPTURE_PARSE_POS(ctx->parent); } else { ctx->setting->type = CONFIG_TYPE_LIST; ctx->parent = ctx->setting; ctx->setting = NULL; } }',
    'GStrAppend': '{ libconfig_parsectx_append_string(ctx, (yyvsp[0].sval)); free((yyvsp[0].sval)); }',
    '(GScalar GBool)': '{ if(IN_ARRAY() || IN_LIST()) { config_setting_t *e = config_setting_set_bool_elem(ctx->parent, -1, (int)(yyvsp[0].ival)); if(! e) { libconfig_yyerror(scanner, ctx, scan_ctx, err_array_elem_type); YYABORT; } else { CAPTURE_PARSE_POS(e); } } else config_setting_set_bool(ctx->setting, (int)(yyvsp[0].ival)); }',
    '(GScalar GInt)': '{ if(IN_ARRAY() || IN_LIST()) { config_setting_t *e = config_setting_set_int_elem(ctx->parent, -1, (yyvsp[0].ival)); if(! e) { libconfig_yyerror(scanner, ctx, scan_ctx, err_array_elem_type); YYABORT; } else { config_setting_set_format(e, CONFIG_FORMAT_DEFAULT); CAPTURE_PARSE_POS(e); } } else { config_setting_set_int(ctx->setting, (yyvsp[0].ival)); config_setting_set_format(ctx->setting, CONFIG_FORMAT_DEFAULT); } }',
    '(GScalar GInt64)': '{ if(IN_ARRAY() || IN_LIST()) { config_setting_t *e = config_setting_set_int64_elem(ctx->parent, -1, (yyvsp[0].llval)); if(! e) { libconfig_yyerror(scanner, ctx, scan_ctx, err_array_elem_type); YYABORT; } else { config_setting_set_format(e, CONFIG_FORMAT_DEFAULT); CAPTURE_PARSE_POS(e); } } else { config_setting_set_int64(ctx->setting, (yyvsp[0].llval)); config_setting_set_format(ctx->setting, CONFIG_FORMAT_DEFAULT); } }',
    '(GScalar GHex)': '{ if(IN_ARRAY() || IN_LIST()) { config_setting_t *e = config_setting_set_int_elem(ctx->parent, -1, (yyvsp[0].ival)); if(! e) { libconfig_yyerror(scanner, ctx, scan_ctx, err_array_elem_type); YYABORT; } else { config_setting_set_format(e, CONFIG_FORMAT_HEX); CAPTURE_PARSE_POS(e); } } else { config_setting_set_int(ctx->setting, (yyvsp[0].ival)); config_setting_set_format(ctx->setting, CONFIG_FORMAT_HEX); } }',
    '(GScalar GHex64)': '{ if(IN_ARRAY() || IN_LIST()) { config_setting_t *e = config_setting_set_int64_elem(ctx->parent, -1, (yyvsp[0].llval)); if(! e) { libconfig_yyerror(scanner, ctx, scan_ctx, err_array_elem_type); YYABORT; } else { config_setting_set_format(e, CONFIG_FORMAT_HEX); CAPTURE_PARSE_POS(e); } } else { config_setting_set_int64(ctx->setting, (yyvsp[0].llval)); config_setting_set_format(ctx->setting, CONFIG_FORMAT_HEX); } }',
    '(GScalar GFloat)': '{ if(IN_ARRAY() || IN_LIST()) { config_setting_t *e = config_setting_set_float_elem(ctx->parent, -1, (yyvsp[0].fval)); if(! e) { libconfig_yyerror(scanner, ctx, scan_ctx, err_array_elem_type); YYABORT; } else { CAPTURE_PARSE_POS(e); } } else config_setting_set_float(ctx->setting, (yyvsp[0].fval)); }',
    '(GScalar GString)': '{ if(IN_ARRAY() || IN_LIST()) { const char *s = libconfig_parsectx_take_string(ctx); config_setting_t *e = config_setting_set_string_elem(ctx->parent, -1, s); __delete(s); if(! e) { libconfig_yyerror(scanner, ctx, scan_ctx, err_array_elem_type); YYABORT; } else { CAPTURE_PARSE_POS(e); } } else { const char *s = libconfig_parsectx_take_string(ctx); config_setting_set_string(ctx->setting, s); __delete(s); } }',
    '(GOpen 1)': '{ if(IN_LIST()) { ctx->parent = config_setting_add(ctx->parent, NULL, CONFIG_TYPE_GROUP); CAPTURE_PARSE_POS(ctx->parent); } else { ctx->setting->type = CONFIG_TYPE_GROUP; ctx->parent = ctx->setting; ctx->setting = NULL; } }',
}
