#!/bin/bash
# build_harness.sh <variant> — compile harness/drv.c against /repo/lib's current sources.
# variants: asan (default; ASan+UBSan), plain, tsan.  Prints the path of the binary.
# The build is cached by a content hash of every input.
set -e
V=${1:-asan}
REPO=${REPO:-/repo}
VERIF=$(cd "$(dirname "$0")/.." && pwd)
SRC="$REPO/lib/libconfig.c $REPO/lib/scanctx.c $REPO/lib/scanner.c $REPO/lib/grammar.c $REPO/lib/strbuf.c $REPO/lib/strvec.c $REPO/lib/util.c $REPO/lib/wincompat.c"
HDR=$(ls $REPO/lib/*.h)
H=$( (cat $SRC $HDR "$REPO/lib/libconfigcpp.c++" "$VERIF/harness/drv.c" "$VERIF/harness/thr.c" "$VERIF/harness/drvxx.cc" "$VERIF/harness/memdrv.c" "$0"; echo $V) | sha256sum | cut -c1-16)
OUT="$VERIF/build/harness/$V-$H"
if [ ! -x "$OUT/drv" ]; then
  mkdir -p "$OUT"
  DEFS="-DHAVE_USELOCALE -DHAVE_NEWLOCALE -DHAVE_FREELOCALE -DLIBCONFIG_VERIF"
  case $V in
    asan) FL="-O1 -g -fsanitize=address,undefined -fno-sanitize-recover=all -fno-omit-frame-pointer" ;;
    plain) FL="-O1 -g" ;;
    tsan) FL="-O1 -g -fsanitize=thread" ;;
    fault) FL="-O0 -g" ;;
    cxx) FL="-O1 -g -fsanitize=address,undefined -fno-sanitize-recover=all -fno-omit-frame-pointer" ;;
    cxxfault) FL="-O0 -g" ;;
  esac
  if [ "$V" = cxx ] || [ "$V" = cxxfault ]; then
    XDEFS="-DDRV_CXX"
    LDEFS=""
    if [ "$V" = cxxfault ]; then
      # allocation faults under the C++ binding: the C sources' own requests are redirected (as in variant fault)
      XDEFS="-DDRV_CXX -DDRV_FAULT"
      LDEFS="-Dmalloc=lc_malloc -Dcalloc=lc_calloc -Drealloc=lc_realloc -Dstrdup=lc_strdup"
    fi
    # C++ variant: drv.c (as C, -DDRV_CXX) + drvxx.cc + libconfigcpp.c++ (as C++), linked with g++
    OBJS=""
    for f in $SRC; do
      o="$OUT/$(basename $f .c).o"
      gcc $FL $DEFS $XDEFS $LDEFS -I"$REPO/lib" -c "$f" -o "$o" 2>>"$OUT/build.log" || { cat "$OUT/build.log" >&2; rm -rf "$OUT"; exit 3; }
      OBJS="$OBJS $o"
    done
    gcc $FL $DEFS $XDEFS -I"$REPO/lib" -c "$VERIF/harness/drv.c" -o "$OUT/drv.o" 2>>"$OUT/build.log" || { cat "$OUT/build.log" >&2; rm -rf "$OUT"; exit 3; }
    OBJS="$OBJS $OUT/drv.o"
    g++ $FL $DEFS $XDEFS -I"$REPO/lib" -c "$VERIF/harness/drvxx.cc" -o "$OUT/drvxx.o" 2>>"$OUT/build.log" || { cat "$OUT/build.log" >&2; rm -rf "$OUT"; exit 3; }
    g++ $FL $DEFS -x c++ -I"$REPO/lib" -c "$REPO/lib/libconfigcpp.c++" -o "$OUT/libconfigcpp.o" 2>>"$OUT/build.log" || { cat "$OUT/build.log" >&2; rm -rf "$OUT"; exit 3; }
    g++ $FL -o "$OUT/drv.tmp" $OBJS "$OUT/drvxx.o" "$OUT/libconfigcpp.o" -lpthread -Wl,--wrap=fopen,--wrap=fclose,--wrap=fsync 2>>"$OUT/build.log" || { cat "$OUT/build.log" >&2; rm -rf "$OUT"; exit 3; }
    mv "$OUT/drv.tmp" "$OUT/drv"
    ls -dt "$VERIF"/build/harness/$V-* 2>/dev/null | tail -n +7 | xargs -r rm -rf
    echo "$OUT/drv"
    exit 0
  fi
  if [ "$V" = fault ]; then
    # the library's own allocation requests are redirected at compile time (no source change)
    LDEFS="-Dmalloc=lc_malloc -Dcalloc=lc_calloc -Drealloc=lc_realloc -Dstrdup=lc_strdup"
    OBJS=""
    for f in $SRC; do
      o="$OUT/$(basename $f .c).o"
      gcc $FL $DEFS $LDEFS -I"$REPO/lib" -c "$f" -o "$o" 2>>"$OUT/build.log" || { cat "$OUT/build.log" >&2; rm -rf "$OUT"; exit 3; }
      OBJS="$OBJS $o"
    done
    SRC="$OBJS"
    DEFS="$DEFS -DDRV_FAULT"
  fi
  gcc $FL $DEFS -I"$REPO/lib" -o "$OUT/drv.tmp" "$VERIF/harness/drv.c" $SRC -lpthread -Wl,--wrap=fopen,--wrap=fclose,--wrap=fsync 2>"$OUT/build.log" || { cat "$OUT/build.log" >&2; rm -rf "$OUT"; exit 3; }
  mv "$OUT/drv.tmp" "$OUT/drv"
  # keep only the 6 most recent cached builds per variant
  ls -dt "$VERIF"/build/harness/$V-* 2>/dev/null | tail -n +7 | xargs -r rm -rf
fi
if [ "$V" = asan ]; then
  # the capacity-arithmetic driver (strbuf / strvec / element vectors), realloc observed with --wrap
  if [ ! -x "$OUT/memdrv" ]; then
    gcc $FL $DEFS -I"$REPO/lib" -o "$OUT/memdrv.tmp" "$VERIF/harness/memdrv.c" $SRC -lpthread -Wl,--wrap=realloc 2>>"$OUT/build.log" || { cat "$OUT/build.log" >&2; exit 3; }
    mv "$OUT/memdrv.tmp" "$OUT/memdrv"
  fi
fi
if [ "$V" = tsan ] || [ "$V" = plain ]; then
  if [ ! -x "$OUT/thr" ]; then
    gcc $FL $DEFS -I"$REPO/lib" -o "$OUT/thr.tmp" "$VERIF/harness/thr.c" $SRC -lpthread 2>>"$OUT/build.log" || { cat "$OUT/build.log" >&2; exit 3; }
    mv "$OUT/thr.tmp" "$OUT/thr"
  fi
fi
echo "$OUT/drv"
