/* Synthetic cases for tools/census_selftest.sh section (4); expectation: t_c.expected */
#include <stdio.h>
#include <stdlib.h>
#include <string.h>
#include <setjmp.h>
#include <signal.h>
#include <unistd.h>
#include <assert.h>
struct S { int a; int arr[4]; struct S *next; };
static int g1;            /* assigned in f1 */
static int g2;            /* ++ in f2 */
static int g3;            /* &g3 passed as non-const pointer in f3 */
static int g4;            /* only read */
static char buf[16];      /* memset(buf) in f5; strlen(buf)/sizeof in f6 are reads */
static struct S s1;       /* s1.a = 1 (f7), s1.arr[2]++ (f8), &s1 stored (f10) */
static struct S *ps;      /* ps->a = 1 (f9) does not write ps; ps = ... (f10) does */
static const int c1 = 3;                       /* const: not listed */
static const char *const names[] = {"a","b"};  /* const: not listed */
static const char *wnames[] = {"a","b"};       /* array of writable pointers: listed; f11 */
int ext_counter;          /* external linkage, compound assignment in f12 */
extern int not_defined_here;                   /* not defined here: not listed */
static void (*const cfp)(void) = 0;            /* const function pointer: not listed */
static void (*fparr[2])(void);                 /* writable function pointers; f20 */
typedef const int cint; static cint tc = 1;    /* const through a typedef: not listed */
static int g5;            /* fwrite(&g5,...) takes const void *: not a write */
static int g6;            /* int *p = &g6: address escapes (f14) */
static int g7;            /* &g7 == p: comparison only */
static int g8;            /* *(&g8) = 1 (f16) */
static int garr[3];       /* garr[1] read only */
static int garr2[3];      /* int *q = garr2 + 1: escapes (f18) */
static jmp_buf jb;        /* setjmp/longjmp (f22) */
void f1(void){ g1 = 1; }
void f2(void){ g2++; }
void f3(void){ sscanf("1","%d",&g3); }
int f4(void){ return g4 + c1 + tc + (names[0] != 0) + (cfp != 0); }
void f5(void){ memset(buf,0,sizeof buf); }
size_t f6(void){ return strlen(buf) + sizeof(buf); }
void f7(void){ s1.a = 1; }
void f8(void){ s1.arr[2]++; }
void f9(void){ ps->a = 1; }
void f10(void){ ps = &s1; }
void f11(void){ wnames[0] = "x"; }
void f12(void){ ext_counter += 2; not_defined_here = 1; }
void f13(FILE *o){ fwrite(&g5, sizeof g5, 1, o); }
void f14(void){ int *p = &g6; *p = 1; }
int f15(int *p){ return &g7 == p; }
void f16(void){ *(&g8) = 1; }
int f17(void){ return garr[1]; }
void f18(void){ int *q = garr2 + 1; *q = 0; }
int f19(void){ static int cnt; static int ro; return ++cnt + ro; }
void f20(void){ fparr[1] = f1; }
void *f21(size_t n){ void *(*a)(size_t) = malloc; return a(n); }
void f22(void){ if (setjmp(jb)) return; longjmp(jb,1); }
void f23(int x){ assert(x); raise(SIGTERM); kill(getpid(), 9); _exit(1); }
void f24(void){ printf("a"); puts("b"); putchar('c'); perror("d"); fputs("e", stdout); fputc('f', stderr); putc('g',(stdout)); }
void f25(FILE *o){ fprintf(o,"x"); fputs("e", o); write(1,"a",1); write(3,"a",1); write(STDOUT_FILENO,"a",1); dprintf(2,"x"); }
void f26(void){ void (*e)(int) = exit; e(1); atexit(abort); }
void *f27(void){ char *p; if (posix_memalign((void**)&p, 8, 8)) return 0; return realloc(strndup("a",1), 4); }
