// Synthetic cases for tools/census_selftest.sh section (4); expectation: t_cxx.expected
#include <cstdlib>
#include <cstdio>
#include <new>
#include <string>
namespace ns {
struct C { int v; void set(int x){ v = x; } int get() const { return v; } static int count; static const int K = 3; };
int C::count = 0;        // static data member definition; ++ in f7
static C obj;            // non-const member call in f1
static C obj2;           // const member call only
static int refd;         // bound to int& in f3
static int crefd;        // bound to const int& only
static std::string str;  // operator= in f5
void byref(int &x){ x = 1; }
void bycref(const int &x){ (void)x; }
static int a1, a2;       // a1 by reference (f6); a2 by const reference, then in a lambda in g
namespace { int anon_var; }
void f1(){ obj.set(1); }
int f2(){ return obj2.get(); }
void f3(){ int &r = refd; r = 2; }
int f4(){ const int &r = crefd; return r; }
void f5(){ str = "x"; }
void f6(){ byref(a1); bycref(a2); }
void f7(){ C::count++; anon_var = 2; }
void *f8(){ int *p = new int(3); delete p; void *q = ::operator new(8); ::operator delete(q); return std::malloc(3); }
struct D { D(); ~D(); char *p; };
D::D() : p(new char[4]) {}
D::~D(){ delete[] p; std::abort(); }
template <class T> T *mk(){ return new T(); }
int *f9(){ return mk<int>(); }
void f10(){ std::fprintf(stderr, "x"); std::exit(1); }
}
int top_level;
void g(){ top_level = 1; auto l = [](){ ns::a2 = 5; }; l(); }
