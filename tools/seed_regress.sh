#!/bin/bash
# seed_regress.sh <seed-id>... : for each seeded change, apply it to $REPO (default /repo; use a snapshot such as
# $VP_RUN_REPO for background runs), run the property's quick check, report whether it was caught, undo the change.
# Does not touch evidence of the unchanged tree when REPO is a snapshot and /verif is a snapshot too.
REPO=${REPO:-/repo}
export REPO
cd "$(dirname "$0")/.."
for id in "$@"; do
  pid=${id%%_*}
  if ! git -C "$REPO" apply "$PWD/seeded/$id/patch.diff" 2>/dev/null; then echo "REGRESS $id cannot-apply"; continue; fi
  out=$(./check $pid quick 2>&1 | grep -v "^KNOWN" | tail -1)
  git -C "$REPO" checkout -- . 
  case "$out" in
    VIOLATION*no-failing-input-found) echo "REGRESS $id broken-only" ;;
    VIOLATION*) echo "REGRESS $id caught" ;;
    *) echo "REGRESS $id MISSED: $out" ;;
  esac
done
for t in $(cat tools/TRANSLATORS); do python3 tools/$t >/dev/null; done
