#!/bin/bash
# mk_locale.sh — build a comma-decimal locale offline: a copy of the compiled C.utf8 locale with the two radix
# fields of LC_NUMERIC patched ('.' -> ','), selected at run time through LOCPATH=/verif/build/locale.
set -e
V=$(cd "$(dirname "$0")/.." && pwd)
D="$V/build/locale"
mkdir -p "$D"
rm -rf "$D/xx_XX.utf8"
cp -r /usr/lib/locale/C.utf8 "$D/xx_XX.utf8"
python3 - "$D/xx_XX.utf8/LC_NUMERIC" <<'PY'
import sys
p = sys.argv[1]
b = bytearray(open(p, "rb").read())
assert b[0x20] == 0x2e and b[0x24] == 0x2e, (hex(b[0x20]), hex(b[0x24]))
b[0x20] = 0x2c
b[0x24] = 0x2c
open(p, "wb").write(b)
PY
cp -r /usr/lib/locale/C.utf8 "$D/C.utf8" 2>/dev/null || true
# a point-decimal locale that is NOT the built-in C object (a heap-allocated locale_t with '.' as the radix)
rm -rf "$D/yy_YY.utf8"; cp -r /usr/lib/locale/C.utf8 "$D/yy_YY.utf8"
echo "locale ok: $D/xx_XX.utf8"
