#!/usr/bin/env python3
"""mk_manifest.py — writes /verif/MANIFEST.json from the table below (claimed properties) and
properties.jsonl (everything else goes under not_applicable with the reason given here)."""
import json, os
V = os.path.dirname(os.path.dirname(os.path.abspath(__file__)))

CLAIMED = {
 "C05": dict(
   text="Coq theorems (Properties_C05.v, all closed under the global context) over the executable Gallina model "
        "of the public C API (api_step): failure atomicity for every add/remove/set/set_elem/set_format, additions "
        "append (override deletes exactly the same-named member), removals delete exactly one setting and keep the "
        "order, assignments change only the addressed setting's value/format, frame lemmas for diverging index "
        "paths, clear/attribute preservation, tab clamp, NULL include dir; for all states and arguments. The model is "
        "tied to /repo by a differential run on every check: exhaustive histories over a 16-op alphabet plus random "
        "histories with boundary arguments, return value + full tree dump + attributes compared after every call.",
   note="Trusted: Coq kernel, extraction (ExtrOcamlBasic), the harness, and that api_step mirrors libconfig.c "
        "(checked by correspondence, not proved against the C text). Pointer-level facts are outside the model.",
   technique="Coq proof (case analysis + list/tree algebra) + model/implementation correspondence",
   ref="5 (C05)"),
 "C04": dict(
   text="Coq invariant proof (Properties_C04.v): Inv holds initially and is preserved by every API operation of "
        "api_step (failing calls included), hence in every reachable state for every finite history (induction over "
        "fold_left); length/index/elem/member queries agree with the children. Tied to /repo by the correspondence "
        "run; the harness additionally checks parent/config back-pointers and the query functions on the real structs "
        "after every call.",
   note="Trusted: as C05. Back-pointers are checked by the harness only (the functional tree has none).",
   technique="Coq proof (invariant by induction over operation histories) + correspondence",
   ref="5 (C04)"),
 "C07": dict(
   text="Coq theorems (Properties_C07.v, closed under the global context) over the node-level accessor model "
        "(n_get_*/n_set_*, setter/getter/typed_look/elem_getter of Api.v/ApiStep.v): the complete success tables of "
        "setters and typed lookups as boolean functions of (stored type, requested kind, auto-convert, value) for all "
        "values; int<->int64 exactly when the value fits; float<->integer only with auto-convert; a 32-bit int to "
        "double exactly (b64_is_int, proved from an axiom-free binary64 encoder); bool/string never convert; "
        "set-then-get; mismatching get = 0/NULL or failure with no output; mismatching set leaves the configuration "
        "unchanged; the direct, by-name, by-path and by-index families apply the same node function. Tied to /repo "
        "by the exhaustive type x boundary-value x accessor-family x auto-convert grid plus random histories on every run.",
   note="Trusted: as C05. (int)double outside its defined domain is a distinguished Unspec outcome that theorems "
        "carry explicitly and generators avoid.",
   technique="Coq proof (case analysis over the conversion table + arithmetic of the binary64 encoding) + correspondence",
   ref="5 (C07)"),
 "C06": dict(
   text="Coq theorems (Properties_C06.v, closed under the global context) about the byte-level model of the path "
        "walker (Lookup.v: separator skipping, name scan, strtol with blanks/sign/saturation, index range check): for "
        "every well-formed tree, every base setting, every setting below it and every spelling of its path (names or "
        "bracketed decimal indices with any number of leading zeros, separators . : /, optional leading separator) the "
        "lookup returns exactly that setting (induction over the spelling); the getPath() spelling is one of them; "
        "whatever the walker returns is a non-empty path of an existing setting; after any spelled prefix a missing "
        "member, an index >= length of any magnitude, a component below a scalar, or an empty component (two "
        "separators in a row, anywhere) gives NULL; a failing typed lookup has no output. Tied to /repo by lookups on generated trees compared by index path (pointer identity in the "
        "harness) with the model and with the documented resolution evaluated on the implementation's own dump.",
   note="Trusted: as C05. The C++ getPath() itself is modelled (cpp_path) and not yet run through a C++ harness; the "
        "C-side resolution of its output format is. Aggregates are assumed to have fewer than 2^32 children "
        "(config_setting_t.length is an unsigned int).",
   technique="Coq proof (induction over spelled paths against the byte-level walker) + correspondence",
   ref="5 (C06)"),
 "C16": dict(
   text="Coq theorems (Properties_C16.v, closed under the global context): destroy_log (the model of "
        "__config_setting_destroy) lists children first, then the setting's own hook; every API step - additions, "
        "overrides, removals by path/index, assignments, clear, destroy, failing calls - conserves hooks as a "
        "multiset equation: hooks before = hooks still in the tree + destructor calls of that very step (Permutation), "
        "lifted by induction to every history and to destroy (everything released); with distinct hooks the calls are "
        "duplicate-free and disjoint from live settings; without a destructor no call; a read releases exactly the "
        "old tree. Tied to /repo by random histories with hooks on every kind of setting: destructor log compared "
        "call by call with the model and, independently, with the hooks that left the dumped real tree. The string "
        "lifetime clause is pointer-level: stored strings are values in the model (copy by construction), and the "
        "harness re-reads every handed-out pointer after every later call under ASan while a live setting holds it. "
        "C16_added_setting_has_no_hook: the setting config_setting_add returns is a new one (no hook, no children), also "
        "when it replaces a member under the override option; checked on the implementation after every add.",
   note="String lifetime is decided by the correspondence harness only (the functional model has no addresses); "
        "hooks overwritten by config_setting_set_hook are not passed to the destructor (as documented), stated in C16_set_hook.",
   technique="Coq proof (multiset conservation invariant by induction over histories) + correspondence",
   ref="5 (C16)"),
 "C01": dict(
   text="Proved (Properties_C01.v, closed under the global context), for all values and all option/tab/precision/"
        "default-format settings: C01_read_written - for every configuration whose tree is writable (documented scalar "
        "types with values in range, floats whose rendering has format_double's syntax and does not overflow, strings "
        "over bytes 1..255, members with API-valid names that are not boolean keywords) and has the shape the API "
        "maintains (homogeneous scalar arrays, distinct valid member names), within the parser's nesting limit, "
        "config_read_string(config_write(c)) returns CONFIG_TRUE and builds the equivalent tree: same nesting, names, "
        "order, types, integer values with the effective format, booleans by truth value, byte-exact strings, each "
        "float the strtod of its printf rendering. The proof goes through the compiled scanner and the parser model: "
        "class certificates (ClassCheck/ClassCert: every word of a lexeme class followed by a permitted byte is one "
        "longest match of the flex automaton by the expected rule; vm_compute certificate + soundness proof, "
        "transported by the C18 equivalence), literal round trips for %d/%lldL/0x%X/0x%llXL over the whole range, the "
        "string escape/unescape induction for every byte string, an adjacency invariant over the tree giving the "
        "token stream of the whole text (C01_written_text_tokens), and an induction over the tree through "
        "p_value/p_agg/p_elems/p_settings with the fuel p_config provides (ParseWrite.v). C01_second_write: writing "
        "the re-read configuration (same four output attributes) reproduces the text, given that every float is stable "
        "under render-read-render - a per-value hypothesis that is false for the class F1c and is evaluated, not proved; "
        "C01_roundtrip states both clauses. In fixed notation (the default; scientific notation is an option) that "
        "hypothesis is a THEOREM (FloatStable.v, C01_float_stable_fixed): for every finite double and every precision, "
        "when the %f rendering is not cut (<= 60 characters: F1 otherwise), format(strtod(format x)) = format x - the "
        "grid argument over Z (printf renders the nearest grid point r, strtod returns the double nearest to r by the "
        "correct-rounding theorems of RoundSpec.v, x is itself a double, so y rounds back to r) - hence "
        "C01_roundtrip_fixed: both clauses with glibc-exact printf/strtod and NO stability hypothesis when scientific "
        "notation is off. Under scientific notation (%g) it is a theorem for the doubles it can hold for (FloatStableG.v, "
        "C01_float_stable_sci): every finite double that is zero or normal, every precision up to 15, whenever the "
        "rendering is read back finite - by a canonical form of the %g rendering, nearest-double reading of it, and the grid "
        "argument across a decade boundary (10^15 < 2^52) - hence C01_roundtrip_sci (no stability hypothesis); "
        "C01_sci_hypotheses_needed evaluates that each hypothesis is necessary: a denormal (F1c), a rendering above DBL_MAX "
        "(F1b), and precision 16 on the double just above 10^23 (the bound 15 is sharp). C01_hypotheses_satisfiable / C01_fixed_hypotheses_satisfiable exhibit a configuration meeting every "
        "hypothesis; C01_refuted_keyword / _g_overflow / _g_denormal / _float_cut evaluate the four excluded classes "
        "on the model. Tie: rtrip "
        "= write, read_string into a second configuration, dump, write again, over API-built and parsed trees x option "
        "vectors, compared with the model line by line and, model-free, with the property's equivalence, an "
        "independent printf rendering and the reference parser.",
   note="Known findings F1 (float %f rendering cut at 60 characters), F1b (%g rounds above DBL_MAX), F1c (denormals "
        "unstable under %g), F2 (keyword-named members), F3 (nesting beyond the parser stack) are reported as "
        "KNOWN-FINDING; a case is attributed to them only when every message of that case falls into a recorded class.",
   technique="Coq proof (class certificates by vm_compute with a soundness proof; inductions over strings and over the tree through scanner and parser; float render-read-render stability proved by exact grid rounding over Z: fixed notation for every finite double and precision, scientific notation for normal doubles at precision <= 15 with finite read-back - the complement being the recorded findings F1b/F1c) + round-trip correspondence",
   ref="5 (C01)"),
 "C17": dict(
   text="Coq theorems (Properties_C17.v, closed under the global context) over Cpp.v, the model of lib/libconfigcpp.c++ "
        "written as its guards (assertType with the auto-convert escape, range tests, NULL tests) around the calls of the "
        "modelled C functions: SettingTypeException exactly for the stored types a conversion does not accept; for integer "
        "settings and every integer target the stored value or SettingRangeException exactly when the target cannot hold "
        "it; every delivered value is the value of a C getter; conversions to int / long long / double succeed exactly "
        "when config_setting_lookup_int/_int64/_float do, with the same value (auto-convert included); lookupValue and "
        "exists never throw and Config::lookupValue(int&) is config_lookup_int; lookup / operator[] return the setting the "
        "C function finds or the documented exception; type/format/length/index/root/name agree through the type-code "
        "bijection; getPath() resolves back to the same setting; iteration visits every child once in order; and the "
        "wrapper discipline: after any C++ call the hooks in the tree plus those handed to Config's destructor are the "
        "hooks before plus the wrappers created (Permutation; by induction over histories; destruction releases all). "
        "Tied to /repo by the cxx harness variant (one libconfig::Config, C++ and C calls on the same config_t): "
        "histories of every modelled call compared line by line with the model and, independently, with the "
        "documented contract replayed by pygen/gen_cpp.py; LeakSanitizer/ASan watch the wrapper objects.",
   note="The cached Setting::_type/_format and the C++ object lifetime are not in the model (wrappers are marks in the "
        "hook); they are covered by the correspondence and the sanitizers. operator float, getParent, Config::read/write "
        "on FILE*, the const char* overload of lookupValue and the exception classes' own members (getPath/what) are "
        "outside the model. Float-to-integer conversion under auto-convert is compared only where the C cast is defined.",
   technique="Coq proof (case analysis over the guard structure; multiset invariant by induction over histories) + three-way correspondence",
   ref="5 (C17)"),
 "C09": dict(
   text="Coq theorems (Properties_C09.v, closed under the global context) over rw_step, the model of "
        "config_read_string/config_read/config_read_file/config_write_file on one object over a virtual file system "
        "(scanner = compiled flex tables, include machine, parser, error-field updates as the code performs them): the "
        "complete outcome of a call - return value, settings, all four error fields - is independent of the error state "
        "left by earlier calls (for every input, file system and history); success leaves type none with text/file/line "
        "cleared; a failing read is a parse error with a message or (file not openable) an I/O error; a failing write an "
        "I/O error. Tied to /repo by every history of length 2 (quick) / 3 (thorough) over 14 calls, error fields compared "
        "after every call with the model and, model-free, with the same call on a fresh object."
        " Which error a failing read reports (C09_failing_read_fields, from ReadSyntax.v): within the nesting limit every read "
        "succeeds with the denoted configuration, or fails with type parse and the message, file and line of the first semantic "
        "offence, or with 'syntax error' (or the scanner's own text) at the file and line of the first token that cannot continue "
        "a derivation.",
   note="The C++ ParseException/FileIOException carry the same fields through Config::handleError; that layer is "
        "not modelled (see C17).",
   technique="Coq proof (non-interference of the error state, by unfolding the reader/writer model) + exhaustive-bounded correspondence",
   ref="5 (C09)"),
 "C12": dict(
   text="Coq theorems (Properties_C12.v, closed under the global context) over write_file, the model of "
        "config_write_file on a buffered stream and a device that may refuse the open, hold only n bytes, fail fsync "
        "or fail close, for every text, every device and every split k of the text between writes during "
        "config_write and the final flush: success is reported iff the open succeeded, the whole text fitted, the "
        "requested fsync succeeded and the close succeeded; on success the file content is exactly the config_write "
        "text and the error type is none; otherwise CONFIG_FALSE with an I/O error. A second, finer model "
        "(StdioModel.v / StdioFacts.v: a buffered stream of any buffer size with a sticky error indicator over a device "
        "whose write(2) calls succeed, are partial or fail by an ARBITRARY schedule, so a failure may be transient) "
        "carries C12_stdio_success_complete (success => the file holds the whole text, nothing dropped), "
        "C12_stdio_success_iff (success iff no write call failed, the requested fsync and the close succeeded), "
        "C12_stdio_no_fail (partial writes lose nothing) and C12_stdio_variants_refuted (trusting fflush, skipping the "
        "ferror check under FSYNC, or trusting fclose alone reports success for a file that lost bytes). The two models are "
        "one (StdioCap.v): with a state-dependent oracle for the write calls, the capacity device is the oracle that "
        "writes what fits and then fails, and write_file - the model the extracted driver runs against the real "
        "function - equals that instance in result and file content for every buffer size and split "
        "(C12_capacity_device_is_stdio_instance, C12_stdio_oracle_success_complete, C12_capacity_closed_form). Tied to /repo by fault "
        "enumeration on the real function: RLIMIT_FSIZE at boundary sizes, fsync/fclose/fopen forced to fail "
        "(--wrap), missing directory, fsync option off/on, read-back of the written file; and by ONE transient write "
        "failure on the real function (harness op writeft: the file size limit fails one write of stdio's, SIGXFSZ "
        "lifts it, every later write, flush, fsync and close succeed): the call must return CONFIG_FALSE with "
        "CONFIG_ERR_FILE_IO.",
   note="Assumed stdio contract: a push the device does not take completely sets the error indicator or makes the "
        "fflush/fclose performing it return EOF. C++ Config::writeFile throws FileIOException from the same return value (C17).",
   technique="Coq proof (case analysis over the device/stream model, arithmetic by lia) + fault-injection correspondence",
   ref="5 (C12)"),
 "C18": dict(
   text="Automaton equivalence decided inside Coq (Properties_C18.v, closed under the global context): for each of the "
        "five start conditions, at and away from the beginning of a line, a finite set of (DFA state, vector of Brzozowski "
        "derivatives of the documented patterns) pairs is checked closed by vm_compute against the yy_* tables that the "
        "translator extracts from /repo/lib/scanner.c on every run; a soundness theorem proved once, generically in the "
        "tables (Bisim.v: induction on the input), turns the ten certificates into: for every byte string over the full "
        "256-byte alphabet, flex's matching loop selects exactly longest_match of the documented rules; longest_match is "
        "characterised declaratively (longest prefix any rule matches, earliest rule on ties) from deriv/nullable "
        "correctness; the action table equals the documented one (booleans before names, floats before integers, every "
        "escape, garbage for other bytes), include_open only at BOL. Token streams of libconfig_yylex are compared with "
        "the model and with a tokenizer written from the documented patterns on every run.",
   note="Trusted: tools/gen_tables.py (regex extraction of tables, jam state, start-condition numbering, action bodies "
        "classified by normalised text), the hand transcription of flex's 30-line matching loop (FlexEngine.v, tied by "
        "the token-level correspondence), the documented patterns as transcribed in ScannerSpec.v. The manual's float "
        "production omits the ? after the exponent sign of the second alternative; scanner.l and the prose agree and are used.",
   technique="Coq proof: bisimulation certificate (vm_compute) + generic soundness lemma; translator-regenerated tables",
   ref="5 (C18), Appendix A"),
 "C03": dict(
   text="PARTIAL (memory safety is a runtime matter). Proved (Properties_C03.v, closed under the global context, over the "
        "translator-regenerated tables): on every non-empty input in every start condition the matcher selects one of "
        "the 47 documented rules and a lexeme of length >= 1, and never flex's default ECHO rule (no stray output); the "
        "scanner with its include machine is total (C03_scanner_total: for every text and every file system it stops at "
        "the end of the input or at an error token - the fuel and the include-depth budget of the model always suffice, "
        "every BEGIN names a start condition, no action is unknown, no path reaches YY_FATAL_ERROR); the parser is total "
        "on every stream the scanner can deliver (C03_parser_total: POk or PErr, never out of fuel, never an impossible "
        "tree, never past the stopping token; mutual induction with a type-skeleton invariant of the tree); hence "
        "config_read / config_read_file answer success, failure or 'nesting beyond the parser stack' for every byte "
        "string: no hang, no process exit (C03_read_total, C03_read_file_total); and the bounds arithmetic of the three "
        "places where the library computes capacities itself (MemModel.v / MemFacts.v): the string buffer of strbuf.c (64-byte "
        "blocks, size_t wrap in the model), the string vector of strvec.c (32-entry chunks + terminator slot) and the "
        "element vector of every group / array / list (16-entry chunks, realloc may shrink after removals) - for every "
        "history of appends, releases, adds and in-range removes every index written or moved lies inside what was last "
        "requested from realloc (C03_mem_safe, with C03_strbuf/strvec/list_invariant, C03_realloc_tracks, the explicit "
        "no-wrap guard and C03_strbuf_wrap_refuted), tied on every run by harness/memdrv.c (the real functions under ASan, "
        "realloc observed with --wrap, compared op by op). Not provable in a Gallina model and "
        "therefore only observed, on every run, by the ASan+UBSan+LSan harness with per-input deadline: memory safety of "
        "the C code and of the flex/bison skeletons, leaks, C stack depth; outcome, stdout capture, descriptor count and "
        "a follow-up battery (traverse, look up, write, modify, re-read, clear) are compared with the model on "
        "byte-mutated configurations, random bytes with NULs, nesting to 3000 levels, unterminated constructs, includes "
        "of missing files / directories / the file itself / the same file twice / paths with line feeds.",
   note="Beyond 1900 nesting levels the LALR stack limit (YYMAXDEPTH 10000, 5 entries per open group) may be hit; the "
        "model then answers RdNest and only safety is checked. Bytes are 0..255 (bytes_ok) in the totality theorems.",
   technique="Coq proof (scanner progress / no default rule by certificates; totality of scanner, include machine, parser and reader by induction; capacity-arithmetic invariants of strbuf / strvec / element vectors over all operation histories) + sanitizer correspondence for memory safety (partial)",
   ref="5 (C03)"),
 "C08": dict(
   text="Coq theorems (Properties_C08.v, closed under the global context) about numeric_token, the function the "
        "scanner model runs for the {integer} {integer64} {hex} {hex64} {float} rules, for every lexeme of the documented "
        "shapes (unbounded digit count): a decimal/octal literal is accepted iff its positional value (sum of digit x "
        "base^position; octal after a leading 0, rejected if it contains 8/9) lies in the 64-bit range, and then stored "
        "with exactly that value - as a 32-bit int iff it fits and there is no L/LL suffix, else 64-bit; a hex literal is "
        "accepted iff it spells at most 32 (with suffix 64) bits and the stored two's-complement pattern is that number; "
        "hex tokens carry format HEX through the parser; a float literal is stored as atof(lexeme) and rejected iff that "
        "is infinite; the decimal-to-binary conversion the model runs for atof (b64_of_decimal, the model of glibc's strtod) "
        "is proved correctly rounded (RoundSpec.v): round-half-even of x*2^t to 53 bits or the denormal grid with the decoded "
        "bit pattern, one rounding for a decimal of at most 800 significant digits, the sticky-bit quotient for negative "
        "exponents rounds like the exact quotient. Tied to /repo by token- and setting-level correspondence on ~2000 boundary spellings per run and a "
        "model-free exact-value oracle (Python integers / correctly rounded float())."
        " The float clause for EVERY float lexeme (FloatLexeme.v): float_lexeme is the scanner's float pattern as an explicit "
        "decomposition (sign, integer digits, optional point and fraction, optional exponent); C08_strtod_of_float_lexeme "
        "carries it through the whole parsing layer of the strtod model; C08_float_lexeme_token: within the window of the "
        "correct-rounding theorems (<= 800 significant digits, digits + exponent <= 400, last digit >= 10^-400, value zero or "
        ">= 2^-1078) the token is REJECTED exactly on a true overflow (value >= DBL_MAX + half an ulp) and otherwise stored "
        "as the finite double with the lexeme's sign that is the round-half-even image of the denoted decimal on the 53-bit / "
        "denormal grid, no double being nearer; digit-free lexemes (\".\", \"-.e5\") are +0.0. "
        "C08_float_pattern_is_lexeme (FloatLexemeRegex.v): the words of the documented float pattern p_float (what the "
        "compiled scanner matches, C18) are exactly those lexemes, in both directions.",
   note="PARTIAL for the float clause: that glibc strtod is correctly rounded is a libc contract in the trusted base, "
        "validated differentially on every run, not proved. The link lexeme -> rule is C18.",
   technique="Coq proof (unfolding the saturating/erroring digit folds against positional value, arithmetic by lia) + correspondence",
   ref="5 (C08)"),
 "C15": dict(
   text="Coq theorems (Properties_C15.v, closed under the global context) about the thread-locale state machine that "
        "wraps every read and write (Locale.v: newlocale/uselocale/freelocale with object identities, global and "
        "per-thread locale): for every global locale, every thread locale and every operation f, the operation runs with "
        "radix '.', hence gives the C-locale result; afterwards the global and the thread locale are exactly what they "
        "were, over any history; only the temporary object is freed. Tied to /repo under real locales: a comma-decimal "
        "locale is built offline (patched copy of C.utf8, LOCPATH) and the grid global {C, comma, C.utf8} x thread {none, "
        "comma, C.utf8} x {read_string, read, read_file+include, write, write_file, failing reads} is run on every check; "
        "values, written text, uselocale(0) identity, setlocale(NULL) and the caller's printf radix are compared with the "
        "model and with the C-locale run.",
   note="Trusted: POSIX semantics of newlocale (categories outside the mask default to the POSIX locale when base is "
        "NULL), uselocale, freelocale. newlocale failure (allocation) leaves everything unchanged and the call runs "
        "under the caller's locale (C15_newlocale_failure); the WIN32 branch is not modelled.",
   technique="Coq proof (state-machine case analysis) + correspondence under real locales",
   ref="5 (C15)"),
 "C13": dict(
   text="PARTIAL. Proved (Properties_C13.v, closed under the global context, over the census tools/gen_census.py "
        "regenerates from /repo with clang's AST on every run): every reference to malloc/calloc/realloc/strdup in "
        "lib/*.c lies inside one of the four wrappers of util.c whose bodies test the result and call "
        "libconfig_fatal_error; hence for every sequence of allocation requests of the C library, of any length, and "
        "every k, failing the k-th request invokes the fatal-error function at that request (induction over the trace). "
        "What the C code does with an unchecked NULL is not in the model; it is decided by real fault injection on every "
        "run: the library's own requests are redirected at compile time, counted per scenario, and each k-th one is "
        "made to fail in a child process (handler must run at exactly that request; no crash, no normal return), plus "
        "pairs of failures with a handler that recovers by longjmp.",
   note="Known finding F19 (printed as KNOWN-FINDING): the C++ exception classes copy strings with a bare strdup "
        "(C13_cpp_exception_strdup_refuted); operator new throws by itself. The flex/bison skeletons allocate "
        "through libconfig_yyalloc / YYMALLOC = libconfig_malloc (seen by the census as wrapped).",
   technique="Coq proof over a translator-generated census (induction over allocation traces) + exhaustive fault injection (partial)",
   ref="5 (C13)"),
 "C14": dict(
   text="PARTIAL. Proved (Properties_C14.v, closed under the global context): for every number of threads, every "
        "program per thread and every schedule, an interleaved run in which each operation acts on the configuration "
        "object of the thread performing it gives each thread exactly the results and the final object of its program "
        "run alone (generic frame theorem, induction over the schedule; instantiated with api_step and with the "
        "read/write model rw_step); the premise - no function writes shared state - is tied to the code by the census "
        "of writable static-storage objects that gen_census.py regenerates from /repo with clang's AST on every run "
        "(only __libconfig_fatal_error_func is written, only by libconfig_set_fatal_error_func) and by the reentrant "
        "scanner / pure parser flags read from scanner.c. No memory model: data races inside calls and in libc are "
        "observed by a ThreadSanitizer build running 2..16 threads that read with @include, query, modify, write and "
        "re-read their own objects (floats with renderings longer than the writer's 64-byte buffer included), each "
        "iteration's results compared with the serial run. Finer than whole calls (ThreadLocale.v, ThreadLocaleFacts.v): N "
        "threads, micro-steps Enter (newlocale + uselocale on the calling thread, shared identity counter, newlocale may "
        "fail) / Run (the body under the radix in effect for that thread) / Leave, any schedule: "
        "C14_locale_interleaving(_prefix) (results, radix log, data, thread locale and global locale of every thread = "
        "its program alone), C14_bodies_run_under_dot, C14_locale_restored (locales restored, created objects freed "
        "exactly once, at every quiescent point), and C14_global_switch_refuted (a process-wide setlocale switch is "
        "refuted by a two-thread schedule).",
   note="config_set_fatal_error_func (called by every C++ Config constructor) writes the one process-wide pointer and "
        "is outside the statement, as the property's 'own configuration objects' wording implies.",
   technique="Coq proof (frame/non-interference by induction over schedules) + translator census + TSan run (partial)",
   ref="5 (C14)"),
 "C19": dict(
   text="Coq theorems (Properties_C19.v, closed under the global context) about the writer model (Writer.v, "
        "byte-exact model of __config_write_value/__config_indent/config_write): for every tree the output is exactly the "
        "in-order rendering of a sequence of pieces (layout, assignment character, semicolon, bracket, comma, name, scalar "
        "with its own format), proved by induction over the tree; for ANY two configurations sharing the settings - any "
        "options, tab widths, precisions, default formats - the piece sequences are identical after removing layout and "
        "semicolons and identifying ':' with '='; each option affects the characters of exactly one kind of piece; a "
        "group's pieces are one line per member, each starting with the indentation piece of its depth, which renders to "
        "(depth-1) x tab spaces or depth-1 tabs. Tied to /repo by byte-exact comparison of config_write output on "
        "generated trees under ~30 option vectors per tree, and a model-free oracle tokenising every variant with the "
        "documented tokenizer and measuring indentation."
        " Through the parser (OptRead.v): for two configurations with the same tree, default format, float precision and "
        "notation and ANY other output settings, both written texts are read back and the re-read trees are the same "
        "(C19_options_invisible); precision / notation change the float values read back - each the strtod of its rendering "
        "- and nothing else (C19_precision_changes_floats_only).",
   note="The statement is at the level of the writer's pieces; that the scanner splits the written text into exactly "
        "these pieces is the lexing half of C01. Floats are rendered by an exact printf model (FloatDec.v) validated "
        "against glibc by this correspondence. Tab widths above 15 are clamped by the setter (C05).",
   technique="Coq proof (structural decomposition of the serializer, induction over the nested tree) + byte-exact correspondence",
   ref="5 (C19)"),
 "C20": dict(
   text="Proved (Properties_C20.v, closed under the global context). (a) The abstract refill logic (Chunked.v): carrying DFA "
        "state, position and best candidate across refills and deciding only at a jam or at end of input selects, for every "
        "cutting of the input, what the matcher selects on the concatenation. (b) A faithful model of the flex skeleton's "
        "buffer machinery as compiled in lib/scanner.c (FlexBuf.v / FlexBufFacts.v): the buffer of yy_buf_size bytes plus two "
        "sentinels, yy_n_chars, buffer status NEW/NORMAL/EOF_PENDING, the move of the partial lexeme to the front, "
        "num_to_read = size - number_to_move - 1, the doubling loop, the cap at YY_READ_BUF_SIZE, a stream that may deliver "
        "any count between 1 and the requested size, EOB_ACT_END_OF_FILE/LAST_MATCH/CONTINUE_SCAN, yy_get_previous_state, NUL "
        "bytes inside the data, yy_scan_bytes for strings. C20_refill_in_bounds: every byte a refill writes lies inside the "
        "allocation and the growth loop ends; C20_match: for every table set, start condition, byte string of any length "
        "(lexemes longer than the buffer included) and every way the stream cuts its data, one call of the buffered matcher "
        "returns exactly flex_match on the remaining input; C20_inputs_agree: with the compiled tables and the buffer sizes "
        "of gen/Consts.v, a stream, another stream over the same bytes and the string give the same token sequence; "
        "C20_chunked_is_buffered links (a) and (b). (c) The whole scanner, include machine and reader over such buffers "
        "(LexStream.v): with the top-level input and every included file read through a flex buffer fed by a stream that "
        "delivers its data in any pieces, the token stream equals lex_top's - tokens with lines, files, errors, events - "
        "(C20_lex_top), hence C20_config_read / C20_config_read_file: config_read of a string, of a stream however it "
        "delivers its data, and config_read_file give the same rd_result (tree, outcome, error fields, events). config_read_file on a regular file is config_read on its bytes with the "
        "file name recorded. Corners the proof exposed: YY_READ_BUF_SIZE >= 1, a refilled buffer of size >= 1. Not "
        "modelled: interactive buffers, the ferror/EINTR path, the int-overflow branch of the growth (2^30 bytes), buffer "
        "switching for includes (Lexer.v gives each file its own buffer); the skeleton model is a hand transcription of "
        "generated code, tied on every run: each token kind is slid across the 8/16/24/32 KiB positions and the text read "
        "through config_read_string, fmemopen, cookie streams delivering 1..8193-byte pieces, and config_read_file; outcomes "
        "compared pairwise and with the model, including an @include followed by more than one read block, and texts of "
        "exactly 512 ... 65536 bytes (BUFSIZ, page, read block, scanner buffer, one less / more) whose last byte is "
        "significant. C20_skeleton_text_as_transcribed: the buffer functions of scanner.c (yy_get_next_buffer, "
        "yy_get_previous_state, yy_try_NUL_trans, yyrestart, buffer creation / switching / scan functions, YY_INPUT, the "
        "end-of-buffer action and the matching loop) are token for token the text FlexBuf.v / FlexEngine.v were "
        "transcribed from (tools/skel_ref/flex_skeleton.json, compared by gen_tables.py on every run).",
   note="NUL-free inputs at the API level, as the property states (config_read_string stops at a NUL by construction); the buffer theorems hold for any bytes.",
   technique="Coq proof (invariant of the buffer state and simulation of the refilling matcher by flex_match over all streams and buffer sizes; chunk-composition lemma) + sliding-offset correspondence",
   ref="5 (C20)"),
 "C11": dict(
   text="Coq theorems (Properties_C11.v, closed under the global context) about the scanner/include-machine model "
        "(Lexer.v: compiled tables, rule actions, include stack with push / next file / pop over a virtual file system and "
        "any include function): a ledger invariant proved by induction over the depth budget, the file list of a frame "
        "and the scan loop - with every token the model records exactly the streams opened and not yet closed by the "
        "events so far, every close matches the innermost open stream, and a buffer scanned to its end leaves the stack as "
        "it found it; hence, for every file system, include function and text and for EVERY point at which the parser may "
        "stop reading (the number of tokens read is universally quantified: every syntax/semantic error position, include "
        "failure, success), the events of a read that returns, followed by the unwinding, are well bracketed and leave "
        "nothing open; config_read_file adds its own balanced open/close. Tied to /repo by comparing the real "
        "fopen/fclose trace (--wrap) event for event with the model on include forests with every fault kind injected at "
        "every file, plus fd counting, the caller's stream check, ASan and LeakSanitizer. File names (FileNames.v): "
        "files_valid = every setting's file and the error file are elements of the vector owning the strings "
        "(config->filenames); C11_read_names_valid (any read, any failure point, from any configuration), "
        "C11_names_monotone (the vector only grows along the token stream and owns every token's file), "
        "C11_api_keeps_names_valid, C11_names_valid_in_every_history (every history of reads, writes and API calls; the "
        "error file excepted after a config_clear made while it is set - the property promises validity only until "
        "the configuration is cleared; witness C11_names_examples). Tied to /repo by pointer identity: every dump of "
        "the harness checks that each setting's file pointer and the error file pointer are elements of config->filenames.",
   note="Heap leaks and validity of handed-out file-name strings are pointer-level (LSan/ASan only). That a successful "
        "parse has read the end-of-input token (so nothing is left to unwind) is a parser fact not proved; the model "
        "unwinds after the last token read in both cases and the traces are compared.",
   technique="Coq proof (ledger invariant by nested induction over the include machine; abort point universally quantified) + event-trace correspondence",
   ref="5 (C11)"),
 "C10": dict(
   text="Proved (Properties_C10.v, closed under the global context) about the scanner / include-machine model over the "
        "compiled tables. (a) Path resolution of the default include function (relative paths joined to the include "
        "directory with '/', absolute paths and a missing directory leave the path as written) and of multi-path "
        "functions; every file is scanned from line 1 at beginning-of-line in a buffer of its own and its tokens carry its "
        "name; the parser stamps a named setting with the file and line of its name token; at the closing quote of a "
        "directive: nesting equal to MAX_INCLUDE_DEPTH gives 'include file nesting too deep', a missing first target "
        "'cannot open include file' and an include-function error its message, each located at the directive (current "
        "file, its line) - for every state and file system; chains of 10 / 11 levels and a cycle are evaluated on the "
        "compiled tables; the ledger/termination side is C11. (b) THE EQUIVALENCE WITH TEXTUAL INLINING at the level of "
        "the token stream the parser receives (Splice.v): for a directive alone on its line whose target is a complete "
        "text c (it scans to its end without error with strings and comments terminated and has no directive of its own - "
        "a closed, computable condition on c alone - and is empty or ends with a line feed), scanning the including text "
        "yields the same token values in the same order with the same outcome as scanning the text with c spliced in at "
        "the directive: C10_splice (any buffer, any include depth, any file system) and C10_splice_top (the token stream "
        "config_read parses). It rests on the compositionality of longest-match scanning across the cut points, proved "
        "against the compiled automaton by vm_compute certificates with generic soundness lemmas (C10_cut_line_feed: in "
        "INITIAL and the comment conditions no match looks past a line feed; C10_cut_quote: in STRING/INCLUDE none looks "
        "past a double quote), the append lemma (C10_append) and the independence of token values from the scanner's "
        "bookkeeping fields (C10_bookkeeping_irrelevant, mutual induction over depth / files / fuel); C10_splice_example "
        "evaluates both sides on a file holding a multi-line string, a comment and a number. (c) Through the parser and "
        "for nested includes (SpliceRead.v, SpliceNest.v): the parser's answer and tree depend on the tokens' lines and "
        "files only through the positions it records (C10_parser_position_irrelevant, mutual induction over the parsing "
        "functions), hence config_read of the including text and of the spliced text give the same outcome and the same "
        "configuration - settings, order, names, types, values, formats - up to the recorded source lines/files, which are "
        "the provenance clause (C10_splice_read); and for include forests of any shape within the depth limit (every "
        "directive alone on its line, resolving to one existing file whose text is complete) reading the top file equals "
        "reading the fully flattened text (C10_flatten_tokens, C10_flatten_read; induction on depth budget and forest; "
        "C10_flatten_example is a two-level forest). NOT proved (compared on every run instead: include forests read "
        "through the real library and the model vs config_read_string of the spliced text, with per-setting provenance "
        "checked against the files): include functions returning several files, a directive followed by more text on its "
        "line (there the beginning-of-line flag genuinely differs), error outcomes under flattening.",
   note="Known finding F13 (KNOWN-FINDING line): a later unopenable path of a multi-path include is reported at the "
        "missing file, not at the directive (C10_later_file_error_refuted).",
   technique="Coq proof (cut-point certificates on the compiled automaton with soundness lemmas, append lemma and bookkeeping irrelevance by induction, splice theorem; include step unfolded under universally quantified state) ; position irrelevance of the parser and flattening of include forests by induction) + vm_compute instances + forest correspondence for multi-file includes and error cases",
   ref="5 (C10)"),
 "C02": dict(
   text="Proved (Properties_C02.v, closed under the global context), for the parser model on the scanner's located tokens "
        "and carried to config_read: (1) the documented grammar - the manual's BNF (settings with optional ; or , "
        "terminators, scalars incl. adjacent strings, arrays of scalars, lists, groups, trailing and repeated commas as "
        "grammar.y allows) - as mutually inductive derivation relations over token lists and, equivalently "
        "(C02_grammar_trees, C02_trees_grammar), as concrete syntax trees that spell a located token list; (2) soundness: "
        "whatever p_value / p_agg / p_elems / p_settings / p_config accept is a derivation (mutual induction over the four "
        "parsing functions, every fuel, state and context); (3) completeness and the denoted tree (ParseComplete.v, mutual "
        "induction over the syntax trees): every derivation meeting the semantic conditions - one scalar type per array, "
        "valid names, no name twice in a group unless overrides are on, in which case the earlier member is deleted and "
        "the new one appended - is accepted in any position, whatever follows, with the fuel p_config provides, and the "
        "configuration built is exactly the denoted one: settings, order, types, values, integer formats, concatenated "
        "strings and the line and file of the name of every named setting; hence C02_accept_iff / C02_read_accept_iff "
        "(a read succeeds exactly when its token stream is a semantically valid derivation) and C02_denotes / "
        "C02_read_denotes; (4) semantic errors (ParseFail.v): a derivable text that breaks a semantic condition fails with "
        "the message of the first offence in reading order (duplicate setting name / mismatched element type) at that "
        "offence's line and file (C02_reject_semantic, C02_read_reject_semantic); (5) underivable token lists are not "
        "accepted; the messages; evaluated examples (a nested derivation with overrides, a duplicate, a mismatch) on "
        "which the parser is run; (6) syntax errors (ParseSyntax.v): when the answer is 'syntax error' the error state "
        "points at a token t of the input, whose line and file are the ones reported, such that the same error at the "
        "same token is the answer whatever follows t (locality), no derivable text begins with the tokens up to and "
        "including t, and the tokens before t - and every shorter prefix - extend to an accepted, hence derivable, input: "
        "t is the FIRST token that cannot continue a derivation (C02_syntax_error_first_offence, "
        "C02_syntax_error_earlier_viable, C02_derivable_answer; locality, fuel monotonicity and a completion lemma by "
        "mutual induction over the five parsing functions; totality from ParseTotal.v); carried to config_read "
        "(ReadSyntax.v): C02_read_syntax_error - the read fails with error type parse, text 'syntax error', file and line of "
        "that first offending token (or, when it is a scanner error token, the text and line the scanner recorded) - and "
        "C02_read_trichotomy: every read of a byte string within the nesting limit has exactly one of three outcomes - "
        "success with the denoted configuration, a semantic error, a syntax error at the first token that cannot continue "
        "a derivation. (7) THE COMPILED LALR(1) TABLES: tools/gen_grammar.py re-extracts on every run the tables of lib/grammar.c "
        "and the semantic action of every rule (classified by its text) into gen/GrammarTables.v; LalrEngine.v transcribes "
        "bison's driver (yyparse) over them; C02_lalr_equiv (LalrFacts.v, simulation by mutual induction with every "
        "automaton fact evaluated from the generated tables) proves that for every token list with its stopping token, "
        "every root group and both override settings the table-driven engine gives exactly the answer of the "
        "recursive-descent model - outcome, error kind, tree, error position, tokens read - within 4*length+1 steps; so "
        "C02_lalr_accept_iff: the compiled tables accept exactly the derivable, semantically valid token lists; "
        "C02_lalr_total; C02_lalr_no_error_recovery; C02_lalr_agrees_bounded is the same agreement evaluated on all "
        "204205 sequences up to length 4 (a bounded regression test, not the proof); C02_read_lalr_eq: config_read with the "
        "table-driven engine in place of the recursive-descent model is the same function in every field of its result, so "
        "every read-level theorem holds of the reader over the compiled tables. What remains a correspondence "
        "matter is that the 60 lines of yyparse's control flow are as LalrEngine.v transcribes them and that each classified "
        "action text means what act_name / act_open / act_scalar do: tied on every run by exhaustive enumeration of all viable token-kind prefixes (to length 5 quick / 7 thorough) with every one-token "
        "invalid extension, in several concrete spellings, overrides off/on, against the real library and against a "
        "reference parser written from the manual.",
   note="grammar.c's LALR tables and action texts are translated on every run (gen_grammar.py) and proved equivalent to the "
        "recursive-descent model; bison's driver loop itself is transcribed by hand (LalrEngine.v); YYMAXDEPTH is not modelled. Nesting beyond the parser stack limit (YYMAXDEPTH) is outside the theorems "
        "(hypothesis max_nest <= NEST_LIMIT). Known finding F4: a mismatched STRING element is reported at the line of "
        "the following token (the theorem states exactly that position).",
   technique="Coq proof (grammar as inductive relations and syntax trees; parser soundness, completeness with denotation, semantic-error characterisation and first-offending-token theorem for syntax errors by mutual induction; simulation proof that bison's driver over the translator-regenerated LALR tables of grammar.c equals the model) + exhaustive-bounded correspondence for syntax-error positions",
   ref="5 (C02)"),
}

REASON_PENDING = "not decided in the committed state of this round: the Coq theorem for this property is not yet in the tree, and a property is never claimed on testing alone (DESIGN.md section 11)"

def main():
    props = [json.loads(l) for l in open(os.path.join(V, "properties.jsonl"))]
    checks = []
    na = []
    for p in props:
        pid = p["id"]
        if pid in CLAIMED and os.path.exists(os.path.join(V, "coq", "Properties_%s.v" % pid)):
            c = CLAIMED[pid]
            checks.append({
                "property_id": pid,
                "quick_cmd": "./check %s quick" % pid,
                "thorough_cmd": "./check %s thorough" % pid,
                "evidence_file": "/verif/evidence/%s.json" % pid,
                "replay_cmd_template": "./check %s --replay {path}" % pid,
                "engine": "coq-model-correspondence",
                "level_claimed": {"category": "proof", "text": c["text"], "design_ref": "DESIGN.md section " + c["ref"]},
                "level_note": c["note"],
                "technique": c["technique"],
            })
        else:
            na.append({"property_id": pid, "reason": CLAIMED.get(pid, {}).get("na", REASON_PENDING)})
    m = {
        "version": 1,
        "setup_cmd": "./setup.sh",
        "hooks": {
            "guard": "LIBCONFIG_VERIF",
            "enable": "no source hooks are needed: the harness is compiled from /repo/lib/*.c with -DLIBCONFIG_VERIF (unused) and observes the library from outside (--wrap, public structs)",
            "baseline_off_cmd": "rm -rf /tmp/lc_baseline && cmake -G Ninja -S /repo -B /tmp/lc_baseline >/dev/null && cmake --build /tmp/lc_baseline >/dev/null && ctest --test-dir /tmp/lc_baseline --output-on-failure; rc=$?; rm -rf /tmp/lc_baseline; exit $rc",
            "source_commits": [],
            "add_only": True,
        },
        "engines": [{
            "name": "coq-model-correspondence",
            "path": "/verif/check",
            "serves_properties": [c["property_id"] for c in checks],
            "kind_free_text": "Coq 8.16 theorems about a Gallina model of libconfig (coq/), translators from /repo to coq/gen, extraction to OCaml, differential correspondence against a harness compiled from /repo/lib",
        }],
        "checks": checks,
        "not_applicable": na,
        "notes": "See DESIGN.md. Genuine defects found are repaired by fix: commits in /repo or listed in known_findings.json.",
    }
    json.dump(m, open(os.path.join(V, "MANIFEST.json"), "w"), indent=1)
    print("claimed:", [c["property_id"] for c in checks], "unclaimed:", len(na))

main()
