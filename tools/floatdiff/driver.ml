(* driver.ml — model side of the FloatDec differential test.  Same line protocol as tester.c. *)
open Floatdec

let rec pos_of_int n =
  if n = 1 then XH
  else if n land 1 = 0 then XO (pos_of_int (n lsr 1))
  else XI (pos_of_int (n lsr 1))

let z_of_int n = if n = 0 then Z0 else if n > 0 then Zpos (pos_of_int n) else Zneg (pos_of_int (- n))

let rec pos_to_int64 = function
  | XH -> 1L
  | XO p -> Int64.shift_left (pos_to_int64 p) 1
  | XI p -> Int64.logor (Int64.shift_left (pos_to_int64 p) 1) 1L

let z_to_int64 = function
  | Z0 -> 0L
  | Zpos p -> pos_to_int64 p
  | Zneg p -> Int64.neg (pos_to_int64 p)

let z_to_int z = Int64.to_int (z_to_int64 z)

let hexval c =
  match c with
  | '0' .. '9' -> Char.code c - 48
  | 'a' .. 'f' -> Char.code c - 87
  | 'A' .. 'F' -> Char.code c - 55
  | _ -> failwith "hex"

(* 64-bit pattern as a non-negative Z: built from two 32-bit halves *)
let z_of_hex64 s =
  let v = ref Z0 in
  String.iter (fun c -> v := Z.add (Z.mul !v (z_of_int 16)) (z_of_int (hexval c))) s;
  !v

let string_of_bytes (l : z list) =
  let b = Buffer.create 64 in
  List.iter (fun z -> Buffer.add_char b (Char.chr (z_to_int z land 255))) l;
  Buffer.contents b

let bytes_of_hex h =
  let n = String.length h / 2 in
  List.init n (fun i -> z_of_int (hexval h.[2 * i] * 16 + hexval h.[2 * i + 1]))

let () =
  let timing = Array.length Sys.argv > 1 && Sys.argv.(1) = "-t" in
  let worst = ref 0.0 and worst_line = ref "" and total = ref 0.0 and cnt = ref 0 in
  (try
     while true do
       let line = input_line stdin in
       if line <> "" then begin
         let t0 = if timing then Unix.gettimeofday () else 0.0 in
         let parts = String.split_on_char ' ' line in
         let ans =
           match parts with
           | [ "F"; p; b ] -> string_of_bytes (fmt_f (z_of_int (int_of_string p)) (z_of_hex64 b))
           | [ "G"; p; b ] -> string_of_bytes (fmt_g (z_of_int (int_of_string p)) (z_of_hex64 b))
           | [ "D"; p; sci; bl; b ] ->
               string_of_bytes
                 (format_double (z_of_hex64 b) (z_of_int (int_of_string p)) (sci <> "0")
                    (z_of_int (int_of_string bl)))
           | "S" :: rest ->
               let h = String.concat "" rest in
               Printf.sprintf "%016Lx" (z_to_int64 (strtod_bits (bytes_of_hex h)))
           | _ -> failwith ("bad line: " ^ line)
         in
         if timing then begin
           let dt = Unix.gettimeofday () -. t0 in
           total := !total +. dt; incr cnt;
           if dt > !worst then begin worst := dt; worst_line := line end
         end;
         print_string line; print_string " => "; print_string ans; print_char '\n'
       end
     done
   with End_of_file -> ());
  if timing then
    Printf.eprintf "model: %d cases, mean %.1f us, worst %.2f ms on: %s\n" !cnt
      (if !cnt = 0 then 0.0 else 1e6 *. !total /. float_of_int !cnt)
      (1e3 *. !worst)
      (if String.length !worst_line > 100 then String.sub !worst_line 0 100 ^ "..." else !worst_line)
