#!/bin/bash
# run.sh [N] [SEED] — differential test of the Coq model LC.FloatDec against glibc and the real
# libconfig_format_double.
#   generates N cases (gen.py; a fixed boundary battery + random cases), answers them with
#   tester.c (glibc printf / strtod, /repo/lib/util.c) and with the OCaml extraction of
#   FloatDec.v (driver.ml), and compares line by line.
# Prints the counts; exit status 0 iff nothing differs.
# Environment: REPO (default /repo), COQDIR (default /verif/coq), BUILD_DIR (default: a fresh
# temporary directory, removed on exit), KEEP=1 keeps the temporary directory.
set -euo pipefail
N="${1:-20000}"
SEED="${2:-1}"
HERE="$(cd "$(dirname "${BASH_SOURCE[0]}")" && pwd)"
REPO="${REPO:-/repo}"
COQDIR="${COQDIR:-/verif/coq}"

if [ -n "${BUILD_DIR:-}" ]; then
  B="$BUILD_DIR"; mkdir -p "$B"
else
  B="$(mktemp -d "${TMPDIR:-/tmp}/floatdiff.XXXXXX")"
  if [ "${KEEP:-0}" != 1 ]; then trap 'rm -rf "$B"' EXIT; fi
fi

# 1. the model must be compiled (only FloatDec.vo and its own by-products are ever written)
for f in Base Tree Fp; do
  if [ ! -f "$COQDIR/$f.vo" ]; then
    (cd "$COQDIR" && timeout 600 coqc -Q "$COQDIR" LC "$f.v")
  fi
done
if [ ! -f "$COQDIR/FloatDec.vo" ] || [ "$COQDIR/FloatDec.v" -nt "$COQDIR/FloatDec.vo" ]; then
  (cd "$COQDIR" && timeout 600 coqc -Q "$COQDIR" LC FloatDec.v)
fi

# 2. build both sides (skipped when BUILD_DIR already holds binaries newer than the sources)
if [ ! -x "$B/tester" ] || [ "$HERE/tester.c" -nt "$B/tester" ]; then
  gcc -O1 -Wall -I"$REPO/lib" "$HERE/tester.c" "$REPO/lib/util.c" -o "$B/tester"
fi
if [ ! -x "$B/model" ] || [ "$HERE/driver.ml" -nt "$B/model" ] || [ "$COQDIR/FloatDec.vo" -nt "$B/model" ]; then
  cp "$HERE/ExtractFloatDec.v" "$HERE/driver.ml" "$B/"
  (cd "$B" && timeout 600 coqc -Q "$COQDIR" LC ExtractFloatDec.v >/dev/null &&
     ocamlfind ocamlopt -w -a -package unix -linkpkg floatdec.mli floatdec.ml driver.ml -o model)
fi

# 3. generate, answer, compare
python3 "$HERE/gen.py" "$N" "$SEED" > "$B/cases.txt"
"$B/tester" < "$B/cases.txt" > "$B/ref.out"
"$B/model" -t < "$B/cases.txt" > "$B/model.out"

total=$(wc -l < "$B/cases.txt")
nref=$(wc -l < "$B/ref.out")
nmod=$(wc -l < "$B/model.out")
if [ "$nref" != "$total" ] || [ "$nmod" != "$total" ]; then
  echo "floatdiff: line count mismatch: cases=$total ref=$nref model=$nmod"
  exit 2
fi
ndiff=$(paste -d '\n' "$B/ref.out" "$B/model.out" | awk 'NR%2==1 {a=$0; next} {if (a != $0) n++} END {print n+0}')
for k in F G D S; do
  c=$(grep -c "^$k " "$B/cases.txt" || true)
  echo "floatdiff: kind $k: $c cases"
done
echo "floatdiff: seed=$SEED cases=$total differing=$ndiff"
if [ "$ndiff" != 0 ]; then
  paste -d '\n' "$B/ref.out" "$B/model.out" |
    awk 'NR%2==1 {a=$0; next} {if (a != $0 && shown < 20) {shown++; print "  glibc: " substr(a,1,300); print "  model: " substr($0,1,300)}}'
  exit 1
fi
exit 0
