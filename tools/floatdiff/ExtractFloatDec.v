(* ExtractFloatDec.v — extraction of the FloatDec model for the differential tester
   (ExtrOcamlBasic only; Z stays inductive).  Run from the build directory:
     coqc -Q /verif/coq LC ExtractFloatDec.v     ->  floatdec.ml, floatdec.mli *)
From Coq Require Extraction.
From Coq Require Import ExtrOcamlBasic.
From LC Require Import FloatDec.
Extraction Language OCaml.
Extraction "floatdec.ml" FloatDec.fmt_f FloatDec.fmt_g FloatDec.strtod_bits
  FloatDec.format_double FloatDec.b64_of_decimal.
