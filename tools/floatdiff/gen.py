#!/usr/bin/env python3
"""gen.py N SEED — write N differential-test cases for FloatDec to stdout (see tester.c for the
line protocol).  The fixed boundary battery is emitted first (it is part of every run, whatever
N is), then random cases up to N lines in total."""
import random
import struct
import sys
from fractions import Fraction

PRECS = [0, 1, 2, 6, 15, 16, 17, 20]


def bits(x: float) -> int:
    return struct.unpack("<Q", struct.pack("<d", x))[0]


def dbl(b: int) -> float:
    return struct.unpack("<d", struct.pack("<Q", b & 0xFFFFFFFFFFFFFFFF))[0]


def hx(b: int) -> str:
    return "%016x" % (b & 0xFFFFFFFFFFFFFFFF)


def shex(s) -> str:
    if isinstance(s, str):
        s = s.encode("latin-1")
    return s.hex()


def exact_fraction(b: int) -> Fraction:
    """exact value of the magnitude of a finite double"""
    ex = (b >> 52) & 0x7FF
    man = b & ((1 << 52) - 1)
    if ex == 0:
        m, e = man, -1074
    else:
        m, e = man + (1 << 52), ex - 1075
    return Fraction(m) * (Fraction(2) ** e)


def exact_decimal(fr: Fraction):
    """(digit string without leading zeros, exp10) with fr = int(digits) * 10^exp10, for a
    non-negative dyadic rational"""
    den = fr.denominator
    k = den.bit_length() - 1
    assert den == 1 << k
    n = fr.numerator * 5 ** k
    return str(n), -k


def place_point(digs: str, e10: int, rng: random.Random) -> str:
    """some textual form of int(digs) * 10^e10 (always containing '.' or an exponent)"""
    style = rng.randrange(4)
    if style == 0:
        # plain exponent form with a point somewhere
        pos = rng.randrange(0, len(digs) + 1)
        return "%s.%se%d" % (digs[:pos], digs[pos:], e10 + len(digs) - pos)
    if style == 1:
        # d.ddd e X
        return "%s.%se%s%d" % (digs[0], digs[1:], rng.choice(["", "+"]) if e10 + len(digs) - 1 >= 0 else "",
                               e10 + len(digs) - 1)
    if style == 2 and -400 < e10 < 400:
        # positional, no exponent
        if e10 >= 0:
            return digs + "0" * e10 + "."
        if -e10 >= len(digs):
            return "0." + "0" * (-e10 - len(digs)) + digs
        return digs[:e10] + "." + digs[e10:]
    return "%sE%d" % (digs, e10)


# --------------------------------------------------------------------------------------------
# doubles of interest
# --------------------------------------------------------------------------------------------

def neighbours(b: int):
    out = [b]
    if b & 0x7FFFFFFFFFFFFFFF:
        out.append(b - 1)
    if (b & 0x7FFFFFFFFFFFFFFF) < 0x7FEFFFFFFFFFFFFF:
        out.append(b + 1)
    return out


def boundary_doubles():
    vals = []
    raw = [0x0000000000000000, 0x8000000000000000, 0x0000000000000001, 0x8000000000000001,
           0x000FFFFFFFFFFFFF, 0x0010000000000000, 0x0010000000000001, 0x7FEFFFFFFFFFFFFF,
           0xFFEFFFFFFFFFFFFF, 0x7FF0000000000000, 0xFFF0000000000000, 0x7FF8000000000000,
           0xFFF8000000000000, 0x7FF0000000000001, 0xFFFFFFFFFFFFFFFF, 0x7FFFFFFFFFFFFFFF,
           0x0000000000000015,  # 1.04e-322 (denormal, %g at precision 2)
           0x3FF0000000000000, 0x3FEFFFFFFFFFFFFF, 0x3FF0000000000001]
    vals += raw
    fl = [2.0 ** 53 - 1, 2.0 ** 53, 2.0 ** 53 + 2, 1e15, 1e16, 1e17, 1e22, 1e23, 1e21, 1e20,
          0.5, 1.5, 2.5, 3.5, 0.125, 0.375, 0.25, 0.75, 9.5, 10.5, 99.5, 100.5, 999.5, 0.05, 0.15,
          0.25, 0.35, 0.45, 0.95, 0.995, 0.9995, 9.995, 99.95,
          1e-5, 1e-4, 9.9999e-5, 9.99995e-5, 9.999995e-5, 0.000099999, 0.00010001, 0.0001234,
          0.00001234, 9.5e-5, 9.4e-5, 9.6e-5, 0.00095, 0.001, 0.01, 0.1,
          999999.5, 999999.4, 999999.6, 9999995.0, 99999.95, 999999.0, 1000000.0, 100000.0,
          123456.5, 1234565.0, 12345.0, 1e59, 1e60, 1e61, 1e100, 1e300, 1e308, 1e-300, 1e-307,
          1e-308, 1e-310, 1e-320, 5e-324, 2.2250738585072014e-308, 1.7976931348623157e308,
          3.14159265358979, 2.718281828459045, 1.0 / 3, 2.0 / 3, 123.456, 1e6, 1e7, 1e-7,
          0.3, 0.1 + 0.2, 4.35, 2.675, 1.005, 8.5, 0.0, 1.0, 10.0, 100.0, 9.0, 99.0, 5e-5, 5e-4,
          4.9e-5, 0.00005, 1e15 + 0.5, 1e16 + 2, 123456789012345678.0, 9007199254740993.0]
    for x in fl:
        vals.append(bits(x))
        vals.append(bits(-x))
    for k in range(-30, 40):
        vals.append(bits(float("1e%d" % k)))
        vals.append(bits(float("9.5e%d" % k)))
        vals.append(bits(float("5e%d" % k)))
    out = []
    seen = set()
    for b in vals:
        for c in neighbours(b):
            if c not in seen:
                seen.add(c)
                out.append(c)
    return out


def tie_doubles():
    """(bits, precision for %f, precision for %g) of exactly representable decimal ties, with
    their neighbours"""
    vals = []
    # odd / 2^(p+1) (+ an integer part) is a tie of %.<p>f, and of %.<P>g with P = p + digits(n)
    for p in range(0, 22):
        for j in (0, 1, 2, 3, 4, 7, 12):
            for n in (0, 1, 2, 9, 10, 99, 1023):
                x = n + (2 * j + 1) / 2.0 ** (p + 1)
                if Fraction(x) == n + Fraction(2 * j + 1, 2 ** (p + 1)):
                    vals.append((bits(x), p, p + (len(str(n)) if n else 0)))
    # integers ending in 5 (ties of %g at P = ndigits-1) and 99..95
    for nd in range(1, 17):
        for s in ("9" * nd + "5", "1" + "2" * (nd - 1) + "5", "1" + "3" * (nd - 1) + "5"):
            vals.append((bits(float(int(s))), 0, nd))
        vals.append((bits(float(int("9" * nd + "5")) / 1024.0), 10, nd))
    out = []
    for (b, pf, pg) in vals:
        for c in neighbours(b):
            out.append((c, pf, pg))
    return out


def random_double(rng: random.Random) -> int:
    k = rng.randrange(12)
    if k < 4:
        return rng.getrandbits(64)
    if k == 4:
        # small integers and halves/quarters
        return bits(rng.choice([1, -1]) * rng.randrange(0, 1 << rng.randrange(1, 60)) / float(1 << rng.randrange(0, 12)))
    if k == 5:
        # short decimal literals, as in configuration files
        nd = rng.randrange(1, 18)
        s = "%s%de%d" % (rng.choice(["", "-"]), rng.randrange(0, 10 ** nd), rng.randrange(-25, 25))
        return bits(float(s))
    if k == 6:
        # near a power of ten
        b = bits(float("1e%d" % rng.randrange(-323, 309)))
        return (b + rng.randrange(-3, 4)) & 0x7FFFFFFFFFFFFFFF | (rng.getrandbits(1) << 63)
    if k == 7:
        # denormals
        return rng.getrandbits(rng.randrange(1, 53)) | (rng.getrandbits(1) << 63)
    if k == 8:
        # near the %g style switch and generally moderate exponents
        return bits(rng.choice([1, -1]) * rng.random() * 10.0 ** rng.randrange(-8, 22))
    if k == 9:
        # d ddd d5 * 10^k : decimal ties that are (sometimes) exactly representable
        nd = rng.randrange(1, 16)
        n = rng.randrange(10 ** (nd - 1), 10 ** nd) * 10 + 5
        return bits(float(n) / float(1 << rng.randrange(0, 6)))
    if k == 10:
        # few significant bits at an arbitrary exponent
        e = rng.randrange(0, 2047)
        man = rng.getrandbits(rng.randrange(0, 8)) << rng.randrange(0, 46)
        return (rng.getrandbits(1) << 63) | (e << 52) | (man & ((1 << 52) - 1))
    # 99..9xxx patterns: rounding carries
    nd = rng.randrange(1, 17)
    s = "%s.%s%se%d" % ("9", "9" * nd, "".join(rng.choice("0123456789") for _ in range(rng.randrange(0, 4))),
                        rng.randrange(-30, 30))
    return bits(float(s))


def random_prec(rng: random.Random) -> int:
    k = rng.randrange(100)
    if k < 70:
        return rng.choice(PRECS)
    if k < 92:
        return rng.randrange(0, 41)
    if k < 98:
        return rng.randrange(41, 400)
    if k == 98:
        return rng.choice([767, 768, 1074, 1075, 1100, 2000])
    return rng.choice([65535, 32768, 5000, -1, -7])


def fmt_cases_for(b: int, p: int, rng: random.Random):
    """one line for double b at precision p, kind chosen at random"""
    k = rng.randrange(10)
    if k < 3:
        return "F %d %s" % (p, hx(b))
    if k < 6:
        return "G %d %s" % (p, hx(b))
    buflen = 64 if rng.randrange(4) else rng.randrange(4, 90)
    return "D %d %d %d %s" % (p, rng.randrange(2), buflen, hx(b))


# --------------------------------------------------------------------------------------------
# strtod strings
# --------------------------------------------------------------------------------------------

def halfway_strings(b: int, rng: random.Random):
    """strings at / just above / just below the midpoint between the finite non-negative double
    b and its successor"""
    b &= 0x7FFFFFFFFFFFFFFF
    if b >= 0x7FF0000000000000:
        b = 0x7FEFFFFFFFFFFFFF
    lo = exact_fraction(b)
    if b == 0x7FEFFFFFFFFFFFFF:
        hi = Fraction(2) ** 1024
    else:
        hi = exact_fraction(b + 1)
    mid = (lo + hi) / 2
    digs, e10 = exact_decimal(mid)
    digs = digs.rstrip("0") or "0"
    e10 += len(exact_decimal(mid)[0]) - len(digs)
    out = []
    sgn = rng.choice(["", "-", "+"])
    out.append(sgn + place_point(digs, e10, rng))
    # above: append digits
    ext = "0" * rng.randrange(0, 30) + rng.choice("123456789")
    out.append(sgn + place_point(digs + ext, e10 - len(ext), rng))
    # below: decrement and append nines
    if int(digs) > 0:
        dm = str(int(digs) - 1).rjust(len(digs), "0")
        ext = "9" * rng.randrange(1, 30)
        out.append(sgn + place_point(dm + ext, e10 - len(ext), rng))
    # truncated midpoint (k digits) and truncated + 1ulp
    if len(digs) > 20:
        k = rng.randrange(17, min(len(digs), 60))
        out.append(sgn + place_point(digs[:k], e10 + len(digs) - k, rng))
        out.append(sgn + place_point(str(int(digs[:k]) + 1), e10 + len(digs) - k, rng))
    return out


def random_decimal_string(rng: random.Random) -> str:
    nd = rng.randrange(1, 41)
    digs = "".join(rng.choice("0123456789") for _ in range(nd))
    sgn = rng.choice(["", "", "-", "+"])
    pos = rng.randrange(0, nd + 1)
    body = digs[:pos] + "." + digs[pos:]
    k = rng.randrange(10)
    if k < 2:
        return sgn + body
    ex = rng.randrange(-400, 401)
    if k < 4:
        ex = rng.randrange(-30, 31)
    es = "%s%s%d" % (rng.choice("eE"), rng.choice(["", "+"]) if ex >= 0 else "", ex)
    if k == 9 and pos == nd:
        return sgn + digs + es                      # second alternative without '.'
    return sgn + body + es


def special_strings():
    out = [".", "-.", "+.", ".e5", "-.e5", ".5", "5.", "1e5", "-.5e-3", "0.", ".0", "-0.", "-.0", "0.0",
           "-0.0e0", "0e0", "0e999999999999", "-0e-999999999999", "0.0000e+5", "1.", "1.e1", "1.e-1",
           "1e", "1e+", "1e-", "1.5e+", "1.5ex", "1.5e+5x", "1..5", "1.5.5", "1e5e5", "1e5.5", "+1.5", "++1.5",
           "+-1.5", "-+1.5", "--1.5", "e5", "-e5", "", "-", "+", " 1.5", "\t\n 1.5", "1.5 ", "1 .5",
           "1e99999999999", "-1e99999999999", "1e-99999999999", "-1e-99999999999",
           "1e309", "1e308", "1.7976931348623157e308", "1.7976931348623158e308", "1.7976931348623159e308",
           "1.797693134862315807e308", "1.797693134862315808e308", "1.797693134862315809e308",
           "17976931348623158079372897140530341507993413271003782693617377898044496829276475094664901797758720709633028641669288791094655554785194040263065748867150582068190890200070838367627385484581771153176447573027006985557136695962284291481986083493647529271907416844436551070434271155969950809304288017790417449779.1",
           "17976931348623158079372897140530341507993413271003782693617377898044496829276475094664901797758720709633028641669288791094655554785194040263065748867150582068190890200070838367627385484581771153176447573027006985557136695962284291481986083493647529271907416844436551070434271155969950809304288017790417449779.2e0",
           "179769313486231580793728971405303415079934132710037826936173778980444968292764750946649017977587207096330286416692887910946555547851940402630657488671505820681908902000708383676273854845817711531764475730270069855571366959622842914819860834936475292719074168444365510704342711559699508093042880177904174497791.9999999999999999999",
           "179769313486231580793728971405303415079934132710037826936173778980444968292764750946649017977587207096330286416692887910946555547851940402630657488671505820681908902000708383676273854845817711531764475730270069855571366959622842914819860834936475292719074168444365510704342711559699508093042880177904174497792.",
           "2.2250738585072014e-308", "2.2250738585072011e-308", "2.2250738585072012e-308",
           "2.225073858507201136057409796709131975934819546351645648023426109724822222021076945516529523908135087914149158913039621106870086438694594645527657207407820621743379988141063267329253552286881372149012981122451451889849057222307285255133155755015914397476397983411801999323962548289017107081850690630666655994938275772572015763062690663332647565300009245888316433037779791869612049497390377829704905051080609940730262937128958950003583799967207254304360284078895771796150945516748243471030702609144621572289880258182545180325707018860872113128079512233426288368622321503775666622503982534335974568884423900265498198385487948292206894721689831099698365846814022854243330660339850886445804001034933970427567186443383770486037861622771738545623065874679014086723327636718751234567890123456789012345678901234567890e-308",
           "4.9406564584124654e-324", "4.9e-324", "5e-324", "2.47e-324", "2.4703282292062327e-324",
           "2.4703282292062328e-324", "2.5e-324", "3e-324", "7.4e-324", "7.5e-324", "1e-323", "1e-324", "1e-400",
           "0." + "0" * 400 + "1e401", "0." + "0" * 400 + "1e400", "1" + "0" * 400 + ".e-400",
           "1" + "0" * 400 + "e-401", "0" * 500 + "1.5", "0" * 500 + ".5" + "0" * 500, "1." + "0" * 900 + "1",
           "1." + "0" * 900 + "1e-5", "9007199254740993.", "9007199254740993." + "0" * 850 + "1",
           "9007199254740992." + "9" * 850, "9007199254740993" + "0" * 850 + "1e-851", "0.1e1", "100e-2",
           "12345678901234567890123456789012345678901234567890.", "1e22", "1e23", "8.5e22", "9.5e22", "1.5e23",
           "0.1", "0.2", "0.3", "3.14159", "6.02214076e23", "1.602176634e-19", "6.62607015e-34",
           # best effort (not producible by the scanner rule)
           "inf", "-inf", "INF", "Infinity", "-iNfInItY", "infx", "nan", "-nan", "NAN", "nanx", "0x10", "0x1p3",
           "0x1.8p1", "-0x.8p-1", "0x", "0x.", "0x.p1", "0xg", "0X1P-1074", "0x1p-1075", "0x1.8p-1075",
           "0x1p-1076", "0x1.fffffffffffffp1023", "0x1.fffffffffffff8p1023", "0x1.fffffffffffff7p1023",
           "0x1p1024", "0x1p99999999999", "0x1p-99999999999", "0x0p99999999999", "0x1.00000000000008p0",
           "0x1.000000000000080000001p0", "0x1.00000000000018p0", "0x123456789abcdef0123456789ABCDEF.8p-20",
           "0x1p", "0x1p+", "0x1pz", "1f", "1d5", "1E+05", "1,5", "i", "n", "in", "na"]
    # the exact rounding thresholds at the bottom: 2^-1075 (tie -> 0) and 3 * 2^-1075 (tie -> 2 ulp)
    for num in (1, 3, 5):
        d, e = exact_decimal(Fraction(num, 2 ** 1075))
        out.append("%se%d" % (d, e))
        out.append("%s1e%d" % (d, e - 1))
        out.append("%s9e%d" % (str(int(d) - 1), e - 1))
        out.append("0." + "0" * (-e - len(d)) + d)
    return out


def random_weird_string(rng: random.Random) -> bytes:
    k = rng.randrange(6)
    if k == 0:
        alphabet = "0123456789.eE+-"
        return "".join(rng.choice(alphabet) for _ in range(rng.randrange(0, 12))).encode()
    if k == 1:
        alphabet = "0123456789.eE+- xXpPabcdfn\t"
        return "".join(rng.choice(alphabet) for _ in range(rng.randrange(0, 14))).encode()
    if k == 2:
        # hex floats
        nd = rng.randrange(1, 24)
        digs = "".join(rng.choice("0123456789abcdefABCDEF") for _ in range(nd))
        pos = rng.randrange(0, nd + 1)
        s = rng.choice(["", "-", "+"]) + rng.choice(["0x", "0X"]) + digs[:pos] + rng.choice([".", "", "."]) + digs[pos:]
        if rng.randrange(3):
            s += rng.choice("pP") + rng.choice(["", "+", "-"]) + str(rng.randrange(0, 1200))
        return s.encode()
    if k == 3:
        return (random_decimal_string(rng) + rng.choice(["", " ", "x", "e", ".", "e+", "f", "\x00z", "\xff"])).encode("latin-1")
    if k == 4:
        return (rng.choice(["", " ", "  ", "\t", "\n", "\v\f\r "]) + random_decimal_string(rng)).encode()
    return bytes(rng.randrange(1, 256) for _ in range(rng.randrange(0, 6)))


def random_strtod_case(rng: random.Random) -> str:
    k = rng.randrange(20)
    if k < 7:
        return random_decimal_string(rng)
    if k < 11:
        # halfway cases between adjacent doubles
        r = rng.randrange(4)
        if r == 0:
            b = rng.getrandbits(63)
        elif r == 1:
            b = rng.getrandbits(rng.randrange(1, 54))            # denormal / small exponents
        elif r == 2:
            b = bits(rng.random() * 10.0 ** rng.randrange(-20, 25))
        else:
            b = (rng.randrange(0x7FE - 4, 0x7FF) << 52) | rng.getrandbits(52)
        return rng.choice(halfway_strings(b, rng))
    if k < 13:
        # repr / %.17g / %.16g / %.15g of a random double: round trips and near-doubles
        b = rng.getrandbits(64)
        if (b >> 52) & 0x7FF == 0x7FF:
            b &= ~(1 << 62)
        x = dbl(b)
        s = rng.choice([repr(x), "%.17g" % x, "%.16g" % x, "%.15g" % x, "%.20e" % x, "%.30e" % x])
        if "e" not in s and "." not in s:
            s += "."
        return s
    if k == 13:
        # huge / tiny exponents, possibly compensated by many zeros
        r = rng.randrange(6)
        if r == 0:
            return "%d.%de%s%d" % (rng.randrange(0, 100), rng.randrange(0, 100), rng.choice("+-"),
                                   rng.randrange(300, 10 ** rng.randrange(3, 25)))
        if r == 1:
            z = rng.randrange(1, 700)
            return "0.%s%de%d" % ("0" * z, rng.randrange(1, 10 ** 6), z + rng.randrange(-330, 315))
        if r == 2:
            z = rng.randrange(1, 700)
            return "%d%s.e-%d" % (rng.randrange(1, 10 ** 6), "0" * z, z + rng.randrange(-300, 330))
        if r == 3:
            return "0.%se%d" % ("0" * rng.randrange(0, 50), rng.randrange(-10 ** 12, 10 ** 12))
        if r == 4:
            return "%s%d.%d%s" % ("0" * rng.randrange(0, 300), rng.randrange(0, 10 ** 9), rng.randrange(0, 10 ** 9),
                                  "0" * rng.randrange(0, 300))
        return "%de%s%s" % (rng.randrange(1, 1000), rng.choice(["", "+", "-"]), "0" * rng.randrange(0, 40) + str(rng.randrange(0, 330)))
    if k == 14:
        # very many digits (beyond the 800-digit window of the model), often around a midpoint
        b = rng.getrandbits(63) if rng.randrange(2) else rng.getrandbits(52)
        hs = halfway_strings(b, rng)
        s = hs[0]
        if "e" in s or "E" in s:
            return s
        return s + "0" * rng.randrange(0, 900) + rng.choice(["", "1", "0"])
    if k == 15:
        # long digit strings
        nd = rng.randrange(40, 1200)
        digs = "".join(rng.choice("0123456789") for _ in range(nd))
        return place_point(digs, rng.randrange(-400 - nd, 400 - nd + 1), rng)
    if k == 16:
        # close to powers of two (binade boundaries) and to the overflow / underflow thresholds
        e = rng.choice([rng.randrange(-1080, 1026), rng.randrange(-1080, -1060), rng.randrange(1015, 1026)])
        fr = Fraction(2) ** e
        if e < 0:
            d, e10 = exact_decimal(fr)
        else:
            d, e10 = str(fr.numerator), 0
        k2 = rng.randrange(1, 40)
        if len(d) > k2 and rng.randrange(2):
            e10 += len(d) - k2
            d = str(int(d[:k2]) + rng.randrange(-1, 2))
        return place_point(d, e10, rng)
    if k == 17:
        return None  # weird bytes, handled by the caller
    # short literals as found in configuration files
    return "%s%d.%0*d" % (rng.choice(["", "-"]), rng.randrange(0, 1000), rng.randrange(1, 8), rng.randrange(0, 10))


def main():
    n = int(sys.argv[1]) if len(sys.argv) > 1 else 20000
    seed = int(sys.argv[2]) if len(sys.argv) > 2 else 1
    rng = random.Random(seed)
    out = []
    # ---- fixed battery ----
    for b in boundary_doubles():
        for p in PRECS:
            out.append("F %d %s" % (p, hx(b)))
            out.append("G %d %s" % (p, hx(b)))
        for p in rng.sample(PRECS, 2):
            out.append("D %d 0 64 %s" % (p, hx(b)))
            out.append("D %d 1 64 %s" % (p, hx(b)))
    for (b, pf, pg) in tie_doubles():
        out.append("F %d %s" % (pf, hx(b)))
        out.append("G %d %s" % (max(pg, 1), hx(b)))
        out.append("D %d 0 64 %s" % (pf, hx(b)))
        out.append("D %d 1 64 %s" % (max(pg, 1), hx(b)))
        if pg > 1:
            out.append("G %d %s" % (pg - 1, hx(b)))
        out.append("G %d %s" % (pg + 1, hx(b)))
    for p in range(0, 22):
        for x in (9.5, 10.5, 0.5, 1.5, 2.5, 0.125, 999999.5, 0.95, 0.095, 99.5, 1e-5, 1e-4, 9.9999e-5):
            for k in range(0, 3):
                y = x * 10.0 ** k
                out.append("F %d %s" % (p, hx(bits(y))))
                out.append("G %d %s" % (p, hx(bits(y))))
                out.append("G %d %s" % (p, hx(bits(y / 10.0 ** p if p < 20 else y))))
    for b in (0x0000000000000001, 0x7FEFFFFFFFFFFFFF, 0x3FB999999999999A, 0x000FFFFFFFFFFFFF, 0, 1 << 63):
        for p in (30, 100, 400, 767, 768, 1074, 1075, 1100, 5000, 65535, -1):
            out.append("F %d %s" % (p, hx(b)))
            out.append("G %d %s" % (p, hx(b)))
            out.append("D %d 0 64 %s" % (p, hx(b)))
            out.append("D %d 1 64 %s" % (p, hx(b)))
    for buflen in range(4, 80):
        for b in (bits(1e300), bits(-1e300), bits(1.0 / 3), bits(-123456.789), bits(1e59), bits(1e60),
                  0x7FF0000000000000, 0xFFF8000000000000, bits(100.0), bits(1e-7)):
            for sci in (0, 1):
                out.append("D %d %d %d %s" % (rng.choice([2, 6, 17, 20, 57, 58, 59, 60]), sci, buflen, hx(b)))
    for s in special_strings():
        out.append("S " + shex(s))
    # ---- random part ----
    while len(out) < n:
        if rng.randrange(100) < 55:
            out.append(fmt_cases_for(random_double(rng), random_prec(rng), rng))
        else:
            s = random_strtod_case(rng)
            if s is None:
                s = random_weird_string(rng)
            out.append("S " + shex(s))
    sys.stdout.write("\n".join(out))
    sys.stdout.write("\n")


if __name__ == "__main__":
    main()
