/* tester.c — reference side of the FloatDec differential test: glibc printf/strtod and the real
 * libconfig_format_double from /repo/lib/util.c.
 *
 * build:  gcc -O1 -I/repo/lib tester.c /repo/lib/util.c -o tester
 * use:    ./tester < cases.txt > ref.out
 *
 * input lines (one case each):
 *   F <prec> <bits16hex>                  snprintf("%.*f", prec, x)
 *   G <prec> <bits16hex>                  snprintf("%.*g", prec, x)
 *   D <prec> <sci> <buflen> <bits16hex>   libconfig_format_double(x, prec, sci, buf, buflen)
 *   S <hex of the string bytes>           strtod(string, NULL) as 16 hex digits (may be empty)
 * output: "<input line> => <answer>"
 */
#define _GNU_SOURCE
#include <stdio.h>
#include <stdlib.h>
#include <string.h>
#include <stdint.h>
#include <inttypes.h>
#include "util.h"

static double dbl_of_bits(uint64_t u) { double d; memcpy(&d, &u, 8); return d; }
static uint64_t bits_of_dbl(double d) { uint64_t u; memcpy(&u, &d, 8); return u; }

static int hexval(int c)
{
  if(c >= '0' && c <= '9') return c - '0';
  if(c >= 'a' && c <= 'f') return c - 'a' + 10;
  if(c >= 'A' && c <= 'F') return c - 'A' + 10;
  return -1;
}

int main(void)
{
  char *line = NULL;
  size_t cap = 0;
  ssize_t n;
  size_t outcap = 1 << 20;
  char *out = malloc(outcap);

  while((n = getline(&line, &cap, stdin)) > 0)
  {
    while(n > 0 && (line[n - 1] == '\n' || line[n - 1] == '\r')) line[--n] = 0;
    if(n == 0) continue;

    if(line[0] == 'F' || line[0] == 'G')
    {
      int prec; uint64_t u;
      if(sscanf(line + 1, "%d %" SCNx64, &prec, &u) != 2) { fprintf(stderr, "bad line: %s\n", line); return 2; }
      snprintf(out, outcap, line[0] == 'F' ? "%.*f" : "%.*g", prec, dbl_of_bits(u));
      printf("%s => %s\n", line, out);
    }
    else if(line[0] == 'D')
    {
      int prec, sci; unsigned buflen; uint64_t u;
      if(sscanf(line + 1, "%d %d %u %" SCNx64, &prec, &sci, &buflen, &u) != 4 || buflen < 4 || buflen > 4096)
      { fprintf(stderr, "bad line: %s\n", line); return 2; }
      char *buf = malloc(buflen);
      memset(buf, '#', buflen);
      libconfig_format_double(dbl_of_bits(u), prec, sci, buf, buflen);
      printf("%s => %s\n", line, buf);
      free(buf);
    }
    else if(line[0] == 'S')
    {
      const char *h = line + 1;
      while(*h == ' ') ++h;
      size_t hl = strlen(h), i;
      char *s = malloc(hl / 2 + 1);
      for(i = 0; i + 1 < hl; i += 2) s[i / 2] = (char)(hexval(h[i]) * 16 + hexval(h[i + 1]));
      s[hl / 2] = 0;
      printf("%s => %016" PRIx64 "\n", line, bits_of_dbl(strtod(s, NULL)));
      free(s);
    }
    else { fprintf(stderr, "bad line: %s\n", line); return 2; }
  }
  return 0;
}
