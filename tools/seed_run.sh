#!/bin/bash
# seed_run.sh <seed-id> <property> [tier]: apply the seeded change to /repo, run the check, undo the change.
id=$1; pid=$2; tier=${3:-quick}
cd /verif
git -C /repo apply /verif/seeded/$id/patch.diff || { echo "cannot apply"; exit 2; }
trap 'git -C /repo checkout -- .; python3 /verif/tools/gen_tables.py >/dev/null; python3 /verif/tools/gen_consts.py >/dev/null' EXIT
./check $pid $tier 2>&1 | tail -4
echo "exit=${PIPESTATUS[0]}"
# restore the tree and refresh the evidence file from the unchanged tree
git -C /repo checkout -- .; python3 /verif/tools/gen_tables.py >/dev/null; python3 /verif/tools/gen_consts.py >/dev/null; python3 /verif/tools/gen_census.py >/dev/null
trap - EXIT
./check $pid quick >/dev/null 2>&1 || echo "WARNING: clean re-run of $pid did not pass"
