#!/usr/bin/env python3
"""gen_census.py -- static censuses of the libconfig sources, written as a Coq file.

Translator: $REPO/lib/*.c, libconfigcpp.c++  --(clang 14 -ast-dump=json)-->  coq/gen/Census.v

Three censuses are extracted (only things DEFINED in $REPO/lib count; declarations
that live in system headers are skipped):

 (i)   static_objects  : every object with static storage duration whose type is not
                         const-qualified at the top level, with the list of functions
                         in which it is written (assigned, ++/--, address taken / array
                         decayed and the pointer not immediately converted to a
                         pointer-to-const, bound to a non-const reference, receiver of a
                         non-const member call).  Never-written objects are listed with
                         an empty writers list.
 (ii)  alloc_sites     : every reference to malloc/calloc/realloc/strdup/... (and C++
                         `operator new` calls and new-expressions, callee "new"),
                         classified Wrapped iff the enclosing function is one of the
                         three checked wrappers in util.c.  A reference that is not the
                         callee of a call (address taken) is reported as "&name".
       wrappers_checked: per wrapper, whether its body tests the variable that received
                         the allocation result for NULL and calls libconfig_fatal_error
                         on the NULL branch.
 (iii) exit_sites      : every reference to exit/_exit/abort/raise/kill/longjmp/...,
                         every printf/puts/putchar/perror/vprintf (ex_stream is the
                         implicit stream), every fprintf/fputs/fputc/fwrite/putc/vfprintf
                         whose stream argument is syntactically stdout/stderr or a flex
                         yyout/yyin field, every write/dprintf whose fd is 1 or 2.

Usage:  [REPO=/repo] gen_census.py [--out FILE] [--text FILE]
   --out   Coq output (default <verif>/coq/gen/Census.v); rewritten only if changed
   --text  also write a stable textual rendering WITHOUT line numbers ('-' = stdout)
Prints a one-line summary; exits non-zero on any internal error.
Python standard library only.
"""
import argparse
import json
import os
import re
import subprocess
import sys
import threading
from concurrent.futures import ProcessPoolExecutor

C_SOURCES = ["libconfig.c", "scanctx.c", "scanner.c", "grammar.c",
             "strbuf.c", "strvec.c", "util.c", "wincompat.c"]
CXX_SOURCES = ["libconfigcpp.c++"]
DEFS = ["-DHAVE_USELOCALE", "-DHAVE_NEWLOCALE", "-DHAVE_FREELOCALE"]

WRAPPERS = ["libconfig_malloc", "libconfig_calloc", "libconfig_realloc", "libconfig_strdup"]
WRAPPER_FILE = "util.c"
FATAL = "libconfig_fatal_error"

ALLOC_FUNCS = {
    "malloc", "calloc", "realloc", "strdup", "strndup", "asprintf", "vasprintf",
    "aligned_alloc", "posix_memalign",
    # close relatives, so that a swap to one of them cannot go unnoticed
    "reallocarray", "valloc", "pvalloc", "memalign", "wcsdup",
    "__strdup", "__strndup",
    "operator new", "operator new[]",
}
ENDERS = {
    "exit", "_exit", "_Exit", "abort", "quick_exit", "raise", "kill", "longjmp",
    # close relatives
    "siglongjmp", "_longjmp", "__longjmp_chk", "pthread_exit", "pthread_kill", "killpg",
    "tgkill", "__assert_fail", "__assert_perror_fail", "__assert", "trap",
    "err", "errx", "verr", "verrx", "terminate",
}
# functions writing to an implicit standard stream
IMPLICIT_STREAM = {
    "printf": "stdout", "puts": "stdout", "putchar": "stdout", "vprintf": "stdout",
    "perror": "stderr",
    "putchar_unlocked": "stdout", "__printf_chk": "stdout", "__vprintf_chk": "stdout",
    "psignal": "stderr", "wprintf": "stdout", "vwprintf": "stdout",
    "warn": "stderr", "warnx": "stderr", "vwarn": "stderr", "vwarnx": "stderr",
}
# function -> index of the FILE* argument
STREAM_ARG = {
    "fprintf": 0, "vfprintf": 0, "fputs": 1, "fputc": 1, "putc": 1, "fwrite": 3,
    "__fprintf_chk": 0, "__vfprintf_chk": 0, "fputs_unlocked": 1, "fputc_unlocked": 1,
    "putc_unlocked": 1, "fwrite_unlocked": 3, "putw": 1, "fwprintf": 0, "fflush": 0,
}
# function -> index of the file-descriptor argument
FD_ARG = {"write": 0, "dprintf": 0, "vdprintf": 0, "pwrite": 0, "writev": 0, "_write": 0}
STD_STREAM_NAMES = {"stdout", "stderr"}
FD_MACROS = {"STDERR_FILENO", "STDOUT_FILENO"}

FUNC_KINDS = {"FunctionDecl", "CXXMethodDecl", "CXXConstructorDecl",
              "CXXDestructorDecl", "CXXConversionDecl"}
SCOPE_KINDS = {"NamespaceDecl", "CXXRecordDecl", "ClassTemplateSpecializationDecl",
               "ClassTemplatePartialSpecializationDecl", "RecordDecl"}
TRANSPARENT = {"ParenExpr", "ConstantExpr", "ExprWithCleanups", "MaterializeTemporaryExpr",
               "CXXBindTemporaryExpr", "InitListExpr", "CompoundLiteralExpr",
               "SubstNonTypeTemplateParmExpr", "CXXFunctionalCastExpr"}
CAST_KINDS = {"ImplicitCastExpr", "CStyleCastExpr", "CXXStaticCastExpr",
              "CXXReinterpretCastExpr", "CXXConstCastExpr", "CXXDynamicCastExpr"}
CALL_KINDS = {"CallExpr", "CXXMemberCallExpr", "CXXOperatorCallExpr", "CXXConstructExpr",
              "CXXTemporaryObjectExpr", "CXXNewExpr", "CUDAKernelCallExpr",
              "UserDefinedLiteral"}
FILE_SCOPE = "<file-scope>"


class CensusError(Exception):
    pass


# --------------------------------------------------------------------------- types

def _strip_templates(t):
    out, depth = [], 0
    for ch in t:
        if ch == "<":
            depth += 1
        elif ch == ">":
            depth = max(0, depth - 1)
        elif depth == 0:
            out.append(ch)
    return "".join(out)


def _match_paren(t, i):
    depth = 0
    for j in range(i, len(t)):
        if t[j] == "(":
            depth += 1
        elif t[j] == ")":
            depth -= 1
            if depth == 0:
                return j
    return -1


_ARR = re.compile(r"\s*\[[^\]]*\]\s*$")


def _strip_arrays(t):
    t = t.strip()
    while True:
        m = _ARR.search(t)
        if not m:
            return t
        t = t[:m.start()].strip()


def _has_word(s, w):
    return re.search(r"(?<![A-Za-z0-9_])%s(?![A-Za-z0-9_])" % w, s) is not None


def top_const(t):
    """Is the object type (clang's printed form) const-qualified at the top level?
    Arrays are const iff their element type is."""
    t = _strip_templates(t).strip()
    # parenthesised declarator:  ret (*const[3])(args)  /  ret (*(*)(int))(char)
    m = re.search(r"\(\s*[*&^]|\(\s*[A-Za-z_][A-Za-z0-9_:]*::\*", t)
    if m:
        i = m.start()
        j = _match_paren(t, i)
        if j > i:
            inner = t[i + 1:j]
            if re.search(r"\(\s*[*&^]", inner):
                return top_const(inner)
            inner = _strip_arrays(inner)
            k = max(inner.rfind("*"), inner.rfind("&"), inner.rfind("^"))
            return _has_word(inner[k + 1:], "const")
    t = _strip_arrays(t)
    k = max(t.rfind("*"), t.rfind("&"))
    if k >= 0:
        return _has_word(t[k + 1:], "const")
    return _has_word(t, "const")


def pointee_const(t):
    """t is a pointer (or reference) type; is the pointee const-qualified?
    Unknown shapes answer False (i.e. 'may be written through')."""
    t = _strip_templates(t).strip()
    if re.search(r"\(\s*[*&^]", t):
        return False
    k = max(t.rfind("*"), t.rfind("&"))
    if k < 0:
        return False
    return top_const(t[:k])


def type_of(n, desugar=True):
    ty = n.get("type") or {}
    if desugar and "desugaredQualType" in ty:
        return ty["desugaredQualType"]
    return ty.get("qualType", "")


# --------------------------------------------------------------------------- pass 1

def annotate(root, st=None):
    """Resolve clang's delta-encoded locations.  `file` is emitted only when it differs
    from the previously printed location, `line` only when file or line differ, so the
    whole document has to be visited in order.  Every AST node gets
       _loc = (file, line) of its `loc`   (expansion point), or None
       _beg = (file, line) of range.begin (expansion point), or None
       _tok = (offset, tokLen, is_macro) of range.begin's expansion point.
    `st` = [file, line] is the printer state carried in (and updated in place)."""
    if st is None:
        st = [None, 0]

    def bare(d):
        f = d.get("file")
        if f is not None:
            st[0] = f
        ln = d.get("line")
        if ln is not None:
            st[1] = ln

    def resolve(d):
        if not isinstance(d, dict):
            return None, None
        if "expansionLoc" in d or "spellingLoc" in d:
            res = None
            tok = None
            for k, v in d.items():
                if isinstance(v, dict) and "offset" in v:
                    bare(v)
                    if k == "expansionLoc":
                        res = (st[0], st[1])
                        tok = (v.get("offset"), v.get("tokLen"), True)
            return res, tok
        if "offset" in d:
            bare(d)
            return (st[0], st[1]), (d.get("offset"), d.get("tokLen"), False)
        return None, None

    def scan(v):
        if isinstance(v, dict):
            if "offset" in v:
                bare(v)
                return
            for w in v.values():
                if isinstance(w, (dict, list)):
                    scan(w)
        elif isinstance(v, list):
            for w in v:
                if isinstance(w, (dict, list)):
                    scan(w)

    def node(n):
        loc = beg = tok = None
        for k, v in n.items():
            if k == "loc":
                loc, _ = resolve(v)
            elif k == "range":
                if isinstance(v, dict):
                    for kk, vv in v.items():
                        if kk == "begin":
                            beg, tok = resolve(vv)
                        else:
                            resolve(vv)
            elif k == "inner":
                for c in v:
                    if isinstance(c, dict):
                        node(c)
            elif isinstance(v, (dict, list)):
                scan(v)
        n["_loc"] = loc
        n["_beg"] = beg
        n["_tok"] = tok

    node(root)
    return st


_BARE_FILE = re.compile(rb'"offset": \d+,\s*"file": "((?:[^"\\]|\\.)*)"')
_INNER_OPEN = b'\n  "inner": [\n'
_INNER_CLOSE = b"\n  ]\n}"


def load_chunked(data, libdir):
    """Parse only those top-level declarations that can contain a location inside libdir.

    clang pretty-prints one top-level declaration per `    {` ... `    }` block.  A block
    is skipped iff the location state on entry is outside libdir and no location in the
    block names a file in libdir; then no node of the block is located in libdir.  For a
    skipped block the printer state is advanced to its last printed file / line.
    Returns None if the layout is not the expected one (the caller then parses fully)."""
    if not re.match(r"^[A-Za-z0-9_./+-]+$", libdir):
        return None
    prefix = libdir.encode() + b"/"
    h = data.find(_INNER_OPEN)
    t = data.rfind(_INNER_CLOSE)
    if h < 0 or t < h or data[t + len(_INNER_CLOSE):].strip() != b"":
        return None
    try:
        root = json.loads(data[:h].rstrip().rstrip(b",") + b"\n}")
    except ValueError:
        return None
    if not isinstance(root, dict) or "inner" in root:
        return None
    # block boundaries: "\n    {\n" ... "\n    }" followed by ",\n" or by the closing "\n  ]\n}"
    starts, ends = [], []
    pos = h + len(_INNER_OPEN) - 1
    while True:
        if data[pos:pos + 7] != b"\n    {\n":
            return None
        e = data.find(b"\n    }", pos + 7, t + 6)
        if e < 0:
            return None
        starts.append(pos + 1)
        ends.append(e + 1)
        if e + 6 == t:
            break
        if data[e + 6:e + 8] != b",\n":
            return None
        pos = e + 7
    st = annotate(root)
    inner = []
    for s, e in zip(starts, ends):
        wanted = st[0] is not None and st[0].startswith(libdir + "/")
        last = None
        if not wanted:
            for m in _BARE_FILE.finditer(data, s, e):
                if m.group(1).startswith(prefix):
                    wanted = True
                    break
                last = m
        if wanted:
            node = json.loads(data[s:e + 5])
            annotate(node, st)
            inner.append(node)
        else:
            if last is not None:
                st[0] = json.loads(b'"' + last.group(1) + b'"')
            j = data.rfind(b'"line": ', s, e)
            if j >= 0:
                m = re.compile(rb"\d+").match(data, j + 8)
                if m is None:
                    return None
                st[1] = int(m.group(0))
    root["inner"] = inner
    return root


def load_ast(data, libdir):
    """clang's JSON -> annotated AST (possibly without irrelevant system declarations)."""
    if os.environ.get("CENSUS_FULL_PARSE") != "1":
        root = load_chunked(data, libdir)
        if root is not None:
            return root
    root = json.loads(data)
    if isinstance(root, dict):
        annotate(root)
    return root


# --------------------------------------------------------------------------- pass 2

def strip_expr(n, casts=True):
    """Peel parentheses and (implicit and explicit) casts."""
    while isinstance(n, dict):
        k = n.get("kind")
        if k in TRANSPARENT or (casts and k in CAST_KINDS):
            inner = n.get("inner") or []
            if len(inner) != 1:
                return n
            n = inner[0]
        else:
            return n
    return n


def render(n):
    """Small expression printer (enough for stream / fd arguments)."""
    if not isinstance(n, dict):
        return "?"
    k = n.get("kind")
    inner = n.get("inner") or []
    if k == "DeclRefExpr":
        return (n.get("referencedDecl") or {}).get("name", "?")
    if k == "MemberExpr":
        base = render(inner[0]) if inner else "?"
        return base + ("->" if n.get("isArrow") else ".") + n.get("name", "?")
    if k == "CXXThisExpr":
        return "this"
    if k == "IntegerLiteral":
        return str(n.get("value", "?"))
    if k == "ParenExpr" and inner:
        return "(" + render(inner[0]) + ")"
    if (k in CAST_KINDS or k in TRANSPARENT) and len(inner) == 1:
        return render(inner[0])
    if k == "UnaryOperator" and inner:
        op = n.get("opcode", "?")
        return (render(inner[0]) + op) if n.get("isPostfix") else (op + render(inner[0]))
    if k == "ArraySubscriptExpr" and len(inner) == 2:
        return render(inner[0]) + "[" + render(inner[1]) + "]"
    if k == "CallExpr" and inner:
        return render(inner[0]) + "(" + ", ".join(render(a) for a in inner[1:]) + ")"
    return "<" + str(k) + ">"


def iter_nodes(n):
    stack = [n]
    while stack:
        x = stack.pop()
        if isinstance(x, dict):
            yield x
            inner = x.get("inner")
            if inner:
                stack.extend(reversed(inner))


def callee_ref(call):
    """The DeclRefExpr naming the function called by a CallExpr (or None)."""
    inner = call.get("inner") or []
    if not inner:
        return None
    c = strip_expr(inner[0])
    if isinstance(c, dict) and c.get("kind") == "DeclRefExpr":
        return c
    return None


def is_null_const(n):
    n = strip_expr(n)
    if not isinstance(n, dict):
        return False
    k = n.get("kind")
    if k == "IntegerLiteral":
        return str(n.get("value")) == "0"
    return k in ("GNUNullExpr", "CXXNullPtrLiteralExpr")


class TU:
    """Analysis of one translation unit."""

    def __init__(self, libdir, src, root):
        self.libdir = os.path.normpath(libdir)
        self.src = src
        self.root = root
        self.var_key = {}      # VarDecl id -> key
        self.defs = {}         # key -> dict(file,name,type,line)
        self.writes = {}       # key -> set(function)
        self.alloc = []        # (file, fun, callee, line)
        self.exits = []        # (file, fun, callee, line, stream)
        self.wrappers = {}     # name -> bool
        self.std_refs = []     # (file, fun, name, line): mentions of stdin/stdout/stderr
        self.qual = {}         # decl id -> qualified scope name
        self.fun = None        # current function name
        self.consumed = set()  # ids of DeclRefExprs already reported as callees
        self.lib_defined = set()  # plain names of functions DEFINED in libdir
        self.anc = []
        self._src_cache = {}

    # ---- helpers
    def rel(self, f):
        """Path relative to libdir if the file lives there, else None."""
        if not f or f.startswith("<"):
            return None
        p = os.path.normpath(f)
        pre = self.libdir + os.sep
        if p.startswith(pre):
            return p[len(pre):]
        return None

    def where(self, n):
        pos = n.get("_loc") or n.get("_beg")
        if not pos:
            return None, 0
        return self.rel(pos[0]), pos[1]

    def site(self, n):
        pos = n.get("_beg") or n.get("_loc")
        if not pos:
            return None, 0
        return self.rel(pos[0]), pos[1]

    def token_text(self, n):
        """Source text of the token at the expansion point of n's first token."""
        pos, tok = n.get("_beg"), n.get("_tok")
        if not pos or not tok or tok[0] is None or tok[1] is None:
            return None
        f = pos[0]
        if f not in self._src_cache:
            try:
                with open(f, "rb") as fh:
                    self._src_cache[f] = fh.read()
            except OSError:
                self._src_cache[f] = b""
        data = self._src_cache[f]
        return data[tok[0]:tok[0] + tok[1]].decode("latin-1")

    # ---- declarations
    def scope_name(self, n, lexical):
        pid = n.get("parentDeclContextId")
        if pid is not None and pid in self.qual:
            return self.qual[pid]
        return lexical

    def key_for_var(self, n, scope, in_function, in_record=False):
        name = n.get("name", "<anon>")
        q = (scope + "::" if scope else "") + name
        sc = n.get("storageClass")
        if in_function:
            return ("L", self.src, self.fun or FILE_SCOPE, n.get("id"), q)
        if sc == "static" and not in_record and n.get("parentDeclContextId") is None:
            return ("S", self.src, q)          # internal linkage: private to this TU
        if "(anonymous)" in q:
            return ("S", self.src, q)
        return ("E", q)                        # external linkage: shared by name

    def visit_decls(self, n, scope, in_record=False):
        """Walk declaration contexts; prune everything not located in libdir."""
        for c in n.get("inner") or []:
            if not isinstance(c, dict):
                continue
            k = c.get("kind")
            f, line = self.where(c)
            if f is None:
                continue                       # system header / builtin: skip subtree
            if k in ("LinkageSpecDecl", "ExportDecl"):
                self.visit_decls(c, scope, in_record)
            elif k in SCOPE_KINDS:
                nm = c.get("name") or "(anonymous)"
                base = self.scope_name(c, scope)
                q = (base + "::" if base else "") + nm
                if c.get("id"):
                    self.qual[c["id"]] = q
                self.visit_decls(c, q, k != "NamespaceDecl")
            elif k in ("FunctionTemplateDecl", "ClassTemplateDecl", "VarTemplateDecl",
                       "FriendDecl"):
                self.visit_decls(c, scope, in_record)
            elif k in FUNC_KINDS:
                self.function(c, scope, f)
            elif k == "VarDecl":
                self.global_var(c, scope, f, line, in_record)
            # typedefs, enums, fields, ...: nothing to do

    def function(self, n, scope, f):
        inner = n.get("inner") or []
        has_body = any(isinstance(c, dict) and c.get("kind") in
                       ("CompoundStmt", "CXXTryStmt", "CXXCtorInitializer") for c in inner)
        if not has_body:
            return
        base = self.scope_name(n, scope)
        name = (base + "::" if base else "") + n.get("name", "<anon>")
        if n.get("kind") == "FunctionDecl" and not base:
            self.lib_defined.add(n.get("name", "<anon>"))   # global-namespace function
        prev = self.fun
        self.fun = name
        for c in inner:
            if isinstance(c, dict) and c.get("kind") != "ParmVarDecl":
                self.stmt(c)
        if f == WRAPPER_FILE and name in WRAPPERS:
            self.wrappers[name] = self.check_wrapper(n)
        self.fun = prev

    def global_var(self, n, scope, f, line, in_record):
        base = self.scope_name(n, scope)
        key = self.key_for_var(n, base, False, in_record)
        self.var_key[n["id"]] = key
        sc = n.get("storageClass")
        has_init = "init" in n
        is_def = has_init or sc != "extern"
        if in_record and not (n.get("inline") or n.get("constexpr")):
            is_def = False                     # static data member declaration only
        if is_def:
            self.define(key, n, f, line, (base + "::" if base else "") + n.get("name", "<anon>"))
        # initialiser may take addresses of other statics
        for c in n.get("inner") or []:
            if isinstance(c, dict):
                self.anc.append(n)
                self.stmt(c)
                self.anc.pop()

    def define(self, key, n, f, line, shown):
        ty = type_of(n, True)
        if top_const(ty):
            return
        shown_ty = type_of(n, False)
        if n.get("tls"):
            shown_ty = "_Thread_local " + shown_ty
        d = self.defs.get(key)
        if d is None or ("init" in n and not d.get("has_init")):
            self.defs[key] = dict(file=f, name=shown, type=shown_ty, line=line,
                                  has_init=("init" in n))

    # ---- statements / expressions
    def stmt(self, n):
        k = n.get("kind")
        if k == "VarDecl":
            self.local_var(n)
        elif k in FUNC_KINDS:
            # local class method / lambda body: attribute to the outer function
            pass
        elif k == "DeclRefExpr":
            self.declref(n)
        elif k == "CXXNewExpr":
            f, line = self.site(n)
            if f is not None:
                self.alloc.append((f, self.fun or FILE_SCOPE, "new", line))
        elif k == "CallExpr" or k == "CXXOperatorCallExpr" or k == "CXXMemberCallExpr":
            self.call(n)
        inner = n.get("inner")
        if inner:
            self.anc.append(n)
            for c in inner:
                if isinstance(c, dict):
                    self.stmt(c)
            self.anc.pop()

    def local_var(self, n):
        sc = n.get("storageClass")
        if sc == "static":
            f, line = self.where(n)
            key = self.key_for_var(n, "", True)
            self.var_key[n["id"]] = key
            if f is not None:
                self.define(key, n, f, line, (self.fun or FILE_SCOPE) + "::" + n.get("name", "<anon>"))
        elif sc == "extern":
            self.var_key[n["id"]] = ("E", n.get("name", "<anon>"))

    def declref(self, n):
        rd = n.get("referencedDecl") or {}
        rk = rd.get("kind")
        name = rd.get("name")
        if rk == "VarDecl":
            key = self.var_key.get(rd.get("id"))
            if key is not None and self.is_write(n):
                self.writes.setdefault(key, set()).add(self.fun or FILE_SCOPE)
            if key is None and name in ("stdin", "stdout", "stderr"):
                f, line = self.site(n)
                if f is not None:
                    self.std_refs.append((f, self.fun or FILE_SCOPE, name, line))
        elif rk == "FunctionDecl" and n.get("id") not in self.consumed:
            # reference to an interesting function that is not the callee of a call
            base = name[len("__builtin_"):] if name and name.startswith("__builtin_") else name
            f, line = self.site(n)
            if f is None:
                return
            if base in ALLOC_FUNCS:
                self.alloc.append((f, self.fun or FILE_SCOPE, "&" + base, line))
            elif base in ENDERS or base in IMPLICIT_STREAM or base in STREAM_ARG or base in FD_ARG:
                if base in ENDERS or base in IMPLICIT_STREAM:
                    self.exits.append((f, self.fun or FILE_SCOPE, "&" + base, line,
                                       IMPLICIT_STREAM.get(base, "")))
                else:
                    self.exits.append((f, self.fun or FILE_SCOPE, "&" + base, line, "?"))

    def call(self, n):
        ref = callee_ref(n)
        if ref is None:
            return
        rd = ref.get("referencedDecl") or {}
        if rd.get("kind") != "FunctionDecl":
            return
        name = rd.get("name", "")
        base = name[len("__builtin_"):] if name.startswith("__builtin_") else name
        f, line = self.site(n)
        fun = self.fun or FILE_SCOPE
        args = (n.get("inner") or [])[1:]
        hit = False
        if base in ALLOC_FUNCS:
            hit = True
            if f is not None:
                self.alloc.append((f, fun, base, line))
        elif base in ENDERS:
            hit = True
            if f is not None:
                self.exits.append((f, fun, base, line, ""))
        elif base in IMPLICIT_STREAM:
            hit = True
            if f is not None:
                self.exits.append((f, fun, base, line, IMPLICIT_STREAM[base]))
        elif base in STREAM_ARG:
            hit = True
            i = STREAM_ARG[base]
            if f is not None and i < len(args):
                s = self.std_stream(args[i])
                if s is not None:
                    self.exits.append((f, fun, base, line, s))
        elif base in FD_ARG:
            hit = True
            i = FD_ARG[base]
            if f is not None and i < len(args):
                s = self.std_fd(args[i])
                if s is not None:
                    self.exits.append((f, fun, base, line, s))
        if hit and ref.get("id"):
            self.consumed.add(ref["id"])

    def std_stream(self, a):
        e = strip_expr(a)
        if not isinstance(e, dict):
            return None
        k = e.get("kind")
        if k == "DeclRefExpr":
            rd = e.get("referencedDecl") or {}
            nm = rd.get("name", "")
            if rd.get("kind") == "VarDecl" and (nm in STD_STREAM_NAMES or
                                                 nm.endswith("yyout") or nm.endswith("yyin")):
                return nm
        elif k == "MemberExpr":
            nm = e.get("name", "")
            if nm in ("yyout_r", "yyin_r") or nm.endswith("yyout") or nm.endswith("yyin"):
                return render(e)
        return None

    def std_fd(self, a):
        e = strip_expr(a)
        if isinstance(e, dict) and e.get("kind") == "IntegerLiteral" and \
                str(e.get("value")) in ("1", "2"):
            t = self.token_text(a)
            if t in FD_MACROS:
                return t
            return str(e.get("value"))
        return None

    # ---- write classification
    def is_write(self, ref):
        """Climb from a DeclRefExpr naming a tracked object.  mode 'L': the current
        expression designates (part of) the object; mode 'P': it is a pointer into it."""
        cur = ref
        mode = "L"
        for par in reversed(self.anc):
            k = par.get("kind")
            inner = par.get("inner") or []
            first = inner[0] if inner else None
            if k in TRANSPARENT or k in ("ImplicitValueInitExpr",):
                cur = par
                continue
            if k in CAST_KINDS:
                ck = par.get("castKind")
                implicit = (k == "ImplicitCastExpr")
                t = type_of(par, True)
                if ck == "LValueToRValue":
                    return False
                if ck == "ArrayToPointerDecay":
                    mode = "P"
                    cur = par
                    continue
                if ck in ("PointerToBoolean", "ToVoid"):
                    return False
                if ck in ("PointerToIntegral",):
                    return mode == "P"          # address leaks as an integer
                if mode == "P":
                    if implicit and pointee_const(t):
                        return False            # handed out as pointer-to-const
                    cur = par
                    continue
                # lvalue-to-lvalue conversions (C++: qualification, derived-to-base)
                if implicit and par.get("valueCategory") in ("lvalue", "xvalue") and top_const(t):
                    return False
                if par.get("valueCategory") == "prvalue" and ck not in ("NoOp",):
                    return False                # value conversion: a read
                cur = par
                continue
            if k == "UnaryOperator":
                op = par.get("opcode")
                if op in ("++", "--"):
                    return mode == "L"
                if op == "&":
                    if mode == "L":
                        mode = "P"
                        cur = par
                        continue
                    return True
                if op == "*":
                    if mode == "P":
                        mode = "L"
                        cur = par
                        continue
                    return False
                if op == "__extension__":
                    cur = par
                    continue
                return False
            if k == "MemberExpr":
                if mode == "L" and not par.get("isArrow"):
                    cur = par
                    continue
                if mode == "P" and par.get("isArrow"):
                    mode = "L"
                    cur = par
                    continue
                return False
            if k == "ArraySubscriptExpr":
                if mode == "P" or cur is first:
                    mode = "L"
                    cur = par
                    continue
                return False
            if k == "CompoundAssignOperator":
                return cur is first if mode == "L" else True
            if k == "BinaryOperator":
                op = par.get("opcode")
                if op == "=":
                    if cur is first:
                        return mode == "L"
                    return mode == "P"          # pointer into the object stored away
                if op == ",":
                    if len(inner) == 2 and cur is inner[1]:
                        cur = par
                        continue
                    return False
                if op in ("+", "-") and mode == "P":
                    if "*" in type_of(par, True):
                        cur = par
                        continue
                    return False
                return False
            if k in ("ConditionalOperator", "BinaryConditionalOperator"):
                if cur is first and k == "ConditionalOperator":
                    return False
                cur = par
                continue
            if k in CALL_KINDS:
                if k == "CXXMemberCallExpr" and cur is first:
                    return True                 # non-const member call on the object
                if k == "CallExpr" and cur is first:
                    return False                # the object is what is being called
                return True                     # non-const pointer / reference argument
            if k in ("VarDecl", "FieldDecl", "ReturnStmt", "CXXCtorInitializer",
                     "GCCAsmStmt", "MSAsmStmt", "AtomicExpr", "LambdaExpr",
                     "CXXThrowExpr", "DesignatedInitExpr"):
                # bound to a reference / stored in a pointer / returned / asm operand
                if k == "ReturnStmt" and mode == "L" and self._c_like():
                    return False
                if k == "VarDecl" and mode == "L" and self._c_like():
                    return False
                return True
            if k in ("UnaryExprOrTypeTraitExpr", "CXXNoexceptExpr", "CXXTypeidExpr",
                     "StmtExpr"):
                return False
            if k.endswith("Stmt") or k.endswith("Decl"):
                return False
            # unknown expression kind: be conservative about escaping pointers
            return mode == "P"
        return mode == "P"

    def _c_like(self):
        return not self.src.endswith(("++", ".cc", ".cpp", ".cxx"))

    def _checking_helper(self, name, argidx):
        """is [name] a function defined in this translation unit whose [argidx]-th parameter is tested for NULL with
        FATAL called on the NULL branch?"""
        for d in iter_nodes(self.root):
            if d.get("kind") != "FunctionDecl" or d.get("name") != name:
                continue
            body = [c for c in (d.get("inner") or []) if isinstance(c, dict) and c.get("kind") == "CompoundStmt"]
            params = [c for c in (d.get("inner") or []) if isinstance(c, dict) and c.get("kind") == "ParmVarDecl"]
            if not body or argidx >= len(params):
                continue
            pid = params[argidx].get("id")
            for x in iter_nodes(body[0]):
                if x.get("kind") != "IfStmt":
                    continue
                parts = [c for c in (x.get("inner") or []) if isinstance(c, dict)]
                if len(parts) < 2:
                    continue
                cond, then = parts[0], parts[1]
                els = parts[2] if len(parts) > 2 else None
                c = strip_expr(cond)
                branch = None
                ci = (c.get("inner") or []) if isinstance(c, dict) else []
                def isp(e):
                    e = strip_expr(e)
                    return isinstance(e, dict) and e.get("kind") == "DeclRefExpr" and (e.get("referencedDecl") or {}).get("id") == pid
                if isp(c):
                    branch = "else"
                elif isinstance(c, dict) and c.get("kind") == "UnaryOperator" and c.get("opcode") == "!" and ci and isp(ci[0]):
                    branch = "then"
                elif isinstance(c, dict) and c.get("kind") == "BinaryOperator" and c.get("opcode") in ("==", "!=") and len(ci) == 2 and \
                        ((isp(ci[0]) and is_null_const(ci[1])) or (isp(ci[1]) and is_null_const(ci[0]))):
                    branch = "then" if c.get("opcode") == "==" else "else"
                target = then if branch == "then" else (els if branch == "else" else None)
                if target is None:
                    continue
                for y in iter_nodes(target):
                    if y.get("kind") == "CallExpr":
                        r = callee_ref(y)
                        if ((r or {}).get("referencedDecl") or {}).get("name") == FATAL:
                            return True
        return False

    # ---- wrapper check
    def check_wrapper(self, fn):
        """True iff the body contains an allocation whose result lands in a variable v
        and, later, an `if` testing v for NULL whose NULL branch calls FATAL."""
        order = {}
        for i, x in enumerate(iter_nodes(fn)):
            if x.get("id"):
                order[x["id"]] = i

        def is_alloc_call(x):
            x = strip_expr(x)
            if isinstance(x, dict) and x.get("kind") == "CallExpr":
                r = callee_ref(x)
                nm = ((r or {}).get("referencedDecl") or {}).get("name", "")
                if nm.startswith("__builtin_"):
                    nm = nm[len("__builtin_"):]
                return nm in ALLOC_FUNCS
            return False

        received = []   # (var id, position)
        n_alloc = 0
        for x in iter_nodes(fn):
            k = x.get("kind")
            inner = x.get("inner") or []
            if k == "CallExpr" and is_alloc_call(x):
                n_alloc += 1
            if k == "VarDecl" and inner and is_alloc_call(inner[-1]):
                received.append((x.get("id"), order.get(x.get("id"), 0)))
            elif k == "BinaryOperator" and x.get("opcode") == "=" and len(inner) == 2 \
                    and is_alloc_call(inner[1]):
                lhs = strip_expr(inner[0])
                if isinstance(lhs, dict) and lhs.get("kind") == "DeclRefExpr":
                    received.append(((lhs.get("referencedDecl") or {}).get("id"),
                                     order.get(x.get("id"), 0)))
        # an allocation whose result is handed straight to a checking helper of this file (a function that tests that
        # parameter for NULL and calls FATAL on the NULL branch) counts as received-and-guarded
        n_helper = 0
        for x in iter_nodes(fn):
            if x.get("kind") == "CallExpr" and not is_alloc_call(x):
                args = (x.get("inner") or [])[1:]
                r = callee_ref(x)
                nm = ((r or {}).get("referencedDecl") or {}).get("name", "")
                for ai, a in enumerate(args):
                    if is_alloc_call(a) and self._checking_helper(nm, ai):
                        n_helper += 1
        if n_alloc == 0 or len(received) + n_helper != n_alloc:
            return False
        if not received:
            return True

        def calls_fatal(x):
            for y in iter_nodes(x):
                if y.get("kind") == "CallExpr":
                    r = callee_ref(y)
                    if ((r or {}).get("referencedDecl") or {}).get("name") == FATAL:
                        return True
            return False

        def refs(x, vid):
            x = strip_expr(x)
            return isinstance(x, dict) and x.get("kind") == "DeclRefExpr" and \
                (x.get("referencedDecl") or {}).get("id") == vid

        def mentions(x, vid):
            return any(y.get("kind") == "DeclRefExpr" and
                       (y.get("referencedDecl") or {}).get("id") == vid for y in iter_nodes(x))

        def null_branch(cond, vid):
            """'then' / 'else' : which branch runs when v is NULL; 'any' if the shape is
            not recognised but v is mentioned; None if v is not mentioned."""
            c = strip_expr(cond)
            if not isinstance(c, dict):
                return None
            ci = c.get("inner") or []
            if refs(c, vid):
                return "else"
            if c.get("kind") == "UnaryOperator" and c.get("opcode") == "!" and ci:
                b = null_branch(ci[0], vid)
                if b == "then":
                    return "else"
                if b == "else":
                    return "then"
                return b
            if c.get("kind") == "BinaryOperator" and c.get("opcode") in ("==", "!=") and len(ci) == 2:
                if (refs(ci[0], vid) and is_null_const(ci[1])) or \
                        (refs(ci[1], vid) and is_null_const(ci[0])):
                    return "then" if c.get("opcode") == "==" else "else"
            return "any" if mentions(c, vid) else None

        def guarded(vid, pos):
            for x in iter_nodes(fn):
                if x.get("kind") != "IfStmt" or order.get(x.get("id"), 0) < pos:
                    continue
                parts = [c for c in (x.get("inner") or []) if isinstance(c, dict)]
                if x.get("hasInit"):
                    parts = parts[1:]
                if x.get("hasVar"):
                    parts = parts[1:]
                if len(parts) < 2:
                    continue
                cond, then = parts[0], parts[1]
                els = parts[2] if len(parts) > 2 else None
                b = null_branch(cond, vid)
                if b in ("then", "any") and calls_fatal(then):
                    return True
                if b == "else" and els is not None and calls_fatal(els):
                    return True
            return False

        return all(guarded(vid, pos) for vid, pos in received)

    # ---- driver
    def run(self):
        self.visit_decls(self.root, "")
        return dict(src=self.src, defs=self.defs,
                    writes={k: sorted(v) for k, v in self.writes.items()},
                    alloc=self.alloc, exits=self.exits, wrappers=self.wrappers,
                    std_refs=self.std_refs, lib_defined=sorted(self.lib_defined))


def analyse(args):
    """Worker: clang one source file, analyse it.  Runs in its own process."""
    libdir, src, is_cxx = args
    path = os.path.join(libdir, src)
    if not os.path.isfile(path):
        raise CensusError("missing source file %s" % path)
    if is_cxx:
        cmd = ["clang++", "-x", "c++", "-std=c++11"]
    else:
        cmd = ["clang"]
    cmd += ["-fsyntax-only", "-I" + libdir] + DEFS + ["-Xclang", "-ast-dump=json", path]
    p = subprocess.run(cmd, stdout=subprocess.PIPE, stderr=subprocess.PIPE)
    if p.returncode != 0:
        raise CensusError("clang failed (%d) on %s:\n%s" %
                          (p.returncode, path, p.stderr.decode("utf-8", "replace")[-2000:]))
    data = p.stdout
    del p
    result = {}

    def work():
        try:
            try:
                root = load_ast(data, libdir)
            except ValueError as e:
                raise CensusError("bad JSON from clang for %s: %s" % (path, e))
            if not isinstance(root, dict) or root.get("kind") != "TranslationUnitDecl":
                raise CensusError("unexpected AST root for %s" % path)
            result["ok"] = TU(libdir, src, root).run()
        except BaseException as e:      # re-raised in the caller
            result["err"] = e

    # deep ASTs (long else-if / operator chains): recurse on a big private stack
    sys.setrecursionlimit(200000)
    threading.stack_size(256 * 1024 * 1024)
    t = threading.Thread(target=work)
    t.start()
    t.join()
    if "err" in result:
        raise result["err"]
    return result["ok"]


# --------------------------------------------------------------------------- merge / render

def merge(results):
    defs, writes = {}, {}
    alloc, exits, std_refs = set(), set(), set()
    wrappers = {}
    own = set()
    for r in results:
        own.update(r["lib_defined"])
        for k, d in r["defs"].items():
            old = defs.get(k)
            if old is None or (d.get("has_init") and not old.get("has_init")):
                defs[k] = d
        for k, ws in r["writes"].items():
            writes.setdefault(k, set()).update(ws)
        alloc.update(tuple(x) for x in r["alloc"])
        exits.update(tuple(x) for x in r["exits"])
        std_refs.update(tuple(x) for x in r["std_refs"])
        wrappers.update(r["wrappers"])
    # a name the library itself defines is the library's own function, not libc's
    alloc = {x for x in alloc if x[2].lstrip("&") not in own}
    exits = {x for x in exits if x[2].lstrip("&") not in own}
    objs = {}
    for k, d in defs.items():
        ident = (d["file"], d["name"], d["type"])
        objs.setdefault(ident, set()).update(writes.get(k, ()))
    static_objects = sorted((f, n, t, tuple(sorted(w))) for (f, n, t), w in objs.items())
    alloc_sites = []
    for (f, fun, callee, line) in sorted(alloc, key=lambda x: (x[0], x[1], x[3], x[2])):
        cls = "Wrapped" if (f == WRAPPER_FILE and fun in WRAPPERS) else "Raw"
        alloc_sites.append((f, fun, callee, line, cls))
    exit_sites = sorted(exits, key=lambda x: (x[0], x[1], x[3], x[2], x[4]))
    wrappers_checked = [(w, bool(wrappers.get(w, False))) for w in WRAPPERS]
    return dict(static_objects=static_objects, alloc_sites=alloc_sites,
                wrappers_checked=wrappers_checked, exit_sites=exit_sites,
                std_refs=sorted(std_refs, key=lambda x: (x[0], x[1], x[3], x[2])))


def coq_str(s):
    out = []
    for ch in s:
        if ch == '"':
            out.append('""')
        elif 32 <= ord(ch) < 127:
            out.append(ch)
        else:
            out.append("?")
    return '"' + "".join(out) + '"'


def coq_list(items, indent="  "):
    if not items:
        return "[]"
    return "[\n" + ";\n".join(indent + it for it in items) + "\n]"


def render_coq(c):
    so = ["{| so_file := %s; so_name := %s; so_type := %s; so_writers := [%s] |}" %
          (coq_str(f), coq_str(n), coq_str(t), "; ".join(coq_str(w) for w in ws))
          for (f, n, t, ws) in c["static_objects"]]
    al = ["{| al_file := %s; al_fun := %s; al_callee := %s; al_line := %d; al_class := %s |}" %
          (coq_str(f), coq_str(fun), coq_str(cal), line, cls)
          for (f, fun, cal, line, cls) in c["alloc_sites"]]
    wr = ["(%s, %s)" % (coq_str(w), "true" if b else "false") for (w, b) in c["wrappers_checked"]]
    ex = ["{| ex_file := %s; ex_fun := %s; ex_callee := %s; ex_line := %d; ex_stream := %s |}" %
          (coq_str(f), coq_str(fun), coq_str(cal), line, coq_str(s))
          for (f, fun, cal, line, s) in c["exit_sites"]]
    return "\n".join([
        "(* GENERATED by tools/gen_census.py from the libconfig sources (clang JSON AST).",
        "   Do not edit.  Regenerate with: tools/gen_census.py *)",
        "From Coq Require Import List String.",
        "Import ListNotations.",
        "Open Scope string_scope.",
        "",
        "Inductive alloc_class := Wrapped | Raw.",
        "",
        "Record static_obj := { so_file : string; so_name : string; so_type : string;",
        "                       so_writers : list string }.",
        "Record alloc_site := { al_file : string; al_fun : string; al_callee : string;",
        "                       al_line : nat; al_class : alloc_class }.",
        "Record exit_site := { ex_file : string; ex_fun : string; ex_callee : string;",
        "                      ex_line : nat; ex_stream : string }.",
        "",
        "Definition static_objects : list static_obj := " + coq_list(so) + ".",
        "",
        "Definition alloc_sites : list alloc_site := " + coq_list(al) + ".",
        "",
        "Definition wrappers_checked : list (string * bool) := " + coq_list(wr) + ".",
        "",
        "Definition exit_sites : list exit_site := " + coq_list(ex) + ".",
        "",
    ])


def render_text(c):
    """Stable rendering without line numbers (rows keep their line order)."""
    out = ["# census of libconfig sources (no line numbers); see tools/gen_census.py"]
    out.append("[static_objects]")
    for (f, n, t, ws) in c["static_objects"]:
        out.append("static | %s | %s | %s | writers=[%s]" % (f, n, t, ", ".join(ws)))
    out.append("[alloc_sites]")
    for (f, fun, cal, _line, cls) in c["alloc_sites"]:
        out.append("alloc | %s | %s | %s | %s" % (f, fun, cal, cls))
    out.append("[wrappers_checked]")
    for (w, b) in c["wrappers_checked"]:
        out.append("wrapper | %s | %s" % (w, "true" if b else "false"))
    out.append("[exit_sites]")
    for (f, fun, cal, _line, s) in c["exit_sites"]:
        out.append("exit | %s | %s | %s | stream=%s" % (f, fun, cal, s))
    return "\n".join(out) + "\n"


def write_if_changed(path, content):
    try:
        with open(path, "r") as fh:
            if fh.read() == content:
                return False
    except OSError:
        pass
    d = os.path.dirname(path)
    if d:
        os.makedirs(d, exist_ok=True)
    tmp = path + ".tmp.%d" % os.getpid()
    with open(tmp, "w") as fh:
        fh.write(content)
    os.replace(tmp, path)
    return True


def main():
    verif = os.path.dirname(os.path.dirname(os.path.abspath(__file__)))
    ap = argparse.ArgumentParser(description=__doc__.split("\n")[0])
    ap.add_argument("--out", default=os.path.join(verif, "coq", "gen", "Census.v"))
    ap.add_argument("--text", default=None,
                    help="also write the line-number-free rendering here ('-' = stdout)")
    ap.add_argument("--refs", action="store_true",
                    help="print mentions of stdin/stdout/stderr outside the census (stderr)")
    ap.add_argument("-j", type=int, default=0, help="parallel clang jobs (default: all sources)")
    a = ap.parse_args()
    repo = os.environ.get("REPO") or "/repo"
    libdir = os.path.abspath(os.path.join(repo, "lib"))
    if not os.path.isdir(libdir):
        raise CensusError("no such directory: %s" % libdir)
    jobs = [(libdir, s, False) for s in C_SOURCES] + [(libdir, s, True) for s in CXX_SOURCES]
    # biggest first
    jobs.sort(key=lambda j: (not j[2], j[1]))
    nproc = a.j if a.j > 0 else min(len(jobs), os.cpu_count() or 1)
    if nproc <= 1:
        results = [analyse(j) for j in jobs]
    else:
        with ProcessPoolExecutor(max_workers=nproc) as ex:
            results = list(ex.map(analyse, jobs))
    c = merge(results)
    changed = write_if_changed(a.out, render_coq(c))
    if a.text == "-":
        sys.stdout.write(render_text(c))
    elif a.text:
        write_if_changed(a.text, render_text(c))
    if a.refs:
        for r in c["std_refs"]:
            sys.stderr.write("stdref | %s | %s | %s | line %d\n" % r)
    n_raw = sum(1 for x in c["alloc_sites"] if x[4] == "Raw")
    n_chk = sum(1 for _, b in c["wrappers_checked"] if b)
    print("census: %d writable static objects (%d with writers), %d alloc sites (%d Raw), "
          "%d/%d wrappers checked, %d exit/stream sites; %s %s" %
          (len(c["static_objects"]), sum(1 for x in c["static_objects"] if x[3]),
           len(c["alloc_sites"]), n_raw, n_chk, len(WRAPPERS), len(c["exit_sites"]),
           a.out, "written" if changed else "unchanged"))
    return 0


if __name__ == "__main__":
    try:
        sys.exit(main())
    except CensusError as e:
        sys.stderr.write("gen_census: ERROR: %s\n" % e)
        sys.exit(2)
    except Exception as e:                      # any internal error is fatal
        import traceback
        traceback.print_exc()
        sys.stderr.write("gen_census: INTERNAL ERROR: %s\n" % e)
        sys.exit(3)
