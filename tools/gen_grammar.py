#!/usr/bin/env python3
"""gen_grammar.py — translator: /repo/lib/grammar.c (the bison parser that is COMPILED into the library) and
grammar.h -> /verif/coq/gen/GrammarTables.v.

Extracts the LALR(1) tables of the generated parser (yytranslate, yypact, yydefact, yypgoto, yydefgoto, yytable,
yycheck, yystos, yyr1, yyr2), the constants of the skeleton (YYFINAL, YYLAST, YYNTOKENS, YYPACT_NINF, YYTABLE_NINF,
YYMAXUTOK, YYNSTATES, YYNRULES), the symbol names (yytname), the token codes of grammar.h, and every `case N:` semantic
action of yyparse's switch, classified by its normalised text into the closed datatype LC.GramAction.gaction (GUnknown
otherwise).  The file is rewritten only when its content changes."""
import os, re, sys, json

REPO = os.environ.get("REPO", "/repo")
VERIF = os.path.dirname(os.path.dirname(os.path.abspath(__file__)))
SRC = os.path.join(REPO, "lib", "grammar.c")
HDR = os.path.join(REPO, "lib", "grammar.h")
OUT = os.path.join(VERIF, "coq", "gen", "GrammarTables.v")


def die(msg):
    print("gen_grammar: " + msg)
    sys.exit(1)


def table(src, name):
    m = re.search(r"static\s+const\s+\w+\s+" + name + r"\[\]\s*=\s*\{(.*?)\}\s*;", src, re.S)
    if not m:
        die("table %s not found" % name)
    return [int(x) for x in re.findall(r"-?\d+", m.group(1))]


def define(src, name):
    m = re.search(r"#\s*define\s+" + name + r"\s+\(?(-?\d+)\)?", src)
    if not m:
        die("#define %s not found" % name)
    return int(m.group(1))


def strip_comments(t):
    t = re.sub(r"/\*.*?\*/", " ", t, flags=re.S)
    t = re.sub(r"//[^\n]*", " ", t)
    t = re.sub(r"#line[^\n]*", " ", t)
    return t


def norm(t):
    return re.sub(r"\s+", "", strip_comments(t))


def scalar_action(elem_fn, val, set_fn, fmt):
    """the text of a simple_value action as grammar.y writes it"""
    f_e = "config_setting_set_format(e,%s);" % fmt if fmt else ""
    f_s = "config_setting_set_format(ctx->setting,%s);" % fmt if fmt else ""
    if fmt:
        return ("{if(IN_ARRAY()||IN_LIST()){config_setting_t*e=%s(ctx->parent,-1,%s);if(!e){libconfig_yyerror(scanner,ctx,scan_ctx,"
                "err_array_elem_type);YYABORT;}else{%sCAPTURE_PARSE_POS(e);}}else{%s(ctx->setting,%s);%s}}" % (
                    elem_fn, val, f_e, set_fn, val, f_s))
    return ("{if(IN_ARRAY()||IN_LIST()){config_setting_t*e=%s(ctx->parent,-1,%s);if(!e){libconfig_yyerror(scanner,ctx,scan_ctx,"
            "err_array_elem_type);YYABORT;}else{CAPTURE_PARSE_POS(e);}}else%s(ctx->setting,%s);}" % (elem_fn, val, set_fn, val))


def open_action(ty):
    return ("{if(IN_LIST()){ctx->parent=config_setting_add(ctx->parent,NULL,%s);CAPTURE_PARSE_POS(ctx->parent);}"
            "else{ctx->setting->type=%s;ctx->parent=ctx->setting;ctx->setting=NULL;}}" % (ty, ty))


FIXED = {
    "{ctx->setting=config_setting_add(ctx->parent,(yyvsp[0].sval),CONFIG_TYPE_NONE);if(ctx->setting==NULL)"
    "{libconfig_yyerror(scanner,ctx,scan_ctx,err_duplicate_setting);YYABORT;}else{CAPTURE_PARSE_POS(ctx->setting);}}": "GName",
    open_action("CONFIG_TYPE_ARRAY"): "(GOpen 7)",
    open_action("CONFIG_TYPE_LIST"): "(GOpen 8)",
    open_action("CONFIG_TYPE_GROUP"): "(GOpen 1)",
    "{if(ctx->parent)ctx->parent=ctx->parent->parent;}": "GClose",
    "{libconfig_parsectx_append_string(ctx,(yyvsp[0].sval));free((yyvsp[0].sval));}": "GStrAppend",
    scalar_action("config_setting_set_bool_elem", "(int)(yyvsp[0].ival)", "config_setting_set_bool", None): "(GScalar GBool)",
    scalar_action("config_setting_set_int_elem", "(yyvsp[0].ival)", "config_setting_set_int", "CONFIG_FORMAT_DEFAULT"): "(GScalar GInt)",
    scalar_action("config_setting_set_int64_elem", "(yyvsp[0].llval)", "config_setting_set_int64", "CONFIG_FORMAT_DEFAULT"): "(GScalar GInt64)",
    scalar_action("config_setting_set_int_elem", "(yyvsp[0].ival)", "config_setting_set_int", "CONFIG_FORMAT_HEX"): "(GScalar GHex)",
    scalar_action("config_setting_set_int64_elem", "(yyvsp[0].llval)", "config_setting_set_int64", "CONFIG_FORMAT_HEX"): "(GScalar GHex64)",
    scalar_action("config_setting_set_float_elem", "(yyvsp[0].fval)", "config_setting_set_float", None): "(GScalar GFloat)",
    "{if(IN_ARRAY()||IN_LIST()){constchar*s=libconfig_parsectx_take_string(ctx);config_setting_t*e="
    "config_setting_set_string_elem(ctx->parent,-1,s);__delete(s);if(!e){libconfig_yyerror(scanner,ctx,scan_ctx,"
    "err_array_elem_type);YYABORT;}else{CAPTURE_PARSE_POS(e);}}else{constchar*s=libconfig_parsectx_take_string(ctx);"
    "config_setting_set_string(ctx->setting,s);__delete(s);}}": "(GScalar GString)",
}

# the macros the action texts use, and the error routine: their definitions are part of what the actions mean
MACROS = {
    "IN_ARRAY": "(ctx->parent&&(ctx->parent->type==CONFIG_TYPE_ARRAY))",
    "IN_LIST": "(ctx->parent&&(ctx->parent->type==CONFIG_TYPE_LIST))",
    "CAPTURE_PARSE_POS": "capture_parse_pos(scanner,scan_ctx,(S))",
    # the skeleton's macros as LalrEngine.v transcribes them
    "yypact_value_is_default": "((Yyn)==YYPACT_NINF)",
    "yytable_value_is_error": "0",
    "YYTRANSLATE": "(0<=(YYX)&&(YYX)<=YYMAXUTOK?YY_CAST(yysymbol_kind_t,yytranslate[YYX]):YYSYMBOL_YYUNDEF)",
}


sys.path.insert(0, os.path.dirname(os.path.abspath(__file__)))
import ccanon
import action_texts
CANON = {ccanon.canon(t): c for c, t in action_texts.GRAMMAR_ACTIONS.items()}


def yyparse_skeleton(src):
    m = re.search(r"^yyparse\s*\([^)]*\)\s*\{", src, re.M)
    if not m:
        return None
    d, j = 0, m.end() - 1
    while j < len(src):
        if src.startswith("/*", j):
            j = src.index("*/", j) + 2
            continue
        c = src[j]
        if c in "\"'":
            k = j + 1
            while src[k] != c:
                k += 2 if src[k] == "\\" else 1
            j = k + 1
            continue
        if c == "{":
            d += 1
        elif c == "}":
            d -= 1
            if d == 0:
                break
        j += 1
    body = src[m.start():j + 1]
    a = body.find("switch (yyn)")
    if a < 0:
        return None
    b = body.find("{", a)
    d, k = 0, b
    while k < len(body):
        if body.startswith("/*", k):
            k = body.index("*/", k) + 2
            continue
        c = body[k]
        if c in "\"'":
            q = k + 1
            while body[q] != c:
                q += 2 if body[q] == "\\" else 1
            k = q + 1
            continue
        if c == "{":
            d += 1
        elif c == "}":
            d -= 1
            if d == 0:
                break
        k += 1
    return " ".join(ccanon.tokens(body[:b] + "{ ACTIONS }" + body[k + 1:]))


def coq_string(s):
    return '"' + s.replace('"', '""') + '"'


def zlist(name, vals, width=24):
    rows = []
    for i in range(0, len(vals), width):
        rows.append("  " + "; ".join(("(%d)" % v) if v < 0 else str(v) for v in vals[i:i + width]))
    return "Definition %s : list Z :=\n  [\n%s\n  ].\n" % (name, ";\n".join(rows))


def main():
    src = open(SRC, encoding="latin-1").read()
    hdr = open(HDR, encoding="latin-1").read()
    out = ["(* GENERATED by tools/gen_grammar.py from %s and grammar.h — do not edit *)" % os.path.relpath(SRC, REPO),
           "From Coq Require Import List ZArith String.", "Import ListNotations.", "From LC Require Import GramAction.",
           "Local Open Scope Z_scope.", ""]
    for t in ("yytranslate", "yypact", "yydefact", "yypgoto", "yydefgoto", "yytable", "yycheck", "yystos", "yyr1", "yyr2"):
        out.append(zlist("g_" + t, table(src, t)))
    for d in ("YYFINAL", "YYLAST", "YYNTOKENS", "YYNNTS", "YYNRULES", "YYNSTATES", "YYMAXUTOK", "YYPACT_NINF", "YYTABLE_NINF"):
        v = define(src, d)
        out.append("Definition g_%s : Z := %s." % (d, ("(%d)" % v) if v < 0 else v))
    m = re.search(r"yytname\[\]\s*=\s*\{(.*?)YY_NULLPTR", src, re.S)
    if not m:
        die("yytname not found")
    names = re.findall(r'"((?:[^"\\]|\\.)*)"', m.group(1))
    names = [n.replace('\\"', '"') for n in names]
    out.append("")
    out.append("Definition g_tname : list string :=\n  [" + ";\n   ".join(coq_string(n) for n in names) + "]%string.")
    # token codes of grammar.h
    codes = re.findall(r"\b(TOK_[A-Z0-9_]+)\s*=\s*(\d+)", hdr)
    if not codes:
        die("token codes not found in grammar.h")
    seen = {}
    for n, c in codes:
        seen.setdefault(n, int(c))
    out.append("")
    out.append("Definition g_token_codes : list (string * Z) :=\n  [" + ";\n   ".join("(%s, %d)" % (coq_string(n), c) for n, c in seen.items()) + "]%string.")
    # semantic actions
    i = src.find("switch (yyn)")
    j = src.find("default: break;", i)
    if i < 0 or j < 0:
        die("yyparse action switch not found")
    body = re.sub(r"#line[^\n]*", " ", src[i:j])
    acts = []
    unknown = 0
    for mm in re.finditer(r"case\s+(\d+):(.*?)break;\s*(?=case\s+\d+:|\Z)", body, re.S):
        n = int(mm.group(1))
        txt = norm(mm.group(2))
        a = CANON.get(ccanon.canon(mm.group(2)))
        if a is None:
            unknown += 1
            a = "(GUnknown %s)" % coq_string(txt[:400])
        acts.append((n, a))
    if not acts:
        die("no semantic action found")
    out.append("")
    out.append("Definition g_actions : list (Z * gaction) :=\n  [" + ";\n   ".join("(%d, %s)" % (n, a) for n, a in acts) + "]%string.")
    # the macros and the error routine the action texts rely on
    flags = []
    for name, want in MACROS.items():
        mm = re.search(r"#\s*define\s+" + name + r"\s*\(([^)]*)\)((?:[^\n\\]|\\\n|\\.)*)\n", src)
        got = norm(mm.group(2).replace("\\\n", " ")) if mm else None
        flags.append((name, got == want))
    mm = re.search(r"capture_parse_pos\s*\([^)]*\)\s*\{(.*?)\n\}", src, re.S)
    cpp = norm(mm.group(1)) if mm else None
    flags.append(("capture_parse_pos", cpp == "setting->line=(unsignedint)libconfig_yyget_lineno(scanner);"
                  "setting->file=libconfig_scanctx_current_filename(scan_ctx);"))
    mm = re.search(r"void\s+libconfig_yyerror\s*\([^)]*\)\s*\{(.*?)\n\}", src, re.S)
    yyerr = norm(mm.group(1)) if mm else None
    want_err = ("if(ctx->config->error_text)return;ctx->config->error_line=libconfig_yyget_lineno(scanner);"
                "ctx->config->error_text=s;")
    flags.append(("libconfig_yyerror", yyerr is not None and want_err in yyerr))
    # the control flow of yyparse (everything but the user actions inside `switch (yyn)`) is, token for token, the text
    # LalrEngine.v was transcribed from (tools/skel_ref/bison_yyparse.json)
    cur = yyparse_skeleton(src)
    ref_path = os.path.join(VERIF, "tools", "skel_ref", "bison_yyparse.json")
    if "--write-skel-ref" in sys.argv:
        os.makedirs(os.path.dirname(ref_path), exist_ok=True)
        json.dump({"yyparse": cur}, open(ref_path, "w"), indent=1)
    ref = json.load(open(ref_path)).get("yyparse") if os.path.exists(ref_path) else None
    flags.append(("yyparse control flow as transcribed", cur is not None and cur == ref))
    out.append("")
    out.append("(* the macros used by the actions and the error routine have the definitions the model assumes *)")
    out.append("Definition g_macros_as_modelled : list (string * bool) :=\n  [" + "; ".join(
        "(%s, %s)" % (coq_string(n), "true" if ok else "false") for n, ok in flags) + "]%string.")
    text = "\n".join(out) + "\n"
    os.makedirs(os.path.dirname(OUT), exist_ok=True)
    old = open(OUT).read() if os.path.exists(OUT) else None
    if old != text:
        open(OUT, "w").write(text)
        print("gen_grammar: wrote %s (%d rules with actions, %d unknown)" % (OUT, len(acts), unknown))
    else:
        print("gen_grammar: unchanged (%d rules with actions, %d unknown)" % (len(acts), unknown))


if __name__ == "__main__":
    main()
