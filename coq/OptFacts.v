(* OptFacts.v — output options change presentation only, at the level of the compiled scanner (lemmas behind
   Properties_C19): the tokens the scanner reads from config_write's text, semicolons aside, are a function of the
   tree and of the three attributes that govern spellings (default format, precision, scientific notation); the
   layout options and the tab width do not enter. *)
From Coq Require Import List ZArith NArith Bool Lia.
Import ListNotations.
From LC Require Import Base Tree Fp Api ScanAction Tokens Lexer Reader Writer WriterFacts TreeFacts LexWrite.
Local Open Scope Z_scope.

Section Opt.
  Variable fmt_double : Z -> Z -> bool -> bytes.
  Variable atof : bytes -> Z.

  Definition not_semi (t : token) : bool := match t with TkP TSemicolon => false | _ => true end.

  (* the token of a semantic item *)
  Definition sem_tok (c : cfg) (x : sem) : list token :=
    match x with
    | SName n => [TkName n]
    | SAssign => [TkP TEquals]
    | SOpen PList => [TkP TListStart] | SClose PList => [TkP TListEnd]
    | SOpen PArray => [TkP TArrayStart] | SClose PArray => [TkP TArrayEnd]
    | SOpen _ => [TkP TGroupStart] | SClose _ => [TkP TGroupEnd]
    | SComma => [TkP TComma]
    | SScalar pl f => piece_tok fmt_double atof c (PScalar pl f)
    end.

  Lemma scalar_tok_not_semi c pl f : filter not_semi (piece_tok fmt_double atof c (PScalar pl f)) = piece_tok fmt_double atof c (PScalar pl f).
  Proof.
    destruct pl as [| z | z | b | z | o | | |]; cbn [LexWrite.piece_tok]; try reflexivity.
    - destruct (eff c f =? 1); reflexivity.
    - destruct (eff c f =? 1); reflexivity.
    - destruct o; reflexivity.
  Qed.

  Lemma filter_piece c p : filter not_semi (piece_tok fmt_double atof c p) = flat_map (sem_tok c) (erase1 p).
  Proof.
    destruct p as [d | | | n | g | k | k | | | pl f]; try reflexivity.
    - destruct k; reflexivity.
    - destruct k; reflexivity.
    - cbn [erase1 flat_map sem_tok]. rewrite app_nil_r. apply scalar_tok_not_semi.
  Qed.

  Lemma filter_pieces c L : filter not_semi (flat_map (piece_tok fmt_double atof c) L) = flat_map (sem_tok c) (erase L).
  Proof.
    induction L as [|p r IH]; [reflexivity|]. cbn [flat_map]. rewrite filter_app, IH, filter_piece.
    unfold erase. cbn [flat_map]. rewrite flat_map_app. reflexivity.
  Qed.

  (* the spelling attributes *)
  Definition same_spelling (c c' : cfg) : Prop :=
    c_deffmt c' = c_deffmt c /\ c_prec c' = c_prec c /\ get_option c' OPT_SCI = get_option c OPT_SCI.

  Lemma sem_tok_ext c c' x : same_spelling c c' -> sem_tok c' x = sem_tok c x.
  Proof.
    intros (Hd & Hp & Hs). destruct x as [n | | k | k | | pl f]; try reflexivity.
    cbn [sem_tok]. destruct pl as [| z | z | b | z | o | | |]; cbn [LexWrite.piece_tok]; try reflexivity;
      unfold eff, ftext; rewrite ?Hd, ?Hp, ?Hs; reflexivity.
  Qed.

  (* a member list at depth 0 (the root) *)
  Theorem root_tokens_option_free c c' n kids f h l fi :
    same_spelling c c' ->
    filter not_semi (flat_map (piece_tok fmt_double atof c') (pieces c' (Setting n PGroup kids f h l fi) 0)) =
    filter not_semi (flat_map (piece_tok fmt_double atof c) (pieces c (Setting n PGroup kids f h l fi) 0)).
  Proof.
    intros Hs. rewrite !filter_pieces, !pieces_sems_root.
    induction (flat_map member_sems kids) as [|x r IH]; [reflexivity|]. cbn [flat_map]. rewrite IH, (sem_tok_ext c c' x Hs). reflexivity.
  Qed.

  (* the statement on the compiled scanner: two configurations with the same tree and the same spelling attributes,
     whatever their other options and tab widths, give texts that the scanner reads as the same tokens, semicolons
     aside *)
  Theorem scanner_tokens_option_free FS c c' c2 kids f h l fi :
    c_root c = Setting None PGroup kids f h l fi -> c_root c' = c_root c -> kids <> [] ->
    writable fmt_double atof c (c_root c) -> writable fmt_double atof c' (c_root c') -> same_spelling c c' ->
    exists toks toks',
      lex_top atof FS c2 None (config_write fmt_double c) = (toks, StopEOB) /\
      lex_top atof FS c2 None (config_write fmt_double c') = (toks', StopEOB) /\
      filter not_semi (map lt_tok toks') = filter not_semi (map lt_tok toks).
  Proof.
    intros Hroot Hroot' Hk Hw Hw' Hs.
    destruct (lex_top_written fmt_double atof FS c c2 kids f h l fi Hroot Hk Hw) as (toks & E & T).
    destruct (lex_top_written fmt_double atof FS c' c2 kids f h l fi ltac:(rewrite Hroot'; exact Hroot) Hk Hw') as (toks' & E' & T').
    exists toks, toks'. split; [exact E|]. split; [exact E'|].
    rewrite T, T', !filter_app, Hroot', Hroot. f_equal. apply root_tokens_option_free. exact Hs.
  Qed.
End Opt.
