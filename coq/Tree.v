(* Tree.v — the setting tree and the configuration record.  Definitions only. *)
From Coq Require Import List ZArith Bool.
Import ListNotations.
From LC Require Import Base.
Local Open Scope Z_scope.

Inductive ty := TNone | TGroup | TInt | TInt64 | TFloat | TString | TBool | TArray | TList.

Definition ty_code (t : ty) : Z :=
  match t with
  | TNone => 0 | TGroup => 1 | TInt => 2 | TInt64 => 3 | TFloat => 4
  | TString => 5 | TBool => 6 | TArray => 7 | TList => 8
  end.

Definition ty_of_code (z : Z) : option ty :=
  match z with
  | 0 => Some TNone | 1 => Some TGroup | 2 => Some TInt | 3 => Some TInt64 | 4 => Some TFloat
  | 5 => Some TString | 6 => Some TBool | 7 => Some TArray | 8 => Some TList
  | _ => None
  end.

Definition ty_eqb (a b : ty) : bool := ty_code a =? ty_code b.

Definition ty_is_scalar (t : ty) : bool :=
  match t with TInt | TInt64 | TFloat | TString | TBool => true | _ => false end.
Definition ty_is_aggregate (t : ty) : bool :=
  match t with TGroup | TArray | TList => true | _ => false end.

(* The union config_value_t, read at the setting's type.  Children of aggregates live in
   the [kids] field of the node; [PAgg] carries only the aggregate kind. *)
Inductive payload :=
| PNone
| PInt (z : Z)              (* int, in INT_MIN..INT_MAX *)
| PInt64 (z : Z)            (* long long *)
| PFloat (bits : Z)         (* binary64 bit pattern, 0 .. 2^64-1 *)
| PBool (z : Z)             (* any int *)
| PStr (s : option bytes)   (* None = NULL *)
| PGroup | PArray | PList.

Definition ty_of (p : payload) : ty :=
  match p with
  | PNone => TNone | PInt _ => TInt | PInt64 _ => TInt64 | PFloat _ => TFloat
  | PBool _ => TBool | PStr _ => TString | PGroup => TGroup | PArray => TArray | PList => TList
  end.

(* a zeroed value of each type, as config_setting_create leaves it (calloc) *)
Definition zero_payload (t : ty) : payload :=
  match t with
  | TNone => PNone | TInt => PInt 0 | TInt64 => PInt64 0 | TFloat => PFloat 0
  | TBool => PBool 0 | TString => PStr None | TGroup => PGroup | TArray => PArray | TList => PList
  end.

Inductive setting : Type :=
  Setting (name : option bytes) (pl : payload) (kids : list setting)
          (fmt : Z) (hook : option Z) (line : Z) (file : option bytes).

Definition s_name (s : setting) := let 'Setting n _ _ _ _ _ _ := s in n.
Definition s_pl (s : setting) := let 'Setting _ p _ _ _ _ _ := s in p.
Definition s_kids (s : setting) := let 'Setting _ _ k _ _ _ _ := s in k.
Definition s_fmt (s : setting) := let 'Setting _ _ _ f _ _ _ := s in f.
Definition s_hook (s : setting) := let 'Setting _ _ _ _ h _ _ := s in h.
Definition s_line (s : setting) := let 'Setting _ _ _ _ _ l _ := s in l.
Definition s_file (s : setting) := let 'Setting _ _ _ _ _ _ f := s in f.
Definition s_ty (s : setting) : ty := ty_of (s_pl s).

Definition set_pl (s : setting) (p : payload) : setting :=
  let 'Setting n _ k f h l fi := s in Setting n p k f h l fi.
Definition set_kids (s : setting) (k : list setting) : setting :=
  let 'Setting n p _ f h l fi := s in Setting n p k f h l fi.
Definition set_fmt (s : setting) (f : Z) : setting :=
  let 'Setting n p k _ h l fi := s in Setting n p k f h l fi.
Definition set_hook (s : setting) (h : option Z) : setting :=
  let 'Setting n p k f _ l fi := s in Setting n p k f h l fi.
Definition set_pos (s : setting) (l : Z) (fi : option bytes) : setting :=
  let 'Setting n p k f h _ _ := s in Setting n p k f h l fi.

Definition new_setting (name : option bytes) (t : ty) : setting :=
  Setting name (zero_payload t) [] 0 None 0 None.

Definition new_root : setting := new_setting None TGroup.

(* ---- addressing by index path from the root ---- *)
Definition ipath := list nat.

Fixpoint get_at (p : ipath) (s : setting) : option setting :=
  match p with
  | [] => Some s
  | i :: q => match nth_error (s_kids s) i with
              | Some c => get_at q c
              | None => None
              end
  end.

Fixpoint upd_at (p : ipath) (f : setting -> setting) (s : setting) : setting :=
  match p with
  | [] => f s
  | i :: q => set_kids s (list_upd i (upd_at q f) (s_kids s))
  end.

(* ---- destruction order: __config_setting_destroy runs children first (in order), then the
   node's own hook ---- *)
Fixpoint destroy_log (s : setting) : list Z :=
  let 'Setting _ _ k _ h _ _ := s in
  (fix go (l : list setting) : list Z :=
     match l with [] => [] | c :: r => destroy_log c ++ go r end) k
  ++ match h with Some x => [x] | None => [] end.

Fixpoint size (s : setting) : nat :=
  let 'Setting _ _ k _ _ _ _ := s in
  S ((fix go (l : list setting) : nat :=
        match l with [] => O | c :: r => (size c + go r)%nat end) k).

(* ---- error state and configuration ---- *)
Record errstate := mkErr {
  e_type : Z;                 (* 0 none, 1 file I/O, 2 parse *)
  e_text : option bytes;
  e_file : option bytes;
  e_line : Z }.

Definition err0 : errstate := mkErr 0 None None 0.

Inductive incfn :=
| IncDefault
| IncMulti (paths : list bytes)     (* custom function: returns these paths for every directive *)
| IncFail (msg : bytes)             (* custom function: reports this error *)
| IncEmpty                          (* custom function: returns an empty list, no error *)
| IncNull.                          (* custom function: returns NULL, no error *)

Record cfg := mkCfg {
  c_root : setting;
  c_options : Z;
  c_tab : Z;
  c_prec : Z;
  c_deffmt : Z;
  c_incdir : option bytes;
  c_incfn : incfn;
  c_dtor : bool;
  c_hook : option Z;
  c_err : errstate;
  c_files : list bytes }.

Definition set_root (c : cfg) (r : setting) : cfg :=
  mkCfg r (c_options c) (c_tab c) (c_prec c) (c_deffmt c) (c_incdir c) (c_incfn c)
        (c_dtor c) (c_hook c) (c_err c) (c_files c).
Definition set_options (c : cfg) (o : Z) : cfg :=
  mkCfg (c_root c) o (c_tab c) (c_prec c) (c_deffmt c) (c_incdir c) (c_incfn c)
        (c_dtor c) (c_hook c) (c_err c) (c_files c).
Definition set_tab (c : cfg) (t : Z) : cfg :=
  mkCfg (c_root c) (c_options c) t (c_prec c) (c_deffmt c) (c_incdir c) (c_incfn c)
        (c_dtor c) (c_hook c) (c_err c) (c_files c).
Definition set_prec (c : cfg) (p : Z) : cfg :=
  mkCfg (c_root c) (c_options c) (c_tab c) p (c_deffmt c) (c_incdir c) (c_incfn c)
        (c_dtor c) (c_hook c) (c_err c) (c_files c).
Definition set_deffmt (c : cfg) (f : Z) : cfg :=
  mkCfg (c_root c) (c_options c) (c_tab c) (c_prec c) f (c_incdir c) (c_incfn c)
        (c_dtor c) (c_hook c) (c_err c) (c_files c).
Definition set_incdir (c : cfg) (d : option bytes) : cfg :=
  mkCfg (c_root c) (c_options c) (c_tab c) (c_prec c) (c_deffmt c) d (c_incfn c)
        (c_dtor c) (c_hook c) (c_err c) (c_files c).
Definition set_incfn (c : cfg) (f : incfn) : cfg :=
  mkCfg (c_root c) (c_options c) (c_tab c) (c_prec c) (c_deffmt c) (c_incdir c) f
        (c_dtor c) (c_hook c) (c_err c) (c_files c).
Definition set_dtor (c : cfg) (d : bool) : cfg :=
  mkCfg (c_root c) (c_options c) (c_tab c) (c_prec c) (c_deffmt c) (c_incdir c) (c_incfn c)
        d (c_hook c) (c_err c) (c_files c).
Definition set_chook (c : cfg) (h : option Z) : cfg :=
  mkCfg (c_root c) (c_options c) (c_tab c) (c_prec c) (c_deffmt c) (c_incdir c) (c_incfn c)
        (c_dtor c) h (c_err c) (c_files c).
Definition set_err (c : cfg) (e : errstate) : cfg :=
  mkCfg (c_root c) (c_options c) (c_tab c) (c_prec c) (c_deffmt c) (c_incdir c) (c_incfn c)
        (c_dtor c) (c_hook c) e (c_files c).
Definition set_files (c : cfg) (f : list bytes) : cfg :=
  mkCfg (c_root c) (c_options c) (c_tab c) (c_prec c) (c_deffmt c) (c_incdir c) (c_incfn c)
        (c_dtor c) (c_hook c) (c_err c) f.

(* option bits (libconfig.h) — checked against the header by gen/Consts.v *)
Definition OPT_AUTOCONVERT : Z := 1.
Definition OPT_SEMICOLON : Z := 2.
Definition OPT_COLON_GROUPS : Z := 4.
Definition OPT_COLON_NONGROUPS : Z := 8.
Definition OPT_BRACE_NEWLINE : Z := 16.
Definition OPT_SCI : Z := 32.
Definition OPT_FSYNC : Z := 64.
Definition OPT_OVERRIDES : Z := 128.

(* config_get_option: (options & o) == o, on int *)
Definition get_option (c : cfg) (o : Z) : bool := Z.land (c_options c) o =? o.

(* config_init *)
Definition cfg_init : cfg :=
  mkCfg new_root (Z.lor OPT_SEMICOLON (Z.lor OPT_COLON_GROUPS OPT_BRACE_NEWLINE))
        2 6 0 None IncDefault false None err0 [].
