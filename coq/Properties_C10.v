(* Properties_C10.v — C10: @include is equivalent to textual inlining, with provenance and a depth limit.
   Proved here, about the scanner/include-machine model (Lexer.v) over the compiled tables:
   (a) how include paths are resolved, that every scanned file starts at line 1 at the beginning of a line and its
       tokens carry its own name, where include failures are located, and the depth limit (the resource side is C11);
   (b) THE EQUIVALENCE WITH TEXTUAL INLINING, at the level of the token stream the parser receives (Splice.v):
       for a directive alone on its line whose target is a complete text c (it scans to its end without error, all
       strings and comments terminated, no directive of its own: `plain c`, a closed computable condition on c alone;
       c empty or ending with a line feed), scanning the including text gives the same token values in the same order,
       with the same outcome, as scanning the text with c spliced in at the directive (C10_splice for any buffer at
       any include depth, C10_splice_top for config_read's token stream).  It rests on a compositionality lemma for
       longest-match scanning across the cut points, proved against the compiled automaton by certificates
       (C10_cut_line_feed: in INITIAL and in the comment conditions no match looks past a line feed; C10_cut_quote: in
       STRING and INCLUDE none looks past a double quote), on the append lemma (C10_append) and on the independence of
       token values from the bookkeeping fields of the scanner state (C10_bookkeeping_irrelevant).
   (c) THROUGH THE PARSER AND FOR NESTED INCLUDES (SpliceRead.v, SpliceNest.v): the parser's answer and the tree it builds do
       not depend on the lines and files of the tokens except for the positions it records (C10_parser_position_irrelevant,
       mutual induction over the parsing functions), so config_read of the including text and of the spliced text have the
       same outcome and the same configuration - settings, order, names, types, values, formats - up to the recorded
       source lines and files, which are the provenance clause (C10_splice_read); and for include forests of any shape
       within the depth limit (every directive alone on its line, resolving to one existing file whose text is complete),
       reading the top file equals reading the fully flattened text (C10_flatten_tokens, C10_flatten_read; induction on the
       depth budget and on the forest).
   Not proved: include functions returning several files, directives followed by more text on the same line (there b_bol
   genuinely differs), error outcomes (missing targets, depth overflow) under flattening.  Those cases are compared on
   every run on generated include forests against config_read_string of the spliced text, on the model and on the real
   library.
   Known finding F13 (kept, see known_findings.json): when an include function returns several paths and a
   LATER one cannot be opened, the error names the missing file and the line count of the previously
   included file instead of the directive (scanner.l <<EOF>> rule); the model mirrors it (lex_files) and
   C10_later_file_error_refuted exhibits it. *)
From Coq Require Import List ZArith Bool Lia.
Import ListNotations.
From LC Require Import Base Tree Fp Api ApiStep TreeFacts ApiFacts ScanAction FlexEngine Bisim Tokens Lexer LexFacts Parser Reader ScannerCert Splice SpliceRead SpliceNest.
From LC.gen Require Import Consts ScannerTables.
Local Open Scope Z_scope.

(* relative paths are resolved against the include directory with a '/', absolute paths are not, and
   without an include directory the path is used as written (config_default_include_func) *)
Theorem C10_paths : forall incdir path,
  call_incfn incdir IncDefault path =
  ([], None, Some [match incdir with
                   | Some d => if is_relative path then d ++ [47] ++ path else path
                   | None => path end]).
Proof. reflexivity. Qed.
Print Assumptions C10_paths.

(* a custom include function may return several paths: they are scanned in order in one frame *)
Theorem C10_multi : forall incdir ps path, call_incfn incdir (IncMulti ps) path = ([LvIncl path], None, Some ps).
Proof. reflexivity. Qed.

(* every file of an include frame is scanned from line 1, at the beginning of a line, in a buffer of its
   own (so line numbers are per file), and while it is scanned the current file name is its name *)
Theorem C10_file_starts_fresh : forall T re ac atof FS incdir incf md d st content,
  lex_depth T re ac atof FS incdir incf md d st content =
  lex_buf T re ac atof FS incdir incf md
          (match d with O => None | S d' => Some (lex_files FS (lex_depth T re ac atof FS incdir incf md d')) end)
          (S (length content)) st (mkBuf content true 1).
Proof. intros. destruct d; reflexivity. Qed.
Print Assumptions C10_file_starts_fresh.

Theorem C10_tokens_carry_file : forall st line t err, lt_file (fst (emit st line t err)) = cur_name st /\
                                                      lt_line (fst (emit st line t err)) = line.
Proof. intros. split; reflexivity. Qed.

(* the parser stamps a named setting with the line and file of its name token *)
Theorem C10_setting_position : forall ov s parent name s' sp,
  act_name ov s parent name = Some (s', sp) ->
  exists k, get_at sp (p_root s') = Some k /\ s_line k = p_line s /\ s_file k = p_file s.
Proof.
  intros ov s parent name s' sp. unfold act_name.
  destruct (get_at parent (p_root s)) as [ps|] eqn:G; [|discriminate].
  destruct (Api.n_add ov ps (Some name) 0) as [[[ps' i] v]|] eqn:A; [|discriminate].
  intros E. injection E as <- <-.
  destruct (n_add_spec _ _ _ _ _ _ _ A) as (t & Ht & Hi & Hv). cbv zeta in Hi, Hv.
  assert (Hne : s_kids ps' <> []).
  { destruct v as [v|].
    - destruct Hv as (_ & j & _ & _ & ->). rewrite s_kids_set_kids. intros E0. apply app_eq_nil in E0 as [_ E0]. discriminate.
    - destruct Hv as (_ & ->). rewrite s_kids_set_kids. intros E0. apply app_eq_nil in E0 as [_ E0]. discriminate. }
  assert (Hk : exists k0, nth_error (s_kids ps') i = Some k0).
  { destruct (nth_error (s_kids ps') i) eqn:N; [eauto|]. apply nth_error_None in N.
    destruct (s_kids ps'); [congruence|]. cbn [length] in *. lia. }
  destruct Hk as [k0 Hk0].
  exists (set_pos k0 (p_line s) (p_file s)). split.
  - cbn [p_root set_proot]. rewrite TreeFacts.get_at_app.
    rewrite (TreeFacts.get_at_upd_at_same parent _ (p_root s) ps G). cbn [get_at].
    rewrite TreeFacts.s_kids_set_kids. rewrite (TreeFacts.nth_error_list_upd_same _ _ _ _ Hk0). reflexivity.
  - destruct k0; split; reflexivity.
Qed.
Print Assumptions C10_setting_position.

(* the depth limit and the location of include failures, at the level of one scanner step on the closing
   quote of a directive (the rule whose action is AIncludeEnd) *)
Section Step.
  Variables (T : tables) (re : list Z) (ac : list (Z * action)) (atof : bytes -> Z) (FS : fs)
            (incdir : option bytes) (incf : incfn) (md : Z).
  Variables (st : lstate) (b : buf) (rule : Z) (len : nat).
  Hypothesis Hm : flex_match T (l_cond st) (b_bol b) (b_rest b) = Some (rule, S len).
  Hypothesis Ha : action_of ac rule = AIncludeEnd.

  Let text := firstn (S len) (b_rest b).
  Let line' := if nthZ re rule =? 0 then b_line b else b_line b + count_nl text.

  (* deeper than the limit: "include file nesting too deep", located at the directive (current file, its line) *)
  Theorem C10_too_deep :
    Z.of_nat (length (l_names st)) - 1 = md ->
    exists tk st', lex_step T re ac atof FS incdir incf md st b = SStop [tk] StopError st' line' /\
                   lt_tok tk = TkError /\ lt_err tk = Some (ERR_INCLUDE_TOO_DEEP, cur_name st, line').
  Proof.
    intros Hd. unfold lex_step. rewrite Hm, Ha. cbv zeta. fold text. fold line'.
    cbn [set_acc l_names]. replace (Z.of_nat (length (l_names st)) - 1 =? md) with true by (symmetry; apply Z.eqb_eq; exact Hd).
    unfold stop_error, emit. eexists. eexists. split; [reflexivity|]. split; reflexivity.
  Qed.

  (* a missing (or directory) first target, or an include-function error: a parse error that locates the
     directive *)
  Theorem C10_missing_target : forall path1 rest evs,
    Z.of_nat (length (l_names st)) - 1 <> md ->
    call_incfn incdir incf (until_nul (l_acc st)) = (evs, None, Some (path1 :: rest)) ->
    fs_lookup FS path1 = None ->
    exists tk st', lex_step T re ac atof FS incdir incf md st b = SStop [tk] StopError st' line' /\
                   lt_tok tk = TkError /\ lt_err tk = Some (ERR_BAD_INCLUDE, cur_name st, line').
  Proof.
    intros path1 rest evs Hd Hc Hf. unfold lex_step. rewrite Hm, Ha. cbv zeta. fold text. fold line'.
    cbn [set_acc l_names]. replace (Z.of_nat (length (l_names st)) - 1 =? md) with false by (symmetry; apply Z.eqb_neq; exact Hd).
    cbn [l_acc set_acc] in *. rewrite Hc. rewrite Hf.
    unfold stop_error, emit. eexists. eexists. split; [reflexivity|]. split; [reflexivity|].
    cbn [lt_err]. f_equal. f_equal. f_equal. unfold cur_name, add_files. cbn [l_names].
    clear. induction evs as [|e r IH] using rev_ind; [reflexivity|]. rewrite fold_left_app. cbn. exact IH.
  Qed.

  Theorem C10_include_function_error : forall msg evs files,
    Z.of_nat (length (l_names st)) - 1 <> md ->
    call_incfn incdir incf (until_nul (l_acc st)) = (evs, Some msg, files) ->
    exists tk st', lex_step T re ac atof FS incdir incf md st b = SStop [tk] StopError st' line' /\
                   lt_tok tk = TkError /\ exists f, lt_err tk = Some (msg, f, line') /\ f = cur_name st.
  Proof.
    intros msg evs files Hd Hc. unfold lex_step. rewrite Hm, Ha. cbv zeta. fold text. fold line'.
    cbn [set_acc l_names]. replace (Z.of_nat (length (l_names st)) - 1 =? md) with false by (symmetry; apply Z.eqb_neq; exact Hd).
    cbn [l_acc set_acc] in *. rewrite Hc.
    unfold stop_error, emit. eexists. eexists. split; [reflexivity|]. split; [reflexivity|].
    eexists. split; [reflexivity|]. unfold cur_name. cbn [l_names].
    clear. induction evs as [|e r IH] using rev_ind; [reflexivity|]. rewrite fold_left_app. cbn. exact IH.
  Qed.
End Step.

(* ---- the depth limit on concrete chains (evaluated on the compiled tables): a chain of 10 nested files
   reads; an 11th level, and a file including itself, fail with the nesting error ---- *)
Definition inc_line (n : Z) : bytes := [64;105;110;99;108;117;100;101;32;34;102] ++ show_dec n ++ [34;10].   (* @include "f<n>" *)
Fixpoint chain (k : nat) (n : Z) : fs :=
  match k with
  | O => [([102] ++ show_dec n, FFile [120;61;49;59;10])]                                  (* x=1; *)
  | S k' => ([102] ++ show_dec n, FFile (inc_line (n + 1))) :: chain k' (n + 1)
  end.
Definition read_chain (k : nat) : list token * lstop :=
  let '(toks, stop) := lex_top (fun _ => 0) (chain k 1) cfg_init None (inc_line 1) in (map lt_tok toks, stop).

Example C10_depth_10_ok : read_chain 9 = ([TkName [120]; TkP TEquals; TkInt 1; TkP TSemicolon; TkEOF], StopEOB).
Proof. vm_compute. reflexivity. Qed.
Example C10_depth_11_fails : read_chain 10 = ([TkError], StopError).
Proof. vm_compute. reflexivity. Qed.
Example C10_cycle_fails :
  let '(toks, stop) := lex_top (fun _ => 0) [([102], FFile ([64;105;110;99;108;117;100;101;32;34;102;34;10]))] cfg_init None
                               [64;105;110;99;108;117;100;101;32;34;102;34;10] in
  (map lt_tok toks, stop, map lt_err toks) = ([TkError], StopError, [Some (ERR_INCLUDE_TOO_DEEP, Some [102], 1)]).
Proof. vm_compute. reflexivity. Qed.

(* F13: a later file of a multi-path include that cannot be opened is reported with its own name *)
Example C10_later_file_error_refuted :
  let c := set_incfn cfg_init (IncMulti [[97]; [98]]) in
  let '(toks, stop) := lex_top (fun _ => 0) [([97], FFile [120;61;49;59;10;10;10])] c None
                               [10;10;64;105;110;99;108;117;100;101;32;34;122;34;10] in
  map lt_err toks = [None; None; None; None; Some (ERR_BAD_INCLUDE, Some [98], 4)].
Proof. vm_compute. reflexivity. Qed.


(* ------------------------------------------------------------------------------------------------------- *)
(* (b) include = textual inlining (Splice.v)                                                                *)
(* ------------------------------------------------------------------------------------------------------- *)

(* longest-match scanning is compositional at the cut points, for the compiled automaton: in INITIAL and the two
   comment conditions a match never looks past a line feed ... *)
Theorem C10_cut_line_feed : forall sc bol x tail,
  sc = 0 \/ sc = 1 \/ sc = 2 -> bytes_ok x -> bytes_ok tail -> x <> [] -> last x 0 = 10 ->
  flex_match ScannerCert.the_tables sc bol (x ++ tail) = flex_match ScannerCert.the_tables sc bol x.
Proof. exact cut_last_nl. Qed.
Print Assumptions C10_cut_line_feed.
(* ... and in STRING and INCLUDE never past a double quote *)
Theorem C10_cut_quote : forall sc bol x tail,
  sc = 3 \/ sc = 4 -> bytes_ok x -> bytes_ok tail -> In 34 x ->
  flex_match ScannerCert.the_tables sc bol (x ++ tail) = flex_match ScannerCert.the_tables sc bol x.
Proof. exact cut_quote. Qed.
Print Assumptions C10_cut_quote.

(* scanning c ++ tail, for a complete text c: the tokens of c, then the scan of tail from the beginning of a line, in
   the same frame, at the line after c *)
Theorem C10_append : forall atof FS incdir incf max_depth di c tail st line fuel,
  plain atof c -> bytes_ok tail -> l_cond st = 0 -> l_acc st = [] -> (length (c ++ tail) < fuel)%nat ->
  exists ltoks st' fuel',
    lex_buf ScannerCert.the_tables yy_rule_can_match_eol yy_actions atof FS incdir incf max_depth di fuel st (mkBuf (c ++ tail) true line) =
      (let '(t, s, st'', l) := lex_buf ScannerCert.the_tables yy_rule_can_match_eol yy_actions atof FS incdir incf max_depth di fuel' st'
                                       (mkBuf tail true (line + count_nl c)) in (ltoks ++ t, s, st'', l)) /\
    map lt_tok ltoks = plain_toks atof c /\ l_cond st' = 0 /\ l_acc st' = [] /\ l_names st' = l_names st /\
    l_open st' = l_open st /\ l_files st' = l_files st /\ (length tail < fuel')%nat.
Proof. exact append_plain. Qed.
Print Assumptions C10_append.

(* token values, outcome and the final (condition, accumulator, file-name stack) do not depend on the open-stream
   list, the recorded file names, the pending events nor the line numbers the scan starts with (any tables) *)
Theorem C10_bookkeeping_irrelevant : forall T rule_eol actions atof FS incdir incf max_depth d st1 st2 content,
  sim st1 st2 ->
  res4_sim (lex_depth T rule_eol actions atof FS incdir incf max_depth d st1 content)
           (lex_depth T rule_eol actions atof FS incdir incf max_depth d st2 content).
Proof. exact lex_depth_sim. Qed.
Print Assumptions C10_bookkeeping_irrelevant.

(* the splice theorem, for a buffer at any include depth *)
Theorem C10_splice : forall atof FS incdir incf max_depth st dir post c f d line fuel1 fuel2,
  l_cond st = 0 -> l_acc st = [] ->
  directive atof FS incdir incf max_depth st (mkBuf (dir ++ post) true line) [f] post ->
  fs_lookup FS f = Some (FFile c) -> plain atof c ->
  (post = [] \/ exists post', post = 10 :: post') -> bytes_ok post ->
  (length (dir ++ post) < fuel1)%nat -> (length (c ++ post) < fuel2)%nat ->
  let '(toks1, stop1, st1, _) :=
    lex_buf ScannerCert.the_tables yy_rule_can_match_eol yy_actions atof FS incdir incf max_depth
            (Some (lex_files FS (lex_depth ScannerCert.the_tables yy_rule_can_match_eol yy_actions atof FS incdir incf max_depth d)))
            fuel1 st (mkBuf (dir ++ post) true line) in
  let '(toks2, stop2, st2, _) :=
    lex_buf ScannerCert.the_tables yy_rule_can_match_eol yy_actions atof FS incdir incf max_depth
            (Some (lex_files FS (lex_depth ScannerCert.the_tables yy_rule_can_match_eol yy_actions atof FS incdir incf max_depth d)))
            fuel2 st (mkBuf (c ++ post) true line) in
  map lt_tok toks1 = map lt_tok toks2 /\ stop1 = stop2 /\
  l_cond st1 = l_cond st2 /\ l_acc st1 = l_acc st2 /\ l_names st1 = l_names st2.
Proof. exact splice. Qed.
Print Assumptions C10_splice.

(* for the token stream config_read parses: a top-level text pre ++ directive ++ post *)
Theorem C10_splice_top : forall atof FS cfg top pre dir post c f,
  plain atof pre -> plain atof c -> bytes_ok dir -> bytes_ok post -> (post = [] \/ exists post', post = 10 :: post') ->
  directive atof FS (c_incdir cfg) (c_incfn cfg) MAX_INCLUDE_DEPTH (lstate0 top) (mkBuf (dir ++ post) true 1) [f] post ->
  fs_lookup FS f = Some (FFile c) ->
  let '(toks1, stop1) := lex_top atof FS cfg top (pre ++ dir ++ post) in
  let '(toks2, stop2) := lex_top atof FS cfg top (pre ++ c ++ post) in
  map lt_tok toks1 = map lt_tok toks2 /\ stop1 = stop2.
Proof. exact splice_top. Qed.
Print Assumptions C10_splice_top.

(* "plain" is decidable by running the scanner on the text alone *)
Theorem C10_plain_decidable : forall atof c, plainb atof c = true -> plain atof c.
Proof. exact plainb_sound. Qed.

(* non-vacuity: x = 1;<LF>@include "f"<LF>y = 2;<LF> with f = s = "a<LF>b"; # k<LF>n = 42;<LF> -- the hypotheses hold and
   both sides evaluate to the same 17 tokens *)
Example C10_splice_example :
  plain ex_atof ex_c /\ plain ex_atof ex_pre /\
  (let '(toks1, stop1) := lex_top ex_atof ex_fs cfg_init None (ex_pre ++ ex_dir ++ ex_post) in
   let '(toks2, stop2) := lex_top ex_atof ex_fs cfg_init None (ex_pre ++ ex_c ++ ex_post) in
   map lt_tok toks1 = map lt_tok toks2 /\ stop1 = stop2).
Proof. split; [exact ex_c_plain|]. split; [exact ex_pre_plain|]. exact ex_splice. Qed.


(* ------------------------------------------------------------------------------------------------------- *)
(* (c) through the parser, and nested includes (SpliceRead.v, SpliceNest.v)                                 *)
(* ------------------------------------------------------------------------------------------------------- *)

(* two token streams with the same token values are answered alike by config_read: same outcome, same configuration up
   to the recorded source positions (unpos resets s_line / s_file everywhere) *)
Theorem C10_parser_position_irrelevant : forall atof FS c top text1 text2,
  (let '(t1, p1) := lex_top atof FS (set_files (set_root (set_err c err0) new_root) []) top text1 in
   let '(t2, p2) := lex_top atof FS (set_files (set_root (set_err c err0) new_root) []) top text2 in
   map lt_tok t1 = map lt_tok t2 /\ p1 = p2) ->
  rd_out_ (config_read atof FS c top text1) = rd_out_ (config_read atof FS c top text2) /\
  unpos (c_root (rd_cfg (config_read atof FS c top text1))) = unpos (c_root (rd_cfg (config_read atof FS c top text2))).
Proof. exact config_read_tokens. Qed.
Print Assumptions C10_parser_position_irrelevant.

(* reading a text with an include directive = reading the text with the file spliced in *)
Theorem C10_splice_read : forall atof FS c top pre dir post content f,
  plain atof pre -> plain atof content -> bytes_ok dir -> bytes_ok post -> (post = [] \/ exists post', post = 10 :: post') ->
  directive atof FS (c_incdir c) (c_incfn c) MAX_INCLUDE_DEPTH (lstate0 top) (mkBuf (dir ++ post) true 1) [f] post ->
  fs_lookup FS f = Some (FFile content) ->
  let r1 := config_read atof FS c top (pre ++ dir ++ post) in
  let r2 := config_read atof FS c top (pre ++ content ++ post) in
  rd_out_ r1 = rd_out_ r2 /\ unpos (c_root (rd_cfg r1)) = unpos (c_root (rd_cfg r2)).
Proof. exact splice_read. Qed.
Print Assumptions C10_splice_read.

(* include forests: text_of t is the top text with its directives, flat t the text with every file spliced in at its
   directive, recursively; wf t says every directive is alone on its line and resolves to one existing file whose own text
   is complete; idepth t is the nesting depth *)
Theorem C10_flatten_tokens : forall atof FS c top t,
  wf atof FS (c_incdir c) (c_incfn c) MAX_INCLUDE_DEPTH t -> (idepth t <= Z.to_nat MAX_INCLUDE_DEPTH)%nat ->
  let '(toks1, stop1) := lex_top atof FS c top (text_of t) in
  let '(toks2, stop2) := lex_top atof FS c top (flat t) in
  map lt_tok toks1 = map lt_tok toks2 /\ stop1 = stop2.
Proof. exact flatten_tokens. Qed.
Print Assumptions C10_flatten_tokens.

Theorem C10_flatten_read : forall atof FS c top t,
  wf atof FS (c_incdir c) (c_incfn c) MAX_INCLUDE_DEPTH t -> (idepth t <= Z.to_nat MAX_INCLUDE_DEPTH)%nat ->
  let r1 := config_read atof FS c top (text_of t) in
  let r2 := config_read atof FS c top (flat t) in
  rd_out_ r1 = rd_out_ r2 /\ unpos (c_root (rd_cfg r1)) = unpos (c_root (rd_cfg r2)).
Proof. exact flatten_read. Qed.
Print Assumptions C10_flatten_read.

(* non-vacuity: a two-level forest (top includes f; f holds a multi-line string, a comment and an include of g) is
   well-formed, and the theorem applies to it *)
Example C10_flatten_example :
  wf ex_atof n_fs (c_incdir cfg_init) (c_incfn cfg_init) MAX_INCLUDE_DEPTH n_top /\
  (let r1 := config_read ex_atof n_fs cfg_init None (text_of n_top) in
   let r2 := config_read ex_atof n_fs cfg_init None (flat n_top) in
   rd_out_ r1 = rd_out_ r2 /\ unpos (c_root (rd_cfg r1)) = unpos (c_root (rd_cfg r2))).
Proof. split; [exact n_top_wf | exact n_top_flatten]. Qed.
