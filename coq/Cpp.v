(* Cpp.v — the C++ binding (lib/libconfigcpp.c++) as functions over the model of the C API.  Every C++
   member function is a guard (assertType, range test, NULL test) around calls of C functions, so the
   model is written the same way: guards here, the C calls are those of Api.v / ApiStep.v.
   Wrapper objects (class Setting, created on demand by Setting::wrapSetting and remembered in the
   setting's hook) are modelled by the hook field holding WRAPPER.  Definitions only. *)
From Coq Require Import List ZArith Bool.
Import ListNotations.
From LC Require Import Base Tree Fp Lookup Api ApiStep.
Local Open Scope Z_scope.

Inductive exn :=
| XNotFound | XType | XRange | XName
| XParse (file : option bytes) (line : Z) (text : option bytes)
| XFileIO.

(* result of a C++ call: a value, or an exception leaving the call *)
Inductive xret := XR (r : ret) | XT (e : exn).

(* the C++ types a setting can be converted to *)
Inductive ck := CkInt | CkUInt | CkLL | CkULL | CkDouble | CkBool | CkString.

(* Setting::Type enumerators (libconfig.h++) *)
Definition cpp_type (t : ty) : Z :=
  match t with
  | TNone => 0 | TInt => 1 | TInt64 => 2 | TFloat => 3 | TString => 4 | TBool => 5
  | TGroup => 6 | TArray => 7 | TList => 8
  end.

(* __toTypeCode: enumerator to CONFIG_TYPE_*; anything else is CONFIG_TYPE_NONE *)
Definition to_type_code (t : Z) : Z :=
  if t =? 1 then 2 else if t =? 2 then 3 else if t =? 3 then 4 else if t =? 4 then 5
  else if t =? 5 then 6 else if t =? 6 then 1 else if t =? 7 then 7 else if t =? 8 then 8 else 0.

Definition ty_is_number (t : ty) : bool :=
  match t with TInt | TInt64 | TFloat => true | _ => false end.

(* Setting::assertType(type): passes when the types are equal, or when the setting is a number,
   auto-conversion is on and a numeric type is asked for *)
Definition cpp_assert (c : cfg) (s : setting) (req : ty) : bool :=
  ty_eqb (s_ty s) req || (ty_is_number (s_ty s) && auto c && ty_is_number req).

Definition ret_int (r : ret) (f : Z -> xret) : xret :=
  match r with RInt v => f v | other => XR other end.

Definition UINT_MAX : Z := 4294967295.

(* the conversion operators Setting::operator T() *)
Definition cpp_cast (c : cfg) (k : ck) (s : setting) : xret :=
  match k with
  | CkInt =>
      if ty_eqb (s_ty s) TInt64
      then ret_int (getter c KInt64 s)
                   (fun v => if (v <? INT_MIN) || (INT_MAX <? v) then XT XRange else XR (RInt v))
      else if cpp_assert c s TInt then XR (getter c KInt s) else XT XType
  | CkUInt =>
      if ty_eqb (s_ty s) TInt64
      then ret_int (getter c KInt64 s)
                   (fun v => if (v <? 0) || (UINT_MAX <? v) then XT XRange else XR (RInt v))
      else if cpp_assert c s TInt
           then ret_int (getter c KInt s) (fun v => if v <? 0 then XT XRange else XR (RInt v))
           else XT XType
  | CkLL =>
      if ty_eqb (s_ty s) TInt then XR (getter c KInt s)
      else if cpp_assert c s TInt64 then XR (getter c KInt64 s) else XT XType
  | CkULL =>
      if ty_eqb (s_ty s) TInt
      then ret_int (getter c KInt s) (fun v => if v <? 0 then XT XRange else XR (RInt v))
      else if cpp_assert c s TInt64
           then ret_int (getter c KInt64 s) (fun v => if v <? 0 then XT XRange else XR (RInt v))
           else XT XType
  | CkDouble => if cpp_assert c s TFloat then XR (getter c KFloat s) else XT XType
  | CkBool => if cpp_assert c s TBool then XR (RInt (if n_get_bool s =? 0 then 0 else 1)) else XT XType
  | CkString =>
      if cpp_assert c s TString
      then XR (RStr (Some (match n_get_string s with Some b => b | None => [] end)))
      else XT XType
  end.

(* what a lookupValue overload reports for the outcome of "find the setting, convert it":
   true and the value, or false with the output left as it was *)
Definition look_of (x : xret) : ret :=
  match x with
  | XR RUnspec => RUnspec
  | XR RCrash => RCrash
  | XR r => RLook 1 (Some r)
  | XT _ => RLook 0 None
  end.

(* ------------------------------------------------------------------------------------ *)
(* wrappers *)

Definition WRAPPER : Z := 1.

(* Setting::wrapSetting(s): a wrapper is created and stored in the hook unless there is one *)
Definition wrap (c : cfg) (p : ipath) : cfg :=
  match get_at p (c_root c) with
  | Some s => match s_hook s with
              | None => set_root c (upd_at p (fun x => set_hook x (Some WRAPPER)) (c_root c))
              | Some _ => c
              end
  | None => c
  end.

Definition wrap_prefix (p : ipath) (c : cfg) (n : nat) : cfg := wrap c (firstn n p).

Definition wrap_opt (c : cfg) (o : option ipath) : cfg :=
  match o with Some p => wrap c p | None => c end.

(* ------------------------------------------------------------------------------------ *)
(* operations *)

Inductive xop :=
| XCast (k : ck) (p : ipath)                       (* (T)setting *)
| XLook (k : ck) (path : bytes)                    (* Config::lookupValue(path, T &) *)
| XMLook (k : ck) (p : ipath) (name : bytes)       (* Setting::lookupValue(name, T &) *)
| XExists (path : bytes)                           (* Config::exists *)
| XMExists (p : ipath) (name : bytes)              (* Setting::exists *)
| XLookup (path : bytes)                           (* Config::lookup *)
| XIdx (p : ipath) (i : Z)                         (* Setting::operator[](int) *)
| XMem (p : ipath) (name : bytes)                  (* Setting::operator[](const char * ) *)
| XPath (p : ipath)                                (* Setting::getPath *)
| XInfo (p : ipath)                                (* getType, getFormat, getLength, getIndex, isRoot, is*, getName *)
| XIter (p : ipath)                                (* for(it = begin(); it != end(); ++it) *)
| XAdd (p : ipath) (name : option bytes) (t : Z)   (* Setting::add(name, type) / add(type) *)
| XRm (p : ipath) (name : bytes)                   (* Setting::remove(name) *)
| XRmi (p : ipath) (idx : Z)                       (* Setting::remove(idx) *)
| XSet (k : sk) (p : ipath) (v : arg)              (* setting = value *)
| XSetFmt (p : ipath) (f : Z).                     (* Setting::setFormat *)

(* Setting::operator[](name) on the setting [s] at [p] *)
Definition x_member (c : cfg) (p : ipath) (s : setting) (name : bytes) : option ipath + exn :=
  if cpp_assert c s TGroup then
    match get_member s (Some name) with
    | Some i => inl (Some (p ++ [i]))
    | None => inr XNotFound
    end
  else inr XType.

(* Setting::operator[](int) *)
Definition x_index (p : ipath) (s : setting) (i : Z) : option ipath + exn :=
  if ty_is_aggregate (s_ty s) then
    match get_elem s (to_uint32 i) with
    | Some n => inl (Some (p ++ [n]))
    | None => inr XNotFound
    end
  else inr XType.

(* everything Setting reports about itself, next to what the C functions report *)
Record info := mkInfo {
  i_type : Z; i_fmt : Z; i_len : Z; i_idx : Z; i_root : Z; i_bits : Z; i_name : option bytes }.

Definition idx_of (p : ipath) : Z := match rev p with [] => -1 | i :: _ => Z.of_nat i end.

(* the C++ side: Setting::getType() etc. *)
Definition cpp_info (c : cfg) (p : ipath) (s : setting) : info :=
  mkInfo (cpp_type (s_ty s)) (if n_get_format (c_deffmt c) s =? 1 then 1 else 0) (n_length s) (idx_of p)
         (match p with [] => 1 | _ => 0 end) (kind_bits s) (s_name s).
(* the C side: config_setting_type() etc. *)
Definition c_info (c : cfg) (p : ipath) (s : setting) : info :=
  mkInfo (ty_code (s_ty s)) (n_get_format (c_deffmt c) s) (n_length s) (idx_of p)
         (match p with [] => 1 | _ => 0 end) (kind_bits s) (s_name s).

Inductive xout :=
| XO (x : xret)
| XOInfo (cpp c : info)
| XOIter (kids : list ipath)
| XOPath (path : bytes) (back : option ipath).

Definition bad : cfg -> cfg * xout * list event := fun c => (c, XO (XR RBadHandle), []).

Definition seq_nat (n : nat) : list nat := seq 0 n.

(* api_step with the result and events kept, used for the C calls inside C++ members *)
Definition capi (c : cfg) (o : aop) : cfg * ret * list event := api_step c o.

Definition cpp_step (c : cfg) (o : xop) : cfg * xout * list event :=
  match o with
  | XCast k p =>
      match get_at p (c_root c) with
      | None => bad c
      | Some s => (wrap c p, XO (cpp_cast c k s), [])
      end
  | XLook k path =>
      match lookup (c_root c) path with
      | None => (c, XO (XR (RLook 0 None)), [])
      | Some rel =>
          match get_at rel (c_root c) with
          | Some s => (wrap c rel, XO (XR (look_of (cpp_cast c k s))), [])
          | None => (c, XO (XR RCrash), [])
          end
      end
  | XMLook k p name =>
      match get_at p (c_root c) with
      | None => bad c
      | Some s =>
          let c1 := wrap c p in
          match x_member c p s name with
          | inl (Some q) =>
              match get_at q (c_root c) with
              | Some m => (wrap c1 q, XO (XR (look_of (cpp_cast c k m))), [])
              | None => (c1, XO (XR RCrash), [])
              end
          | _ => (c1, XO (XR (RLook 0 None)), [])
          end
      end
  | XExists path =>
      (c, XO (XR (RInt (match lookup (c_root c) path with Some _ => 1 | None => 0 end))), [])
  | XMExists p name =>
      match get_at p (c_root c) with
      | None => bad c
      | Some s =>
          (wrap c p,
           XO (XR (RInt (if ty_eqb (s_ty s) TGroup
                         then match get_member s (Some name) with Some _ => 1 | None => 0 end
                         else 0))), [])
      end
  | XLookup path =>
      match lookup (c_root c) path with
      | None => (c, XO (XT XNotFound), [])
      | Some rel => (wrap c rel, XO (XR (RNode (Some rel))), [])
      end
  | XIdx p i =>
      match get_at p (c_root c) with
      | None => bad c
      | Some s =>
          let c1 := wrap c p in
          match x_index p s i with
          | inl q => (wrap_opt c1 q, XO (XR (RNode q)), [])
          | inr e => (c1, XO (XT e), [])
          end
      end
  | XMem p name =>
      match get_at p (c_root c) with
      | None => bad c
      | Some s =>
          let c1 := wrap c p in
          match x_member c p s name with
          | inl q => (wrap_opt c1 q, XO (XR (RNode q)), [])
          | inr e => (c1, XO (XT e), [])
          end
      end
  | XPath p =>
      match get_at p (c_root c) with
      | None => bad c
      | Some _ =>
          (* getPath wraps the setting and all its ancestors (getParent) *)
          let c1 := fold_left (wrap_prefix p) (seq_nat (S (length p))) c in
          let path := cpp_path (c_root c) p in
          (c1, XOPath path (match p with [] => Some [] | _ => lookup (c_root c) path end), [])
      end
  | XInfo p =>
      match get_at p (c_root c) with
      | None => bad c
      | Some s => (wrap c p, XOInfo (cpp_info c p s) (c_info c p s), [])
      end
  | XIter p =>
      match get_at p (c_root c) with
      | None => bad c
      | Some s =>
          (* SettingIterator's constructor refuses a setting that is not an aggregate *)
          if negb (ty_is_aggregate (s_ty s)) then (wrap c p, XO (XT XType), [])
          else
            let n := Z.to_nat (n_length s) in
            let kids := map (fun i => p ++ [i]) (seq_nat n) in
            (fold_left wrap kids (wrap c p), XOIter kids, [])
      end
  | XAdd p (Some name) t =>
      match get_at p (c_root c) with
      | None => bad c
      | Some s =>
          let c1 := wrap c p in
          if negb (cpp_assert c s TGroup) then (c1, XO (XT XType), [])
          else if to_type_code t =? 0 then (c1, XO (XT XType), [])
          else
            let '(c2, r, ev) := capi c1 (OAdd p (Some name) (to_type_code t)) in
            match r with
            | RNode (Some q) => (wrap c2 q, XO (XR r), ev)
            | RNode None => (c2, XO (XT XName), ev)
            | other => (c2, XO (XR other), ev)
            end
      end
  | XAdd p None t =>
      match get_at p (c_root c) with
      | None => bad c
      | Some s =>
          let c1 := wrap c p in
          let isarr := ty_eqb (s_ty s) TArray in
          if negb (isarr || ty_eqb (s_ty s) TList) then (c1, XO (XT XType), [])
          else
            let refuse :=
              isarr &&
              match s_kids s with
              | k0 :: _ => negb (t =? cpp_type (s_ty k0))
              | [] => negb ((1 <=? t) && (t <=? 5))
              end in
            (* a non-empty array: operator[](0) wraps the first element *)
            let c1' := if isarr then match s_kids s with _ :: _ => wrap c1 (p ++ [O]) | [] => c1 end else c1 in
            if refuse then (c1', XO (XT XType), [])
            else
              let '(c2, r, ev) := capi c1' (OAdd p None (to_type_code t)) in
              match r with
              | RNode (Some q) =>
                  let c3 := wrap c2 q in
                  (* ns = 0 / 0LL / 0.0 / NULL / false through the assignment operators *)
                  let init := fun k v => fst (fst (capi c3 (OSet k q v))) in
                  let c4 := if t =? 1 then init KInt (AZ 0) else if t =? 2 then init KInt64 (AZ 0)
                            else if t =? 3 then init KFloat (AZ 0) else if t =? 4 then init KString (AS None)
                            else if t =? 5 then init KBool (AZ 0) else c3 in
                  (c4, XO (XR r), ev)
              | RNode None => (c2, XO (XR RCrash), ev)      (* wrapSetting(NULL) *)
              | other => (c2, XO (XR other), ev)
              end
      end
  | XRm p name =>
      match get_at p (c_root c) with
      | None => bad c
      | Some s =>
          let c1 := wrap c p in
          if negb (cpp_assert c s TGroup) then (c1, XO (XT XType), [])
          else
            let '(c2, r, ev) := capi c1 (ORemove p (Some name)) in
            match r with
            | RInt 0 => (c2, XO (XT XNotFound), ev)
            | RInt _ => (c2, XO (XR RUnit), ev)
            | other => (c2, XO (XR other), ev)
            end
      end
  | XRmi p idx =>
      match get_at p (c_root c) with
      | None => bad c
      | Some s =>
          let c1 := wrap c p in
          if negb (ty_is_aggregate (s_ty s)) then (c1, XO (XT XType), [])
          else
            let '(c2, r, ev) := capi c1 (ORemoveElem p idx) in
            match r with
            | RInt 0 => (c2, XO (XT XNotFound), ev)
            | RInt _ => (c2, XO (XR RUnit), ev)
            | other => (c2, XO (XR other), ev)
            end
      end
  | XSet k p v =>
      match get_at p (c_root c) with
      | None => bad c
      | Some s =>
          let c1 := wrap c p in
          if negb (cpp_assert c s (sk_ty k)) then (c1, XO (XT XType), [])
          else
            let '(c2, r, ev) := capi c1 (OSet k p v) in
            match r with
            | RInt _ => (c2, XO (XR RUnit), ev)          (* the C result is not looked at *)
            | other => (c2, XO (XR other), ev)
            end
      end
  | XSetFmt p f =>
      match get_at p (c_root c) with
      | None => bad c
      | Some s =>
          let c1 := wrap c p in
          let f' := match s_ty s with TInt | TInt64 => if f =? 1 then 1 else 0 | _ => 0 end in
          let '(c2, _, ev) := capi c1 (OSetFormat p f') in
          (c2, XO (XR RUnit), ev)
      end
  end.

(* Config::handleError after a failed read or write *)
Definition handle_error (c : cfg) : exn :=
  let e := c_err c in
  if e_type e =? 2 then XParse (e_file e) (e_line e) (e_text e) else XFileIO.

(* Config::readString / readFile / writeFile: the C call's success decides *)
Definition x_io_result (ok : bool) (c_after : cfg) : xret :=
  if ok then XR RUnit
  else if e_type (c_err c_after) =? 0 then XR RUnit      (* CONFIG_ERR_NONE: handleError returns *)
  else XT (handle_error c_after).
