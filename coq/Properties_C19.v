(* Properties_C19.v — C19: output options change presentation only, exactly as documented.
   Theorems only (proofs in WriterFacts.v).  write_value / config_write (Writer.v) model __config_write_value
   / config_write.  The writer's output is decomposed into pieces (WriterFacts.pieces): layout (indentation,
   newlines, blanks), the option-governed tokens (the assignment character, semicolons), brackets and commas,
   names, and scalars with their own format; render gives each piece its characters.

   The statement is at the level of the writer's pieces: that the scanner splits the written text into
   exactly these pieces is the lexing half of C01 (there: partial).  The check tokenises the real output with
   the documented tokenizer on every run. *)
From Coq Require Import List ZArith Bool.
Import ListNotations.
From LC Require Import Base Tree Api Writer TreeFacts WriterFacts Tokens Lexer Parser Reader LexWrite ParseWrite OptFacts OptRead.
Local Open Scope Z_scope.

(* the output is exactly the rendering of the pieces, in order *)
Theorem C19_output_is_pieces : forall fmt c s depth,
  write_value fmt c s depth = render_all fmt c (pieces c s depth).
Proof. exact write_value_pieces. Qed.
Print Assumptions C19_output_is_pieces.

(* for any configuration and ANY two option vectors, tab widths, precisions, default formats (c1, c2 are
   arbitrary configurations: only the settings are shared): after removing layout and semicolons, and
   identifying the two assignment characters, the piece sequences are identical — names, brackets, commas
   and scalars (value and own format) are untouched by every output option *)
Theorem C19_tokens_invariant : forall c1 c2 s depth,
  0 < depth -> erase (pieces c1 s depth) = erase (pieces c2 s depth).
Proof. intros c1 c2 s depth H. rewrite !pieces_sems by exact H. reflexivity. Qed.
Print Assumptions C19_tokens_invariant.

(* the same for the whole configuration (the root group is written without braces) *)
Theorem C19_tokens_invariant_root : forall c1 c2 n kids f h l fi,
  erase (pieces c1 (Setting n PGroup kids f h l fi) 0) = erase (pieces c2 (Setting n PGroup kids f h l fi) 0).
Proof. intros. rewrite !pieces_sems_root. reflexivity. Qed.
Print Assumptions C19_tokens_invariant_root.

(* what each option governs: the characters of exactly one kind of piece *)
Theorem C19_option_effects : forall fmt c,
  (forall g, render fmt c (PAssign g) = [if g then (if get_option c OPT_COLON_GROUPS then 58 else 61)
                                          else (if get_option c OPT_COLON_NONGROUPS then 58 else 61)]) /\
  (semi_pieces c = if get_option c OPT_SEMICOLON then [PSemi] else []) /\
  (forall pl f, render fmt c (PScalar pl f) = write_scalar fmt c pl (if f =? 0 then c_deffmt c else f)) /\
  (forall b f, render fmt c (PScalar (PFloat b) f) = fmt b (c_prec c) (get_option c OPT_SCI)) /\
  (forall v, render fmt c (PScalar (PInt v) 0) =
             if c_deffmt c =? 1 then [48; 120] ++ show_hex_upper (to_uint32 v) else show_dec v) /\
  (forall v, render fmt c (PScalar (PInt v) 1) = [48; 120] ++ show_hex_upper (to_uint32 v)) /\
  (forall n, render fmt c (PName n) = n).
Proof.
  intros fmt c. repeat split; try reflexivity;
    try (intros g; unfold render, assign_char; destruct g; reflexivity).
Qed.
Print Assumptions C19_option_effects.

(* each group member is written on its own line: the pieces of a group are its opening, one member_line per
   member (indentation of the member's depth, name, assignment, value, optional semicolon, newline), and
   its closing *)
Theorem C19_member_lines : forall c n kids f h l fi depth,
  pieces c (Setting n PGroup kids f h l fi) depth =
  (if 0 <? depth then
     (if get_option c OPT_BRACE_NEWLINE then [PNl] ++ (if 1 <? depth then [PIndent depth] else []) else [])
     ++ [POpen PGroup; PNl]
   else []) ++
  flat_map (fun m => member_line c m (depth + 1)) kids ++
  (if 1 <? depth then [PIndent depth] else []) ++ (if 0 <? depth then [PClose PGroup] else []).
Proof. exact group_is_lines. Qed.
Print Assumptions C19_member_lines.

(* ... indented by (depth - 1) x tab width spaces, one tab per level when the width is 0; the width itself
   is at most 15 because config_set_tab_width clamps it (C05_tab_width_clamped) *)
Theorem C19_indentation : forall fmt c d,
  1 < d ->
  render fmt c (PIndent d) = if c_tab c =? 0 then replicate (Z.to_nat (d - 1)) 9
                             else if 1 <=? c_tab c then replicate (Z.to_nat ((d - 1) * c_tab c)) 32
                             else [32].
Proof. intros fmt c d H. exact (indent_spec c d H). Qed.
Print Assumptions C19_indentation.

(* non-vacuity: one tree, two very different option vectors *)
Definition ex19 : setting :=
  Setting None PGroup
    [Setting (Some [97]) (PInt 255) [] 0 None 0 None;
     Setting (Some [103]) PGroup [Setting (Some [108]) PList [Setting None (PFloat 4609434218613702656) [] 0 None 0 None;
                                                             Setting None (PStr (Some [120])) [] 0 None 0 None] 0 None 0 None]
             0 None 0 None] 0 None 0 None.
Definition cfg19a := mkCfg ex19 22 2 6 0 None IncDefault false None err0 [].
Definition cfg19b := mkCfg ex19 8 0 3 1 None IncDefault false None err0 [].
Example C19_example :
  config_write (fun _ _ _ => [49; 46; 53]) cfg19a <> config_write (fun _ _ _ => [49; 46; 53]) cfg19b /\
  erase (pieces cfg19a ex19 0) = erase (pieces cfg19b ex19 0).
Proof. split; [vm_compute; discriminate | reflexivity]. Qed.

(* ---- the same statement on the compiled scanner (from the C01 development): two configurations with the same
   tree and the same spelling attributes (default format, precision, scientific notation), whatever their other
   output options and tab widths, are written as texts that the flex automaton of the generated tables reads as
   the same token sequence, semicolons aside ---- *)
Theorem C19_scanner_tokens_option_free : forall fmt_double atof FS c c' c2 kids f h l fi,
  c_root c = Setting None PGroup kids f h l fi -> c_root c' = c_root c -> kids <> [] ->
  writable fmt_double atof c (c_root c) -> writable fmt_double atof c' (c_root c') -> same_spelling c c' ->
  exists toks toks',
    lex_top atof FS c2 None (config_write fmt_double c) = (toks, StopEOB) /\
    lex_top atof FS c2 None (config_write fmt_double c') = (toks', StopEOB) /\
    filter not_semi (map lt_tok toks') = filter not_semi (map lt_tok toks).
Proof. exact scanner_tokens_option_free. Qed.
Print Assumptions C19_scanner_tokens_option_free.


(* ------------------------------------------------------------------------------------------------------- *)
(* through the parser: the options are invisible after a write - read round trip (OptRead.v)                 *)
(* ------------------------------------------------------------------------------------------------------- *)

(* two configurations with the same tree, the same default format, float precision and notation, and ANY other output
   settings (semicolons, colon assignment, brace placement, tab width, ...): both written texts are read back successfully
   and the two re-read trees are the same (names, order, types, values, effective formats) *)
Theorem C19_options_invisible : forall fmt_double atof FS c c' c2 c2' kids f h l fi,
  c_root c = Setting None PGroup kids f h l fi -> kids <> [] ->
  c_root c' = c_root c -> same_spelling c c' ->
  writable fmt_double atof c (c_root c) -> pstruct (c_root c) ->
  nest_of (flat_map (piece_tok fmt_double atof c) (pieces c (c_root c) 0) ++ [TkEOF]) 0 0 <= NEST_LIMIT ->
  let r := config_read atof FS c2 None (config_write fmt_double c) in
  let r' := config_read atof FS c2' None (config_write fmt_double c') in
  rd_out_ r = RdOk /\ rd_out_ r' = RdOk /\
  obs (c_root (rd_cfg r')) = obs (c_root (rd_cfg r)) /\
  obs (c_root (rd_cfg r)) = ON None PGroup 0 (map (fun m => nobs fmt_double atof c (s_name m) m) kids).
Proof. exact options_invisible. Qed.
Print Assumptions C19_options_invisible.

(* float precision and notation change the float VALUES read back (each is the strtod of its rendering) and nothing else *)
Theorem C19_precision_changes_floats_only : forall fmt_double atof FS c c' c2 c2' kids f h l fi,
  c_root c = Setting None PGroup kids f h l fi -> kids <> [] ->
  c_root c' = c_root c -> c_deffmt c' = c_deffmt c ->
  writable fmt_double atof c (c_root c) -> writable fmt_double atof c' (c_root c') -> pstruct (c_root c) ->
  nest_of (flat_map (piece_tok fmt_double atof c) (pieces c (c_root c) 0) ++ [TkEOF]) 0 0 <= NEST_LIMIT ->
  nest_of (flat_map (piece_tok fmt_double atof c') (pieces c' (c_root c') 0) ++ [TkEOF]) 0 0 <= NEST_LIMIT ->
  let r := config_read atof FS c2 None (config_write fmt_double c) in
  let r' := config_read atof FS c2' None (config_write fmt_double c') in
  rd_out_ r = RdOk /\ rd_out_ r' = RdOk /\
  erase_floats (obs (c_root (rd_cfg r'))) = erase_floats (obs (c_root (rd_cfg r))) /\
  obs (c_root (rd_cfg r)) = ON None PGroup 0 (map (fun m => nobs fmt_double atof c (s_name m) m) kids) /\
  obs (c_root (rd_cfg r')) = ON None PGroup 0 (map (fun m => nobs fmt_double atof c' (s_name m) m) kids).
Proof. exact precision_changes_floats_only. Qed.
Print Assumptions C19_precision_changes_floats_only.

(* non-vacuity: the example configuration under another option vector and tab width: the texts differ, the re-read trees
   do not *)
Example C19_options_invisible_example :
  same_spelling RoundExample.ex_cfg ex_cfg' /\
  config_write Run.fmt_double ex_cfg' <> config_write Run.fmt_double RoundExample.ex_cfg.
Proof. exact (conj ex_same_spelling ex_texts_differ). Qed.
