(* FloatLexeme.v — C08 for float literals: the whole class of float lexemes of scanner.l goes through strtod's parsing layer
   (white space, sign, inf/nan/hex dispatch, digit spans, saturated exponent) to b64_of_decimal on the digits and the decimal
   exponent, and the double stored is the correctly rounded one (round-half-even to 53 bits or to the denormal grid), +-0 for
   an all-zero literal, +0 for a literal without any digit, or the infinity pattern (then the token is rejected). *)
From Coq Require Import List ZArith Bool Lia.
Import ListNotations.
From LC Require Import Base BaseFacts Fp FloatDec RoundFacts RoundSpec FloatStable FloatStableG.
Local Open Scope Z_scope.

(* ------------------------------------------------------------------------------------------ *)
(* the float lexemes                                                                           *)
(* ------------------------------------------------------------------------------------------ *)
(* scanner.l: sign? digit-star point digit-star exponent?   or   sign? digit-plus (point digit-star)? exponent,
   with exponent = [eE] sign? digit-plus, sign = [-+].
   sg: "", "+" or "-";  I, F: the digit VALUES before and after the point;  hasdot: is there a point;
   ex: the exponent part, None or Some (the letter e/E, its sign "", "+" or "-", its digit values). *)

Definition is_sign3 (sg : bytes) : Prop := sg = [] \/ sg = [43] \/ sg = [45].
Definition neg3 (sg : bytes) : bool := match sg with 45 :: _ => true | _ => false end.

Definition exp_chars (ex : option (Z * bytes * list Z)) : bytes :=
  match ex with None => [] | Some (ec, es, Xd) => ec :: es ++ dec_chars Xd end.

Definition lexeme_of (sg : bytes) (I : list Z) (hasdot : bool) (F : list Z) (ex : option (Z * bytes * list Z)) : bytes :=
  sg ++ dec_chars I ++ (if hasdot then 46 :: dec_chars F else []) ++ exp_chars ex.

Definition exp_ok (ex : option (Z * bytes * list Z)) : Prop :=
  match ex with
  | None => True
  | Some (ec, es, Xd) => (ec = 101 \/ ec = 69) /\ is_sign3 es /\ Xd <> [] /\ digits_ok 10 Xd
  end.

(* the two alternatives of the pattern *)
Definition float_lexeme (sg : bytes) (I : list Z) (hasdot : bool) (F : list Z) (ex : option (Z * bytes * list Z)) : Prop :=
  is_sign3 sg /\ digits_ok 10 I /\ digits_ok 10 F /\ exp_ok ex /\
  (hasdot = true \/ (I <> [] /\ F = [] /\ ex <> None)).

(* the decimal exponent written in the lexeme *)
Definition exp_val (ex : option (Z * bytes * list Z)) : Z :=
  match ex with None => 0 | Some (_, es, Xd) => if neg3 es then - val_be 10 Xd else val_be 10 Xd end.

(* ------------------------------------------------------------------------------------------ *)
(* strtod's parsing layer                                                                      *)
(* ------------------------------------------------------------------------------------------ *)

Lemma span_digits_stop l r : forallb is_digit l = true ->
  (r = [] \/ exists c r', r = c :: r' /\ is_digit c = false) -> span is_digit (l ++ r) = (l, r).
Proof.
  intros Hl [-> | (c & r' & -> & Hc)]; [rewrite app_nil_r; apply span_all_nil; exact Hl | apply span_app_stop; assumption].
Qed.

Lemma exp_chars_stop ex : exp_ok ex -> exp_chars ex = [] \/ exists c r', exp_chars ex = c :: r' /\ is_digit c = false.
Proof.
  destruct ex as [[[ec es] Xd]|]; [|left; reflexivity]. intros (Hec & _). right. exists ec, (es ++ dec_chars Xd).
  split; [reflexivity|]. destruct Hec as [-> | ->]; reflexivity.
Qed.

Lemma exp_part_chars ex bound : exp_ok ex -> Z.abs (exp_val ex) <= bound -> exp_part 101 69 bound (exp_chars ex) = exp_val ex.
Proof.
  destruct ex as [[[ec es] Xd]|]; [|reflexivity]. intros (Hec & Hes & Hne & Ho) Hb. cbn [exp_chars exp_val] in *.
  unfold exp_part. assert (E : (ec =? 101) || (ec =? 69) = true) by (destruct Hec as [-> | ->]; reflexivity). rewrite E.
  assert (Hspan : span is_digit (dec_chars Xd) = (dec_chars Xd, [])) by (apply span_all_nil, dec_chars_digits; exact Ho).
  assert (Hne2 : dec_chars Xd <> []) by (intros Q; apply map_eq_nil in Q; contradiction).
  assert (Hsat : sat_digits_val bound (dec_chars Xd) = val_be 10 Xd).
  { apply sat_digits_val_dec; [exact Ho|]. destruct (neg3 es); lia. }
  assert (Hos : opt_sign (es ++ dec_chars Xd) = (neg3 es, dec_chars Xd)).
  { destruct Hes as [-> | [-> | ->]]; try reflexivity. cbn [app neg3].
    destruct Xd as [|x0 Xd']; [congruence|]. inversion Ho; subst.
    change (dec_chars (x0 :: Xd')) with (dec_char x0 :: dec_chars Xd'). apply opt_sign_digit. unfold dec_char. lia. }
  rewrite Hos. cbv iota beta. rewrite Hspan. cbv iota beta. destruct (dec_chars Xd) eqn:Ed; [congruence|].
  rewrite Hsat. reflexivity.
Qed.

(* the dispatch of strtod_bits on a text that starts (after the sign) with a digit or a point *)
Lemma strtod_bits_dispatch sg c r : is_sign3 sg -> (c = 46 \/ 48 <= c <= 57) ->
  (forall x r', r = x :: r' -> (x =? 120) || (x =? 88) = false) ->
  strtod_bits (sg ++ c :: r) = strtod_dec (neg3 sg) (c :: r).
Proof.
  intros Hsg Hc Hx. destruct Hc as [-> | Hc].
  - destruct Hsg as [-> | [-> | ->]]; reflexivity.
  - destruct (strtod_bits_digit c r Hc Hx) as [E1 E2]. destruct Hsg as [-> | [-> | ->]]; [exact E1 | | exact E2].
    pose proof (strtod_body_digit false c r Hc Hx) as B. unfold strtod_bits. cbn [app span].
    change (is_space 43) with false. cbv beta iota. change (opt_sign (43 :: c :: r)) with (false, c :: r). cbv beta iota.
    rewrite (no_prefix_digit 105 [110; 102] c r ltac:(lia) Hc), (no_prefix_digit 110 [97; 110] c r ltac:(lia) Hc).
    cbv beta iota in B |- *. exact B.
Qed.

(* what strtod hands to the decimal-to-binary conversion *)
Theorem strtod_lexeme sg I hasdot F ex : float_lexeme sg I hasdot F ex -> Z.abs (exp_val ex) <= 1000 ->
  strtod_bits (lexeme_of sg I hasdot F ex) =
  match I ++ F with
  | [] => 0                                              (* no digit at all: +0.0, whatever the sign *)
  | _ => b64_of_decimal (neg3 sg) (I ++ F) (exp_val ex - lenZ F)
  end.
Proof.
  intros (Hsg & HoI & HoF & Hex & Hshape) Hb. unfold lexeme_of.
  set (rest := (if hasdot then 46 :: dec_chars F else []) ++ exp_chars ex).
  pose proof (exp_chars_stop ex Hex) as Hstop.
  (* the first character after the sign is a digit or the point *)
  assert (Hhead : exists c r, dec_chars I ++ rest = c :: r /\ (c = 46 \/ 48 <= c <= 57) /\
                              (forall x r', r = x :: r' -> (x =? 120) || (x =? 88) = false)).
  { assert (Hall : forall x, In x (dec_chars I ++ rest) -> x = 46 \/ x = 101 \/ x = 69 \/ x = 43 \/ x = 45 \/ 48 <= x <= 57).
    { intros x Hin. apply in_app_or in Hin as [Hin | Hin]; [apply (dec_chars_range _ _ HoI) in Hin; lia|].
      unfold rest in Hin. apply in_app_or in Hin as [Hin | Hin].
      - destruct hasdot; [|destruct Hin]. destruct Hin as [<- | Hin]; [lia|]. apply (dec_chars_range _ _ HoF) in Hin. lia.
      - destruct ex as [[[ec es] Xd]|]; [|destruct Hin]. destruct Hex as (Hec & Hes & _ & HoX). cbn [exp_chars] in Hin.
        destruct Hin as [<- | Hin]; [lia|]. apply in_app_or in Hin as [Hin | Hin].
        + destruct Hes as [-> | [-> | ->]]; cbn in Hin; lia.
        + apply (dec_chars_range _ _ HoX) in Hin. lia. }
    destruct (dec_chars I ++ rest) as [|c r] eqn:E.
    - exfalso. apply app_eq_nil in E as [E1 E2]. apply map_eq_nil in E1. subst I.
      destruct Hshape as [-> | (Q & _)]; [discriminate E2 | congruence].
    - exists c, r. split; [reflexivity|]. split.
      + destruct I as [|i0 I']; cbn [dec_chars map app] in E.
        * unfold rest in E. destruct Hshape as [-> | (Q & _)]; [|congruence]. injection E as <- _. left. reflexivity.
        * injection E as <- _. inversion HoI; subst. right. unfold dec_char. lia.
      + intros x r' ->. assert (Hx : In x (c :: x :: r')) by (right; left; reflexivity). apply Hall in Hx.
        apply orb_false_iff. split; apply Z.eqb_neq; lia. }
  destruct Hhead as (c & r & Ecr & Hc & Hx). rewrite Ecr, (strtod_bits_dispatch sg c r Hsg Hc Hx), <- Ecr.
  (* strtod_dec *)
  unfold strtod_dec. set (bound := lenZ (dec_chars I ++ rest) + 1000).
  assert (Hbound : Z.abs (exp_val ex) <= bound) by (unfold bound; pose proof (lenZ_nonneg (dec_chars I ++ rest)); lia).
  clearbody bound.
  assert (Hrest : rest = [] \/ exists c' r', rest = c' :: r' /\ is_digit c' = false).
  { unfold rest. destruct hasdot; [right; eexists _, _; split; [reflexivity | reflexivity] | exact Hstop]. }
  rewrite (span_digits_stop (dec_chars I) rest (dec_chars_digits I HoI) Hrest). cbv iota beta.
  assert (Hfp : (match rest with 46 :: r0 => span is_digit r0 | _ => ([], rest) end) = (dec_chars F, exp_chars ex)).
  { unfold rest. destruct hasdot.
    - cbn [app]. apply span_digits_stop; [apply dec_chars_digits; exact HoF | exact Hstop].
    - destruct Hshape as [Q | (_ & -> & _)]; [discriminate Q|]. cbn [app dec_chars map].
      destruct ex as [[[ec es] Xd]|]; [|reflexivity]. destruct Hex as ([-> | ->] & _); reflexivity. }
  rewrite Hfp. cbv iota beta. rewrite <- dec_chars_app.
  destruct (I ++ F) as [|d0 D'] eqn:ED; [reflexivity|].
  change (dec_chars (d0 :: D')) with (dec_char d0 :: dec_chars D'). cbv iota beta zeta.
  change (dec_char d0 :: dec_chars D') with (dec_chars (d0 :: D')). rewrite undec_chars.
  rewrite (exp_part_chars ex bound Hex Hbound). f_equal. unfold lenZ, dec_chars. rewrite map_length. reflexivity.
Qed.

(* ------------------------------------------------------------------------------------------ *)
(* the decimal-to-binary conversion: correctly rounded, with the witness                       *)
(* ------------------------------------------------------------------------------------------ *)

(* y is R / (T * 10^400) rounded half-even to 53 significant bits, or to the denormal grid:  y = mant * 2^u with
   2^52 <= mant <= 2^53 unless u = -1074, and mant is the exact quotient by 2^u rounded half-even.  (mant = 2^53 is the
   carry into the next binade.) *)
Definition rounded_to (y R : Z) : Prop :=
  exists u mant, -1074 <= u /\ 0 <= mant <= two53 /\ (mant < two52 -> u = -1074) /\
                 Vof y = mant * 2 ^ (u + 1074) /\ is_rne R (10 ^ 400 * 2 ^ (u + 1074)) mant.

Lemma full_tail neg u mant R :
  -1074 <= u -> 0 <= mant <= two53 -> (mant < two52 -> u = -1074) ->
  let bits := (u + 1074) * two52 + mant in
  bits < b64_inf_bits ->
  is_rne R (10 ^ 400 * 2 ^ (u + 1074)) mant ->
  (-1074 < u -> two52 * (10 ^ 400 * 2 ^ (u + 1074)) <= R) ->
  let y := sgn_bits neg + bits in
  b64_is_finite y = true /\ sign_text y = sgn_text neg /\ rounded_to y R /\
  forall m k, 0 <= m < two53 -> 0 <= k -> Z.abs (Vof y * 10 ^ 400 - R) <= Z.abs (m * 2 ^ k * 10 ^ 400 - R).
Proof.
  intros Hu Hm Hden bits Hfin Hs Hlow y.
  destruct (nearest_tail neg u mant R Hu Hm Hden Hfin Hs Hlow) as (A & B & C). fold bits y in A, B, C.
  split; [exact A|]. split; [exact B|]. split; [|exact C].
  assert (T52 : two52 = 4503599627370496) by reflexivity. assert (T53 : two53 = 9007199254740992) by reflexivity.
  assert (T63 : two63 = 9223372036854775808) by reflexivity.
  assert (Hbits : 0 <= bits < two63) by (unfold bits, b64_inf_bits in *; nia).
  destruct (sgn_add neg bits Hbits) as (Eexp & Eman & _). fold y in Eexp, Eman.
  pose proof (encode_value u mant Hu Hm Hden) as EV. cbv zeta in EV. fold bits in EV. specialize (EV Hfin).
  exists u, mant. split; [exact Hu|]. split; [exact Hm|]. split; [exact Hden|]. split; [|exact Hs].
  unfold Vof, b64_m, b64_e. rewrite Eexp, Eman. exact EV.
Qed.

Theorem b64_of_decimal_rounded neg D E :
  digits_ok 10 D -> (length D <= 800)%nat -> -400 <= E -> lenZ D + E <= 400 ->
  let y := b64_of_decimal neg D E in
  let R := val_be 10 D * p10 E * T in
  b64_is_finite y = true ->
  (val_be 10 D = 0 \/ 10 ^ 400 <= 16 * R) ->          (* the decimal is zero or at least 2^-1078 *)
  sign_text y = sgn_text neg /\ rounded_to y R /\
  forall m k, 0 <= m < two53 -> 0 <= k -> Z.abs (Vof y * 10 ^ 400 - R) <= Z.abs (m * 2 ^ k * 10 ^ 400 - R).
Proof.
  intros Ho Hlen HE HE2. cbv zeta.
  pose proof (drop_zeros_val D) as Ev. pose proof (drop_zeros_ok D Ho) as Ho0. pose proof (drop_zeros_len D) as Hl0.
  pose proof T_pos as PT. pose proof (pow10_pos 400 ltac:(lia)) as P4. pose proof (p10_pos E ltac:(lia)) as PE.
  destruct (drop_zeros_head D) as [E0 | (x0 & r0 & E0 & Hnz0)].
  - (* the decimal is zero *)
    assert (Ey : b64_of_decimal neg D E = sgn_bits neg) by (unfold b64_of_decimal; rewrite E0; reflexivity).
    rewrite Ey. rewrite E0 in Ev. change (val_be 10 []) with 0 in Ev. rewrite <- Ev. intros _ _.
    assert (Hw0 : forall z, Vof z = 0 -> rounded_to z 0).
    { intros z Ez. exists (-1074), 0. rewrite Ez. split; [lia|]. split; [unfold two53; lia|]. split; [reflexivity|]. split; [reflexivity|].
      apply is_rne_exact; [change (2 ^ (-1074 + 1074)) with 1; lia | reflexivity]. }
    rewrite !Z.mul_0_l. destruct neg; (split; [reflexivity|]; split; [apply Hw0; reflexivity|]); intros m k Hm Hk;
      pose proof (pow2_pos k Hk); (replace (Vof _) with 0 by reflexivity); rewrite ?Z.mul_0_l, !Z.sub_0_r; cbn [Z.abs]; nia.
  - set (d := val_be 10 D) in *.
    assert (Hd : 0 < d).
    { rewrite <- Ev, E0. rewrite E0 in Ho0. pose proof (digits_lower x0 r0 Ho0 Hnz0).
      pose proof (pow10_pos (lenZ r0) (lenZ_nonneg r0)). lia. }
    pose proof (b64_of_decimal_unfold neg D E) as U. cbv zeta in U.
    assert (Hne : drop_zeros D <> []) by (rewrite E0; discriminate).
    assert (Hskip : skipn dec_max_digits (drop_zeros D) = []) by (apply skipn_all2; unfold dec_max_digits; lia).
    assert (Hwin : -400 <= lenZ (drop_zeros D) + E <= 400).
    { assert (1 <= lenZ (drop_zeros D) <= 800 /\ lenZ (drop_zeros D) <= lenZ D) by (unfold lenZ; rewrite E0 in *; cbn [length] in *; lia). lia. }
    specialize (U Hne Hskip Hwin). change (dval (drop_zeros D)) with (val_be 10 (drop_zeros D)) in U. rewrite Ev in U.
    fold (sgn_bits neg) in U. rewrite U. clear U. intros Hfin [Hz | Hbig]; [lia|].
    destruct (0 <=? E) eqn:EE.
    + (* an integer *)
      apply Z.leb_le in EE. pose proof (pow5_pos E EE) as P5. set (x := d * 5 ^ E) in *.
      assert (Hx : 0 < x) by (unfold x; nia).
      destruct (Z_lt_le_dec 1025 (Z.log2 x + 1 + E)) as [Hov | Hnov].
      { rewrite (round_pos_overflow x E Hx Hov), inf_not_finite in Hfin. discriminate Hfin. }
      pose proof (Z.log2_nonneg x) as Hl0'.
      pose proof (b64_round_pos_correct x E Hx) as C. cbv zeta in C. specialize (C Hnov ltac:(lia)).
      destruct C as (mant & Hr & Hm & Hden & Hres). set (u := ulp_exp x E) in *.
      assert (Hu : -1074 <= u) by (unfold u, ulp_exp; lia).
      cbv zeta in Hres. set (bits := (u + 1074) * two52 + mant) in *.
      destruct (b64_inf_bits <=? bits) eqn:Einf.
      { rewrite Hres, inf_not_finite in Hfin. discriminate Hfin. }
      apply Z.leb_gt in Einf. rewrite Hres.
      pose proof (Z.log2_spec x Hx) as [Lx1 _]. set (lx := Z.log2 x) in *.
      assert (ER : d * p10 E * T = x * 2 ^ (E + 1074) * 10 ^ 400).
      { replace E with (0 + E) at 1 by lia. rewrite p10_shift, p10_0, (pow10_split E), pow2_T by lia. unfold x. ring. }
      rewrite ER.
      destruct (full_tail neg u mant (x * 2 ^ (E + 1074) * 10 ^ 400) Hu Hm Hden Einf) as (_ & Hsg & Hw & Hn).
      * unfold rounded_at in Hr. destruct (u <=? E) eqn:Eu.
        -- apply Z.leb_le in Eu. apply is_rne_exact; [pose proof (pow2_pos (u + 1074) ltac:(lia)); nia|].
           rewrite Hr. replace (E + 1074) with ((E - u) + (u + 1074)) by lia. rewrite pow2_add by lia. ring.
        -- apply Z.leb_gt in Eu.
           apply (is_rne_scale _ _ (2 ^ (E + 1074) * 10 ^ 400) _) in Hr; [|pose proof (pow2_pos (E + 1074) ltac:(lia)); nia].
           revert Hr. apply is_rne_eq; [ring|].
           replace (u + 1074) with ((u - E) + (E + 1074)) by lia. rewrite (pow2_add (u - E) (E + 1074)) by lia. ring.
      * intros Hu1. assert (Eu : u = lx + 1 + E - 53) by (unfold u, ulp_exp in *; fold lx in Hu1 |- *; lia).
        assert (E2 : two52 * 2 ^ (u + 1074) = 2 ^ lx * 2 ^ (E + 1074)).
        { change two52 with (2 ^ 52). rewrite <- !pow2_add by lia. f_equal. lia. }
        pose proof (pow2_pos (E + 1074) ltac:(lia)).
        transitivity (2 ^ lx * 2 ^ (E + 1074) * 10 ^ 400); [rewrite <- E2; lia | nia].
      * split; [exact Hsg | split; [exact Hw | exact Hn]].
    + (* a negative decimal exponent *)
      apply Z.leb_gt in EE. set (L := - E). assert (HL : 1 <= L <= 400) by (unfold L; lia).
      replace E with (- L) in * by (unfold L; lia). rewrite Z.opp_involutive in *. cbv zeta in Hfin |- *.
      pose proof (decimal_neg_canonical d L Hd ltac:(lia)) as C. cbv zeta in C.
      set (bq := 5 ^ L) in *. set (j := Z.max 0 (57 + Z.log2 bq - Z.log2 d)) in *. set (N := d * 2 ^ j) in *.
      set (x := 2 * (N / bq) + (if N mod bq =? 0 then 0 else 1)) in *. set (t := - L - j - 1) in *.
      assert (Hbq : 0 < bq) by (apply pow5_pos; lia).
      assert (Hj : 0 <= j) by (unfold j; lia).
      pose proof (pow2_pos j Hj) as Pj.
      assert (HN : 0 < N) by (unfold N; nia).
      assert (HNbig : 2 ^ 56 * bq <= N).
      { pose proof (Z.log2_spec bq Hbq) as [_ Lb]. pose proof (Z.log2_spec d Hd) as [Ld _].
        pose proof (Z.log2_nonneg bq) as Lb0. pose proof (Z.log2_nonneg d) as Ld0.
        assert (E1 : 2 ^ (57 + Z.log2 bq) <= d * 2 ^ j).
        { apply Z.le_trans with (2 ^ (Z.log2 d) * 2 ^ j); [|nia]. rewrite <- pow2_add by lia. apply pow2_le. unfold j. lia. }
        assert (E2 : 2 ^ (57 + Z.log2 bq) = 2 ^ 56 * 2 ^ (Z.succ (Z.log2 bq))).
        { rewrite <- pow2_add by lia. f_equal. lia. }
        unfold N. pose proof (pow2_pos 56 ltac:(lia)). nia. }
      pose proof (Z.div_mod N bq ltac:(lia)) as Hdm. pose proof (Z.mod_pos_bound N bq Hbq) as Hrm.
      assert (Hq : 2 ^ 56 <= N / bq) by (apply Z.div_le_lower_bound; lia).
      assert (Hx57 : 2 ^ 57 <= x).
      { unfold x. change (2 ^ 57) with (2 * 2 ^ 56). destruct (N mod bq =? 0); lia. }
      assert (Hx : 0 < x) by (pose proof (pow2_pos 57 ltac:(lia)); lia).
      assert (Hlx : 57 <= Z.log2 x) by (apply Z.log2_le_pow2; [exact Hx | exact Hx57]).
      pose proof (Z.log2_spec x Hx) as [Lx1 Lx2]. 
      destruct (Z_lt_le_dec 1025 (Z.log2 x + 1 + t)) as [Hov | Hnov].
      { rewrite (round_pos_overflow x t Hx Hov), inf_not_finite in Hfin. discriminate Hfin. }
      set (lx := Z.log2 x) in *.
      assert (Hlow : 2 ^ lx * bq <= 2 * N).
      { assert (Ep : 2 ^ lx = 2 * 2 ^ (lx - 1)).
        { replace lx with (1 + (lx - 1)) at 1 by lia. rewrite pow2_add by lia. reflexivity. }
        pose proof (pow2_pos (lx - 1) ltac:(lia)) as Pl.
        assert (2 ^ (lx - 1) <= N / bq) by (unfold x in Lx1; destruct (N mod bq =? 0); lia). nia. }
      (* the decimal is at least 2^-1074: no underflow exit *)
      assert (HdT : 10 ^ L <= 16 * (d * T)).
      { unfold p10 in Hbig. replace 400 with (L + (- L + 400)) in Hbig at 1 by lia. rewrite pow10_add in Hbig by lia.
        pose proof (pow10_pos (- L + 400) ltac:(lia)) as Pr. nia. }
      assert (Hunder : -1080 <= lx + 1 + t).
      { assert (Hxb : N <= x * bq).
        { assert (N < (N / bq + 1) * bq) by nia. pose proof (pow2_pos 56 ltac:(lia)).
          assert (x * bq >= 2 * (N / bq) * bq) by (unfold x; destruct (N mod bq =? 0); nia). nia. }
        rewrite (pow10_split L) in HdT by lia. fold bq in HdT.
        pose proof (pow2_pos L ltac:(lia)) as P2L.
        assert (H1 : bq * (2 ^ L * 2 ^ j) <= bq * (16 * (x * T))).
        { transitivity (16 * (d * T) * 2 ^ j); [nia|]. transitivity (16 * (N * T)); [unfold N; nia|]. nia. }
        apply Z.mul_le_mono_pos_l in H1; [|exact Hbq].
        assert (H2 : 2 ^ (L + j) < 2 ^ (Z.succ lx + 4 + 1074)).
        { rewrite (pow2_add L j), (pow2_T (Z.succ lx + 4)), (pow2_add (Z.succ lx) 4) by lia. change (2 ^ 4) with 16. nia. }
        apply Z.pow_lt_mono_r_iff in H2; unfold t; lia. }
      specialize (C Hnov Hunder). destruct C as (mant & Hr & Hm & Hden & Hres).
      set (u := ulp_exp x t) in *.
      assert (Hu : -1074 <= u) by (unfold u, ulp_exp; lia).
      cbv zeta in Hres. set (bits := (u + 1074) * two52 + mant) in *.
      destruct (b64_inf_bits <=? bits) eqn:Einf.
      { rewrite Hres, inf_not_finite in Hfin. discriminate Hfin. }
      apply Z.leb_gt in Einf. rewrite Hres.
      pose proof (rne_decimal_scaled d L u mant Hu ltac:(lia) Hr) as Hs.
      assert (Ep : 10 ^ L * p10 (- L) = 10 ^ 400) by (unfold p10; rewrite <- pow10_add by lia; f_equal; lia).
      destruct (full_tail neg u mant (d * p10 (- L) * T) Hu Hm Hden Einf) as (_ & Hsg & Hw & Hn).
      * apply (is_rne_scale _ _ (p10 (- L)) _ PE) in Hs. revert Hs. apply is_rne_eq; [ring|]. rewrite <- Ep. ring.
      * intros Hu1. assert (Eu : u = lx + 1 + t - 53) by (unfold u, ulp_exp in *; fold lx in Hu1 |- *; lia).
        set (a := u + 1074) in *. assert (Ha : 0 < a) by (unfold a; lia). set (W := 2 ^ a) in *.
        assert (El : lx + 1074 = a + L + j + 53) by (unfold a, t in *; lia).
        assert (E2 : 2 ^ lx * T = W * 2 ^ L * 2 ^ j * 2 ^ 53).
        { rewrite <- pow2_T, El by lia. unfold W. rewrite !pow2_add by lia. reflexivity. }
        assert (HRlow : two52 * (10 ^ L * W) <= d * T).
        { assert (E3 : (two52 * (10 ^ L * W)) * (2 * 2 ^ j) = 2 ^ lx * bq * T).
          { rewrite (pow10_split L) by lia. fold bq. change (2 ^ 53) with (2 * two52) in E2.
            transitivity (bq * (W * 2 ^ L * 2 ^ j * (2 * two52))); [ring|]. rewrite <- E2. ring. }
          assert (E4 : (d * T) * (2 * 2 ^ j) = 2 * N * T) by (unfold N; ring).
          apply (Z.mul_le_mono_pos_r _ _ (2 * 2 ^ j)); [lia|]. rewrite E3, E4. apply Z.mul_le_mono_nonneg_r; lia. }
        rewrite <- Ep. transitivity (two52 * (10 ^ L * W) * p10 (- L)); [lia|]. nia.
      * split; [exact Hsg | split; [exact Hw | exact Hn]].
Qed.

(* ------------------------------------------------------------------------------------------ *)
(* finite or the infinity pattern, never anything else                                         *)
(* ------------------------------------------------------------------------------------------ *)

Lemma shr_rne_nonneg a n : 0 <= a -> 0 <= shr_rne a n.
Proof.
  intros Ha. destruct (Z_le_gt_dec n 0) as [L|L].
  - unfold shr_rne. replace (n <=? 0) with true by (symmetry; apply Z.leb_le; exact L). exact Ha.
  - apply (is_rne_nonneg a (2 ^ n) _ Ha (pow2_pos n ltac:(lia))). apply shr_rne_spec; lia.
Qed.

Lemma round_pos_range x t : 0 <= b64_round_pos x t <= b64_inf_bits.
Proof.
  assert (Hinf : 0 < b64_inf_bits) by reflexivity. unfold b64_round_pos.
  destruct (x <=? 0) eqn:Ex; [lia|]. apply Z.leb_gt in Ex. cbv zeta.
  destruct (1025 <? Z.log2 x + 1 + t); [lia|]. destruct (Z.log2 x + 1 + t <? -1080); [lia|].
  set (u := Z.max (Z.log2 x + 1 + t - 53) (-1074)).
  set (mant := if u <=? t then Z.shiftl x (t - u) else shr_rne x (u - t)).
  assert (Hm : 0 <= mant) by (unfold mant; destruct (u <=? t); [apply Z.shiftl_nonneg; lia | apply shr_rne_nonneg; lia]).
  destruct (b64_inf_bits <=? (u + 1074) * two52 + mant) eqn:Eb; [lia|]. apply Z.leb_gt in Eb.
  assert (0 <= u + 1074) by (unfold u; lia). assert (0 < two52) by reflexivity. nia.
Qed.

Lemma finite_of_range neg r : 0 <= r < b64_inf_bits -> b64_is_finite (sgn_bits neg + r) = true.
Proof.
  intros Hr. assert (T52 : two52 = 4503599627370496) by reflexivity. assert (T63 : two63 = 9223372036854775808) by reflexivity.
  assert (Hr63 : 0 <= r < two63) by (unfold b64_inf_bits in Hr; lia).
  destruct (sgn_add neg r Hr63) as (Eexp & _ & _). unfold b64_is_finite. rewrite Eexp.
  apply negb_true_iff. apply Z.eqb_neq. unfold b64_exp.
  assert (r / two52 < 2047) by (apply Z.div_lt_upper_bound; unfold b64_inf_bits in Hr; lia).
  assert (0 <= r / two52) by (apply Z.div_pos; lia). rewrite Z.mod_small by lia. lia.
Qed.

Lemma drop_zeros_idem D : drop_zeros (drop_zeros D) = drop_zeros D.
Proof. induction D as [|x r IH]; [reflexivity|]. destruct x; try reflexivity. exact IH. Qed.

Lemma b64_of_decimal_drop neg D E : b64_of_decimal neg D E = b64_of_decimal neg (drop_zeros D) E.
Proof. unfold b64_of_decimal. rewrite drop_zeros_idem. reflexivity. Qed.

Theorem b64_of_decimal_range neg D E :
  (length (drop_zeros D) <= 800)%nat -> -400 <= lenZ (drop_zeros D) + E <= 400 ->
  let y := b64_of_decimal neg D E in
  y = sgn_bits neg + b64_inf_bits \/ b64_is_finite y = true.
Proof.
  intros Hlen Hwin. cbv zeta. destruct (drop_zeros D) as [|x0 r0] eqn:E0.
  - right. unfold b64_of_decimal. rewrite E0. destruct neg; reflexivity.
  - pose proof (b64_of_decimal_unfold neg D E) as U. cbv zeta in U. rewrite E0 in U.
    specialize (U ltac:(discriminate) ltac:(apply skipn_all2; unfold dec_max_digits; lia) Hwin).
    fold (sgn_bits neg) in U. rewrite U.
    assert (G : forall r, 0 <= r <= b64_inf_bits ->
                sgn_bits neg + r = sgn_bits neg + b64_inf_bits \/ b64_is_finite (sgn_bits neg + r) = true).
    { intros r Hr. destruct (Z.eq_dec r b64_inf_bits) as [-> | Hn]; [left; reflexivity | right; apply finite_of_range; lia]. }
    destruct (0 <=? E); apply G; apply round_pos_range.
Qed.

(* ------------------------------------------------------------------------------------------ *)
(* C08: the double of a float lexeme                                                           *)
(* ------------------------------------------------------------------------------------------ *)

(* the digits D = I ++ F and the exponent E of the decimal  +- D * 10^E  the lexeme denotes; in units of 1 / (T * 10^400) its
   magnitude is R = val D * p10 E * T.  Bounds: at most 800 significant digits (leading zeros do not count), and the
   decimal point of the significant digits within 400 places:  -400 <= E,  (number of significant digits) + E <= 400. *)
Section Lexeme.
  Variables (sg : bytes) (I : list Z) (hasdot : bool) (F : list Z) (ex : option (Z * bytes * list Z)).
  Let D := I ++ F.
  Let E := exp_val ex - lenZ F.
  Let y := strtod_bits (lexeme_of sg I hasdot F ex).
  Let R := val_be 10 D * p10 E * T.

  Definition in_window : Prop :=
    (length (drop_zeros D) <= 800)%nat /\ -400 <= E /\ lenZ (drop_zeros D) + E <= 400 /\ Z.abs (exp_val ex) <= 1000.

  (* 1. a lexeme without any digit ("." "-." "+.e5") is +0.0 *)
  Theorem lexeme_no_digit : float_lexeme sg I hasdot F ex -> Z.abs (exp_val ex) <= 1000 -> D = [] -> y = 0.
  Proof. intros Hl Hb HD. unfold y. rewrite (strtod_lexeme sg I hasdot F ex Hl Hb). fold D. rewrite HD. reflexivity. Qed.

  Lemma lexeme_decimal : float_lexeme sg I hasdot F ex -> Z.abs (exp_val ex) <= 1000 -> D <> [] ->
    y = b64_of_decimal (neg3 sg) (drop_zeros D) E.
  Proof.
    intros Hl Hb HD. unfold y. rewrite (strtod_lexeme sg I hasdot F ex Hl Hb). fold D E.
    destruct D; [congruence|]. apply b64_of_decimal_drop.
  Qed.

  (* 2. all digits zero ("0." ".0e5" "-0.0"): a zero with the sign of the lexeme *)
  Theorem lexeme_all_zero : float_lexeme sg I hasdot F ex -> Z.abs (exp_val ex) <= 1000 -> D <> [] -> val_be 10 D = 0 ->
    y = sgn_bits (neg3 sg).
  Proof.
    intros Hl Hb HD Hv. rewrite (lexeme_decimal Hl Hb HD).
    assert (Ho : digits_ok 10 D) by (destruct Hl as (_ & A & B & _); apply digits_ok_app; assumption).
    destruct (drop_zeros_head D) as [E0 | (x0 & r0 & E0 & Hx0)].
    - rewrite E0. destruct (neg3 sg); reflexivity.
    - exfalso. pose proof (drop_zeros_ok D Ho) as Ho0. rewrite E0 in Ho0.
      pose proof (digits_lower x0 r0 Ho0 Hx0) as L. rewrite <- E0, drop_zeros_val, Hv in L.
      pose proof (pow10_pos (lenZ r0) (lenZ_nonneg r0)). lia.
  Qed.

  (* 3. otherwise: the infinity pattern, or the correctly rounded double *)
  Theorem lexeme_rounded : float_lexeme sg I hasdot F ex -> in_window -> D <> [] ->
    10 ^ 400 <= 16 * R ->                                 (* at least 2^-1078 *)
    y = sgn_bits (neg3 sg) + b64_inf_bits \/
    (b64_is_finite y = true /\ sign_text y = sgn_text (neg3 sg) /\ rounded_to y R /\
     forall m k, 0 <= m < two53 -> 0 <= k -> Z.abs (Vof y * 10 ^ 400 - R) <= Z.abs (m * 2 ^ k * 10 ^ 400 - R)).
  Proof.
    intros Hl (Hlen & HE & HE2 & Hb) HD Hbig. rewrite (lexeme_decimal Hl Hb HD).
    assert (Ho : digits_ok 10 D) by (destruct Hl as (_ & A & B & _); apply digits_ok_app; assumption).
    set (D0 := drop_zeros D) in *.
    assert (Hl0 : 1 <= lenZ D0).
    { destruct D0 eqn:E0; [|rewrite lenZ_cons; pose proof (lenZ_nonneg l); lia]. exfalso.
      unfold R in Hbig. rewrite <- (drop_zeros_val D) in Hbig. fold D0 in Hbig. rewrite E0 in Hbig.
      change (val_be 10 []) with 0 in Hbig. pose proof (pow10_pos 400 ltac:(lia)). lia. }
    destruct (b64_of_decimal_range (neg3 sg) D0 E) as [Hinf | Hfin].
    - unfold D0. rewrite drop_zeros_idem. exact Hlen.
    - unfold D0. rewrite drop_zeros_idem. fold D0. lia.
    - left. exact Hinf.
    - right. split; [exact Hfin|].
      pose proof (b64_of_decimal_rounded (neg3 sg) D0 E (drop_zeros_ok D Ho) Hlen HE HE2) as Q. cbv zeta in Q.
      assert (EvR : val_be 10 D0 * p10 E * T = R) by (unfold R, D0; rewrite drop_zeros_val; reflexivity).
      rewrite EvR in Q. apply Q; [exact Hfin | right; exact Hbig].
  Qed.
End Lexeme.

(* ------------------------------------------------------------------------------------------ *)
(* the infinity pattern only on a true overflow                                                *)
(* ------------------------------------------------------------------------------------------ *)

(* x * 2^t is at least DBL_MAX + half an ulp = (2^54 - 1) * 2^970 (scaled by 2^K to keep exponents non-negative) *)
Lemma round_pos_inf x t K : 0 < x -> 0 <= t + K -> 0 <= K -> b64_round_pos x t = b64_inf_bits ->
  (2 ^ 54 - 1) * 2 ^ (970 + K) <= x * 2 ^ (t + K).
Proof.
  intros Hx HtK HK Hinf. pose proof (Z.log2_spec x Hx) as [L1 L2]. pose proof (Z.log2_nonneg x) as L0.
  set (lx := Z.log2 x) in *.
  assert (Big : 1024 <= lx + t -> (2 ^ 54 - 1) * 2 ^ (970 + K) <= x * 2 ^ (t + K)).
  { intros H. pose proof (pow2_pos (t + K) HtK) as Pt.
    assert (2 ^ (1024 + K) <= 2 ^ lx * 2 ^ (t + K)) by (rewrite <- pow2_add by lia; apply pow2_le; lia).
    assert (2 ^ (1024 + K) = 2 ^ 54 * 2 ^ (970 + K)) by (rewrite <- pow2_add by lia; f_equal; lia).
    pose proof (pow2_pos (970 + K) ltac:(lia)). nia. }
  destruct (Z_lt_le_dec 1025 (lx + 1 + t)) as [Hov | Hnov]; [apply Big; lia|].
  destruct (Z_lt_le_dec (lx + 1 + t) (-1080)) as [Hun | Hnun].
  { exfalso. unfold b64_round_pos in Hinf. replace (x <=? 0) with false in Hinf by (symmetry; apply Z.leb_gt; lia).
    fold lx in Hinf. replace (1025 <? lx + 1 + t) with false in Hinf by (symmetry; apply Z.ltb_ge; lia).
    replace (lx + 1 + t <? -1080) with true in Hinf by (symmetry; apply Z.ltb_lt; lia). discriminate Hinf. }
  pose proof (b64_round_pos_correct x t Hx) as C. cbv zeta in C. fold lx in C. specialize (C Hnov Hnun).
  destruct C as (mant & Hr & Hm & Hden & Hres). rewrite Hinf in Hres. cbv zeta in Hres.
  assert (T52 : two52 = 4503599627370496) by reflexivity. assert (T53 : two53 = 9007199254740992) by reflexivity.
  set (u := ulp_exp x t) in *.
  assert (Hbits : b64_inf_bits <= (u + 1074) * two52 + mant).
  { destruct (b64_inf_bits <=? (u + 1074) * two52 + mant) eqn:Eb; [apply Z.leb_le; exact Eb|].
    apply Z.leb_gt in Eb. lia. }
  unfold b64_inf_bits in Hbits.
  assert (Hu : 971 <= u) by nia.
  assert (Eu : u = lx + 1 + t - 53) by (unfold u, ulp_exp in *; fold lx in Hu |- *; lia).
  destruct (Z.eq_dec u 971) as [E971 | N971]; [|apply Big; lia].
  assert (Em : mant = two53) by (rewrite E971 in Hbits; lia).
  unfold rounded_at in Hr. rewrite E971, Em in Hr.
  assert (E54 : 2 ^ 54 - 1 = 2 * two53 - 1) by reflexivity. rewrite E54.
  destruct (971 <=? t) eqn:Et.
  - apply Z.leb_le in Et.
    assert (Ex : x * 2 ^ (t + K) = two53 * (2 * 2 ^ (970 + K))).
    { replace (t + K) with ((t - 971) + (1 + (970 + K))) by lia. rewrite !pow2_add by lia. change (2 ^ 1) with 2.
      rewrite Hr. ring. }
    rewrite Ex. pose proof (pow2_pos (970 + K) ltac:(lia)). nia.
  - apply Z.leb_gt in Et. destruct Hr as [Hr _].
    assert (E2 : 2 ^ (971 - t) * 2 ^ (t + K) = 2 * 2 ^ (970 + K)).
    { rewrite <- pow2_add by lia. replace (971 - t + (t + K)) with (1 + (970 + K)) by lia. rewrite pow2_add by lia. reflexivity. }
    pose proof (pow2_pos (t + K) HtK) as Pt. pose proof (pow2_pos (971 - t) ltac:(lia)) as Pg.
    set (G := 2 ^ (971 - t)) in *. set (W := 2 ^ (t + K)) in *. set (H970 := 2 ^ (970 + K)) in *.
    assert (Hx2 : (2 * two53 - 1) * G <= 2 * x) by lia.
    assert ((2 * two53 - 1) * G * W <= 2 * x * W) by (apply Z.mul_le_mono_nonneg_r; lia).
    replace ((2 * two53 - 1) * G * W) with ((2 * two53 - 1) * (G * W)) in H by ring. rewrite E2 in H. lia.
Qed.

(* the conversion returns the infinity pattern only when the decimal is at least DBL_MAX + half an ulp, the least number
   that round-half-even sends to 2^1024 *)
Theorem b64_of_decimal_overflow neg D E :
  digits_ok 10 D -> (length (drop_zeros D) <= 800)%nat -> -400 <= E -> lenZ (drop_zeros D) + E <= 400 ->
  b64_of_decimal neg D E = sgn_bits neg + b64_inf_bits ->
  (2 ^ 54 - 1) * 2 ^ 970 * T * 10 ^ 400 <= val_be 10 D * p10 E * T.
Proof.
  intros Ho Hlen HE HE2 Hy. pose proof (drop_zeros_val D) as Ev. pose proof T_pos as PT.
  pose proof (pow10_pos 400 ltac:(lia)) as P4.
  destruct (drop_zeros_head D) as [E0 | (x0 & r0 & E0 & Hnz0)].
  { exfalso. unfold b64_of_decimal in Hy. rewrite E0 in Hy. fold (sgn_bits neg) in Hy. unfold b64_inf_bits, two52 in Hy. lia. }
  set (d := val_be 10 D) in *.
  assert (Hd : 0 < d).
  { pose proof (drop_zeros_ok D Ho) as Ho0. rewrite <- Ev, E0. rewrite E0 in Ho0. pose proof (digits_lower x0 r0 Ho0 Hnz0).
    pose proof (pow10_pos (lenZ r0) (lenZ_nonneg r0)). lia. }
  pose proof (b64_of_decimal_unfold neg D E) as U. cbv zeta in U.
  assert (Hl1 : 1 <= lenZ (drop_zeros D)) by (rewrite E0, lenZ_cons; pose proof (lenZ_nonneg r0); lia).
  specialize (U ltac:(rewrite E0; discriminate) ltac:(apply skipn_all2; unfold dec_max_digits; lia) ltac:(lia)).
  change (dval (drop_zeros D)) with (val_be 10 (drop_zeros D)) in U. rewrite Ev in U. fold (sgn_bits neg) in U.
  rewrite U in Hy. apply Z.add_reg_l in Hy. clear U.
  assert (E2044 : 2 ^ 970 * T = 2 ^ 2044) by (rewrite <- pow2_T by lia; reflexivity).
  destruct (0 <=? E) eqn:EE.
  - apply Z.leb_le in EE. pose proof (pow5_pos E EE) as P5. set (x := d * 5 ^ E) in *.
    pose proof (round_pos_inf x E 1074 ltac:(unfold x; nia) ltac:(lia) ltac:(lia) Hy) as B.
    assert (ER : d * p10 E * T = x * 2 ^ (E + 1074) * 10 ^ 400).
    { replace E with (0 + E) at 1 by lia. rewrite p10_shift, p10_0, (pow10_split E), pow2_T by lia. unfold x. ring. }
    rewrite ER. replace ((2 ^ 54 - 1) * 2 ^ 970 * T) with ((2 ^ 54 - 1) * 2 ^ (970 + 1074)) by (rewrite <- Z.mul_assoc, E2044; reflexivity).
    apply Z.mul_le_mono_nonneg_r; [lia | exact B].
  - apply Z.leb_gt in EE. set (L := - E). assert (HL : 1 <= L <= 400) by (unfold L; lia).
    replace E with (- L) in * by (unfold L; lia). rewrite Z.opp_involutive in *. cbv zeta in Hy.
    set (bq := 5 ^ L) in *. set (j := Z.max 0 (57 + Z.log2 bq - Z.log2 d)) in *. set (N := d * 2 ^ j) in *.
    set (x := 2 * (N / bq) + (if N mod bq =? 0 then 0 else 1)) in *.
    assert (Hbq : 0 < bq) by (apply pow5_pos; lia).
    assert (Hj : 0 <= j) by (unfold j; lia). pose proof (pow2_pos j Hj) as Pj.
    assert (HN : 0 < N) by (unfold N; nia).
    pose proof (Z.div_mod N bq ltac:(lia)) as Hdm. pose proof (Z.mod_pos_bound N bq Hbq) as Hrm.
    assert (Hq0 : 0 <= N / bq) by (apply Z.div_pos; lia).
    assert (Hx : 0 < x).
    { unfold x. destruct (N mod bq =? 0) eqn:Es; [|lia]. apply Z.eqb_eq in Es. assert (N / bq <> 0) by nia. lia. }
    pose proof (round_pos_inf x (- L - j - 1) (L + j + 1) Hx ltac:(lia) ltac:(lia) Hy) as B.
    replace (- L - j - 1 + (L + j + 1)) with 0 in B by lia. rewrite Z.pow_0_r, Z.mul_1_r in B.
    set (Q0 := (2 ^ 54 - 1) * 2 ^ (970 + L + j)).
    assert (EB : (2 ^ 54 - 1) * 2 ^ (970 + (L + j + 1)) = 2 * Q0).
    { unfold Q0. replace (970 + (L + j + 1)) with (1 + (970 + L + j)) by lia. rewrite pow2_add by lia. change (2 ^ 1) with 2. ring. }
    rewrite EB in B.
    assert (Hq : Q0 <= N / bq) by (unfold x in B; destruct (N mod bq =? 0); lia).
    assert (HNb : Q0 * bq <= N) by nia.
    (* d >= (2^54 - 1) * 2^970 * 10^L *)
    assert (Hdl : (2 ^ 54 - 1) * 2 ^ 970 * 10 ^ L <= d).
    { apply (Z.mul_le_mono_pos_r _ _ (2 ^ j) Pj). fold N. etransitivity; [|exact HNb].
      unfold Q0, bq. rewrite (pow10_split L) by lia. replace (970 + L + j) with (970 + (L + j)) by lia.
      rewrite (pow2_add 970 (L + j)), (pow2_add L j) by lia. apply Z.eq_le_incl. ring. }
    assert (Ep : 10 ^ L * p10 (- L) = 10 ^ 400) by (unfold p10; rewrite <- pow10_add by lia; f_equal; lia).
    pose proof (p10_pos (- L) ltac:(lia)) as PE.
    transitivity ((2 ^ 54 - 1) * 2 ^ 970 * 10 ^ L * p10 (- L) * T).
    + apply Z.eq_le_incl. rewrite <- Ep. ring.
    + apply Z.mul_le_mono_nonneg_r; [lia|]. apply Z.mul_le_mono_nonneg_r; [lia | exact Hdl].
Qed.

(* ------------------------------------------------------------------------------------------ *)
(* in the vocabulary of the scanner: the {float} rule                                          *)
(* ------------------------------------------------------------------------------------------ *)
From LC Require Import Tree ScanAction Tokens Lexer.

Lemma inf_is_inf neg : b64_is_inf (sgn_bits neg + b64_inf_bits) = true.
Proof. destruct neg; reflexivity. Qed.

Lemma finite_not_inf b : b64_is_finite b = true -> b64_is_inf b = false.
Proof. unfold b64_is_finite, b64_is_inf. intros H. apply negb_true_iff in H. rewrite H. reflexivity. Qed.

(* the token of a float lexeme: rejected (TOK_ERROR) exactly when strtod returns the infinity pattern, and then the
   decimal is at least DBL_MAX + half an ulp; otherwise a float token holding +0.0 (no digit), a signed zero (all digits
   zero) or the correctly rounded double *)
Theorem C08_float_lexeme_token sg I hasdot F ex :
  float_lexeme sg I hasdot F ex -> in_window I F ex ->
  let D := I ++ F in
  let E := exp_val ex - lenZ F in
  let R := val_be 10 D * p10 E * T in
  let lexeme := lexeme_of sg I hasdot F ex in
  (D = [] -> numeric_token strtod_bits AFloat lexeme = Some (TkFloat 0)) /\
  (D <> [] -> val_be 10 D = 0 -> numeric_token strtod_bits AFloat lexeme = Some (TkFloat (sgn_bits (neg3 sg)))) /\
  (D <> [] -> 10 ^ 400 <= 16 * R ->
     (numeric_token strtod_bits AFloat lexeme = None /\ strtod_bits lexeme = sgn_bits (neg3 sg) + b64_inf_bits /\
      (2 ^ 54 - 1) * 2 ^ 970 * T * 10 ^ 400 <= R) \/
     (exists b, numeric_token strtod_bits AFloat lexeme = Some (TkFloat b) /\ b = strtod_bits lexeme /\
                b64_is_finite b = true /\ sign_text b = sgn_text (neg3 sg) /\ rounded_to b R /\
                forall m k, 0 <= m < two53 -> 0 <= k -> Z.abs (Vof b * 10 ^ 400 - R) <= Z.abs (m * 2 ^ k * 10 ^ 400 - R))).
Proof.
  intros Hl Hw. pose proof Hw as (Hlen & HE & HE2 & Hb). cbv zeta. unfold numeric_token. split; [|split].
  - intros HD. rewrite (lexeme_no_digit sg I hasdot F ex Hl Hb HD). reflexivity.
  - intros HD Hv. rewrite (lexeme_all_zero sg I hasdot F ex Hl Hb HD Hv). destruct (neg3 sg); reflexivity.
  - intros HD Hbig. destruct (lexeme_rounded sg I hasdot F ex Hl Hw HD Hbig) as [Hinf | (Hfin & Hs & Hr & Hn)].
    + left. rewrite Hinf, inf_is_inf. split; [reflexivity|]. split; [reflexivity|].
      assert (Ho : digits_ok 10 (I ++ F)) by (destruct Hl as (_ & A & B & _); apply digits_ok_app; assumption).
      apply (b64_of_decimal_overflow (neg3 sg) (I ++ F) (exp_val ex - lenZ F) Ho Hlen HE HE2).
      rewrite <- Hinf. rewrite (lexeme_decimal sg I hasdot F ex Hl Hb HD). apply (b64_of_decimal_drop (neg3 sg) (I ++ F)).
    + right. exists (strtod_bits (lexeme_of sg I hasdot F ex)). rewrite (finite_not_inf _ Hfin). repeat split; assumption.
Qed.

(* ------------------------------------------------------------------------------------------ *)
(* instances                                                                                   *)
(* ------------------------------------------------------------------------------------------ *)

Definition ftok (s : bytes) : option token := numeric_token strtod_bits AFloat s.

Example lexeme_examples :
  (* "1.5" *)  lexeme_of [] [1] true [5] None = [49; 46; 53] /\ ftok [49; 46; 53] = Some (TkFloat 4609434218613702656) /\
  (* ".5e-3" *) lexeme_of [] [] true [5] (Some (101, [45], [3])) = [46; 53; 101; 45; 51] /\
                ftok [46; 53; 101; 45; 51] = Some (TkFloat 4557750909289998844) /\
  (* "-.e5": no digit, +0.0 *) lexeme_of [45] [] true [] (Some (101, [], [5])) = [45; 46; 101; 53] /\
                ftok [45; 46; 101; 53] = Some (TkFloat 0) /\
  (* "-0." : -0.0 *) ftok [45; 48; 46] = Some (TkFloat 9223372036854775808) /\
  (* "1e400": rejected *) lexeme_of [] [1] false [] (Some (101, [], [4; 0; 0])) = [49; 101; 52; 48; 48] /\
                ftok [49; 101; 52; 48; 48] = None /\
  (* "4.9e-324": the least denormal *) ftok [52; 46; 57; 101; 45; 51; 50; 52] = Some (TkFloat 1) /\
  (* "2.2250738585072011e-308": the largest denormal *)
  ftok [50; 46; 50; 50; 53; 48; 55; 51; 56; 53; 56; 53; 48; 55; 50; 48; 49; 49; 101; 45; 51; 48; 56] = Some (TkFloat 4503599627370495) /\
  (* 2^53 + 1 on 30 digits, a midpoint: to even, 2^53 *)
  ftok [57;48;48;55;49;57;57;50;53;52;55;52;48;57;57;51;46;48;48;48;48;48;48;48;48;48;48;48;48;48;48] = Some (TkFloat 4845873199050653696) /\
  (* the same plus 10^-14: above the midpoint, 2^53 + 2 *)
  ftok [57;48;48;55;49;57;57;50;53;52;55;52;48;57;57;51;46;48;48;48;48;48;48;48;48;48;48;48;48;48;49] = Some (TkFloat 4845873199050653697).
Proof. vm_compute. repeat split. Qed.

(* the theorem on an instance: "2.2250738585072011e-308" is in the window, so the stored double is the correctly rounded one *)
Example lexeme_by_theorem :
  let I := [2] in let F := [2;2;5;0;7;3;8;5;8;5;0;7;2;0;1;1] in let ex := Some (101, [45], [3;0;8]) in
  float_lexeme [] I true F ex /\ in_window I F ex /\
  10 ^ 400 <= 16 * (val_be 10 (I ++ F) * p10 (exp_val ex - lenZ F) * T).
Proof.
  cbv zeta. split; [|split].
  - unfold float_lexeme, is_sign3, exp_ok. repeat split; auto; try discriminate; try (repeat constructor; lia).
  - unfold in_window. split; [apply Nat.leb_le; vm_compute; reflexivity|]. vm_compute. repeat split; intros Q; discriminate Q.
  - rewrite T_eq. vm_compute. intros Q; discriminate Q.
Qed.

Print Assumptions strtod_lexeme.
Print Assumptions b64_of_decimal_rounded.
Print Assumptions b64_of_decimal_overflow.
Print Assumptions lexeme_rounded.
Print Assumptions C08_float_lexeme_token.
