(* StdioModel.v — config_write_file over a buffered stdio stream whose write(2) calls are decided by a schedule.
   Definitions only (executable).

   The stream: the bytes that reached the device, the buffer (capacity B), the STICKY error indicator.  The
   environment: a schedule, one entry per write(2) call (when it is exhausted every further call succeeds):
     WAll        the call writes everything it was given;
     WPartial k  the call writes a prefix of max(1, min(k, n)) of the n bytes it was given, and stdio calls write(2)
                 again with the rest (the loop of glibc's _IO_new_file_write), consuming the next entry;
     WFail       the call fails: stdio sets the error indicator and DROPS the bytes it was trying to write (the
                 rest of that flush); the indicator stays set whatever happens later.
   Simplifications, all stated here:
     - config_write's output is put into the stream byte by byte (fputc granularity; how the text is cut into
       fputs/fprintf calls does not matter for a fully buffered stream except for which bytes a failed flush drops);
     - the stream is fully buffered and flushes lazily, as glibc does: a put into a full buffer first flushes the
       buffer; when that flush fails the byte that triggered it is dropped as well (putc returns EOF) and output
       goes on with an empty buffer;
     - fflush and fclose report only their own flush (and close(2)), never the indicator;
     - fsync and close(2) do not touch the content: their results are parameters;
     - [st_fails] is a ghost counter of failed write(2) calls: no operation reads it. *)
From Coq Require Import List ZArith Bool.
Import ListNotations.
From LC Require Import Base.

Inductive wres := WAll | WPartial (k : nat) | WFail.

Record stream := mkS {
  st_dev : bytes;                 (* what the file holds *)
  st_buf : bytes;                 (* buffered, not yet written *)
  st_err : bool;                  (* ferror(stream) *)
  st_sched : list wres;           (* the outcomes of the write(2) calls to come *)
  st_fails : nat }.               (* ghost: failed write(2) calls so far *)

Definition s_open (sched : list wres) : stream := mkS [] [] false sched 0.

(* stdio writing the bytes d to the descriptor: the remaining schedule, the device content, success *)
Fixpoint dev_write (sc : list wres) (dev d : bytes) : list wres * bytes * bool :=
  match d with
  | [] => (sc, dev, true)
  | _ :: _ =>
      match sc with
      | [] => ([], dev ++ d, true)
      | WAll :: r => (r, dev ++ d, true)
      | WPartial k :: r => let k' := Nat.min (Nat.max k 1) (length d) in dev_write r (dev ++ firstn k' d) (skipn k' d)
      | WFail :: r => (r, dev, false)
      end
  end.

(* flush the buffer; the boolean is the flush's own result (fflush(stream) == 0) *)
Definition s_flush (st : stream) : stream * bool :=
  match st_buf st with
  | [] => (st, true)
  | _ :: _ =>
      let '(sc, dev, ok) := dev_write (st_sched st) (st_dev st) (st_buf st) in
      if ok then (mkS dev [] (st_err st) sc (st_fails st), true)
      else (mkS dev [] true sc (S (st_fails st)), false)
  end.

Definition s_putc (B : nat) (st : stream) (b : Z) : stream :=
  if Nat.leb B (length (st_buf st)) then
    let '(st1, ok) := s_flush st in
    if ok then mkS (st_dev st1) [b] (st_err st1) (st_sched st1) (st_fails st1) else st1
  else mkS (st_dev st) (st_buf st ++ [b]) (st_err st) (st_sched st) (st_fails st).

Definition s_put (B : nat) (st : stream) (bs : bytes) : stream := fold_left (s_putc B) bs st.

Definition s_ferror (st : stream) : bool := st_err st.

(* fclose: flush, then close(2); the boolean is fclose(stream) == 0 *)
Definition s_close (st : stream) (close_ok : bool) : stream * bool :=
  let '(st1, ok) := s_flush st in (st1, ok && close_ok).

(* config_write_file after a successful fopen, line by line:
     config_write(config, stream);
     ok = !ferror(stream);
     if(ok && FSYNC) { ok = (fflush(stream) == 0); if(ok) ok = (fsync(fd) == 0); }
     if(fclose(stream) != 0) ok = 0;                                                      *)
Definition write_file_run (B : nat) (sched : list wres) (fsync_opt fsync_ok close_ok : bool) (text : bytes)
  : bool * stream :=
  let st1 := s_put B (s_open sched) text in
  let ok1 := negb (s_ferror st1) in
  let '(st2, ok2) :=
    if ok1 && fsync_opt then
      let '(st, fl) := s_flush st1 in (st, if fl then fsync_ok else false)
    else (st1, ok1) in
  let '(st3, cl) := s_close st2 close_ok in
  (ok2 && cl, st3).

Definition write_file_model (B : nat) (sched : list wres) (fsync_opt fsync_ok close_ok : bool) (text : bytes)
  : bool * bytes :=
  let '(ok, st) := write_file_run B sched fsync_opt fsync_ok close_ok text in (ok, st_dev st).

(* ---- the defective variants (for the refutations) ---- *)
(* ok = (fflush(stream) == 0) instead of ok = !ferror(stream) *)
Definition write_file_fflush_variant (B : nat) (sched : list wres) (fsync_opt fsync_ok close_ok : bool) (text : bytes)
  : bool * bytes :=
  let st1 := s_put B (s_open sched) text in
  let '(st2, ok1) := s_flush st1 in
  let ok2 := if ok1 && fsync_opt then fsync_ok else ok1 in
  let '(st3, cl) := s_close st2 close_ok in
  (ok2 && cl, st_dev st3).

(* the indicator is consulted only when the FSYNC option is off *)
Definition write_file_skip_variant (B : nat) (sched : list wres) (fsync_opt fsync_ok close_ok : bool) (text : bytes)
  : bool * bytes :=
  let st1 := s_put B (s_open sched) text in
  let '(st2, ok2) :=
    if fsync_opt then let '(st, fl) := s_flush st1 in (st, if fl then fsync_ok else false)
    else (st1, negb (s_ferror st1)) in
  let '(st3, cl) := s_close st2 close_ok in
  (ok2 && cl, st_dev st3).

(* only fclose's result is looked at *)
Definition write_file_close_variant (B : nat) (sched : list wres) (close_ok : bool) (text : bytes) : bool * bytes :=
  let st1 := s_put B (s_open sched) text in
  let '(st3, cl) := s_close st1 close_ok in
  (cl, st_dev st3).
