(* Properties_C09.v — C09: error information always describes the most recent read or write.
   Theorems only (proofs in RwFacts.v).  rw_step is the model of config_read_string / config_read /
   config_read_file / config_write_file on one configuration object over a virtual file system
   (Reader.v, WriteFile.v); the four error fields are c_err.

   History: before /repo commit ed0d4e3 nothing reset the fields and libconfig_yyerror kept the first
   text, so a second failing read reported the first failure's text and line and a success after a
   failure still showed CONFIG_ERR_PARSE (F12); repaired by resetting the error state on entry.
   The C++ ParseException / FileIOException are built from these same fields by Config::handleError;
   that layer is covered by the C17 harness, not modelled here. *)
From Coq Require Import List ZArith Bool.
Import ListNotations.
From LC Require Import Base Tree Fp Lookup Api ApiStep ScanAction FlexEngine Tokens Lexer Parser Reader
  Writer WriteFile RwFacts Bisim GrammarFacts ParseComplete ParseFail ParseExact ReadSyntax.
From LC.gen Require Import Consts.
Local Open Scope Z_scope.

(* regardless of earlier failures: the complete outcome of a call — return value, settings, and all
   four error fields — does not depend on the error state left by earlier calls *)
Theorem C09_own_report : forall atof fmt FS c e o,
  rw_step atof fmt (FS, set_err c e) o = rw_step atof fmt (FS, c) o.
Proof. exact rw_own_report. Qed.
Print Assumptions C09_own_report.

(* after any history of calls on one configuration object, the state after one more call is the state
   that call produces on its own (from a clean error state) *)
Theorem C09_last_call_only : forall atof fmt st ops o,
  let '(FS, c) := rw_run atof fmt st ops in
  rw_step atof fmt (FS, c) o = rw_step atof fmt (FS, set_err c err0) o.
Proof. exact rw_last_call_only. Qed.
Print Assumptions C09_last_call_only.

(* a successful read or write leaves the error type at 'none' (and clears text, file and line); a
   failing read reports a parse error with a message — or, when the file cannot be opened, an I/O
   error; a failing write reports an I/O error *)
Theorem C09_error_matches_outcome : forall atof fmt FS c o FS' c' res,
  rw_step atof fmt (FS, c) o = (FS', c', res) ->
  match res with
  | Some true => c_err c' = err0
  | Some false =>
      match o with
      | RReadString _ => e_type (c_err c') = 2 /\ e_text (c_err c') <> None
      | RReadFile path =>
          match fs_lookup FS path with
          | Some (FFile _) => e_type (c_err c') = 2 /\ e_text (c_err c') <> None
          | _ => c_err c' = io_error
          end
      | RWriteFile _ _ _ => c_err c' = io_error
      end
  | None => True
  end.
Proof. exact rw_error_matches_outcome. Qed.
Print Assumptions C09_error_matches_outcome.

(* the reported line and file of a failing read are those of the offending token: they are the
   scanner position recorded with the last token the parser read (p_line / p_file), or the position the
   scanner itself recorded for an include failure; both are functions of this call's input only — which
   is C09_own_report.  Non-vacuity and a regression example: the history of the property text. *)
Definition ex_atof (s : bytes) : Z := 0.
Definition ex_fmt (b p : Z) (sci : bool) : bytes := [].
Definition bad1 : bytes := [97; 32; 61; 32; 59].                       (* "a = ;" *)
Definition bad2 : bytes := [97; 61; 49; 59; 10; 10; 97; 61; 50; 59].   (* "a=1;\n\na=2;" *)
Definition good : bytes := [97; 61; 49; 59].                          (* "a=1;" *)

Example C09_example :
  let st0 := ([], cfg_init) in
  let '(_, c1) := rw_run ex_atof ex_fmt st0 [RReadString bad1] in
  let '(_, c2) := rw_run ex_atof ex_fmt st0 [RReadString bad1; RReadString bad2] in
  let '(_, c3) := rw_run ex_atof ex_fmt st0 [RReadString bad1; RReadString bad2; RReadString good] in
  (c_err c1 = mkErr 2 (Some ERR_SYNTAX) None 1) /\
  (c_err c2 = mkErr 2 (Some ERR_DUPLICATE_SETTING) None 3) /\
  (c_err c3 = err0).
Proof. vm_compute. repeat split. Qed.


(* ---- WHICH error a failing read reports (ReadSyntax.v, shared with C02): within the nesting limit every read has exactly
   one of three outcomes; in the two failing ones the four fields are: type 2 (parse), and either the message, file and line
   of the first semantic offence of a derivable text, or "syntax error" (or the scanner's own text for an error token) with
   the file and line of the first token that cannot continue a derivation.  Together with C09_own_report (no dependence on
   earlier calls) this is the property: a failing read reports its own error type, message, file and line of the offending
   token ---- *)
Theorem C09_failing_read_fields : forall atof FS c top text,
  (forall f content, fs_lookup FS f = Some (FFile content) -> bytes_ok content) -> bytes_ok text ->
  let toks := fst (lex_top atof FS (set_files (set_root (set_err c err0) new_root) []) top text) in
  let ov := get_option c OPT_OVERRIDES in
  let root0 := set_pos new_root 0 top in
  let r := config_read atof FS c top text in
  let res := p_config ov (mkP root0 toks false O 0 None) in
  max_nest toks 0 0 <= NEST_LIMIT ->
  (rd_out_ r = RdOk /\
   exists ms, wf_m ms = true /\ spells ms toks /\ sem_m ov ms [] = true /\
              pobs (c_root (rd_cfg r)) = PN None None PGroup 0 (den_m ms [])) \/
  (rd_out_ r = RdFail /\
   exists e s', res = PErr e s' /\ (e = PErrDup \/ e = PErrMismatch) /\
     forall ms, wf_m ms = true -> spells ms toks ->
       sem_m ov ms [] = false /\
       exists l fi, err_m ov ms [] = Some (e, (l, fi)) /\ c_err (rd_cfg r) = mkErr 2 (Some (perr_text e)) fi l) \/
  (rd_out_ r = RdFail /\
   (forall ms, wf_m ms = true -> ~ spells ms toks) /\
   exists s' pre t rest,
     res = PErr PErrSyntax s' /\ toks = pre ++ t :: rest /\ p_toks s' = t :: rest /\
     c_err (rd_cfg r) = match lt_err t with
                        | None => mkErr 2 (Some ERR_SYNTAX) (lt_file t) (lt_line t)
                        | Some (txt, f, l) => mkErr 2 (Some txt) (lt_file t) l
                        end /\
     (lt_err t <> None -> lt_tok t = TkError) /\
     (forall rest' ts junk, map lt_tok (pre ++ t :: rest') = ts ++ TkEOF :: junk -> ~ Dsettings ts) /\
     (exists suffix s3, p_config ov (mkP root0 (pre ++ suffix) false O 0 None) = POk s3)).
Proof. intros atof FS c top text HFS Hb. cbv zeta. apply read_trichotomy; assumption. Qed.
Print Assumptions C09_failing_read_fields.
