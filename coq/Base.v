(* Base.v — bytes, C integer ranges, digit strings.  Definitions only (proofs in BaseFacts.v). *)
From Coq Require Import List ZArith Bool.
Import ListNotations.
Local Open Scope Z_scope.

Definition bytes := list Z.            (* each element 0..255 *)

Fixpoint bytes_eqb (a b : bytes) : bool :=
  match a, b with
  | [], [] => true
  | x :: a', y :: b' => (x =? y) && bytes_eqb a' b'
  | _, _ => false
  end.

Definition obytes_eqb (a b : option bytes) : bool :=
  match a, b with
  | None, None => true
  | Some x, Some y => bytes_eqb x y
  | _, _ => false
  end.

Definition is_byte (b : Z) : bool := (0 <=? b) && (b <? 256).

(* ---- C integer ranges and the wraps the code relies on ---- *)
Definition INT_MIN : Z := -2147483648.
Definition INT_MAX : Z := 2147483647.
Definition LLONG_MIN : Z := -9223372036854775808.
Definition LLONG_MAX : Z := 9223372036854775807.
Definition ULLONG_MAX : Z := 18446744073709551615.
Definition two32 : Z := 4294967296.
Definition two64 : Z := 18446744073709551616.

Definition in_int (z : Z) : bool := (INT_MIN <=? z) && (z <=? INT_MAX).
Definition in_int64 (z : Z) : bool := (LLONG_MIN <=? z) && (z <=? LLONG_MAX).

(* conversion of an out-of-range value to a signed type: two's complement (gcc-documented) *)
Definition to_uint32 (z : Z) : Z := z mod two32.
Definition to_int32 (z : Z) : Z :=
  let u := z mod two32 in if u <? 2147483648 then u else u - two32.
Definition to_uint64 (z : Z) : Z := z mod two64.
Definition to_int64 (z : Z) : Z :=
  let u := z mod two64 in if u <? 9223372036854775808 then u else u - two64.
Definition to_uint16 (z : Z) : Z := z mod 65536.

(* ---- ctype in the C locale ---- *)
Definition is_upper (c : Z) : bool := (65 <=? c) && (c <=? 90).
Definition is_lower (c : Z) : bool := (97 <=? c) && (c <=? 122).
Definition is_alpha (c : Z) : bool := is_upper c || is_lower c.
Definition is_digit (c : Z) : bool := (48 <=? c) && (c <=? 57).
Definition is_xdigit (c : Z) : bool :=
  is_digit c || ((65 <=? c) && (c <=? 70)) || ((97 <=? c) && (c <=? 102)).
(* isspace in the C locale: space, \t \n \v \f \r *)
Definition is_space (c : Z) : bool := (c =? 32) || ((9 <=? c) && (c <=? 13)).

Definition digit_val (c : Z) : Z :=
  if is_digit c then c - 48
  else if (65 <=? c) && (c <=? 90) then c - 55
  else if (97 <=? c) && (c <=? 122) then c - 87
  else 99.

(* ---- digit strings: little-endian digit lists by doubling (structural, no fuel) ---- *)
Fixpoint dbl_le (base carry : Z) (ds : list Z) : list Z :=
  match ds with
  | [] => if carry =? 0 then [] else [carry]
  | d :: r =>
      let v := 2 * d + carry in
      if v <? base then v :: dbl_le base 0 r else (v - base) :: dbl_le base 1 r
  end.

Fixpoint pos_digits_le (base : Z) (p : positive) : list Z :=
  match p with
  | xH => [1]
  | xO q => dbl_le base 0 (pos_digits_le base q)
  | xI q => dbl_le base 1 (pos_digits_le base q)
  end.

Definition val_le (base : Z) (ds : list Z) : Z :=
  fold_right (fun d acc => d + base * acc) 0 ds.

(* big-endian digit values of a non-negative number; 0 gives [0] *)
Definition nat_digits (base : Z) (n : Z) : list Z :=
  match n with
  | Zpos p => rev (pos_digits_le base p)
  | _ => [0]
  end.

Definition dec_char (d : Z) : Z := 48 + d.
Definition hex_char_upper (d : Z) : Z := if d <? 10 then 48 + d else 55 + d.
Definition hex_char_lower (d : Z) : Z := if d <? 10 then 48 + d else 87 + d.

(* printf("%d") / ("%lld") *)
Definition show_dec (z : Z) : bytes :=
  match z with
  | Zneg p => 45 :: map dec_char (nat_digits 10 (Zpos p))
  | _ => map dec_char (nat_digits 10 z)
  end.

(* printf("%X") of a non-negative value *)
Definition show_hex_upper (z : Z) : bytes := map hex_char_upper (nat_digits 16 z).

(* value of a big-endian digit-character string in a base (no validation) *)
Definition digits_val (base : Z) (s : bytes) : Z :=
  fold_left (fun acc c => acc * base + digit_val c) s 0.

(* ---- list helpers ---- *)
Fixpoint list_upd {A} (i : nat) (f : A -> A) (l : list A) : list A :=
  match l, i with
  | [], _ => []
  | x :: r, O => f x :: r
  | x :: r, S j => x :: list_upd j f r
  end.

Fixpoint list_del {A} (i : nat) (l : list A) : list A :=
  match l, i with
  | [], _ => []
  | _ :: r, O => r
  | x :: r, S j => x :: list_del j r
  end.

Fixpoint find_index {A} (p : A -> bool) (l : list A) : option nat :=
  match l with
  | [] => None
  | x :: r => if p x then Some O else option_map S (find_index p r)
  end.

Fixpoint span {A} (p : A -> bool) (l : list A) : list A * list A :=
  match l with
  | [] => ([], [])
  | x :: r => if p x then let '(a, b) := span p r in (x :: a, b) else ([], l)
  end.

Fixpoint replicate {A} (n : nat) (x : A) : list A :=
  match n with O => [] | S k => x :: replicate k x end.

(* hex text encoding used by scripts and transcripts (lower case, two digits per byte) *)
Definition hex2 (b : Z) : bytes := [hex_char_lower (b / 16); hex_char_lower (b mod 16)].
Definition hex_encode (s : bytes) : bytes := flat_map hex2 s.
Fixpoint hex_decode (s : bytes) : bytes :=
  match s with
  | a :: b :: r => (digit_val a * 16 + digit_val b) :: hex_decode r
  | _ => []
  end.

(* signed decimal parser for script fields *)
Definition parse_dec (s : bytes) : Z :=
  match s with
  | 45 :: r => - digits_val 10 r
  | _ => digits_val 10 s
  end.
