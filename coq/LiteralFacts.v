(* LiteralFacts.v — numeric literal conversion (util.c libconfig_parse_integer / libconfig_parse_hex64 and
   the {integer} {integer64} {hex} {hex64} {float} actions of scanner.l as modelled in Lexer.v): the stored
   value is exactly the positional value of the digits, or the literal is rejected. *)
From Coq Require Import List ZArith Bool Lia.
Import ListNotations.
From LC Require Import Base BaseFacts Tree Fp ScanAction Tokens Lexer.
Local Open Scope Z_scope.

(* the mathematical value of a digit string in a base: sum of digit * base^position *)
Definition positional (base : Z) (ds : bytes) : Z := val_be base (map digit_val ds).

Lemma digits_val_positional base ds : digits_val base ds = positional base ds.
Proof.
  unfold digits_val, positional, val_be. generalize 0 as acc.
  induction ds as [|d r IH]; intros acc; cbn; [reflexivity | apply IH].
Qed.

(* lexeme shapes *)
Definition sign_of (neg : bool) (plus : bool) : bytes := if neg then [45] else if plus then [43] else [].
Definition suffix_ok (s : bytes) : Prop := s = [] \/ s = [76] \/ s = [76; 76].

Lemma digit_not_sign d r : is_digit d = true -> split_sign (d :: r) = (false, d :: r).
Proof.
  unfold is_digit. intros H. apply andb_true_iff in H as [H1 H2]. apply Z.leb_le in H1, H2.
  unfold split_sign. destruct d as [|p|p]; try lia; try reflexivity.
  do 6 (destruct p as [p|p|]; try reflexivity; try lia).
Qed.

Lemma split_sign_lexeme neg plus ds rest :
  ds <> [] -> forallb is_digit ds = true ->
  split_sign (sign_of neg plus ++ ds ++ rest) = (neg, ds ++ rest).
Proof.
  intros Hne Hd. destruct ds as [|d ds']; [congruence|]. cbn [forallb] in Hd. apply andb_true_iff in Hd as [Hd1 _].
  destruct neg; [reflexivity|]. destruct plus; [reflexivity|]. cbn [sign_of app]. apply digit_not_sign. exact Hd1.
Qed.

Lemma L_not_digit : is_digit 76 = false. Proof. reflexivity. Qed.

Lemma span_digits_suffix ds suffix :
  forallb is_digit ds = true -> suffix_ok suffix -> span is_digit (ds ++ suffix) = (ds, suffix).
Proof.
  intros Hd [-> | [-> | ->]].
  - rewrite app_nil_r. apply span_all_nil. exact Hd.
  - apply span_app_stop; [exact Hd | reflexivity].
  - apply span_app_stop; [exact Hd | reflexivity].
Qed.

(* is the digit string read as octal (C rule: a leading 0 followed by more digits)? *)
Definition octal_form (ds : bytes) : bool :=
  match ds with 48 :: _ :: _ => true | _ => false end.

(* the value the documentation assigns to a decimal/octal literal, None when it is not a number (a
   digit 8 or 9 in an octal literal) *)
Definition int_literal_value (neg : bool) (ds : bytes) : option Z :=
  let m := if octal_form ds then (if forallb is_octal_digit ds then Some (positional 8 ds) else None)
           else Some (positional 10 ds) in
  match m with Some v => Some (if neg then - v else v) | None => None end.

Theorem parse_integer_exact neg plus ds suffix :
  ds <> [] -> forallb is_digit ds = true -> suffix_ok suffix ->
  parse_integer (sign_of neg plus ++ ds ++ suffix) =
  match int_literal_value neg ds with
  | Some z => if in_int64 z then Some z else None
  | None => None
  end.
Proof.
  intros Hne Hd Hs. unfold parse_integer. rewrite (split_sign_lexeme neg plus ds suffix Hne Hd).
  rewrite (span_digits_suffix ds suffix Hd Hs).
  assert (Hok : match suffix with [] | [76] | [76; 76] => true | _ => false end = true)
    by (destruct Hs as [-> | [-> | ->]]; reflexivity).
  rewrite Hok. unfold int_literal_value, octal_form. rewrite <- !digits_val_positional.
  destruct ds as [|d0 [|d1 r]]; [congruence| |].
  - assert (E : match [d0] with 48 :: _ :: _ => true | _ => false end = false).
    { destruct d0 as [|p|p]; try reflexivity. do 6 (destruct p as [p|p|]; try reflexivity). }
    assert (E2 : (match [d0] with
                  | 48 :: _ :: _ => if forallb is_octal_digit [d0] then Some (digits_val 8 [d0]) else None
                  | _ => Some (digits_val 10 [d0]) end) = Some (digits_val 10 [d0])).
    { destruct d0 as [|p|p]; try reflexivity. do 6 (destruct p as [p|p|]; try reflexivity). }
    rewrite E2, E. rewrite andb_true_r. reflexivity.
  - destruct (d0 =? 48) eqn:E0.
    + apply Z.eqb_eq in E0. subst d0. cbn [octal_form]. destruct (forallb is_octal_digit (48 :: d1 :: r)).
      * rewrite andb_true_r. reflexivity.
      * reflexivity.
    + assert (E : match d0 :: d1 :: r with 48 :: _ :: _ => true | _ => false end = false).
      { apply Z.eqb_neq in E0. destruct d0 as [|p|p]; try reflexivity.
        do 6 (destruct p as [p|p|]; try reflexivity). congruence. }
      assert (E2 : (match d0 :: d1 :: r with
                    | 48 :: _ :: _ => if forallb is_octal_digit (d0 :: d1 :: r) then Some (digits_val 8 (d0 :: d1 :: r)) else None
                    | _ => Some (digits_val 10 (d0 :: d1 :: r)) end) = Some (digits_val 10 (d0 :: d1 :: r))).
      { apply Z.eqb_neq in E0. destruct d0 as [|p|p]; try reflexivity.
        do 6 (destruct p as [p|p|]; try reflexivity). congruence. }
      rewrite E2, E. rewrite andb_true_r. reflexivity.
Qed.

(* hexadecimal: 0x / 0X, hex digits, optional L / LL *)
Lemma span_xdigits_suffix ds suffix :
  forallb is_xdigit ds = true -> suffix_ok suffix -> span is_xdigit (ds ++ suffix) = (ds, suffix).
Proof.
  intros Hd [-> | [-> | ->]].
  - rewrite app_nil_r. apply span_all_nil. exact Hd.
  - apply span_app_stop; [exact Hd | reflexivity].
  - apply span_app_stop; [exact Hd | reflexivity].
Qed.

Theorem parse_hex64_exact x ds suffix :
  forallb is_xdigit ds = true -> suffix_ok suffix ->
  parse_hex64 (48 :: x :: ds ++ suffix) =
  if positional 16 ds <=? ULLONG_MAX then Some (positional 16 ds) else None.
Proof.
  intros Hd Hs. unfold parse_hex64. rewrite (span_xdigits_suffix ds suffix Hd Hs).
  rewrite digits_val_positional.
  destruct (ULLONG_MAX <? positional 16 ds) eqn:E; [apply Z.ltb_lt in E | apply Z.ltb_ge in E].
  - replace (positional 16 ds <=? ULLONG_MAX) with false by (symmetry; apply Z.leb_gt; exact E). reflexivity.
  - replace (positional 16 ds <=? ULLONG_MAX) with true by (symmetry; apply Z.leb_le; exact E). reflexivity.
Qed.

Lemma positional_nonneg base ds : 0 <= base -> forallb is_xdigit ds = true -> 0 <= positional base ds.
Proof.
  intros Hb Hd. rewrite <- digits_val_positional. apply digits_val_nonneg; [exact Hb|].
  intros c Hc. rewrite forallb_forall in Hd. specialize (Hd c Hc).
  unfold is_xdigit, is_digit, digit_val, is_digit in *.
  destruct ((48 <=? c) && (c <=? 57)) eqn:E1; [apply andb_true_iff in E1 as [A B]; apply Z.leb_le in A, B; lia|].
  destruct ((65 <=? c) && (c <=? 90)) eqn:E2; [apply andb_true_iff in E2 as [A B]; apply Z.leb_le in A, B; lia|].
  destruct ((97 <=? c) && (c <=? 122)) eqn:E3; [apply andb_true_iff in E3 as [A B]; apply Z.leb_le in A, B; lia|].
  lia.
Qed.

(* {hex}: accepted exactly when the digits spell at most 32 bits; the stored int has that bit pattern *)
Theorem hex_value_exact x ds :
  forallb is_xdigit ds = true ->
  hex_value (48 :: x :: ds) =
  (if positional 16 ds <=? 4294967295 then Some (to_int32 (positional 16 ds)) else None) /\
  (positional 16 ds <= 4294967295 -> to_uint32 (to_int32 (positional 16 ds)) = positional 16 ds).
Proof.
  intros Hd. pose proof (positional_nonneg 16 ds ltac:(lia) Hd) as Hnn. split.
  - unfold hex_value. pose proof (parse_hex64_exact x ds [] Hd (or_introl eq_refl)) as P.
    rewrite app_nil_r in P. rewrite P. unfold ULLONG_MAX.
    destruct (positional 16 ds <=? 4294967295) eqn:E; [apply Z.leb_le in E | apply Z.leb_gt in E].
    + replace (positional 16 ds <=? 18446744073709551615) with true by (symmetry; apply Z.leb_le; lia).
      replace (4294967295 <? positional 16 ds) with false by (symmetry; apply Z.ltb_ge; lia). reflexivity.
    + destruct (positional 16 ds <=? 18446744073709551615); [|reflexivity].
      replace (4294967295 <? positional 16 ds) with true by (symmetry; apply Z.ltb_lt; lia). reflexivity.
  - intros Hle. unfold to_uint32, to_int32, two32.
    rewrite (Z.mod_small (positional 16 ds) 4294967296) by lia.
    destruct (positional 16 ds <? 2147483648) eqn:E; [apply Z.ltb_lt in E | apply Z.ltb_ge in E].
    + apply Z.mod_small. lia.
    + replace (positional 16 ds - 4294967296) with (positional 16 ds + (-1) * 4294967296) by lia.
      rewrite Z.mod_add by lia. apply Z.mod_small. lia.
Qed.

(* {hex64}: at most 64 bits; the stored long long has that bit pattern *)
Theorem hex64_value_exact x ds suffix :
  forallb is_xdigit ds = true -> suffix_ok suffix ->
  hex64_value (48 :: x :: ds ++ suffix) =
  (if positional 16 ds <=? ULLONG_MAX then Some (to_int64 (positional 16 ds)) else None) /\
  (positional 16 ds <= ULLONG_MAX -> to_uint64 (to_int64 (positional 16 ds)) = positional 16 ds).
Proof.
  intros Hd Hs. pose proof (positional_nonneg 16 ds ltac:(lia) Hd) as Hnn. split.
  - unfold hex64_value. rewrite (parse_hex64_exact x ds suffix Hd Hs).
    destruct (positional 16 ds <=? ULLONG_MAX); reflexivity.
  - unfold ULLONG_MAX. intros Hle. unfold to_uint64, to_int64, two64.
    rewrite (Z.mod_small (positional 16 ds) 18446744073709551616) by lia.
    destruct (positional 16 ds <? 9223372036854775808) eqn:E; [apply Z.ltb_lt in E | apply Z.ltb_ge in E].
    + apply Z.mod_small. lia.
    + replace (positional 16 ds - 18446744073709551616) with (positional 16 ds + (-1) * 18446744073709551616) by lia.
      rewrite Z.mod_add by lia. apply Z.mod_small. lia.
Qed.
