(* Properties_C07.v (stage 1: the faithful model of the unrepaired code refutes two clauses) *)
From Coq Require Import List ZArith Bool.
Import ListNotations.
From LC Require Import Base Tree Fp Lookup Api ApiStep.
Local Open Scope Z_scope.

(* "int and 64-bit int are interchangeable exactly when the value fits": an int always fits a 64-bit
   setting, yet config_setting_set_int fails on one (libconfig.c:1035-1059 has no INT64 case) *)
Theorem C07_set_int_on_int64_refuted :
  exists s v, s_pl s = PInt64 0 /\ in_int v = true /\ n_set_int false s v = SFail.
Proof. exists (new_setting None TInt64), 5. repeat split. Qed.
Print Assumptions C07_set_int_on_int64_refuted.

(* "a 32-bit integer to float exactly": the value goes through (float) (libconfig.c:1050) *)
Theorem C07_set_int_on_float_refuted :
  exists s v s', s_pl s = PFloat 0 /\ in_int v = true /\ n_set_int true s v = SOk s' /\
                 s_pl s' = PFloat (b64_of_Z 16777216) /\ v = 16777217.
Proof. exists (new_setting None TFloat), 16777217. eexists. repeat split. Qed.
Print Assumptions C07_set_int_on_float_refuted.
