(* Properties_C07.v — C07: typed get/set follow the documented conversion rules without silent
   corruption.  Theorems only; proofs are in ConvertFacts.v / ApiFacts.v.  The node-level functions
   n_get_* / n_set_* model __config_setting_get_* / config_setting_set_* of libconfig.c; setter/getter/
   typed_look/elem_getter are the accessor families built on them, tied to the code by ./check C07.

   History: on the tree before /repo commit 94d9fd4 the faithful model refuted two clauses
   (set_int on an INT64 setting failed; int -> float went through a 32-bit float: 16777217 was stored
   as 16777216.0).  Both were repaired (known_findings.json, F10); the theorems below are about the
   model of the repaired code. *)
From Coq Require Import List ZArith Bool.
Import ListNotations.
From LC Require Import Base Tree Fp Lookup Api ApiStep TreeFacts ApiFacts ConvertFacts.
Local Open Scope Z_scope.

(* ---- int and 64-bit int are interchangeable exactly when the value fits ---- *)
Theorem C07_int_int64_get : forall auto s z,
  (s_pl s = PInt z -> n_get_int64 auto s = GOk z) /\
  (s_pl s = PInt64 z -> n_get_int auto s = (if in_int z then GOk z else GFail)).
Proof. intros; split; [apply get_int64_of_int | apply get_int_of_int64]. Qed.
Print Assumptions C07_int_int64_get.

Theorem C07_int_int64_set : forall auto s z v,
  (s_pl s = PInt z ->
   n_set_int64 auto s v = (if in_int v then SOk (set_pl s (PInt v)) else SFail)) /\
  (s_pl s = PInt64 z -> n_set_int auto s v = SOk (set_pl s (PInt64 v))).
Proof. intros; split; [apply set_int64_on_int | apply set_int_on_int64]. Qed.
Print Assumptions C07_int_int64_set.

(* ---- floats and integers convert only when auto-conversion is enabled ---- *)
Theorem C07_no_autoconvert : forall s v,
  ((forall b, s_pl s = PFloat b -> n_get_int false s = GFail /\ n_get_int64 false s = GFail) /\
   (forall z, s_pl s = PInt z \/ s_pl s = PInt64 z -> n_get_float false s = GFail)) /\
  ((forall b, s_pl s = PFloat b -> n_set_int false s v = SFail /\ n_set_int64 false s v = SFail) /\
   (forall z, s_pl s = PInt z \/ s_pl s = PInt64 z -> n_set_float false s v = SFail)).
Proof. intros; split; [apply no_autoconvert_get | apply no_autoconvert_set]. Qed.
Print Assumptions C07_no_autoconvert.

(* ---- ... a 32-bit integer to float exactly (both directions of the accessor pair):
   b64_is_int b z says the double with bit pattern b is finite and is exactly the integer z ---- *)
Theorem C07_int_to_float_exact : forall s z,
  in_int z = true ->
  (s_pl s = PInt z -> exists b, n_get_float true s = GOk b /\ b64_is_int b z) /\
  (forall b0, s_pl s = PFloat b0 ->
     exists s' b', n_set_int true s z = SOk s' /\ s_pl s' = PFloat b' /\ b64_is_int b' z).
Proof.
  intros s z Hz; split; [intros H; apply get_float_of_int_exact; assumption
                        | intros b0 H; eapply set_int_on_float_exact; eassumption].
Qed.
Print Assumptions C07_int_to_float_exact.

(* non-vacuity and the boundary that used to fail: 2^24 + 1 *)
Example C07_exact_example :
  n_set_int true (new_setting None TFloat) 16777217
  = SOk (set_pl (new_setting None TFloat) (PFloat (b64_of_Z 16777217))) /\
  b64_trunc (b64_of_Z 16777217) = 16777217.
Proof. split; reflexivity. Qed.

(* ---- booleans and strings never convert ---- *)
Theorem C07_bool_string_never_convert : forall auto s v o,
  (is_bool_or_string s ->
     (n_get_int auto s = GFail /\ n_get_int64 auto s = GFail /\ n_get_float auto s = GFail /\
      (forall z, s_pl s = PBool z -> n_get_string s = None) /\
      (forall x, s_pl s = PStr x -> n_get_bool s = 0)) /\
     (n_set_int auto s v = SFail /\ n_set_int64 auto s v = SFail /\ n_set_float auto s v = SFail /\
      (forall z, s_pl s = PBool z -> n_set_string s o = SFail) /\
      (forall x, s_pl s = PStr x -> n_set_bool s v = SFail))) /\
  (is_number s ->
     n_get_bool s = 0 /\ n_get_string s = None /\ n_set_bool s v = SFail /\ n_set_string s o = SFail).
Proof.
  intros; split; [intros H; split; [apply bool_string_get | apply bool_string_set]; assumption
                 | apply number_not_bool_string].
Qed.
Print Assumptions C07_bool_string_never_convert.

(* ---- the complete table: a setter succeeds exactly on the documented (stored type, kind) pairs;
   a success keeps the stored type (or gives a NONE setting the kind's type) ---- *)
Theorem C07_set_table : forall c k a s,
  match setter c k a s with
  | SOk s' => set_accepts (auto c) (s_ty s) k (arg_z a) = true /\
              (s_ty s' = s_ty s \/ (s_ty s = TNone /\ s_ty s' = sk_ty k))
  | SUnspec => set_accepts (auto c) (s_ty s) k (arg_z a) = true
  | SFail => set_accepts (auto c) (s_ty s) k (arg_z a) = false
  end.
Proof.
  intros c k a s. pose proof (setter_table c k a s) as H.
  destruct (setter c k a s) eqn:E; try exact H. split; [exact H|]. eapply setter_keeps_type; eassumption.
Qed.
Print Assumptions C07_set_table.

(* a typed lookup succeeds exactly on the documented pairs, and a failing one has no output (the
   caller's variable is not written) *)
Theorem C07_get_table : forall c k m,
  match typed_look c k (Some m) with
  | RLook ok out => ok = (if get_accepts (auto c) m k then 1 else 0) /\ (ok = 0 -> out = None)
  | RUnspec => get_accepts (auto c) m k = true
  | _ => False
  end.
Proof. exact typed_look_table. Qed.
Print Assumptions C07_get_table.

(* ---- a value that was stored is the value read back ---- *)
Theorem C07_set_get : forall auto s s',
  (forall v, n_set_int auto s v = SOk s' -> s_ty s <> TFloat -> in_int v = true -> n_get_int auto s' = GOk v) /\
  (forall v, n_set_int64 auto s v = SOk s' -> s_ty s <> TFloat -> n_get_int64 auto s' = GOk v) /\
  (forall b, n_set_float auto s b = SOk s' -> s_ty s = TFloat \/ s_ty s = TNone -> n_get_float auto s' = GOk b) /\
  (forall v, n_set_bool s v = SOk s' -> n_get_bool s' = v) /\
  (forall o, n_set_string s o = SOk s' -> n_get_string s' = o).
Proof.
  intros auto s s'. repeat split; intros.
  - eapply set_get_int; eassumption.
  - eapply set_get_int64; eassumption.
  - eapply set_get_float; eassumption.
  - eapply set_get_bool; eassumption.
  - eapply set_get_string; eassumption.
Qed.
Print Assumptions C07_set_get.

(* ---- a mismatching get returns 0 / 0.0 / NULL (direct and by-index accessors) or reports failure
   with no output (by-name and by-path accessors) ---- *)
Theorem C07_mismatch_get : forall c k m,
  match typed_look c k (Some m) with
  | RLook _ (Some v) => getter c k m = v
  | RLook _ None => getter c k m = zero_ret k
  | r => getter c k m = r
  end.
Proof. exact getter_vs_look. Qed.
Print Assumptions C07_mismatch_get.

(* ---- a mismatching set reports failure leaving the stored value and type (the whole
   configuration) unchanged: every setter family ---- *)
Theorem C07_mismatch_set_unchanged : forall c k p v c' ev,
  (api_step c (OSet k p v) = (c', RInt 0, ev) -> c' = c /\ ev = []) /\
  (forall idx, api_step c (OSetElem k p idx v) = (c', RNode None, ev) -> c' = c /\ ev = []).
Proof.
  intros; split; [intros H | intros idx H]; eapply fail_atomic; try exact H; reflexivity.
Qed.
Print Assumptions C07_mismatch_set_unchanged.

(* ---- identically through the direct, by-name, by-path and by-index accessors: each family applies
   the same node-level function to the setting it selects ---- *)
Theorem C07_accessors_agree : forall c k p s,
  get_at p (c_root c) = Some s ->
  api_step c (OGet k p) = (c, getter c k s, []) /\
  (forall name, api_step c (OMLook k p name) = (c, typed_look c k (kid_at s (get_member s name)), [])) /\
  (forall idx, api_step c (OGetElem k p idx)
               = (c, elem_getter c k (kid_at s (get_elem s (to_uint32 idx))), [])) /\
  (forall path, api_step c (OPLook k path)
                = (c, typed_look c k (match lookup (c_root c) path with
                                      | Some rel => get_at rel (c_root c) | None => None end), [])) /\
  (forall e, elem_getter c k (Some e) = getter c k e) /\
  elem_getter c k None = zero_ret k /\ typed_look c k None = RLook 0 None /\
  (forall v, api_step c (OSet k p v) =
             match setter c k v s with
             | SOk s' => (set_root c (upd_at p (fun _ => s') (c_root c)), RInt 1, [])
             | SFail => (c, RInt 0, [])
             | SUnspec => (c, RUnspec, [])
             end).
Proof.
  intros c k p s H.
  split; [apply step_get; assumption|].
  split; [intros; apply step_mlook; assumption|].
  split; [intros; apply step_get_elem; assumption|].
  split; [intros; apply step_plook|].
  split; [reflexivity|].
  split; [apply elem_getter_none|].
  split; [reflexivity|].
  intros; apply step_set; assumption.
Qed.
Print Assumptions C07_accessors_agree.

(* the by-index setter on an existing element runs the same node-level setter on that element *)
Theorem C07_set_elem_agrees : forall t st agg idx i e,
  (s_ty agg = TArray \/ s_ty agg = TList) -> 0 <= idx -> get_elem agg idx = Some i ->
  nth_error (s_kids agg) i = Some e ->
  n_set_elem t st agg idx =
  match st e with
  | SOk e' => EOk (set_kids agg (list_upd i (fun _ => e') (s_kids agg))) i
  | SFail => EFail
  | SUnspec => EUnspec
  end.
Proof. exact set_elem_existing. Qed.
Print Assumptions C07_set_elem_agrees.
