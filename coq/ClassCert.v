(* ClassCert.v — the lexeme classes the writer emits (C01, C19), each checked against the documented rule
   list of its start condition by ClassCheck.class_closed (vm_compute), and lifted to the compiled scanner
   through ScannerFacts.scanner_is_spec.  Rule numbers are those of scanner.l (ScannerSpec.spec). *)
From Coq Require Import List ZArith NArith Bool Lia.
Import ListNotations.
From LC Require Import Base Regex RegexFacts FlexEngine Bisim ClassCheck ScanAction ScannerSpec ScannerCert ScannerFacts.
Local Open Scope Z_scope.

(* ---- the classes ---- *)
Definition minus_opt := opt (chr 45).
Definition upper_hexd := Chr (cs_union cs_digit (cs_range 65 70)).
Definition c_dec := Cat minus_opt (plus digit).                                   (* %d, %lld *)
Definition c_dec64 := cats [minus_opt; plus digit; chr 76].                       (* %lldL *)
Definition c_hex := cats [chr 48; chr 120; plus upper_hexd].                      (* 0x%X *)
Definition c_hex64 := cats [chr 48; chr 120; plus upper_hexd; chr 76].            (* 0x%llXL *)
Definition c_expo := cats [chr 101; Chr (cs_of [43; 45]); plus digit].            (* e+dd, e-dd *)
(* libconfig_format_double on a finite double: digits . digits with an optional exponent, or digits
   and an exponent *)
Definition c_float :=
  Alt (cats [minus_opt; plus digit; chr 46; plus digit; opt c_expo])
      (cats [minus_opt; plus digit; c_expo]).
Definition c_true := str [116; 114; 117; 101].
Definition c_false := str [102; 97; 108; 115; 101].
Definition c_name := p_name.                                                       (* __config_validate_name *)
Definition c_spaces := Alt (plus (chr 32)) (plus (chr 9)).                         (* indentation, separators *)
(* string bodies: the bytes the writer emits unescaped *)
Definition cs_plain := N.ldiff (cs_range 32 255) (cs_of [34; 92]).
Definition c_plain := plus (Chr cs_plain).
Definition c_hexesc := cats [chr 92; chr 120; upper_hexd; upper_hexd].

Definition bytes_except (l : list Z) : list Z := filter (fun b => negb (existsb (Z.eqb b) l)) all_bytes.
(* what follows a value in the writer's output: ; newline , blank ) ] } *)
Definition after_value : list Z := [59; 10; 44; 32; 41; 93; 125].

Record inst := mkI { i_cls : re; i_sc : Z; i_bol : bool; i_exps : list Z; i_delims : list Z }.

Definition both_bol (cls : re) (exps delims : list Z) : list inst :=
  [mkI cls 0 false exps delims; mkI cls 0 true exps delims].

Definition instances : list inst :=
  both_bol c_dec [38] after_value ++ both_bol c_dec64 [39] after_value ++
  both_bol c_hex [40] after_value ++ both_bol c_hex64 [41] after_value ++
  both_bol c_float [37] after_value ++
  both_bol c_true [34] after_value ++ both_bol c_false [35] after_value ++
  both_bol c_name [36; 34; 35] [32] ++
  both_bol c_spaces [29] (bytes_except [32; 9; 64]) ++
  both_bol (chr 10) [28] all_bytes ++
  both_bol (chr 61) [30] all_bytes ++ both_bol (chr 58) [30] all_bytes ++
  both_bol (chr 44) [31] all_bytes ++ both_bol (chr 123) [32] all_bytes ++ both_bol (chr 125) [33] all_bytes ++
  both_bol (chr 91) [42] all_bytes ++ both_bol (chr 93) [43] all_bytes ++
  both_bol (chr 40) [44] all_bytes ++ both_bol (chr 41) [45] all_bytes ++ both_bol (chr 59) [46] all_bytes ++
  both_bol (chr 34) [8] all_bytes ++
  [ mkI c_plain 3 false [9] [34; 92];
    mkI (bs2 110) 3 false [12] all_bytes; mkI (bs2 114) 3 false [13] all_bytes;
    mkI (bs2 116) 3 false [14] all_bytes; mkI (bs2 102) 3 false [16] all_bytes;
    mkI (bs2 92) 3 false [17] all_bytes; mkI (bs2 34) 3 false [18] all_bytes;
    mkI c_hexesc 3 false [19] all_bytes;
    mkI (chr 34) 3 false [21] all_bytes ].

Definition inst_start (i : inst) : cpair := (i_cls i, spec_rules (i_sc i) (i_bol i)).
Definition inst_cert (i : inst) : list cpair :=
  cexplore 4000 [inst_start i] [].
Definition cond_eqb (a b : Z * bool) : bool := (fst a =? fst b) && Bool.eqb (snd a) (snd b).
Definition inst_closed (i : inst) : bool := class_closed (i_exps i) (i_delims i) (inst_cert i).
Definition inst_started (i : inst) : bool := cmem (inst_start i) (inst_cert i).
Definition inst_cond (i : inst) : bool := existsb (cond_eqb (i_sc i, i_bol i)) all_conditions.

Lemma all_inst_closed : forallb inst_closed instances = true.
Proof. vm_compute. reflexivity. Qed.
Lemma all_inst_started : forallb inst_started instances = true.
Proof. vm_compute. reflexivity. Qed.
Lemma all_inst_cond : forallb inst_cond instances = true.
Proof. vm_compute. reflexivity. Qed.

Global Opaque inst_cert cexplore class_closed.
Global Strategy opaque [inst_cert cexplore class_closed].

(* every word of the class, followed by one of the listed bytes, is one match of the compiled scanner in
   that start condition, by one of the expected rules *)
Theorem inst_flex i : In i instances ->
  forall w d rest, matches (i_cls i) w -> bytes_ok (w ++ d :: rest) -> In d (i_delims i) ->
  exists r, In r (i_exps i) /\ flex_match the_tables (i_sc i) (i_bol i) (w ++ d :: rest) = Some (r, length w).
Proof.
  intros Hi w d rest Hm Hb Hd.
  pose proof (proj1 (forallb_forall _ _) all_inst_closed i Hi) as C1.
  pose proof (proj1 (forallb_forall _ _) all_inst_started i Hi) as C2.
  pose proof (proj1 (forallb_forall _ _) all_inst_cond i Hi) as C3.
  unfold inst_closed in C1. unfold inst_started, inst_start in C2. unfold inst_cond in C3.
  apply existsb_exists in C3 as ([sc bol] & Hin & E). unfold cond_eqb in E. cbn [fst snd] in E.
  apply andb_true_iff in E as [E1 E2]. apply Z.eqb_eq in E1. apply Bool.eqb_prop in E2. subst sc bol.
  rewrite (scanner_is_spec _ _ _ Hin Hb).
  assert (Hbw : bytes_ok w). { unfold bytes_ok in *. apply Forall_app in Hb. exact (proj1 Hb). }
  exact (class_longest_match _ _ _ _ _ C1 C2 w d rest Hm Hbw Hd).
Qed.
