(* ScanAction.v — closed datatype of scanner rule actions; the translator tools/gen_tables.py maps
   the normalised text of each `case N:` body of lib/scanner.c to one of these. *)
From Coq Require Import ZArith.

Inductive ptok :=
| TEquals | TComma | TGroupStart | TGroupEnd | TArrayStart | TArrayEnd
| TListStart | TListEnd | TSemicolon | TGarbage.

Inductive action :=
| ABegin (sc : Z)          (* BEGIN <start condition> *)
| AIgnore                  (* empty body *)
| AAppendText              (* libconfig_scanctx_append_string(yyextra, yytext) *)
| AAppendChar (c : Z)      (* libconfig_scanctx_append_char(yyextra, c) *)
| AAppendHex               (* the \xHH body: strtol(yytext + 2, NULL, 16) & 0xFF *)
| AEndString               (* take_string; BEGIN INITIAL; return TOK_STRING *)
| AIncludeEnd              (* closing quote of an @include directive *)
| ARet (t : ptok)
| ABool (v : Z)
| AName | AFloat | AInteger | AInteger64 | AHex | AHex64
| AEcho                    (* flex's default rule: ECHO to yyout *)
| AUnknown.                (* text not recognised by the translator *)
