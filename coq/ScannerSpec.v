(* ScannerSpec.v — the documented token patterns (doc/libconfig.texi, QUOTEConfiguration File GrammarQUOTE and
   QUOTEString ValuesQUOTE; lib/scanner.l) as regular expressions, per start condition and in priority order,
   with the documented action of each.  Rule numbers are positions in scanner.l.  Fixed specification:
   nothing here is generated. *)
From Coq Require Import List ZArith NArith Bool.
Import ListNotations.
From LC Require Import Base Regex ScanAction.
Local Open Scope Z_scope.

Definition cs_digit := cs_range 48 57.
Definition cs_alpha := cs_union (cs_range 65 90) (cs_range 97 122).
Definition cs_hex := cs_union cs_digit (cs_union (cs_range 65 70) (cs_range 97 102)).
Definition digit := Chr cs_digit.
Definition hexd := Chr cs_hex.
Definition sign_opt := opt (Chr (cs_of [45; 43])).                 (* optional sign *)
Definition expo := cats [Chr (cs_of [101; 69]); sign_opt; plus digit].   (* e or E, optional sign, digits *)
Definition ll_suffix := Cat (chr 76) (opt (chr 76)).                (* L or LL *)
Definition not_quote_bs := Chr (cs_compl (cs_of [34; 92])).         (* [^\QUOTE\\] *)
Definition any_but_nl := Chr (cs_compl (cs_of [10])).               (* . *)
Definition blank := Chr (cs_of [32; 9]).                            (* [ \t] *)

Definition p_true := cats [ci 116; ci 114; ci 117; ci 101].
Definition p_false := cats [ci 102; ci 97; ci 108; ci 115; ci 101].
Definition p_name := Cat (Chr (cs_union cs_alpha (cs_of [42])))
                         (Star (Chr (cs_union cs_alpha (cs_union cs_digit (cs_of [45; 95; 42]))))).
Definition p_integer := Cat sign_opt (plus digit).
Definition p_integer64 := cats [sign_opt; plus digit; ll_suffix].
Definition p_hex := cats [chr 48; Chr (cs_of [88; 120]); plus hexd].
Definition p_hex64 := cats [chr 48; Chr (cs_of [88; 120]); plus hexd; ll_suffix].
Definition p_hexchar := cats [chr 92; Chr (cs_of [88; 120]); hexd; hexd].
(* the float pattern of scanner.l: sign? digits-or-none . digits-or-none exponent?   or   sign? digits (. digits-or-none)? exponent *)
Definition p_float :=
  Alt (cats [sign_opt; Star digit; chr 46; Star digit; opt expo])
      (cats [sign_opt; plus digit; opt (Cat (chr 46) (Star digit)); expo]).
(* at the beginning of a line: blanks, @include, at least one blank, a double quote *)
Definition p_include_open := cats [Star blank; str [64; 105; 110; 99; 108; 117; 100; 101]; plus blank; chr 34].

Record srule := mkSR { sr_no : Z; sr_sc : Z; sr_bol : bool; sr_re : re; sr_act : action }.

Definition bs2 (c : Z) : re := Cat (chr 92) (chr c).                (* backslash followed by c *)

Definition spec : list srule :=
  [ mkSR 1 0 false (Alt (chr 35) (str [47; 47])) (ABegin 1);        (* # or // *)
    mkSR 2 1 false (chr 10) (ABegin 0);
    mkSR 3 1 false any_but_nl AIgnore;
    mkSR 4 0 false (str [47; 42]) (ABegin 2);                       (* slash star *)
    mkSR 5 2 false (str [42; 47]) (ABegin 0);                       (* star slash *)
    mkSR 6 2 false any_but_nl AIgnore;
    mkSR 7 2 false (chr 10) AIgnore;
    mkSR 8 0 false (chr 34) (ABegin 3);
    mkSR 9 3 false (plus not_quote_bs) AAppendText;
    mkSR 10 3 false (bs2 97) (AAppendChar 7);                       (* \a *)
    mkSR 11 3 false (bs2 98) (AAppendChar 8);                       (* \b *)
    mkSR 12 3 false (bs2 110) (AAppendChar 10);                     (* \n *)
    mkSR 13 3 false (bs2 114) (AAppendChar 13);                     (* \r *)
    mkSR 14 3 false (bs2 116) (AAppendChar 9);                      (* \t *)
    mkSR 15 3 false (bs2 118) (AAppendChar 11);                     (* \v *)
    mkSR 16 3 false (bs2 102) (AAppendChar 12);                     (* \f *)
    mkSR 17 3 false (bs2 92) (AAppendChar 92);                      (* \\ *)
    mkSR 18 3 false (bs2 34) (AAppendChar 34);                      (* \QUOTE *)
    mkSR 19 3 false p_hexchar AAppendHex;
    mkSR 20 3 false (chr 92) (AAppendChar 92);                      (* any other backslash is kept *)
    mkSR 21 3 false (chr 34) AEndString;
    mkSR 22 0 true p_include_open (ABegin 4);
    mkSR 23 4 false (plus not_quote_bs) AAppendText;
    mkSR 24 4 false (bs2 92) (AAppendChar 92);
    mkSR 25 4 false (bs2 34) (AAppendChar 34);
    mkSR 26 4 false (chr 92) (AAppendChar 92);
    mkSR 27 4 false (chr 34) AIncludeEnd;
    mkSR 28 0 false (Chr (cs_of [10; 13; 12; 7; 8; 11])) AIgnore;
    mkSR 29 0 false (plus blank) AIgnore;
    mkSR 30 0 false (Chr (cs_of [61; 58])) (ARet TEquals);
    mkSR 31 0 false (chr 44) (ARet TComma);
    mkSR 32 0 false (chr 123) (ARet TGroupStart);
    mkSR 33 0 false (chr 125) (ARet TGroupEnd);
    mkSR 34 0 false p_true (ABool 1);
    mkSR 35 0 false p_false (ABool 0);
    mkSR 36 0 false p_name AName;
    mkSR 37 0 false p_float AFloat;
    mkSR 38 0 false p_integer AInteger;
    mkSR 39 0 false p_integer64 AInteger64;
    mkSR 40 0 false p_hex AHex;
    mkSR 41 0 false p_hex64 AHex64;
    mkSR 42 0 false (chr 91) (ARet TArrayStart);
    mkSR 43 0 false (chr 93) (ARet TArrayEnd);
    mkSR 44 0 false (chr 40) (ARet TListStart);
    mkSR 45 0 false (chr 41) (ARet TListEnd);
    mkSR 46 0 false (chr 59) (ARet TSemicolon);
    mkSR 47 0 false any_but_nl (ARet TGarbage) ].

(* the rules live in start condition sc, at (bol = true) or away from the beginning of a line *)
Definition spec_rules (sc : Z) (bol : bool) : list rule :=
  map (fun s => (sr_no s, sr_re s))
      (filter (fun s => (sr_sc s =? sc) && (bol || negb (sr_bol s))) spec).

Definition spec_actions : list (Z * action) := map (fun s => (sr_no s, sr_act s)) spec.
