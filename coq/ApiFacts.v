(* ApiFacts.v — the ordered-tree algebra of the API model (lemmas behind Properties_C05). *)
From Coq Require Import List ZArith Bool Lia.
Import ListNotations.
From LC Require Import Base Tree Fp Lookup Api ApiStep TreeFacts.
Local Open Scope Z_scope.

Ltac destr_match :=
  match goal with
  | |- context [match ?x with _ => _ end] => destruct x eqn:?
  | H : context [match ?x with _ => _ end] |- _ => destruct x eqn:?
  end.

Ltac inv H := inversion H; subst; clear H.

(* ------------------------------------------------------------------------------------ *)
(* attributes *)

Definition attrs (c : cfg) :=
  (c_options c, c_tab c, c_prec c, c_deffmt c, c_incdir c, c_incfn c, c_dtor c, c_hook c, c_err c).

Lemma attrs_set_root c r : attrs (set_root c r) = attrs c.
Proof. reflexivity. Qed.

Lemma at_node_attrs c p f c' r ev :
  at_node c p f = (c', r, ev) -> attrs c' = attrs c /\ c_files c' = c_files c.
Proof.
  unfold at_node. destruct (get_at p (c_root c)); [|intros H; inv H; auto].
  destruct (f s) as [[o r0] ev0]. destruct o; intros H; inv H; auto.
Qed.

(* which operations may change attributes *)
Definition is_attr_op (o : aop) : bool :=
  match o with
  | OInit | ODestroy | OSetOptions _ | OSetOption _ _ | OSetTab _ | OSetPrec _ | OSetDefFmt _
  | OSetIncDir _ | OSetIncFn _ | OSetDtor _ | OSetCHook _ => true
  | _ => false
  end.

Lemma tree_ops_keep_attrs c o c' r ev :
  api_step c o = (c', r, ev) -> is_attr_op o = false -> attrs c' = attrs c.
Proof.
  destruct o; simpl; try discriminate; intros H _;
    try (apply at_node_attrs in H; tauto);
    try (inv H; reflexivity).
Qed.

(* which operations may change the settings *)
Definition is_tree_op (o : aop) : bool :=
  match o with
  | OInit | OClear | ODestroy | OHook _ _ | OAdd _ _ _ | ORemove _ _ | ORemoveElem _ _
  | OSet _ _ _ | OSetElem _ _ _ _ | OSetFormat _ _ => true
  | _ => false
  end.

Lemma at_node_query c p g c' r ev :
  at_node c p (fun s => (None, fst (g s), snd (g s))) = (c', r, ev) -> c' = c.
Proof.
  unfold at_node. destruct (get_at p (c_root c)); intros H; inv H; auto.
Qed.

Lemma other_ops_keep_tree c o c' r ev :
  api_step c o = (c', r, ev) -> is_tree_op o = false -> c_root c' = c_root c /\ ev = [].
Proof.
  destruct o; simpl; try discriminate; intros H _;
    try (inv H; split; reflexivity);
    try (unfold at_node in H; destruct (get_at p (c_root c)); inv H; split; reflexivity).
Qed.

(* ------------------------------------------------------------------------------------ *)
(* failure atomicity *)

Definition reports_failure (o : aop) (r : ret) : bool :=
  match r with
  | RBadHandle | RUnspec => true
  | RNode None => match o with OAdd _ _ _ | OSetElem _ _ _ _ => true | _ => false end
  | RInt 0 => match o with
              | ORemove _ _ | ORemoveElem _ _ | OSet _ _ _ | OSetFormat _ _ => true
              | _ => false
              end
  | _ => false
  end.

Lemma at_node_none c p f c' r ev :
  at_node c p f = (c', r, ev) ->
  (forall s o r' ev', get_at p (c_root c) = Some s -> f s = (o, r', ev') -> r' = r -> o = None /\ ev' = []) ->
  r <> RBadHandle -> c' = c /\ ev = [].
Proof.
  unfold at_node. destruct (get_at p (c_root c)) eqn:E.
  - destruct (f s) as [[o r0] ev0] eqn:F. intros H Hf _.
    assert (r0 = r) by (destruct o; inv H; reflexivity). subst r0.
    destruct (Hf _ _ _ _ eq_refl F eq_refl) as [-> ->]. inv H. auto.
  - intros H _ Hr. inv H. congruence.
Qed.

Lemma at_node_badhandle c p f c' ev :
  at_node c p f = (c', RBadHandle, ev) ->
  (forall s o r' ev', f s = (o, r', ev') -> r' <> RBadHandle) -> c' = c /\ ev = [].
Proof.
  unfold at_node. destruct (get_at p (c_root c)) eqn:E.
  - destruct (f s) as [[o r0] ev0] eqn:F. intros H Hf.
    assert (r0 = RBadHandle) by (destruct o; inv H; reflexivity). subst.
    exfalso. eapply Hf; eauto.
  - intros H _. inv H. auto.
Qed.

Theorem fail_atomic c o c' r ev :
  api_step c o = (c', r, ev) -> is_tree_op o = true -> reports_failure o r = true ->
  c' = c /\ ev = [].
Proof.
  intros H Ht Hr.
  destruct o; simpl in Ht; try discriminate; simpl in H.
  - (* OInit *) inv H. discriminate.
  - (* OClear *) unfold clear_cfg in H. inv H. discriminate.
  - (* ODestroy *) inv H. discriminate.
  - (* OHook *)
    unfold at_node in H. destruct (get_at p (c_root c)); inv H; try discriminate. auto.
  - (* OAdd *)
    unfold at_node in H. destruct (get_at p (c_root c)); [|inv H; auto].
    destruct (n_add _ _ _ _) as [[[s' i] v]|]; inv H; try discriminate. auto.
  - (* ORemove *)
    unfold at_node in H. destruct (get_at p (c_root c)); [|inv H; auto].
    destruct path as [pa|]; [|inv H; auto].
    destruct (n_remove _ _) as [[s' v]|]; inv H; try discriminate. auto.
  - (* ORemoveElem *)
    unfold at_node in H. destruct (get_at p (c_root c)); [|inv H; auto].
    destruct (n_remove_elem _ _) as [[s' v]|]; inv H; try discriminate. auto.
  - (* OSet *)
    unfold at_node in H. destruct (get_at p (c_root c)); [|inv H; auto].
    destruct (setter _ _ _ _); inv H; try discriminate; auto.
  - (* OSetElem *)
    unfold at_node in H. destruct (get_at p (c_root c)); [|inv H; auto].
    destruct (n_set_elem _ _ _ _); inv H; try discriminate; auto.
  - (* OSetFormat *)
    unfold at_node in H. destruct (get_at p (c_root c)); [|inv H; auto].
    destruct (n_set_format _ _); inv H; try discriminate; auto.
Qed.

(* ------------------------------------------------------------------------------------ *)
(* names and the path walker: a valid name is a one-component path *)

Lemma span_all {A} (p : A -> bool) l : forallb p l = true -> span p l = (l, []).
Proof.
  induction l as [|x r IH]; simpl; auto.
  intros H. apply andb_true_iff in H as [Hx Hr]. rewrite Hx, (IH Hr). reflexivity.
Qed.

Definition nosep (n : bytes) : bool := forallb (fun c => negb (is_sep c)) n.

Lemma name_rest_ok_nosep c : name_rest_ok c = true -> is_sep c = false.
Proof.
  unfold name_rest_ok, is_sep, is_alpha, is_digit, is_upper, is_lower. intros H.
  destruct (c =? 58) eqn:E1; [apply Z.eqb_eq in E1; subst; discriminate|].
  destruct (c =? 46) eqn:E2; [apply Z.eqb_eq in E2; subst; discriminate|].
  destruct (c =? 47) eqn:E3; [apply Z.eqb_eq in E3; subst; discriminate|].
  reflexivity.
Qed.

Lemma validate_name_shape n :
  validate_name n = true ->
  exists c r, n = c :: r /\ is_sep c = false /\ c <> 91 /\ nosep n = true.
Proof.
  destruct n as [|c r]; simpl; try discriminate.
  intros H. apply andb_true_iff in H as [Hc Hr].
  assert (Hc' : name_rest_ok c = true).
  { unfold name_rest_ok. apply orb_true_iff in Hc as [Hc|Hc]; rewrite Hc; simpl; auto.
    rewrite !orb_true_r. reflexivity. }
  exists c, r. split; [reflexivity|]. split; [apply name_rest_ok_nosep; assumption|]. split.
  - intros ->. apply orb_true_iff in Hc as [Hc|Hc]; discriminate.
  - rewrite (name_rest_ok_nosep _ Hc'). simpl.
    clear -Hr. induction r as [|x r IH]; simpl in *; auto.
    apply andb_true_iff in Hr as [Hx Hr]. rewrite (name_rest_ok_nosep _ Hx). simpl. auto.
Qed.

Lemma last_component_nosep acc n :
  nosep n = true -> last_component acc n = rev acc ++ n.
Proof.
  revert acc; induction n as [|c r IH]; intros acc; simpl.
  - intros _. rewrite app_nil_r. reflexivity.
  - intros H. apply andb_true_iff in H as [Hc Hr].
    apply negb_true_iff in Hc. rewrite Hc. rewrite IH by assumption. simpl.
    rewrite <- app_assoc. reflexivity.
Qed.

Lemma find_index_some {A} (p : A -> bool) l i :
  find_index p l = Some i -> exists x, nth_error l i = Some x /\ p x = true.
Proof.
  revert i; induction l as [|y r IH]; simpl; try discriminate.
  intros i. destruct (p y) eqn:E.
  - intros [= <-]. exists y; auto.
  - destruct (find_index p r); try discriminate. intros [= <-]. apply (IH n eq_refl).
Qed.

Lemma find_index_first {A} (p : A -> bool) l i :
  find_index p l = Some i -> forall j x, (j < i)%nat -> nth_error l j = Some x -> p x = false.
Proof.
  revert i; induction l as [|y r IH]; simpl; try discriminate.
  intros i. destruct (p y) eqn:E.
  - intros [= <-] j x Hj. lia.
  - destruct (find_index p r) eqn:F; try discriminate. intros [= <-] [|j] x Hj; simpl.
    + intros [= <-]; assumption.
    + apply (IH n eq_refl). lia.
Qed.

Lemma lookup_valid_name s n j :
  s_ty s = TGroup -> validate_name n = true -> list_search (s_kids s) n = Some j ->
  lookup s n = Some [j].
Proof.
  intros Hty Hv Hs.
  destruct (validate_name_shape _ Hv) as (c & r & -> & Hc & H91 & Hns).
  unfold lookup. cbn [length walk]. rewrite Hc.
  destruct (find_index_some _ _ _ Hs) as (k & Hk & _).
  unfold strip_byte. replace (c =? 91) with false by (symmetry; apply Z.eqb_neq; exact H91).
  rewrite Hty.
  assert (Hsp : span (fun c0 : Z => negb (is_sep c0)) (c :: r) = (c :: r, [])) by (apply span_all; exact Hns).
  rewrite Hsp, Hs, Hk. destruct r; reflexivity.
Qed.

(* ------------------------------------------------------------------------------------ *)
(* removal *)

(* [r'] is [r] with exactly the child [idx] of the setting at [pp] removed *)
Definition removes_one (r r' : setting) (pp : ipath) (idx : nat) (victim : setting) : Prop :=
  exists h, get_at pp r = Some h /\ nth_error (s_kids h) idx = Some victim /\
            r' = upd_at pp (fun h => set_kids h (list_del idx (s_kids h))) r.

Lemma n_remove_elem_spec s idx s' v :
  n_remove_elem s idx = Some (s', v) ->
  0 <= idx /\ nth_error (s_kids s) (Z.to_nat idx) = Some v /\
  s' = set_kids s (list_del (Z.to_nat idx) (s_kids s)).
Proof.
  unfold n_remove_elem. destruct (ty_is_aggregate (s_ty s)); try discriminate.
  destruct ((0 <=? idx) && (idx <? Z.of_nat (length (s_kids s)))) eqn:E; try discriminate.
  destruct (nth_error (s_kids s) (Z.to_nat idx)) eqn:N; try discriminate.
  intros [= <- <-]. apply andb_true_iff in E as [E1 _]. apply Z.leb_le in E1. auto.
Qed.

Lemma n_remove_spec s path s' v :
  n_remove s path = Some (s', v) ->
  exists rel idx, lookup s path = Some rel /\ removes_one s s' (removelast rel) idx v /\
    (exists h, get_at (removelast rel) s = Some h /\
               list_search (s_kids h) (last_component [] path) = Some idx).
Proof.
  unfold n_remove. destruct (s_ty s); try discriminate.
  destruct (lookup s path) as [rel|]; try discriminate.
  destruct (get_at (removelast rel) s) as [h|] eqn:G; try discriminate.
  destruct (list_search (s_kids h) (last_component [] path)) as [idx|] eqn:L; try discriminate.
  destruct (nth_error (s_kids h) idx) as [victim|] eqn:N; try discriminate.
  intros [= <- <-]. exists rel, idx. split; [reflexivity|]. split.
  - exists h. auto.
  - exists h. auto.
Qed.

(* removal of a direct member by its (valid) name deletes exactly the first member of that name *)
Lemma n_remove_member s n j :
  s_ty s = TGroup -> validate_name n = true -> list_search (s_kids s) n = Some j ->
  exists v, nth_error (s_kids s) j = Some v /\
            n_remove s n = Some (set_kids s (list_del j (s_kids s)), v).
Proof.
  intros Hty Hv Hs. unfold n_remove. rewrite Hty, (lookup_valid_name _ _ _ Hty Hv Hs).
  cbn [removelast get_at].
  destruct (validate_name_shape _ Hv) as (c & r & -> & _ & _ & Hns).
  rewrite (last_component_nosep [] _ Hns). cbn [rev app]. rewrite Hs.
  destruct (find_index_some _ _ _ Hs) as (k & Hk & _). rewrite Hk.
  exists k. split; [reflexivity|]. reflexivity.
Qed.

(* ------------------------------------------------------------------------------------ *)
(* addition *)

Lemma n_create_spec s name t s' :
  n_create s name t = Some s' ->
  ty_is_aggregate (s_ty s) = true /\ s' = set_kids s (s_kids s ++ [new_setting name t]).
Proof.
  unfold n_create. destruct (ty_is_aggregate (s_ty s)); try discriminate.
  intros [= <-]. auto.
Qed.

(* the name actually given to the new child *)
Definition eff_name (s : setting) (name : option bytes) : option bytes :=
  if ty_eqb (s_ty s) TArray || ty_eqb (s_ty s) TList then None else name.

Lemma get_member_some_group s nm j : get_member s nm = Some j ->
  s_ty s = TGroup /\ exists n, nm = Some n /\ list_search (s_kids s) n = Some j.
Proof.
  unfold get_member. destruct (s_ty s); try discriminate. destruct nm; try discriminate.
  intros H. split; auto. eauto.
Qed.

Theorem n_add_spec ov s name tcode s' i victim :
  n_add ov s name tcode = Some (s', i, victim) ->
  exists t, ty_of_code tcode = Some t /\
    let nm := eff_name s name in
    i = (length (s_kids s') - 1)%nat /\
    match victim with
    | None =>
        get_member s nm = None /\ s' = set_kids s (s_kids s ++ [new_setting nm t])
    | Some v =>
        ov = true /\ exists j, get_member s nm = Some j /\ nth_error (s_kids s) j = Some v /\
          s' = set_kids s (list_del j (s_kids s) ++ [new_setting nm t])
    end.
Proof.
  unfold n_add. destruct (ty_of_code tcode) as [t|]; try discriminate.
  destruct (ty_eqb (s_ty s) TArray && negb (ty_is_scalar t)); try discriminate.
  destruct (ty_eqb (s_ty s) TArray && negb (checktype s t)); try discriminate.
  fold (eff_name s name). set (nm := eff_name s name).
  destruct (negb match nm with Some n => validate_name n | None => true end) eqn:Hval; try discriminate.
  apply negb_false_iff in Hval.
  destruct (get_member s nm) as [j|] eqn:Hm.
  - destruct ov; try discriminate. destruct nm as [n|] eqn:Hnm; try discriminate.
    destruct (get_member_some_group _ _ _ Hm) as (Hty & n' & [= <-] & Hs).
    destruct (n_remove_member _ _ _ Hty Hval Hs) as (v & Hv & Hr). rewrite Hr.
    destruct (n_create _ _ _) as [p2|] eqn:Hc; try discriminate.
    intros [= <- <- <-]. exists t. split; [reflexivity|]. cbn zeta.
    apply n_create_spec in Hc as [_ ->]. rewrite s_kids_set_kids in *.
    split.
    + rewrite s_kids_set_kids, app_length. simpl. lia.
    + split; [reflexivity|]. exists j. rewrite set_kids_set_kids. auto.
  - destruct (n_create s nm t) as [p2|] eqn:Hc; try discriminate.
    intros [= <- <- <-]. exists t. split; [reflexivity|]. cbn zeta.
    apply n_create_spec in Hc as [_ ->]. split.
    + rewrite s_kids_set_kids, app_length. simpl. lia.
    + auto.
Qed.

(* ------------------------------------------------------------------------------------ *)
(* assignment *)

Lemma setter_frame c k v s s' :
  setter c k v s = SOk s' -> exists pl, s' = set_pl s pl.
Proof.
  destruct k; simpl; unfold n_set_int, n_set_int64, n_set_float, n_set_bool, n_set_string;
    repeat destr_match; try discriminate; intros [= <-]; eauto.
Qed.

Lemma n_set_format_frame s f s' :
  n_set_format s f = SOk s' -> s' = set_fmt s f /\ (f = 0 \/ f = 1).
Proof.
  unfold n_set_format. repeat destr_match; try discriminate; intros [= <-]; split; auto.
  all: apply orb_true_iff in Heqb as [E|E]; apply Z.eqb_eq in E; auto.
Qed.

Lemma n_set_elem_spec t st agg idx s' i :
  n_set_elem t st agg idx = EOk s' i ->
  (idx < 0 /\ checktype agg t = true /\ i = length (s_kids agg) /\
     exists e, st (new_setting None t) = SOk e /\ s' = set_kids agg (s_kids agg ++ [e]))
  \/ (0 <= idx /\ i = Z.to_nat idx /\
      exists e e', nth_error (s_kids agg) i = Some e /\ st e = SOk e' /\
                   s' = set_kids agg (list_upd i (fun _ => e') (s_kids agg))).
Proof.
  unfold n_set_elem. destruct (s_ty agg); try discriminate.
  all: destruct (idx <? 0) eqn:Hneg.
  all: try (apply Z.ltb_lt in Hneg; destruct (checktype agg t); try discriminate;
            destruct (st (new_setting None t)) eqn:Hst; try discriminate;
            intros [= <- <-]; left; eauto 10).
  all: apply Z.ltb_ge in Hneg; unfold get_elem;
       destruct (ty_is_aggregate _); try discriminate;
       destruct ((0 <=? idx) && (idx <? Z.of_nat (length (s_kids agg)))); try discriminate;
       destruct (nth_error (s_kids agg) (Z.to_nat idx)) eqn:Hn; try discriminate;
       destruct (st s) eqn:Hst; try discriminate;
       intros [= <- <-]; right; eauto 10.
Qed.

(* ------------------------------------------------------------------------------------ *)
(* step-level statements *)

Lemma at_node_some c p f c' r ev :
  at_node c p f = (c', r, ev) -> r <> RBadHandle ->
  (forall s o r' ev', f s = (o, r', ev') -> r' <> RBadHandle) ->
  exists s o, get_at p (c_root c) = Some s /\ f s = (o, r, ev) /\
    c' = match o with Some s' => set_root c (upd_at p (fun _ => s') (c_root c)) | None => c end.
Proof.
  unfold at_node. destruct (get_at p (c_root c)) as [s|]; [|intros H; inv H; congruence].
  destruct (f s) as [[o r0] ev0] eqn:F. intros H _ _. exists s, o.
  destruct o; inv H; auto.
Qed.

Theorem step_add_appends c p name tcode c' q ev :
  api_step c (OAdd p name tcode) = (c', RNode (Some q), ev) ->
  exists s s' i victim t,
    get_at p (c_root c) = Some s /\ ty_of_code tcode = Some t /\
    c' = set_root c (upd_at p (fun _ => s') (c_root c)) /\
    q = p ++ [i] /\ i = (length (s_kids s') - 1)%nat /\
    nth_error (s_kids s') i = Some (new_setting (eff_name s name) t) /\
    match victim with
    | None => get_member s (eff_name s name) = None /\
              s' = set_kids s (s_kids s ++ [new_setting (eff_name s name) t]) /\ ev = []
    | Some v => get_option c OPT_OVERRIDES = true /\
                exists j, get_member s (eff_name s name) = Some j /\ nth_error (s_kids s) j = Some v /\
                  s' = set_kids s (list_del j (s_kids s) ++ [new_setting (eff_name s name) t]) /\
                  ev = dlog c v
    end.
Proof.
  simpl. unfold at_node. destruct (get_at p (c_root c)) as [s|] eqn:G; [|intros H; inv H].
  destruct (n_add _ s name tcode) as [[[s' i] victim]|] eqn:A; intros H; inv H.
  destruct (n_add_spec _ _ _ _ _ _ _ A) as (t & Ht & Hi & Hv). cbn zeta in *.
  exists s, s', i, victim, t.
  split; [reflexivity|]. split; [assumption|]. split; [reflexivity|]. split; [reflexivity|].
  split; [assumption|].
  destruct victim as [v|].
  - destruct Hv as (Hov & j & Hm & Hn & ->). split.
    + rewrite s_kids_set_kids in *. rewrite Hi, app_length. simpl.
      rewrite nth_error_app2 by lia. replace (_ - _)%nat with O by lia. reflexivity.
    + split; [assumption|]. exists j. auto.
  - destruct Hv as (Hm & ->). split.
    + rewrite s_kids_set_kids in *. rewrite Hi, app_length. simpl.
      rewrite nth_error_app2 by lia. replace (_ - _)%nat with O by lia. reflexivity.
    + auto.
Qed.

Lemma upd_at_app p q f r s :
  get_at p r = Some s -> upd_at p (fun _ => upd_at q f s) r = upd_at (p ++ q) f r.
Proof.
  revert r. induction p as [|i p IH]; intros r; simpl.
  - intros [= ->]. reflexivity.
  - destruct (nth_error (s_kids r) i) as [k|] eqn:E; try discriminate. intros G.
    f_equal. revert i E; generalize (s_kids r) as l.
    induction l as [|y l IHl]; intros [|i]; simpl; try discriminate.
    + intros [= ->]. f_equal. apply IH; assumption.
    + intros E. f_equal. apply IHl; assumption.
Qed.

Theorem step_remove_exact c p path c' ev :
  api_step c (ORemove p path) = (c', RInt 1, ev) ->
  exists s pa rel idx v,
    get_at p (c_root c) = Some s /\ path = Some pa /\ lookup s pa = Some rel /\
    removes_one (c_root c) (c_root c') (p ++ removelast rel) idx v /\
    ev = dlog c v /\ attrs c' = attrs c.
Proof.
  simpl. unfold at_node. destruct (get_at p (c_root c)) as [s|] eqn:G; [|intros H; inv H].
  destruct path as [pa|]; [|intros H; inv H].
  destruct (n_remove s pa) as [[s' v]|] eqn:R; intros H; inv H.
  destruct (n_remove_spec _ _ _ _ R) as (rel & idx & Hl & (h & Hg & Hn & ->) & _).
  exists s, pa, rel, idx, v.
  split; [reflexivity|]. split; [reflexivity|]. split; [assumption|].
  split; [|split; reflexivity].
  exists h. rewrite get_at_app, G. split; [assumption|]. split; [assumption|].
  cbn [c_root set_root]. apply upd_at_app. assumption.
Qed.

Theorem step_remove_elem_exact c p idx c' ev :
  api_step c (ORemoveElem p idx) = (c', RInt 1, ev) ->
  exists v, removes_one (c_root c) (c_root c') p (Z.to_nat (to_uint32 idx)) v /\
            ev = dlog c v /\ attrs c' = attrs c.
Proof.
  simpl. unfold at_node. destruct (get_at p (c_root c)) as [s|] eqn:G; [|intros H; inv H].
  destruct (n_remove_elem s (to_uint32 idx)) as [[s' v]|] eqn:R; intros H; inv H.
  destruct (n_remove_elem_spec _ _ _ _ R) as (_ & Hn & ->).
  exists v. split; [|split; reflexivity]. exists s. split; [assumption|]. split; [assumption|].
  cbn [c_root set_root]. rewrite <- (app_nil_r p) at 2.
  rewrite <- (upd_at_app p [] _ _ _ G). reflexivity.
Qed.

Theorem step_set_frame c k p v c' ev :
  api_step c (OSet k p v) = (c', RInt 1, ev) ->
  exists s pl, get_at p (c_root c) = Some s /\
    c' = set_root c (upd_at p (fun _ => set_pl s pl) (c_root c)) /\ ev = [].
Proof.
  simpl. unfold at_node. destruct (get_at p (c_root c)) as [s|] eqn:G; [|intros H; inv H].
  destruct (setter c k v s) as [|s'|] eqn:S; intros H; inv H.
  destruct (setter_frame _ _ _ _ _ S) as (pl & ->). eauto.
Qed.

Theorem step_set_format_frame c p f c' ev :
  api_step c (OSetFormat p f) = (c', RInt 1, ev) ->
  exists s, get_at p (c_root c) = Some s /\
    c' = set_root c (upd_at p (fun _ => set_fmt s (to_uint16 f)) (c_root c)) /\ ev = [] /\
    (to_uint16 f = 0 \/ to_uint16 f = 1).
Proof.
  simpl. unfold at_node. destruct (get_at p (c_root c)) as [s|] eqn:G; [|intros H; inv H].
  destruct (n_set_format s (to_uint16 f)) as [|s'|] eqn:S; intros H; inv H.
  destruct (n_set_format_frame _ _ _ S) as (-> & Hf). eauto.
Qed.

Theorem step_set_elem c k p idx v c' q ev :
  api_step c (OSetElem k p idx v) = (c', RNode (Some q), ev) ->
  exists s s' i, get_at p (c_root c) = Some s /\ q = p ++ [i] /\ ev = [] /\
    c' = set_root c (upd_at p (fun _ => s') (c_root c)) /\
    ((idx < 0 /\ i = length (s_kids s) /\
      exists e, setter c k v (new_setting None (sk_ty k)) = SOk e /\
                s' = set_kids s (s_kids s ++ [e]))
     \/ (0 <= idx /\ i = Z.to_nat idx /\
         exists e e', nth_error (s_kids s) i = Some e /\ setter c k v e = SOk e' /\
                      s' = set_kids s (list_upd i (fun _ => e') (s_kids s)))).
Proof.
  simpl. unfold at_node. destruct (get_at p (c_root c)) as [s|] eqn:G; [|intros H; inv H].
  destruct (n_set_elem _ _ s idx) as [|s' i|] eqn:S; intros H; inv H.
  exists s, s', i. repeat (split; [auto|]).
  destruct (n_set_elem_spec _ _ _ _ _ _ S) as [(H1 & _ & H2 & H3)|(H1 & H2 & H3)]; [left|right]; auto.
Qed.

Theorem step_clear_preserves c c' r ev :
  api_step c OClear = (c', r, ev) ->
  attrs c' = attrs c /\ c_root c' = new_root /\ c_files c' = [] /\ ev = dlog c (c_root c).
Proof. simpl. intros H; inv H. auto. Qed.

Theorem step_tab_clamped c n c' r ev :
  api_step c (OSetTab n) = (c', r, ev) ->
  c_tab c' = Z.min (to_uint16 n) 15 /\ c_root c' = c_root c.
Proof.
  simpl. intros H; inv H. simpl. split; auto.
  destruct (to_uint16 n <=? 15) eqn:E; [apply Z.leb_le in E|apply Z.leb_gt in E]; lia.
Qed.

Theorem step_incdir_null c c' r ev :
  api_step c (OSetIncDir None) = (c', r, ev) ->
  r = RUnit /\ c_incdir c' = None /\ c_root c' = c_root c.
Proof. simpl. intros H; inv H. auto. Qed.
