(* Tokens.v — the token alphabet handed from the scanner to the parser. *)
From Coq Require Import List ZArith.
From LC Require Import Base ScanAction.

Inductive token :=
| TkBool (v : Z) | TkInt (v : Z) | TkInt64 (v : Z) | TkHex (v : Z) | TkHex64 (v : Z)
| TkFloat (bits : Z) | TkString (s : bytes) | TkName (s : bytes)
| TkP (t : ptok)            (* punctuation and TOK_GARBAGE *)
| TkError                   (* TOK_ERROR *)
| TkEOF.
