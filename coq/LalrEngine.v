(* LalrEngine.v — bison's LALR(1) driver (skeleton yacc.c, `yyparse` of lib/grammar.c) as a Gallina function,
   generic in the parser tables, with the semantic actions of grammar.y interpreted through the action functions of
   Parser.v over the same parser state.  Definitions only.

   What is transcribed (labels of yyparse):
     yysetstate   `if (yystate == YYFINAL) YYACCEPT`
     yybackup     `yyn = yypact[yystate]; if default goto yydefault;` read the look-ahead only now (yychar == YYEMPTY
                  is `p_la = false` of the parser state: `peek` is `if (yychar == YYEMPTY) yychar = yylex()`);
                  `yychar <= YYEOF` -> symbol 0, else YYTRANSLATE; `yyn += yytoken; if out of range or yycheck[yyn] !=
                  yytoken goto yydefault; yyn = yytable[yyn]; if (yyn <= 0) reduce -yyn` (yytable_value_is_error is
                  the constant 0 in this grammar.c) `else shift`
     yydefault    `yyn = yydefact[yystate]; if (yyn == 0) goto yyerrlab; goto yyreduce`
     yyreduce     `yylen = yyr2[yyn]; yyval = yyvsp[1-yylen];` the action (which sees the value stack through
                  yyvsp[0] only, in every rule of this grammar); pop yylen; the goto through yypgoto / yycheck /
                  yytable / yydefgoto
     yyerrlab     `yyerror("syntax error")` at the moment of detection, then yyerrlab1: pop until a state shifts the
                  `error` symbol; none does in this grammar (checked in LalrFacts.v: `no_error_shift`), so the whole stack
                  is popped and the parse aborts.  A state that would shift `error` makes the engine answer PStuck.
   Outside the scope: YYMAXDEPTH ("memory exhausted"); a scanner returning the code of YYerror (256), which the token
   codes of grammar.h exclude (PStuck). *)
From Coq Require Import List ZArith Bool String.
Import ListNotations.
From LC Require Import Base Tree Fp Lookup Api ScanAction Tokens Lexer Parser GramAction.
From LC.gen Require Import GrammarTables.
Local Open Scope Z_scope.

Record tables := mkT {
  t_translate : list Z;
  t_pact : list Z;
  t_defact : list Z;
  t_pgoto : list Z;
  t_defgoto : list Z;
  t_table : list Z;
  t_check : list Z;
  t_r1 : list Z;
  t_r2 : list Z;
  t_final : Z;
  t_last : Z;
  t_ntokens : Z;
  t_pact_ninf : Z;
  t_maxutok : Z;
  t_codes : list (string * Z);
  t_actions : list (Z * gaction) }.

Definition the_tables : tables :=
  mkT g_yytranslate g_yypact g_yydefact g_yypgoto g_yydefgoto g_yytable g_yycheck g_yyr1 g_yyr2
      g_YYFINAL g_YYLAST g_YYNTOKENS g_YYPACT_NINF g_YYMAXUTOK g_token_codes g_actions.

Definition nthZ (l : list Z) (i : Z) : Z := if i <? 0 then 0 else nth (Z.to_nat i) l 0.

(* ---- tokens -> bison token codes -> symbol numbers ---- *)
Inductive tkind :=
| KBool | KInt | KInt64 | KHex | KHex64 | KFloat | KString | KName | KP (p : ptok) | KError | KEOF.

Definition kind_of (t : token) : tkind :=
  match t with
  | TkBool _ => KBool | TkInt _ => KInt | TkInt64 _ => KInt64 | TkHex _ => KHex | TkHex64 _ => KHex64
  | TkFloat _ => KFloat | TkString _ => KString | TkName _ => KName | TkP p => KP p
  | TkError => KError | TkEOF => KEOF
  end.

Definition ptok_name (p : ptok) : string :=
  match p with
  | TEquals => "TOK_EQUALS" | TComma => "TOK_COMMA" | TGroupStart => "TOK_GROUP_START" | TGroupEnd => "TOK_GROUP_END"
  | TArrayStart => "TOK_ARRAY_START" | TArrayEnd => "TOK_ARRAY_END" | TListStart => "TOK_LIST_START"
  | TListEnd => "TOK_LIST_END" | TSemicolon => "TOK_SEMICOLON" | TGarbage => "TOK_GARBAGE"
  end.

(* None: end of input (the scanner returns 0) *)
Definition kind_name (k : tkind) : option string :=
  match k with
  | KBool => Some "TOK_BOOLEAN" | KInt => Some "TOK_INTEGER" | KInt64 => Some "TOK_INTEGER64" | KHex => Some "TOK_HEX"
  | KHex64 => Some "TOK_HEX64" | KFloat => Some "TOK_FLOAT" | KString => Some "TOK_STRING" | KName => Some "TOK_NAME"
  | KP p => Some (ptok_name p) | KError => Some "TOK_ERROR" | KEOF => None
  end%string.

Fixpoint assoc_str (n : string) (l : list (string * Z)) : option Z :=
  match l with
  | [] => None
  | (m, v) :: r => if String.eqb n m then Some v else assoc_str n r
  end.

Fixpoint assoc_Z {A} (n : Z) (l : list (Z * A)) : option A :=
  match l with
  | [] => None
  | (m, v) :: r => if n =? m then Some v else assoc_Z n r
  end.

Section Engine.
  Variable T : tables.
  Variable overrides : bool.

  (* what yylex returns *)
  Definition kind_code (k : tkind) : option Z :=
    match kind_name k with None => Some 0 | Some n => assoc_str n (t_codes T) end.

  (* YYTRANSLATE *)
  Definition yytranslate (c : Z) : Z :=
    if (0 <=? c) && (c <=? t_maxutok T) then nthZ (t_translate T) c else 2.

  (* yytoken of yybackup; None: unknown token name, or the code of YYerror *)
  Definition kind_sym (k : tkind) : option Z :=
    match kind_code k with
    | None => None
    | Some c => if c <=? 0 then Some 0 else if c =? 256 then None else Some (yytranslate c)
    end.

  Inductive lact := LShift (m : Z) | LRed (r : Z) | LErr.

  Definition defaulted (q : Z) : bool := nthZ (t_pact T) q =? t_pact_ninf T.

  (* yydefault *)
  Definition default_act (q : Z) : lact :=
    let r := nthZ (t_defact T) q in if r =? 0 then LErr else LRed r.

  (* yybackup once yytoken is known *)
  Definition la_act (q tk : Z) : lact :=
    let n := nthZ (t_pact T) q + tk in
    if (n <? 0) || (t_last T <? n) || negb (nthZ (t_check T) n =? tk) then default_act q
    else let m := nthZ (t_table T) n in
         if m <=? 0 then LRed (- m) else LShift m.

  (* the goto on the nonterminal number lhs (symbol number - YYNTOKENS) with state q uncovered *)
  Definition goto_nt (q lhs : Z) : Z :=
    let i := nthZ (t_pgoto T) lhs + q in
    if (0 <=? i) && (i <=? t_last T) && (nthZ (t_check T) i =? q) then nthZ (t_table T) i
    else nthZ (t_defgoto T) lhs.

  (* ... after reducing by rule r: `yylhs = yyr1[yyn] - YYNTOKENS` *)
  Definition goto (q r : Z) : Z := goto_nt q (nthZ (t_r1 T) r - t_ntokens T).

  Definition rule_len (r : Z) : nat := Z.to_nat (nthZ (t_r2 T) r).
  Definition rule_action (r : Z) : option gaction := assoc_Z r (t_actions T).

  (* yyerrlab1: does state q shift the `error` symbol (number 1)? *)
  Definition shifts_error (q : Z) : bool :=
    negb (defaulted q) &&
    (let n := nthZ (t_pact T) q + 1 in
     (0 <=? n) && (n <=? t_last T) && (nthZ (t_check T) n =? 1) && (0 <? nthZ (t_table T) n)).

  (* ---- configurations ---- *)
  Record lconf := mkL {
    l_stack : list (Z * option token);   (* yyss / yyvs, top first; None: no meaningful semantic value *)
    l_pst : pst;                         (* tree, token stream, yychar (p_la), scanner position *)
    l_parent : ipath;                    (* ctx->parent *)
    l_setting : option ipath;            (* ctx->setting *)
    l_buf : bytes }.                     (* ctx->string *)

  Inductive lstep := LGo (c : lconf) | LDone (r : pres).

  Definition set_pst (c : lconf) (s : pst) : lconf :=
    mkL (l_stack c) s (l_parent c) (l_setting c) (l_buf c).

  Definition aggk_of_code (code : Z) : option aggk :=
    if code =? aggk_code KArr then Some KArr
    else if code =? aggk_code KLst then Some KLst
    else if code =? aggk_code KGrp then Some KGrp
    else None.

  Definition gscalar_matches (k : gscalar) (t : token) : bool :=
    match k, t with
    | GBool, TkBool _ | GInt, TkInt _ | GInt64, TkInt64 _ | GHex, TkHex _ | GHex64, TkHex64 _ | GFloat, TkFloat _ => true
    | _, _ => false
    end.

  (* the `case N:` of yyreduce; [v] is yyvsp[0] *)
  Definition run_action (c : lconf) (v : option token) (a : gaction) : lstep :=
    let s := l_pst c in
    match a with
    | GName =>
        match v with
        | Some (TkName nm) =>
            match act_name overrides s (l_parent c) nm with
            | None => LDone (PErr PErrDup s)
            | Some (s2, sp) => LGo (mkL (l_stack c) s2 (l_parent c) (Some sp) (l_buf c))
            end
        | _ => LDone (PStuck s)
        end
    | GOpen code =>
        match aggk_of_code code with
        | None => LDone (PStuck s)
        | Some k =>
            match act_open overrides s (l_parent c) (l_setting c) k with
            | None => LDone (PStuck s)            (* ctx->setting == NULL outside a list *)
            | Some (s1, np) =>
                LGo (mkL (l_stack c) s1 np
                         (match ty_at (p_root s) (l_parent c) with TList => l_setting c | _ => None end)
                         (l_buf c))
            end
        end
    | GClose =>
        match l_parent c with
        | [] => LDone (PStuck s)                  (* ctx->parent would become NULL: never after an open *)
        | _ => LGo (mkL (l_stack c) s (removelast (l_parent c)) (l_setting c) (l_buf c))
        end
    | GStrAppend =>
        match v with
        | Some (TkString str) => LGo (mkL (l_stack c) s (l_parent c) (l_setting c) (l_buf c ++ str))
        | _ => LDone (PStuck s)
        end
    | GScalar GString =>
        match act_scalar s (l_parent c) (l_setting c) (string_scalar (l_buf c)) with
        | Some s3 => LGo (mkL (l_stack c) s3 (l_parent c) (l_setting c) [])
        | None => LDone (PErr PErrMismatch s)
        end
    | GScalar k =>
        match v with
        | Some t =>
            if gscalar_matches k t then
              match scalar_of t with
              | Some sc =>
                  match act_scalar s (l_parent c) (l_setting c) sc with
                  | Some s3 => LGo (set_pst c s3)
                  | None => LDone (PErr PErrMismatch s)
                  end
              | None => LDone (PStuck s)
              end
            else LDone (PStuck s)
        | None => LDone (PStuck s)
        end
    | GUnknown _ => LDone (PStuck s)
    end.

  (* yyreduce *)
  Definition l_reduce (c : lconf) (r : Z) : lstep :=
    let len := rule_len r in
    let v0 := match l_stack c with (_, v) :: _ => v | [] => None end in
    match (match rule_action r with Some a => run_action c v0 a | None => LGo c end) with
    | LDone res => LDone res
    | LGo c1 =>
        let yyval := match len with
                     | O => None
                     | S k => match nth_error (l_stack c) k with Some (_, v) => v | None => None end
                     end in
        match skipn len (l_stack c) with
        | [] => LDone (PStuck (l_pst c1))
        | (q', v') :: rest =>
            LGo (mkL ((goto q' r, yyval) :: (q', v') :: rest) (l_pst c1) (l_parent c1) (l_setting c1) (l_buf c1))
        end
    end.

  (* yyerrlab / yyerrlab1 *)
  Definition l_error (c : lconf) : lstep :=
    if existsb (fun e => shifts_error (fst e)) (l_stack c) then LDone (PStuck (l_pst c))
    else LDone (PErr PErrSyntax (l_pst c)).

  Definition do_act (c : lconf) (t : option token) (a : lact) : lstep :=
    match a with
    | LShift m => LGo (mkL ((m, t) :: l_stack c) (shift (l_pst c)) (l_parent c) (l_setting c) (l_buf c))
    | LRed r => l_reduce c r
    | LErr => l_error c
    end.

  Definition lalr_step (c : lconf) : lstep :=
    match l_stack c with
    | [] => LDone (PStuck (l_pst c))
    | (q, _) :: _ =>
        if q =? t_final T then LDone (POk (l_pst c))
        else if defaulted q then
          match default_act q with
          | LShift _ => LDone (PStuck (l_pst c))
          | a => do_act c None a
          end
        else
          match peek (l_pst c) with
          | (None, s') => LDone (PFatal s')
          | (Some t, s') =>
              match kind_sym (kind_of t) with
              | None => LDone (PStuck s')
              | Some tk => do_act (set_pst c s') (Some t) (la_act q tk)
              end
          end
    end.

  Fixpoint lalr_run (fuel : nat) (c : lconf) : pres :=
    match fuel with
    | O => PStuck (l_pst c)
    | S f => match lalr_step c with LGo c' => lalr_run f c' | LDone r => r end
    end.

  (* yyparse: state 0, yychar = YYEMPTY; config_read: ctx->parent = root, ctx->setting = NULL, empty string buffer *)
  Definition lalr_init (s : pst) : lconf := mkL [(0, None)] s [] None [].
  Definition lalr_parse (fuel : nat) (s : pst) : pres := lalr_run fuel (lalr_init s).
End Engine.

(* What the engine answers, given the model's answer (LalrCheck.v: evaluated on all short inputs; LalrFacts.v: proved).
   The only difference: on acceptance the engine has shifted the end-of-input token (state YYFINAL is entered by that
   shift), the model has only read it.  Tree, error kind, p_read / p_line / p_file are the same. *)
Definition lalr_expected (r : pres) : pres :=
  match r with POk s => POk (shift s) | r => r end.
