(* StructFacts.v — the invariant of C04 gives the shape hypothesis of C01/C02 (pstruct): every configuration
   reachable through the API has it. *)
From Coq Require Import List ZArith NArith Bool Lia.
Import ListNotations.
From LC Require Import Base Tree Fp Lookup Api ApiStep TreeFacts ApiFacts Inv InvFacts ParseWrite.
Local Open Scope Z_scope.

Lemma obytes_eqb_eq a b : obytes_eqb a b = true -> a = b.
Proof.
  destruct a as [x|], b as [y|]; cbn; try discriminate; [|reflexivity].
  intros H. f_equal. apply bytes_eqb_eq. exact H.
Qed.

Lemma obytes_eqb_refl a : obytes_eqb a a = true.
Proof. destruct a; cbn; [apply bytes_eqb_refl | reflexivity]. Qed.

Lemma nodup_names_NoDup l : nodup_names l = true -> NoDup l.
Proof.
  induction l as [|x r IH]; intros H; [constructor|]. cbn [nodup_names] in H. apply andb_true_iff in H as [H1 H2].
  constructor; [|apply IH; exact H2]. intros Hin. apply negb_true_iff in H1.
  assert (E : existsb (obytes_eqb x) r = true) by (apply existsb_exists; exists x; split; [exact Hin | apply obytes_eqb_refl]).
  congruence.
Qed.

Lemma wf_kids n pl kids f h l fi : wf (Setting n pl kids f h l fi) = true ->
  Forall (fun k => wf k = true) kids /\ kids_ok pl kids = true.
Proof.
  cbn [wf]. intros H. apply andb_true_iff in H as [H1 H2]. split; [|exact H2]. clear H2.
  induction kids as [|k r IH]; [constructor|]. apply andb_true_iff in H1 as [A B]. constructor; [exact A | apply IH; exact B].
Qed.

Theorem wf_pstruct : forall s, wf s = true -> pstruct s.
Proof.
  induction s as [n pl kids f h l fi IH] using setting_ind'. intros Hw.
  destruct (wf_kids _ _ _ _ _ _ _ Hw) as [Hk Hok].
  cbn [pstruct]. split.
  - apply all_pstruct. rewrite Forall_forall in *. intros k Hin. apply IH; [exact Hin | apply Hk; exact Hin].
  - unfold kids_ok in Hok. apply andb_true_iff in Hok as [Hall Hextra]. rewrite forallb_forall in Hall.
    destruct pl; try exact I.
    + (* group *)
      split; [apply nodup_names_NoDup; exact Hextra|].
      apply Forall_forall. intros m Hm. specialize (Hall m Hm). cbn [kid_ok] in Hall.
      destruct (s_name m) as [nm|]; [|discriminate]. exists nm. split; [reflexivity | exact Hall].
    + (* array *)
      exists (match kids with k0 :: _ => s_ty k0 | [] => TInt end).
      apply Forall_forall. intros e He. specialize (Hall e He). cbn [kid_ok] in Hall. apply andb_true_iff in Hall as [_ Hs].
      split.
      * unfold s_ty in Hs. destruct (s_pl e); try exact I; discriminate Hs.
      * destruct kids as [|k0 r]; [destruct He|]. cbn [map same_type] in Hextra. rewrite forallb_forall in Hextra.
        destruct He as [<- | He]; [reflexivity|].
        assert (Hin : In (s_ty e) (map s_ty r)) by (apply in_map; exact He).
        specialize (Hextra _ Hin). unfold ty_eqb in Hextra. apply Z.eqb_eq in Hextra.
        unfold s_ty in *. destruct (s_pl e), (s_pl k0); cbn in Hextra; try discriminate; reflexivity.
Qed.

(* every configuration built by in-contract API calls has the shape *)
Theorem reachable_pstruct ops : in_contract_all cfg_init ops -> pstruct (c_root (run_ops cfg_init ops)).
Proof. intros H. apply wf_pstruct. exact (proj1 (run_inv ops cfg_init init_inv H)). Qed.
