(* ThreadLocaleFacts.v — C14 at the granularity of the locale switch: proofs about ThreadLocale.v. *)
From Coq Require Import List ZArith Bool Lia Permutation.
Import ListNotations.
From LC Require Import Base Locale ThreadLocale.
Local Open Scope Z_scope.

(* ---------- lists ---------- *)
Lemma nth_upd_same {A} (x : A) : forall l i y, nth_error l i = Some y -> nth_error (upd i x l) i = Some x.
Proof. induction l as [|a l IH]; intros [|i] y H; cbn in *; try discriminate; eauto. Qed.

Lemma nth_upd_other {A} (x : A) : forall l i j, i <> j -> nth_error (upd i x l) j = nth_error l j.
Proof.
  induction l as [|a l IH]; intros [|i] [|j] H; cbn; try reflexivity; try congruence.
  apply IH. congruence.
Qed.

Lemma upd_length {A} (x : A) : forall l i, length (upd i x l) = length l.
Proof. induction l as [|a l IH]; intros [|i]; cbn; auto. Qed.

Lemma flat_map_upd {A B} (f : A -> list B) (x : A) : forall l i y, nth_error l i = Some y ->
  Permutation (f y ++ flat_map f (upd i x l)) (f x ++ flat_map f l).
Proof.
  induction l as [|a l IH]; intros [|i] y H; cbn in *; try discriminate.
  - injection H as ->. apply Permutation_app_swap_app.
  - rewrite (Permutation_app_swap_app (f y)), (Permutation_app_swap_app (f x)).
    apply Permutation_app_head. eauto.
Qed.

Section Facts.
  Variables D R : Type.
  Notation call := (call D R).
  Notation thread := (thread D R).
  Notation machine := (machine D R).
  Notation tspec := (tspec D R).

  (* ---------- one thread alone, without the locale state ---------- *)
  Definition call_rad (rad0 : Z) (c : call) : Z := if c_ok c then 46 else rad0.

  Fixpoint pure_run (rad0 : Z) (d : D) (p : list call) : list R * list Z * D :=
    match p with
    | [] => ([], [], d)
    | c :: p' =>
        let '(d', r) := c_body c (call_rad rad0 c) d in
        let '(rs, zs, d'') := pure_run rad0 d' p' in
        (r :: rs, call_rad rad0 c :: zs, d'')
    end.

  Lemma alone_pure : forall p s d,
    fst (alone s d p) = pure_run (eff_radix s) d p /\
    ls_global (snd (alone s d p)) = ls_global s /\ ls_thread (snd (alone s d p)) = ls_thread s.
  Proof.
    induction p as [|c p IH]; intros s d; [cbn; auto|].
    cbn [alone pure_run]. unfold with_locale, loc_override, call_rad.
    destruct (c_ok c); cbn [fst snd eff_radix ls_thread ls_global lo_radix loc_restore].
    - destruct (c_body c 46 d) as [d' r].
      match goal with |- context [alone ?s' d' p] => specialize (IH s' d') end.
      destruct (alone _ d' p) as [[[rs zs] d''] s'']. cbn [fst snd] in *.
      destruct IH as (H1 & H2 & H3). unfold eff_radix in H1. cbn in H1, H2, H3. fold (eff_radix s) in H1.
      rewrite <- H1. auto.
    - fold (eff_radix s). destruct (c_body c (eff_radix s) d) as [d' r].
      specialize (IH s d'). destruct (alone s d' p) as [[[rs zs] d''] s'']. cbn [fst snd] in *.
      destruct IH as (H1 & H2 & H3). rewrite <- H1. auto.
  Qed.

  Lemma pure_run_snoc : forall p rad0 d c,
    pure_run rad0 d (p ++ [c]) =
    let '(rs, zs, d1) := pure_run rad0 d p in
    let '(d', r) := c_body c (call_rad rad0 c) d1 in
    (rs ++ [r], zs ++ [call_rad rad0 c], d').
  Proof.
    induction p as [|a p IH]; intros rad0 d c; cbn [app pure_run].
    - destruct (c_body c _ d); reflexivity.
    - destruct (c_body a _ d) as [d' r]. rewrite IH. destruct (pure_run rad0 d' p) as [[rs zs] d1].
      destruct (c_body c _ d1); reflexivity.
  Qed.

  (* ---------- the invariant of one thread, stable under the steps of the others ---------- *)
  Definition rad_of (g : lobj) (loc0 : option lobj) : Z :=
    match loc0 with Some l => lo_radix l | None => lo_radix g end.

  (* inside a call: what the thread's Enter left behind *)
  Definition in_call (c : call) (prev : option (option lobj)) (loc loc0 : option lobj) : Prop :=
    if c_ok c then prev = Some loc0 /\ exists id, loc = Some (mkLobj id 46 c_name)
    else prev = None /\ loc = loc0.

  Definition obs (th : thread) : list R * list Z * D := (t_res th, t_rad th, t_data th).

  Definition tinv (g : lobj) (sp : tspec) (th : thread) : Prop :=
    exists done, ts_prog sp = done ++ t_todo th /\
    match t_phase th with
    | Idle => t_loc th = ts_loc sp /\ obs th = pure_run (rad_of g (ts_loc sp)) (ts_data sp) done
    | Entered prev => exists c rest, t_todo th = c :: rest /\ in_call c prev (t_loc th) (ts_loc sp) /\
                      obs th = pure_run (rad_of g (ts_loc sp)) (ts_data sp) done
    | Ran prev => exists c rest, t_todo th = c :: rest /\ in_call c prev (t_loc th) (ts_loc sp) /\
                  obs th = pure_run (rad_of g (ts_loc sp)) (ts_data sp) (done ++ [c])
    end.

  Lemma step_global : forall i (m : machine), m_global (step i m) = m_global m.
  Proof.
    intros i m. unfold step. destruct (nth_error (m_threads m) i) as [th|]; [|reflexivity].
    destruct (t_todo th) as [|c rest]; [reflexivity|].
    destruct (t_phase th) as [|prev|prev].
    - unfold loc_override. destruct (c_ok c); reflexivity.
    - destruct (c_body c _ _); reflexivity.
    - destruct prev; reflexivity.
  Qed.

  Lemma step_other : forall i j (m : machine), j <> i ->
    nth_error (m_threads (step j m)) i = nth_error (m_threads m) i.
  Proof.
    intros i j m Hne. unfold step. destruct (nth_error (m_threads m) j) as [th|]; [|reflexivity].
    destruct (t_todo th) as [|c rest]; [reflexivity|].
    destruct (t_phase th) as [|prev|prev].
    - destruct (loc_override _ _). cbn. apply nth_upd_other, Hne.
    - destruct (c_body c _ _). cbn. apply nth_upd_other, Hne.
    - cbn. apply nth_upd_other, Hne.
  Qed.

  Lemma step_self : forall g sp i (m : machine) th,
    m_global m = g -> nth_error (m_threads m) i = Some th -> tinv g sp th ->
    exists th', nth_error (m_threads (step i m)) i = Some th' /\ tinv g sp th'.
  Proof.
    intros g sp i m th Hg Hn (done & Hp & Hph). unfold step. rewrite Hn.
    destruct (t_todo th) as [|c rest] eqn:Htodo.
    { exists th. split; [exact Hn|]. exists done. rewrite Htodo. auto. }
    destruct (t_phase th) as [|prev|prev] eqn:Hphase.
    - destruct Hph as [Hloc Hobs]. unfold loc_override. destruct (c_ok c) eqn:Hok.
      + eexists. split; [cbn; eapply nth_upd_same; exact Hn|].
        exists done. cbn. split; [exact Hp|]. exists c, rest. split; [reflexivity|].
        split; [|exact Hobs]. unfold in_call. rewrite Hok. rewrite Hloc. eauto.
      + eexists. split; [cbn; eapply nth_upd_same; exact Hn|].
        exists done. cbn. split; [exact Hp|]. exists c, rest. split; [reflexivity|].
        split; [|exact Hobs]. unfold in_call. rewrite Hok. auto.
    - destruct Hph as (c' & rest' & Heq & Hin & Hobs). injection Heq as <- <-.
      destruct (c_body c (eff_radix (view m th)) (t_data th)) as [d' r] eqn:Hbody.
      eexists. split; [cbn; eapply nth_upd_same; exact Hn|].
      exists done. cbn. split; [exact Hp|]. exists c, rest. split; [reflexivity|].
      split; [exact Hin|]. rewrite pure_run_snoc. rewrite <- Hobs. unfold obs. cbn.
      assert (Hr : eff_radix (view m th) = call_rad (rad_of g (ts_loc sp)) c).
      { unfold in_call, call_rad in *. destruct (c_ok c).
        - destruct Hin as (_ & id & Hl). unfold eff_radix, view. cbn. rewrite Hl. reflexivity.
        - destruct Hin as (_ & Hl). unfold eff_radix, view, rad_of. cbn. rewrite Hl, Hg. reflexivity. }
      rewrite <- Hr, Hbody. reflexivity.
    - destruct Hph as (c' & rest' & Heq & Hin & Hobs). injection Heq as <- <-.
      eexists. split; [cbn; eapply nth_upd_same; exact Hn|].
      exists (done ++ [c]). cbn. rewrite <- app_assoc. split; [exact Hp|]. split; [|exact Hobs].
      unfold in_call in Hin. destruct (c_ok c).
      + destruct Hin as (-> & _). reflexivity.
      + destruct Hin as (-> & Hl). exact Hl.
  Qed.

  Lemma run_tinv : forall g sp i sched (m : machine) th,
    m_global m = g -> nth_error (m_threads m) i = Some th -> tinv g sp th ->
    exists th', nth_error (m_threads (run_machine sched m)) i = Some th' /\ tinv g sp th' /\
                m_global (run_machine sched m) = g.
  Proof.
    intros g sp i. induction sched as [|j sched IH]; intros m th Hg Hn Hinv; cbn [run_machine].
    - eauto.
    - destruct (Nat.eq_dec j i) as [->|Hne].
      + destruct (step_self g sp i m th Hg Hn Hinv) as (th' & Hn' & Hinv').
        apply (IH _ th'); auto. rewrite step_global. exact Hg.
      + apply (IH _ th); auto; [rewrite step_global; exact Hg | rewrite step_other by exact Hne; exact Hn].
  Qed.

  Lemma init_tinv : forall g sp, tinv g sp (init_thread sp).
  Proof. intros g sp. exists []. cbn. auto. Qed.

  Lemma pure_run_shape : forall p rad0 d,
    length (fst (fst (pure_run rad0 d p))) = length p /\
    snd (fst (pure_run rad0 d p)) = map (call_rad rad0) p.
  Proof.
    induction p as [|c p IH]; intros rad0 d; cbn [pure_run]; [auto|].
    destruct (c_body c _ d) as [d' r]. specialize (IH rad0 d').
    destruct (pure_run rad0 d' p) as [[rs zs] d'']. cbn in *. destruct IH as [-> ->]. auto.
  Qed.

  (* ---------- (2) interleaving = alone ---------- *)

  (* General form, valid after EVERY schedule (hence at every intermediate point of a run).
     [bodies] = the calls of thread i whose body has run so far. *)
  Theorem interleaving_invariant : forall g n0 f0 (sps : list tspec) sched i sp,
    nth_error sps i = Some sp ->
    let m := run_machine sched (init_machine g n0 f0 sps) in
    exists th, nth_error (m_threads m) i = Some th /\
    exists done, ts_prog sp = done ++ t_todo th /\
      let bodies := match t_phase th with Ran _ => done ++ firstn 1 (t_todo th) | _ => done end in
      let '((rs, zs, d), s) := alone (mkLoc g (ts_loc sp) n0 f0) (ts_data sp) bodies in
      t_res th = rs /\ t_rad th = zs /\ t_data th = d /\
      m_global m = ls_global s /\ ls_global s = g /\ ls_thread s = ts_loc sp /\
      match t_phase th with
      | Idle => t_loc th = ls_thread s
      | Entered prev | Ran prev =>
          exists c, hd_error (t_todo th) = Some c /\
            if c_ok c then prev = Some (ts_loc sp) /\ exists id, t_loc th = Some (mkLobj id 46 c_name)
            else prev = None /\ t_loc th = ts_loc sp
      end.
  Proof.
    intros g n0 f0 sps sched i sp Hn m.
    destruct (run_tinv g sp i sched (init_machine g n0 f0 sps) (init_thread sp)) as (th & Hth & (done & Hp & Hph) & Hg).
    - reflexivity.
    - cbn. rewrite nth_error_map, Hn. reflexivity.
    - apply init_tinv.
    - exists th. split; [exact Hth|]. exists done. split; [exact Hp|]. cbv zeta.
      match goal with |- context [alone ?s ?d ?p] =>
        destruct (alone_pure p s d) as (H1 & H2 & H3); destruct (alone s d p) as [[[rs zs] d'] s'] end.
      cbn [fst snd ls_global ls_thread] in H1, H2, H3. fold m in Hg.
      change (eff_radix (mkLoc g (ts_loc sp) n0 f0)) with (rad_of g (ts_loc sp)) in H1.
      destruct (t_phase th) as [|prev|prev].
      + destruct Hph as [Hl Ho]. unfold obs in Ho. rewrite <- Ho in H1. injection H1 as <- <- <-.
        repeat split; congruence.
      + destruct Hph as (c & rest & Ht & Hin & Ho). unfold obs in Ho. rewrite <- Ho in H1. injection H1 as <- <- <-.
        repeat split; try congruence. exists c. rewrite Ht. split; [reflexivity|exact Hin].
      + destruct Hph as (c & rest & Ht & Hin & Ho). rewrite Ht in H1. cbn [firstn] in H1.
        unfold obs in Ho. rewrite <- Ho in H1. injection H1 as <- <- <-.
        repeat split; try congruence. exists c. rewrite Ht. split; [reflexivity|exact Hin].
  Qed.

  (* results, radix characters and data after k bodies = thread i alone on its first k calls *)
  Theorem interleaving_is_alone : forall g n0 f0 (sps : list tspec) sched i sp,
    nth_error sps i = Some sp ->
    let m := run_machine sched (init_machine g n0 f0 sps) in
    exists th, nth_error (m_threads m) i = Some th /\
      let k := length (t_res th) in
      let '((rs, zs, d), s) := alone (mkLoc g (ts_loc sp) n0 f0) (ts_data sp) (firstn k (ts_prog sp)) in
      t_res th = rs /\ t_rad th = zs /\ t_data th = d /\
      m_global m = ls_global s /\ (t_phase th = Idle -> t_loc th = ls_thread s).
  Proof.
    intros g n0 f0 sps sched i sp Hn m.
    destruct (interleaving_invariant g n0 f0 sps sched i sp Hn) as (th & Hth & done & Hp & H).
    fold m in Hth, H. exists th. split; [exact Hth|]. cbv zeta in *.
    match type of H with context [alone ?s ?d ?p] => set (bodies := p) in *;
      assert (Hk : firstn (length (t_res th)) (ts_prog sp) = bodies) end.
    { destruct (alone_pure bodies (mkLoc g (ts_loc sp) n0 f0) (ts_data sp)) as (H1 & _).
      destruct (pure_run_shape bodies (eff_radix (mkLoc g (ts_loc sp) n0 f0)) (ts_data sp)) as [Hlen _].
      rewrite <- H1 in Hlen. destruct (alone _ _ bodies) as [[[rs zs] d'] s']. cbn in Hlen.
      destruct H as (-> & _). rewrite Hlen, Hp. subst bodies.
      destruct (t_phase th); try (rewrite firstn_app, Nat.sub_diag, firstn_all; cbn; apply app_nil_r).
      destruct (t_todo th) as [|c rest]; cbn [firstn].
      - apply firstn_all.
      - change (c :: rest) with ([c] ++ rest). rewrite app_assoc.
        rewrite firstn_app, Nat.sub_diag, firstn_all. cbn. apply app_nil_r. }
    rewrite Hk. destruct (alone _ _ bodies) as [[[rs zs] d'] s'].
    destruct H as (? & ? & ? & ? & ? & ? & Hl). repeat split; auto.
    intros Hi. rewrite Hi in Hl. exact Hl.
  Qed.

  (* a thread that has finished its program: everything is as if it had run alone *)
  Theorem interleaving_is_alone_finished : forall g n0 f0 (sps : list tspec) sched i sp,
    nth_error sps i = Some sp ->
    let m := run_machine sched (init_machine g n0 f0 sps) in
    exists th, nth_error (m_threads m) i = Some th /\
      (finished th ->
       let '((rs, zs, d), s) := alone (mkLoc g (ts_loc sp) n0 f0) (ts_data sp) (ts_prog sp) in
       t_res th = rs /\ t_rad th = zs /\ t_data th = d /\
       t_loc th = ls_thread s /\ m_global m = ls_global s /\
       eff_radix (view m th) = eff_radix s).
  Proof.
    intros g n0 f0 sps sched i sp Hn m.
    destruct (interleaving_invariant g n0 f0 sps sched i sp Hn) as (th & Hth & done & Hp & H).
    fold m in Hth, H. exists th. split; [exact Hth|]. intros [Hi Ht]. cbv zeta in H.
    rewrite Hi, Ht in *. rewrite app_nil_r in Hp. subst done.
    destruct (alone _ _ (ts_prog sp)) as [[[rs zs] d'] s'].
    destruct H as (? & ? & ? & Hg & ? & ? & Hl). repeat split; auto.
    unfold eff_radix, view. cbn. rewrite Hl, Hg. reflexivity.
  Qed.

  (* the radix character every body of thread i ran under: '.' when its own newlocale succeeded —
     whatever the global locale, the thread locales and the other threads do — and the thread's own
     initial effective radix when it failed *)
  Lemma nth_error_firstn {A} : forall n (l : list A) k x, nth_error (firstn n l) k = Some x -> nth_error l k = Some x.
  Proof. induction n; intros [|a l] [|k] x H; cbn in *; try discriminate; auto. Qed.

  Theorem bodies_run_under_dot : forall g n0 f0 (sps : list tspec) sched i sp th k c z,
    nth_error sps i = Some sp ->
    nth_error (m_threads (run_machine sched (init_machine g n0 f0 sps))) i = Some th ->
    nth_error (ts_prog sp) k = Some c -> nth_error (t_rad th) k = Some z ->
    z = if c_ok c then 46 else match ts_loc sp with Some l => lo_radix l | None => lo_radix g end.
  Proof.
    intros g n0 f0 sps sched i sp th k c z Hn Hth Hc Hz.
    destruct (interleaving_is_alone g n0 f0 sps sched i sp Hn) as (th' & Hth' & H).
    rewrite Hth in Hth'. injection Hth' as <-. cbv zeta in H.
    match type of H with context [alone ?s ?d ?p] =>
      destruct (alone_pure p s d) as (H1 & _); destruct (pure_run_shape p (eff_radix s) d) as (_ & H2);
      rewrite <- H1 in H2; destruct (alone s d p) as [[[rs zs] d'] s'] end.
    cbn [fst snd] in H2. destruct H as (_ & Hr & _). rewrite Hr, H2 in Hz.
    rewrite nth_error_map in Hz. destruct (nth_error (firstn _ _) k) as [c'|] eqn:Hk; [|discriminate].
    apply nth_error_firstn in Hk. rewrite Hc in Hk. injection Hk as <-. injection Hz as <-. reflexivity.
  Qed.

  (* ---------- (3) restoration under interleaving ---------- *)
  Lemma created_snoc : forall n0 n, n0 <= n -> created n0 (n + 1) = created n0 n ++ [n].
  Proof.
    intros n0 n H. unfold created. replace (Z.to_nat (n + 1 - n0)) with (S (Z.to_nat (n - n0))) by lia.
    rewrite seq_S, map_app. cbn. do 2 f_equal. lia.
  Qed.

  Lemma In_created : forall n0 n id, In id (created n0 n) <-> n0 <= id < n.
  Proof.
    intros n0 n id. unfold created. rewrite in_map_iff. split.
    - intros (k & <- & Hk). apply in_seq in Hk. lia.
    - intros H. exists (Z.to_nat (id - n0)). split; [lia|]. apply in_seq. lia.
  Qed.

  Lemma NoDup_created : forall n0 n, NoDup (created n0 n).
  Proof.
    intros n0 n. unfold created. generalize (Z.to_nat (n - n0)) as k. generalize 0%nat as a.
    intros a k. revert a. induction k as [|k IH]; intros a; cbn; constructor; [|apply IH].
    rewrite in_map_iff. intros (j & Hj & Hin). apply in_seq in Hin. lia.
  Qed.

  (* the identities handed out so far = the freed ones + the ones threads hold inside a call *)
  Definition ginv (n0 : Z) (f0 : list Z) (m : machine) : Prop :=
    n0 <= m_next m /\
    exists F, m_freed m = f0 ++ F /\
              Permutation (F ++ flat_map live1 (m_threads m)) (created n0 (m_next m)).

  Lemma step_ginv : forall n0 f0 i (m : machine), ginv n0 f0 m -> ginv n0 f0 (step i m).
  Proof.
    intros n0 f0 i m (Hle & F & Hf & HP). unfold ginv, step, commit.
    destruct (nth_error (m_threads m) i) as [th|] eqn:Hn; [|split; [exact Hle|exists F; auto]].
    destruct (t_todo th) as [|c rest] eqn:Htodo; [split; [exact Hle|exists F; auto]|].
    destruct (t_phase th) as [|prev|prev] eqn:Hphase.
    - assert (Hl : live1 th = []) by (unfold live1; rewrite Hphase; reflexivity).
      unfold loc_override. destruct (c_ok c); cbn.
      + match goal with |- context [upd i ?x _] => set (th' := x) end.
        pose proof (flat_map_upd live1 th' _ _ _ Hn) as HU. rewrite Hl in HU. cbn in HU.
        split; [lia|]. exists F. split; [exact Hf|]. rewrite created_snoc by exact Hle.
        rewrite <- HP. rewrite (Permutation_app_head F HU).
        rewrite <- Permutation_middle. apply Permutation_cons_append.
      + match goal with |- context [upd i ?x _] => set (th' := x) end.
        pose proof (flat_map_upd live1 th' _ _ _ Hn) as HU. rewrite Hl in HU. cbn in HU.
        split; [exact Hle|]. exists F. split; [exact Hf|]. rewrite <- HP. apply Permutation_app_head, HU.
    - destruct (c_body c _ _) as [d' r]. cbn.
      match goal with |- context [upd i ?x _] => set (th' := x) end.
      assert (Hl : live1 th' = live1 th) by (unfold live1; subst th'; cbn; rewrite Hphase; reflexivity).
      pose proof (flat_map_upd live1 th' _ _ _ Hn) as HU. rewrite Hl in HU. apply Permutation_app_inv_l in HU.
      split; [exact Hle|]. exists F. split; [exact Hf|]. rewrite <- HP. apply Permutation_app_head, HU.
    - destruct prev as [p|]; cbn.
      + match goal with |- context [upd i ?x _] => set (th' := x) end.
        pose proof (flat_map_upd live1 th' _ _ _ Hn) as HU. cbn in HU.
        assert (Hl : match t_loc th with Some l => [lo_id l] | None => [] end = live1 th)
          by (unfold live1; rewrite Hphase; reflexivity).
        rewrite Hl. split; [exact Hle|]. exists (F ++ live1 th). split; [rewrite Hf; apply app_assoc_reverse|].
        rewrite <- HP, <- app_assoc. apply Permutation_app_head, HU.
      + match goal with |- context [upd i ?x _] => set (th' := x) end.
        pose proof (flat_map_upd live1 th' _ _ _ Hn) as HU. cbn in HU.
        assert (Hl : live1 th = []) by (unfold live1; rewrite Hphase; reflexivity). rewrite Hl in HU. cbn in HU.
        split; [exact Hle|]. exists F. split; [exact Hf|]. rewrite <- HP. apply Permutation_app_head, HU.
  Qed.

  Lemma run_ginv : forall n0 f0 sched (m : machine), ginv n0 f0 m -> ginv n0 f0 (run_machine sched m).
  Proof. intros n0 f0. induction sched as [|i r IH]; intros m H; cbn; [exact H|]. apply IH, step_ginv, H. Qed.

  Lemma init_ginv : forall g n0 f0 (sps : list tspec), ginv n0 f0 (init_machine g n0 f0 sps).
  Proof.
    intros g n0 f0 sps. split; [cbn; lia|]. exists []. split; [cbn; symmetry; apply app_nil_r|].
    cbn. unfold created. rewrite Z.sub_diag. cbn.
    induction sps as [|sp sps IH]; cbn; [constructor|exact IH].
  Qed.

  Lemma run_length : forall sched (m : machine), length (m_threads (run_machine sched m)) = length (m_threads m).
  Proof.
    induction sched as [|i r IH]; intros m; cbn; [reflexivity|]. rewrite IH. unfold step.
    destruct (nth_error (m_threads m) i) as [th|]; [|reflexivity].
    destruct (t_todo th); [reflexivity|].
    destruct (t_phase th); [destruct (loc_override _ _)|destruct (c_body _ _ _)|]; cbn; apply upd_length.
  Qed.

  Lemma run_global : forall sched (m : machine), m_global (run_machine sched m) = m_global m.
  Proof. induction sched as [|i r IH]; intros m; cbn; [reflexivity|]. rewrite IH. apply step_global. Qed.

  (* every thread is between two calls *)
  Definition quiescent (m : machine) : Prop := forall th, In th (m_threads m) -> t_phase th = Idle.

  Lemma finished_quiescent : forall m : machine, all_finished m -> quiescent m.
  Proof. intros m H th Hin. exact (proj1 (H th Hin)). Qed.

  (* At every point of every schedule where no thread is inside a call — in particular once every thread
     has finished its program — the global locale object and every thread's locale are the initial ones,
     and the objects freed since the start are exactly the objects created since the start, each once. *)
  Theorem restoration_under_interleaving : forall g n0 f0 (sps : list tspec) sched,
    let m := run_machine sched (init_machine g n0 f0 sps) in
    quiescent m ->
    m_global m = g /\
    length (m_threads m) = length sps /\
    (forall i sp, nth_error sps i = Some sp ->
       exists th, nth_error (m_threads m) i = Some th /\ t_loc th = ts_loc sp) /\
    exists F, m_freed m = f0 ++ F /\
      Permutation F (created n0 (m_next m)) /\ NoDup F /\
      (forall id, In id F <-> n0 <= id < m_next m) /\
      (forall id, id < n0 -> ~ In id F).
  Proof.
    intros g n0 f0 sps sched m Hq.
    assert (Hg : m_global m = g) by (subst m; rewrite run_global; reflexivity).
    split; [exact Hg|]. split; [subst m; rewrite run_length; cbn; apply map_length|]. split.
    - intros i sp Hn. destruct (interleaving_invariant g n0 f0 sps sched i sp Hn) as (th & Hth & done & Hp & H).
      fold m in Hth, H. exists th. split; [exact Hth|]. cbv zeta in H.
      rewrite (Hq th (nth_error_In _ _ Hth)) in H. destruct (alone _ _ done) as [[[rs zs] d'] s'].
      destruct H as (_ & _ & _ & _ & _ & <- & Hl). exact Hl.
    - destruct (run_ginv n0 f0 sched _ (init_ginv g n0 f0 sps)) as (Hle & F & Hf & HP). fold m in Hle, Hf, HP.
      assert (Hlive : flat_map live1 (m_threads m) = []).
      { revert Hq. unfold quiescent. generalize (m_threads m). induction l as [|th l IH]; intros Hq; cbn; [reflexivity|].
        rewrite IH by (intros t Ht; apply Hq; right; exact Ht).
        unfold live1. rewrite (Hq th (or_introl eq_refl)). reflexivity. }
      rewrite Hlive, app_nil_r in HP. exists F. split; [exact Hf|]. split; [exact HP|].
      assert (Hiff : forall id, In id F <-> n0 <= id < m_next m).
      { intros id. rewrite <- In_created. split; apply Permutation_in; [exact HP|symmetry; exact HP]. }
      split; [|split; [exact Hiff|]].
      + eapply Permutation_NoDup; [symmetry; exact HP|apply NoDup_created].
      + intros id Hlt Hin. apply Hiff in Hin. lia.
  Qed.

  Corollary restoration_when_all_finished : forall g n0 f0 (sps : list tspec) sched,
    let m := run_machine sched (init_machine g n0 f0 sps) in
    all_finished m ->
    m_global m = g /\
    (forall i sp, nth_error sps i = Some sp ->
       exists th, nth_error (m_threads m) i = Some th /\ t_loc th = ts_loc sp) /\
    exists F, m_freed m = f0 ++ F /\ Permutation F (created n0 (m_next m)) /\ NoDup F /\
      (forall l, lo_id l < n0 -> ~ In (lo_id l) F).
  Proof.
    intros g n0 f0 sps sched m Hf.
    destruct (restoration_under_interleaving g n0 f0 sps sched (finished_quiescent _ Hf))
      as (H1 & _ & H2 & F & H3 & H4 & H5 & _ & H6).
    split; [exact H1|]. split; [exact H2|]. exists F. repeat split; auto.
  Qed.

  (* ---------- every state between calls can be run to completion (the hypothesis of (3) is satisfiable) ---------- *)
  Lemma step_phase : forall i (m : machine) th c rest,
    nth_error (m_threads m) i = Some th -> t_todo th = c :: rest ->
    exists th', nth_error (m_threads (step i m)) i = Some th' /\
      match t_phase th with
      | Idle => exists p, t_phase th' = Entered p /\ t_todo th' = c :: rest
      | Entered p => t_phase th' = Ran p /\ t_todo th' = c :: rest
      | Ran p => t_phase th' = Idle /\ t_todo th' = rest
      end.
  Proof.
    intros i m th c rest Hn Ht. unfold step. rewrite Hn, Ht. destruct (t_phase th) as [|p|p].
    - destruct (loc_override _ _) as [s1 prev]. eexists. split; [cbn; eapply nth_upd_same; exact Hn|]. cbn. eauto.
    - destruct (c_body c _ _) as [d' r]. eexists. split; [cbn; eapply nth_upd_same; exact Hn|]. cbn. auto.
    - eexists. split; [cbn; eapply nth_upd_same; exact Hn|]. cbn. auto.
  Qed.

  Lemma finish_one : forall n i (m : machine) th,
    nth_error (m_threads m) i = Some th -> t_phase th = Idle -> length (t_todo th) = n ->
    exists sched,
      (exists th', nth_error (m_threads (run_machine sched m)) i = Some th' /\ finished th') /\
      forall j, j <> i -> nth_error (m_threads (run_machine sched m)) j = nth_error (m_threads m) j.
  Proof.
    induction n as [|n IH]; intros i m th Hn Hp Hl.
    - exists []. cbn. split; [|auto]. exists th. split; [exact Hn|]. split; [exact Hp|].
      destruct (t_todo th); [reflexivity|discriminate].
    - destruct (t_todo th) as [|c rest] eqn:Ht; [discriminate|]. injection Hl as Hl.
      destruct (step_phase i m th c rest Hn Ht) as (th1 & Hn1 & H1). rewrite Hp in H1. destruct H1 as (p & Hp1 & Ht1).
      destruct (step_phase i _ th1 c rest Hn1 Ht1) as (th2 & Hn2 & H2). rewrite Hp1 in H2. destruct H2 as (Hp2 & Ht2).
      destruct (step_phase i _ th2 c rest Hn2 Ht2) as (th3 & Hn3 & H3). rewrite Hp2 in H3. destruct H3 as (Hp3 & Ht3).
      rewrite <- Ht3 in Hl. destruct (IH i _ th3 Hn3 Hp3 Hl) as (sched & Hfin & Hoth).
      exists (i :: i :: i :: sched). cbn [run_machine]. split; [exact Hfin|].
      intros j Hj. rewrite (Hoth j Hj). rewrite !step_other by auto. reflexivity.
  Qed.

  Lemma finish_from : forall k n (m : machine),
    (n + k = length (m_threads m))%nat -> quiescent m ->
    (forall j th, (j < k)%nat -> nth_error (m_threads m) j = Some th -> finished th) ->
    exists sched, all_finished (run_machine sched m).
  Proof.
    intros k n. revert k. induction n as [|n IH]; intros k m Hlen Hq Hlt.
    - exists []. cbn. intros th Hin. apply In_nth_error in Hin as (j & Hj). apply (Hlt j th); [|exact Hj].
      cbn in Hlen. rewrite Hlen. apply nth_error_Some. congruence.
    - destruct (nth_error (m_threads m) k) as [th|] eqn:Hk.
      2:{ apply nth_error_None in Hk. lia. }
      destruct (finish_one (length (t_todo th)) k m th Hk (Hq th (nth_error_In _ _ Hk)) eq_refl)
        as (s1 & (th' & Hk' & Hfin) & Hoth).
      destruct (IH (S k) (run_machine s1 m)) as (s2 & H2).
      + rewrite run_length. lia.
      + intros t Hin. apply In_nth_error in Hin as (j & Hj). destruct (Nat.eq_dec j k) as [->|Hne].
        * rewrite Hk' in Hj. injection Hj as <-. exact (proj1 Hfin).
        * rewrite (Hoth j Hne) in Hj. exact (Hq t (nth_error_In _ _ Hj)).
      + intros j t Hj Hnj. destruct (Nat.eq_dec j k) as [->|Hne].
        * rewrite Hk' in Hnj. injection Hnj as <-. exact Hfin.
        * rewrite (Hoth j Hne) in Hnj. apply (Hlt j t); [lia|exact Hnj].
      + exists (s1 ++ s2). replace (run_machine (s1 ++ s2) m) with (run_machine s2 (run_machine s1 m)); [exact H2|].
        clear. revert m. induction s1 as [|a s1 IHs]; intros m; cbn; [reflexivity|apply IHs].
  Qed.

  Theorem finishing_schedule_exists : forall g n0 f0 (sps : list tspec),
    exists sched, all_finished (run_machine sched (init_machine g n0 f0 sps)).
  Proof.
    intros g n0 f0 sps. apply (finish_from 0 (length (m_threads (init_machine g n0 f0 sps)))).
    - lia.
    - intros th Hin. cbn in Hin. apply in_map_iff in Hin as (sp & <- & _). reflexivity.
    - intros j th Hj. lia.
  Qed.

End Facts.

Arguments pure_run {D R}.
Arguments call_rad {D R}.
Arguments obs {D R}.
Arguments ginv {D R}.
Arguments quiescent {D R}.

(* the accounting of locale identities holds at EVERY point of every schedule, also inside calls *)
Theorem identities_accounted : forall D R g n0 f0 (sps : list (tspec D R)) sched,
  let m := run_machine sched (init_machine g n0 f0 sps) in
  n0 <= m_next m /\
  exists F, m_freed m = f0 ++ F /\
            Permutation (F ++ flat_map live1 (m_threads m)) (created n0 (m_next m)).
Proof. intros D R g n0 f0 sps sched. exact (run_ginv D R n0 f0 sched _ (init_ginv D R g n0 f0 sps)). Qed.

Print Assumptions interleaving_invariant.
Print Assumptions interleaving_is_alone.
Print Assumptions interleaving_is_alone_finished.
Print Assumptions bodies_run_under_dot.
Print Assumptions restoration_under_interleaving.
Print Assumptions restoration_when_all_finished.
Print Assumptions identities_accounted.
Print Assumptions finishing_schedule_exists.

(* ---------- (4) the process-wide variant is refuted ---------- *)
Module Examples.
  (* data = a counter; a body returns 1000 * (radix it ran under) + counter, and increments the counter *)
  Definition body : Z -> Z -> Z * Z := fun rad d => (d + 1, 1000 * rad + d).
  Definition ok_call : call Z Z := mkCall true body.
  Definition ko_call : call Z Z := mkCall false body.
  Definition de_DE : lobj := mkLobj 1 44 [100; 101; 95; 68; 69].      (* "de_DE": radix ',' *)
  Definition fr_FR : lobj := mkLobj 2 44 [102; 114; 95; 70; 82].      (* "fr_FR": radix ',' *)

  Definition two : list (tspec Z Z) := [mkSpec None 0 [ok_call]; mkSpec None 100 [ok_call]].
  (* T0 Enter, T1 Enter, T0 Run, T0 Leave, T1 Run, T1 Leave *)
  Definition sched2 : list nat := [0; 1; 0; 0; 1; 1]%nat.

  (* setlocale-based switch: T1's body runs under ',' although T1's own Enter succeeded (T0's Leave put the
     comma locale back while T1 was still inside its call), and in the end the global locale is the "C"
     object T0 installed, not the initial one.  Same schedule on the uselocale-based machine: both bodies
     run under '.', the global locale is untouched. *)
  Example global_variant_refuted :
    let m := grun_machine sched2 (init_machine de_DE 10 [] two) in
    map (fun th => (t_phase th, length (t_todo th))) (m_threads m) = [(Idle, 0%nat); (Idle, 0%nat)] /\
    map c_ok (flat_map ts_prog two) = [true; true] /\
    map t_rad (m_threads m) = [[46]; [44]] /\
    map t_res (m_threads m) = [[46000]; [44100]] /\
    m_global m = mkLobj 10 46 c_name /\ lo_radix (m_global m) <> lo_radix de_DE /\
    let m' := run_machine sched2 (init_machine de_DE 10 [] two) in
    map t_rad (m_threads m') = [[46]; [46]] /\
    map t_res (m_threads m') = [[46000]; [46100]] /\
    m_global m' = de_DE /\ m_freed m' = [10; 11].
  Proof. vm_compute. repeat split; discriminate. Qed.

  (* ---------- (5) non-vacuity: three threads, round-robin schedule ---------- *)
  (* global locale de_DE; T1 has its own comma locale fr_FR and its second newlocale fails; T2's newlocale fails *)
  Definition three : list (tspec Z Z) :=
    [mkSpec None 0 [ok_call; ok_call]; mkSpec (Some fr_FR) 100 [ok_call; ko_call]; mkSpec None 200 [ko_call]].
  Definition sched3 : list nat := [0; 1; 2; 0; 1; 2; 0; 1; 2; 0; 1; 2; 0; 1; 2; 0; 1; 2]%nat.

  Example three_threads_run :
    let m := run_machine sched3 (init_machine de_DE 10 [] three) in
    map (fun th => (t_phase th, length (t_todo th))) (m_threads m) = [(Idle, 0%nat); (Idle, 0%nat); (Idle, 0%nat)] /\
    map t_rad (m_threads m) = [[46; 46]; [46; 44]; [44]] /\
    map t_res (m_threads m) = [[46000; 46001]; [46100; 44101]; [44200]] /\
    map t_data (m_threads m) = [2; 102; 201] /\
    map t_loc (m_threads m) = [None; Some fr_FR; None] /\
    m_global m = de_DE /\ m_next m = 13 /\ m_freed m = [10; 11; 12] /\
    (* = each thread alone, from the same counter *)
    map (fun sp => fst (alone (mkLoc de_DE (ts_loc sp) 10 []) (ts_data sp) (ts_prog sp))) three =
    map obs (m_threads m) /\
    (* alone, T1 creates and frees identity 10; interleaved it got 11: identities differ, nothing else *)
    ls_freed (snd (alone (mkLoc de_DE (Some fr_FR) 10 []) 100 [ok_call; ko_call])) = [10].
  Proof. vm_compute. repeat split. Qed.

  (* a schedule that is not fair and stops early: T1 is inside its first call, T0 has finished one call *)
  Example three_threads_midway :
    let m := run_machine [1; 0; 0; 1; 0; 7; 2]%nat (init_machine de_DE 10 [] three) in
    map t_phase (m_threads m) = [Idle; Ran (Some (Some fr_FR)); Entered None] /\
    map t_rad (m_threads m) = [[46]; [46]; []] /\
    map t_loc (m_threads m) = [None; Some (mkLobj 10 46 c_name); None] /\
    m_freed m = [11] /\ flat_map live1 (m_threads m) = [10] /\ m_next m = 12.
  Proof. vm_compute. repeat split. Qed.
End Examples.
