(* RwFacts.v — reads and writes on one configuration object: the error state after a call is that
   call's own report (C09); config_write_file succeeds exactly when everything reached the file (C12). *)
From Coq Require Import List ZArith Bool Lia.
Import ListNotations.
From LC Require Import Base Tree Fp Lookup Api ApiStep ScanAction FlexEngine Tokens Lexer Parser Reader
  Writer WriteFile TreeFacts ApiFacts.
From LC.gen Require Import Consts.
Local Open Scope Z_scope.

(* ------------------------------------------------------------------------------------ *)
(* config_write_file *)

Definition fits (d : wdev) (len : Z) : bool :=
  match dv_cap d with None => true | Some cap => len <=? cap end.

(* the exact success condition *)
Definition write_succeeds (len : Z) (fsync_opt : bool) (d : wdev) : bool :=
  negb (dv_open_fails d) && fits d len && negb (fsync_opt && dv_fsync_fails d) && negb (dv_close_fails d).

Lemma push_ok d held n : 0 <= held -> 0 <= n ->
  push d held n = if fits d (held + n) then (held + n, false)
                  else (Z.max held (match dv_cap d with Some c => c | None => 0 end), true).
Proof. unfold push, fits. destruct (dv_cap d); reflexivity. Qed.

Lemma fits_mono d a b : a <= b -> fits d b = true -> fits d a = true.
Proof.
  intros H1 H2. unfold fits in *. destruct (dv_cap d); [|reflexivity].
  apply Z.leb_le in H2. apply Z.leb_le. lia.
Qed.

Lemma clip_range lo hi x : lo <= hi -> lo <= clip lo hi x <= hi.
Proof. unfold clip. lia. Qed.

Lemma wf_err_spec text fsync_opt d k0 :
  let r := write_file text fsync_opt d k0 in
  wf_err r = if wf_ok r then err0 else io_error.
Proof.
  cbv zeta. unfold write_file. destruct (dv_open_fails d); [reflexivity|].
  destruct (push d 0 _) as [h1 e1].
  destruct (negb e1 && fsync_opt).
  - destruct (push d h1 _) as [h e]. cbn. destruct (_ && _ && _); reflexivity.
  - destruct (push d h1 _) as [h e]. cbn. destruct (_ && _ && _); reflexivity.
Qed.

Lemma firstn_len (text : bytes) : firstn (Z.to_nat (Z.of_nat (length text))) text = text.
Proof. rewrite Nat2Z.id. apply firstn_all. Qed.

Lemma wf_ok_spec text fsync_opt d k0 :
  let len := Z.of_nat (length text) in
  let r := write_file text fsync_opt d k0 in
  wf_ok r = write_succeeds len fsync_opt d /\ (wf_ok r = true -> wf_content r = Some text).
Proof.
  cbv zeta. unfold write_file, write_succeeds.
  destruct (dv_open_fails d) eqn:Eo; [cbn; split; [reflexivity | discriminate]|].
  set (len := Z.of_nat (length text)). set (k := clip 0 len k0).
  assert (Hlen : 0 <= len) by (unfold len; lia).
  pose proof (clip_range 0 len k0 Hlen) as Hk. fold k in Hk.
  rewrite (push_ok d 0 k) by lia. rewrite Z.add_0_l.
  cbn [negb andb].
  destruct (fits d len) eqn:Ef.
  - (* everything fits: no push fails *)
    assert (Efk : fits d k = true) by (apply (fits_mono d k len); [lia | exact Ef]).
    rewrite Efk. cbn [negb andb].
    destruct fsync_opt; cbn [andb].
    + rewrite (push_ok d k (len - k)) by lia. replace (k + (len - k)) with len by lia. rewrite Ef.
      cbn [wf_ok wf_content negb andb]. rewrite ?andb_true_r. split; [reflexivity|]. intros _. unfold len. rewrite firstn_len. reflexivity.
    + rewrite (push_ok d k (len - k)) by lia. replace (k + (len - k)) with len by lia. rewrite Ef.
      cbn [wf_ok wf_content negb andb]. rewrite ?andb_true_r. split; [reflexivity|]. intros _. unfold len. rewrite firstn_len. reflexivity.
  - (* the text does not fit: some push fails, whichever it is *)
    cbn [andb].
    destruct (fits d k) eqn:Efk; cbn [negb andb].
    + destruct fsync_opt; cbn [andb];
        rewrite (push_ok d k (len - k)) by lia; replace (k + (len - k)) with len by lia; rewrite Ef;
        cbn [wf_ok negb andb]; rewrite ?andb_false_r; (split; [reflexivity | discriminate]).
    + destruct fsync_opt; cbn [andb]; destruct (push d _ (len - k)) as [h3 e3];
        cbn [wf_ok negb andb]; (split; [reflexivity | discriminate]).
Qed.

Theorem write_file_spec text fsync_opt d k0 :
  let len := Z.of_nat (length text) in
  let r := write_file text fsync_opt d k0 in
  wf_ok r = write_succeeds len fsync_opt d /\
  (wf_ok r = true -> wf_content r = Some text /\ wf_err r = err0) /\
  (wf_ok r = false -> wf_err r = io_error).
Proof.
  cbv zeta. destruct (wf_ok_spec text fsync_opt d k0) as [H1 H2]. pose proof (wf_err_spec text fsync_opt d k0) as H3.
  cbv zeta in *. split; [exact H1|]. split.
  - intros E. split; [exact (H2 E)|]. rewrite H3, E. reflexivity.
  - intros E. rewrite H3, E. reflexivity.
Qed.

(* ------------------------------------------------------------------------------------ *)
(* reads and writes as operations on (file system, configuration) *)

Inductive rwop :=
| RReadString (text : bytes)                 (* config_read_string, and config_read on a stream of these bytes *)
| RReadFile (path : bytes)
| RWriteFile (path : bytes) (d : wdev) (k : Z).

Section RW.
  Variable atof : bytes -> Z.
  Variable fmt_double : Z -> Z -> bool -> bytes.

  Definition dev_for (FS : fs) (path : bytes) (d : wdev) : wdev :=
    match fs_lookup FS path with
    | Some FDir => mkDev (dv_cap d) (dv_fsync_fails d) (dv_close_fails d) true
    | _ => d
    end.

  Fixpoint fs_remove (f : fs) (p : bytes) : fs :=
    match f with
    | [] => []
    | (q, o) :: r => if bytes_eqb q p then fs_remove r p else (q, o) :: fs_remove r p
    end.

  (* result: new file system, new configuration, CONFIG_TRUE/FALSE (None: the process exited) *)
  Definition rw_step (st : fs * cfg) (o : rwop) : fs * cfg * option bool :=
    let '(FS, c) := st in
    match o with
    | RReadString text =>
        let r := config_read atof FS c None text in
        (FS, rd_cfg r, match rd_out_ r with RdOk => Some true | RdFail => Some false | _ => None end)
    | RReadFile path =>
        let r := config_read_file atof FS c path in
        (FS, rd_cfg r, match rd_out_ r with RdOk => Some true | RdFail => Some false | _ => None end)
    | RWriteFile path d k =>
        let r := write_file (config_write fmt_double c) (get_option c OPT_FSYNC) (dev_for FS path d) k in
        (match wf_content r with Some t => (path, FFile t) :: fs_remove FS path | None => FS end,
         set_err c (wf_err r), Some (wf_ok r))
    end.

  Lemma set_err_twice c e e' : set_err (set_err c e) e' = set_err c e'.
  Proof. reflexivity. Qed.

  Lemma config_read_ignores_err FS c e top text :
    config_read atof FS (set_err c e) top text = config_read atof FS c top text.
  Proof. unfold config_read. rewrite set_err_twice. reflexivity. Qed.

  Lemma config_write_ignores_err c e : config_write fmt_double (set_err c e) = config_write fmt_double c.
  Proof. reflexivity. Qed.

  (* the whole outcome of a call - return value, resulting settings, all four error fields - is
     independent of the error state left by earlier calls *)
  Theorem rw_own_report FS c e o :
    rw_step (FS, set_err c e) o = rw_step (FS, c) o.
  Proof.
    destruct o as [text|path|path d k]; cbn [rw_step].
    - rewrite config_read_ignores_err. reflexivity.
    - unfold config_read_file. destruct (fs_lookup FS path) as [[content|]|];
        rewrite ?config_read_ignores_err, ?set_err_twice; reflexivity.
    - rewrite config_write_ignores_err. reflexivity.
  Qed.

  Lemma read_ok_no_error FS c top text :
    rd_out_ (config_read atof FS c top text) = RdOk -> c_err (rd_cfg (config_read atof FS c top text)) = err0.
  Proof.
    unfold config_read. unfold clear_cfg. cbn [fst snd].
    destruct (lex_top atof FS _ top text) as [toks stop]. cbv zeta.
    destruct (NEST_LIMIT <? max_nest toks 0 0); [cbn [rd_out_]; discriminate|].
    destruct (p_config _ _) as [s|e s|s|s]; cbn [rd_out_ rd_cfg]; try discriminate.
    - intros _. reflexivity.
    - destruct stop; discriminate.
  Qed.

  Lemma read_fail_parse_error FS c top text :
    rd_out_ (config_read atof FS c top text) = RdFail ->
    let e := c_err (rd_cfg (config_read atof FS c top text)) in
    e_type e = 2 /\ e_text e <> None.
  Proof.
    unfold config_read. unfold clear_cfg. cbn [fst snd].
    destruct (lex_top atof FS _ top text) as [toks stop]. cbv zeta.
    destruct (NEST_LIMIT <? max_nest toks 0 0); [cbn [rd_out_]; discriminate|].
    destruct (p_config _ _) as [s|e s|s|s]; cbn [rd_out_ rd_cfg]; try discriminate.
    - intros _. cbn [c_err set_err e_type e_text]. split; [reflexivity|].
      unfold yyerror. destruct (e_text (apply_scan_errs _ _)) eqn:E; cbn [e_text]; [rewrite E|]; discriminate.
    - destruct stop; discriminate.
  Qed.

  (* after every call: success => no error recorded; failing read => parse error with a message, or
     (file could not be opened) an I/O error; failing write => I/O error *)
  Theorem rw_error_matches_outcome FS c o FS' c' res :
    rw_step (FS, c) o = (FS', c', res) ->
    match res with
    | Some true => c_err c' = err0
    | Some false =>
        match o with
        | RReadString _ => e_type (c_err c') = 2 /\ e_text (c_err c') <> None
        | RReadFile path =>
            match fs_lookup FS path with
            | Some (FFile _) => e_type (c_err c') = 2 /\ e_text (c_err c') <> None
            | _ => c_err c' = io_error
            end
        | RWriteFile _ _ _ => c_err c' = io_error
        end
    | None => True
    end.
  Proof.
    destruct o as [text|path|path d k]; cbn [rw_step]; intros H; injection H as E1 E2 E3; subst FS' c' res.
    - destruct (rd_out_ _) eqn:E; auto.
      + apply read_ok_no_error; assumption.
      + apply read_fail_parse_error; assumption.
    - unfold config_read_file. destruct (fs_lookup FS path) as [[content|]|]; cbn [rd_out_ rd_cfg].
      + destruct (rd_out_ (config_read atof FS c (Some path) content)) eqn:E; auto.
        * apply read_ok_no_error; assumption.
        * apply read_fail_parse_error; assumption.
      + reflexivity.
      + reflexivity.
    - pose proof (write_file_spec (config_write fmt_double c) (get_option c OPT_FSYNC) (dev_for FS path d) k) as S.
      cbv zeta in S. destruct S as (_ & S1 & S2).
      destruct (wf_ok _) eqn:E; cbn [c_err set_err].
      + apply S1. reflexivity.
      + apply S2. reflexivity.
  Qed.

  (* histories *)
  Fixpoint rw_run (st : fs * cfg) (ops : list rwop) : fs * cfg :=
    match ops with
    | [] => st
    | o :: r => let '(FS', c', _) := rw_step st o in rw_run (FS', c') r
    end.

  (* whatever happened before, the state after the last call is the one that call produces from a
     configuration with a clean error state *)
  Theorem rw_last_call_only st ops o :
    let '(FS, c) := rw_run st ops in
    rw_step (FS, c) o = rw_step (FS, set_err c err0) o.
  Proof. destruct (rw_run st ops) as [FS c]. symmetry. apply rw_own_report. Qed.
End RW.
