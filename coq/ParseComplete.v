(* ParseComplete.v — completeness of the parser model for the documented grammar, and the tree a text denotes
   (lemmas behind Properties_C02).

   A concrete syntax tree [cst] records one derivation of the manual's grammar (GrammarFacts.Dsettings): values,
   element lists with their optional extra commas, members with their optional terminators.  [toks_*] is the
   token list it spells, [wf_*] the syntactic side conditions (array elements are scalars), [sem_*] the semantic
   ones (one scalar type per array, valid member names, no name twice in a group unless overrides are on) and
   [den_*] the configuration it denotes (a redefinition under overrides deletes the earlier member and appends).
   The theorem: the parser accepts the spelling of every well-formed, semantically valid tree - in every
   position, whatever follows, with the fuel p_config provides - and builds the denoted tree. *)
From Coq Require Import List ZArith NArith Bool Lia.
Import ListNotations.
From LC Require Import Base BaseFacts Tree Fp Lookup Api ApiStep ScanAction Tokens Lexer Parser
  TreeFacts ApiFacts GrammarFacts ParseWrite.
Local Open Scope Z_scope.

(* a source position: the line and file the scanner reports with a token *)
Definition spos := (Z * option bytes)%type.

Inductive cterm := TmNone | TmSemi (p : spos) | TmComma (p : spos).

(* a token as the parser sees it: the token and its position *)
Definition ptok2 := (token * spos)%type.
Definition ltp (t : ltoken) : ptok2 := (lt_tok t, (lt_line t, lt_file t)).
Definition ptoksP (s : pst) : list ptok2 := map ltp (p_toks s).

Inductive cst :=
| CScal (t : token) (p : spos)                            (* boolean, integer, integer64, hex, hex64, float *)
| CStr (s0 : bytes) (p0 : spos) (ss : list (bytes * spos))   (* one or more adjacent string literals *)
| CArr (po : spos) (es : celems) (pc : spos)
| CLst (po : spos) (es : celems) (pc : spos)
| CGrp (po : spos) (ms : cmembers) (pc : spos)
with celems := ENil | ECons (v : cst) (tl : ctail)
with ctail := TlNil | TlComma (p : spos) (tl : ctail) | TlCommaV (p : spos) (v : cst) (tl : ctail)
with cmembers := MNil | MCons (nm : bytes) (pos : spos) (peq : spos) (v : cst) (tm : cterm) (rest : cmembers).

Scheme cst_mi := Induction for cst Sort Prop
with celems_mi := Induction for celems Sort Prop
with ctail_mi := Induction for ctail Sort Prop
with cmembers_mi := Induction for cmembers Sort Prop.
Combined Scheme cst_mutind from cst_mi, celems_mi, ctail_mi, cmembers_mi.

Definition term_toks (t : cterm) : list ptok2 :=
  match t with TmNone => [] | TmSemi p => [(TkP TSemicolon, p)] | TmComma p => [(TkP TComma, p)] end.

(* ---- the spelling ---- *)
Fixpoint toks_v (v : cst) : list ptok2 :=
  match v with
  | CScal t p => [(t, p)]
  | CStr s0 p0 ss => (TkString s0, p0) :: map (fun x => (TkString (fst x), snd x)) ss
  | CArr po es pc => (TkP TArrayStart, po) :: toks_e es ++ [(TkP TArrayEnd, pc)]
  | CLst po es pc => (TkP TListStart, po) :: toks_e es ++ [(TkP TListEnd, pc)]
  | CGrp po ms pc => (TkP TGroupStart, po) :: toks_m ms ++ [(TkP TGroupEnd, pc)]
  end
with toks_e (es : celems) : list ptok2 :=
  match es with ENil => [] | ECons v tl => toks_v v ++ toks_t tl end
with toks_t (tl : ctail) : list ptok2 :=
  match tl with
  | TlNil => []
  | TlComma p tl => (TkP TComma, p) :: toks_t tl
  | TlCommaV p v tl => (TkP TComma, p) :: toks_v v ++ toks_t tl
  end
with toks_m (ms : cmembers) : list ptok2 :=
  match ms with
  | MNil => []
  | MCons nm pos peq v tm rest => (TkName nm, pos) :: (TkP TEquals, peq) :: toks_v v ++ term_toks tm ++ toks_m rest
  end.

(* ---- syntactic side conditions: what GrammarFacts.Dvalue's [simple] flag expresses ---- *)
Definition scalar_cst (v : cst) : bool := match v with CScal _ _ | CStr _ _ _ => true | _ => false end.

Fixpoint wf_v (simple : bool) (v : cst) {struct v} : bool :=
  match v with
  | CScal t _ => is_simple_tok t
  | CStr _ _ _ => true
  | CArr _ es _ => negb simple && wf_e true es
  | CLst _ es _ => negb simple && wf_e false es
  | CGrp _ ms _ => negb simple && wf_m ms
  end
with wf_e (simple : bool) (es : celems) {struct es} : bool :=
  match es with ENil => true | ECons v tl => wf_v simple v && wf_t simple tl end
with wf_t (simple : bool) (tl : ctail) {struct tl} : bool :=
  match tl with
  | TlNil => true
  | TlComma _ tl => wf_t simple tl
  | TlCommaV _ v tl => wf_v simple v && wf_t simple tl
  end
with wf_m (ms : cmembers) {struct ms} : bool :=
  match ms with MNil => true | MCons _ _ _ v _ rest => wf_v false v && wf_m rest end.

(* ---- types and values of scalars ---- *)
Definition tok_pl (t : token) : payload :=
  match t with
  | TkBool v => PBool v | TkInt v | TkHex v => PInt v | TkInt64 v | TkHex64 v => PInt64 v | TkFloat b => PFloat b
  | _ => PNone
  end.
Definition tok_ty (t : token) : ty := ty_of (tok_pl t).
Definition tok_fmt (t : token) : Z := match t with TkHex _ | TkHex64 _ => 1 | _ => 0 end.

Definition cty (v : cst) : ty :=
  match v with
  | CScal t _ => tok_ty t | CStr _ _ _ => TString | CArr _ _ _ => TArray | CLst _ _ _ => TList | CGrp _ _ _ => TGroup
  end.

Fixpoint vals_t (tl : ctail) : list cst :=
  match tl with TlNil => [] | TlComma _ tl => vals_t tl | TlCommaV _ v tl => v :: vals_t tl end.
Definition vals_e (es : celems) : list cst :=
  match es with ENil => [] | ECons v tl => v :: vals_t tl end.

Definition homog (l : list ty) : bool :=
  match l with [] => true | t :: r => forallb (ty_eqb t) r end.

(* ---- what is observed of a tree: everything except hooks; the position of named settings only ---- *)
Inductive ptree := PN (name : option bytes) (pos : option spos) (pl : payload) (fmt : Z) (kids : list ptree).

Fixpoint pobs (s : setting) : ptree :=
  let 'Setting n pl k f _ l fi := s in
  PN n (match n with Some _ => Some (l, fi) | None => None end) pl f (map pobs k).

(* who a value is for: a named member (with the position of its name) or an element *)
Definition who := option (bytes * spos).
Definition mkN (w : who) (pl : payload) (f : Z) (k : list ptree) : ptree :=
  PN (option_map fst w) (option_map snd w) pl f k.
Definition who_of (M : setting) : who :=
  match s_name M with Some n => Some (n, (s_line M, s_file M)) | None => None end.

(* lookup and deletion of a member by name *)
Definition oname_is (nm : bytes) (o : ptree) : bool :=
  let 'PN n _ _ _ _ := o in match n with Some x => bytes_eqb x nm | None => false end.
Definition ohas (nm : bytes) (acc : list ptree) : bool :=
  match find_index (oname_is nm) acc with Some _ => true | None => false end.
Definition odel (nm : bytes) (acc : list ptree) : list ptree :=
  match find_index (oname_is nm) acc with Some j => list_del j acc | None => acc end.

Section Den.
  Variable overrides : bool.

  (* ---- the denoted configuration ---- *)
  Fixpoint den_v (w : who) (v : cst) : ptree :=
    match v with
    | CScal t _ => mkN w (tok_pl t) (tok_fmt t) []
    | CStr s0 _ ss => mkN w (PStr (Some (s0 ++ concat (map fst ss)))) 0 []
    | CArr _ es _ => mkN w PArray 0 (den_e es)
    | CLst _ es _ => mkN w PList 0 (den_e es)
    | CGrp _ ms _ => mkN w PGroup 0 (den_m ms [])
    end
  with den_e (es : celems) : list ptree :=
    match es with ENil => [] | ECons v tl => den_v None v :: den_t tl end
  with den_t (tl : ctail) : list ptree :=
    match tl with TlNil => [] | TlComma _ tl => den_t tl | TlCommaV _ v tl => den_v None v :: den_t tl end
  with den_m (ms : cmembers) (acc : list ptree) : list ptree :=
    match ms with
    | MNil => acc
    | MCons nm pos _ v _ rest => den_m rest (odel nm acc ++ [den_v (Some (nm, pos)) v])
    end.

  (* ---- the semantic conditions ---- *)
  Fixpoint sem_v (v : cst) : bool :=
    match v with
    | CScal _ _ | CStr _ _ _ => true
    | CArr _ es _ => sem_e es && homog (map cty (vals_e es))
    | CLst _ es _ => sem_e es
    | CGrp _ ms _ => sem_m ms []
    end
  with sem_e (es : celems) : bool :=
    match es with ENil => true | ECons v tl => sem_v v && sem_t tl end
  with sem_t (tl : ctail) : bool :=
    match tl with TlNil => true | TlComma _ tl => sem_t tl | TlCommaV _ v tl => sem_v v && sem_t tl end
  with sem_m (ms : cmembers) (acc : list ptree) : bool :=
    match ms with
    | MNil => true
    | MCons nm pos _ v _ rest =>
        validate_name nm && (overrides || negb (ohas nm acc)) && sem_v v &&
        sem_m rest (odel nm acc ++ [den_v (Some (nm, pos)) v])
    end.
End Den.

(* ------------------------------------------------------------------------------------ *)
(* observed lists and setting lists *)
Lemma find_index_map {A B} (g : A -> B) (p : B -> bool) (q : A -> bool) l :
  (forall x, q x = p (g x)) -> find_index q l = find_index p (map g l).
Proof.
  intros H. induction l as [|x r IH]; [reflexivity|]. cbn [find_index map]. rewrite H, IH. reflexivity.
Qed.

Lemma list_del_map {A B} (g : A -> B) j l : map g (list_del j l) = list_del j (map g l).
Proof. revert j. induction l as [|x r IH]; intros [|j]; cbn; try reflexivity. f_equal. apply IH. Qed.

Definition spos_of (s : setting) : option spos :=
  match s_name s with Some _ => Some (s_line s, s_file s) | None => None end.

Lemma pobs_eq s : pobs s = PN (s_name s) (spos_of s) (s_pl s) (s_fmt s) (map pobs (s_kids s)).
Proof. destruct s as [n pl k f h l fi]. reflexivity. Qed.

Lemma mkN_who M pl f k : mkN (who_of M) pl f k = PN (s_name M) (spos_of M) pl f k.
Proof. unfold mkN, who_of, spos_of. destruct (s_name M); reflexivity. Qed.

Lemma pobs_set_kids Q vs : pobs (set_kids Q vs) = PN (s_name Q) (spos_of Q) (s_pl Q) (s_fmt Q) (map pobs vs).
Proof. destruct Q; reflexivity. Qed.

Lemma pobs_set_pos_elem x l fi : s_name x = None -> pobs (set_pos x l fi) = pobs x.
Proof. destruct x as [n pl k f h l0 fi0]. cbn. intros ->. reflexivity. Qed.

Lemma pobs_pl v n p pl f k : pobs v = PN n p pl f k -> s_pl v = pl /\ s_name v = n /\ s_fmt v = f.
Proof. rewrite pobs_eq. intros H. injection H as -> _ -> -> _. auto. Qed.

Lemma name_is_obs nm k : name_is nm k = oname_is nm (pobs k).
Proof. destruct k as [n pl ks f h l fi]. reflexivity. Qed.

Definition del_named (nm : bytes) (kids : list setting) : list setting :=
  match list_search kids nm with Some j => list_del j kids | None => kids end.

Lemma list_search_obs kids nm : list_search kids nm = find_index (oname_is nm) (map pobs kids).
Proof. unfold list_search. apply find_index_map. intros k. apply name_is_obs. Qed.

Lemma del_named_obs nm kids : map pobs (del_named nm kids) = odel nm (map pobs kids).
Proof.
  unfold del_named, odel. rewrite list_search_obs. destruct (find_index _ _); [apply list_del_map | reflexivity].
Qed.

Lemma ohas_obs nm kids : ohas nm (map pobs kids) = false -> list_search kids nm = None.
Proof. unfold ohas. rewrite list_search_obs. destruct (find_index _ _); [discriminate | reflexivity]. Qed.

(* ------------------------------------------------------------------------------------ *)
(* the parser state primitives on located tokens *)

(* when the look-ahead has been read, the state's line and file are those of that token *)
Definition linv (s : pst) : Prop :=
  p_la s = true -> exists t r, p_toks s = t :: r /\ p_line s = lt_line t /\ p_file s = lt_file t.

Lemma peekP s x r : ptoksP s = x :: r -> linv s ->
  exists s1, peek s = (Some (fst x), s1) /\ ptoksP s1 = x :: r /\ p_root s1 = p_root s /\ linv s1 /\
             (p_line s1, p_file s1) = snd x.
Proof.
  unfold ptoksP. intros H L. destruct (p_toks s) as [|t r0] eqn:E; [discriminate|]. cbn [map] in H. injection H as Hx Hr.
  unfold peek. rewrite E. destruct (p_la s) eqn:La.
  - exists s. rewrite ?E. cbn [map]. rewrite ?Hx, ?Hr. split; [subst x; reflexivity|]. split; [reflexivity|]. split; [reflexivity|]. split; [exact L|].
    destruct (L La) as (t' & r' & E' & Hl & Hf). rewrite E in E'. injection E' as <- <-.
    rewrite <- Hx. unfold ltp. cbn [snd]. rewrite Hl, Hf. reflexivity.
  - eexists. split; [subst x; reflexivity|]. cbn [p_toks p_root p_la p_line p_file]. rewrite ?E. cbn [map]. rewrite ?Hx, ?Hr.
    split; [reflexivity|]. split; [reflexivity|]. split.
    + intros _. exists t, r0. cbn. rewrite ?E. auto.
    + rewrite <- Hx. reflexivity.
Qed.

Lemma shiftP s x r : ptoksP s = x :: r -> ptoksP (shift s) = r.
Proof. unfold ptoksP, shift. cbn [p_toks]. destruct (p_toks s); [discriminate|]. cbn. intros H. injection H as _ <-. reflexivity. Qed.

Lemma linv_shift s : linv (shift s).
Proof. intros H. discriminate H. Qed.

Lemma linv_set_proot s r : linv s -> linv (set_proot s r).
Proof. intros L. exact L. Qed.

Lemma expectP s p q r : ptoksP s = (TkP p, q) :: r -> linv s ->
  (p = TEquals \/ p = TArrayEnd \/ p = TListEnd \/ p = TGroupEnd) ->
  exists s', expect s p = POk s' /\ ptoksP s' = r /\ p_root s' = p_root s /\ linv s'.
Proof.
  intros H L Hp. unfold expect. destruct (peekP s _ _ H L) as (s1 & P & T1 & R1 & _). rewrite P. cbn [fst].
  exists (shift s1). split; [|split; [apply (shiftP _ _ _ T1) | split; [exact R1 | apply linv_shift]]].
  destruct Hp as [-> | [-> | [-> | ->]]]; reflexivity.
Qed.

Definition no_strP (r : list ptok2) : Prop := match r with (TkString _, _) :: _ => False | _ => True end.
Definition closerP (rest : list ptok2) : Prop :=
  match rest with (TkP TGroupEnd, _) :: _ | (TkEOF, _) :: _ => True | _ => False end.

Lemma gp_string ss : forall fuel s acc rest,
  (length ss + 1 <= fuel)%nat -> ptoksP s = map (fun x => (TkString (fst x), snd x)) ss ++ rest -> no_strP rest -> linv s ->
  exists s2, p_string fuel s acc = (Some (acc ++ concat (map fst ss)), s2) /\ ptoksP s2 = rest /\ p_root s2 = p_root s /\ linv s2 /\
             (forall x r, rest = x :: r -> (p_line s2, p_file s2) = snd x).
Proof.
  induction ss as [|x r IH]; intros fuel s acc rest Hf Htok Hns L; destruct fuel as [|f]; try (cbn in Hf; lia).
  - cbn [map app concat] in *. rewrite app_nil_r. cbn [p_string].
    destruct rest as [|t2 r2].
    + unfold ptoksP in Htok. destruct (p_toks s) eqn:E; [|discriminate]. unfold peek. rewrite E.
      exists s. split; [reflexivity|]. split; [unfold ptoksP; rewrite E; reflexivity|]. split; [reflexivity|]. split; [exact L | intros; discriminate].
    + destruct (peekP s _ _ Htok L) as (s2 & P2 & T2 & R2 & L2 & Hp). rewrite P2.
      exists s2. split; [destruct t2 as [t2 p2]; cbn [fst]; destruct t2; try reflexivity; contradiction|].
      split; [exact T2|]. split; [exact R2|]. split; [exact L2|]. intros x0 r0 E0. injection E0 as <- _. exact Hp.
  - cbn [map app concat] in *. cbn [p_string]. destruct (peekP s _ _ Htok L) as (s1 & P1 & T1 & R1 & L1 & _). rewrite P1. cbn [fst].
    destruct (IH f (shift s1) (acc ++ fst x) rest ltac:(cbn in Hf; lia) (shiftP _ _ _ T1) Hns (linv_shift _)) as (s2 & E2 & T2 & R2 & L2 & Hp).
    exists s2. rewrite E2, app_assoc. split; [reflexivity|]. split; [exact T2|]. split; [rewrite R2; exact R1|]. split; [exact L2 | exact Hp].
Qed.

(* ------------------------------------------------------------------------------------ *)
Section Complete.
  Variable overrides : bool.
  Notation sem_v := (sem_v overrides).
  Notation sem_e := (sem_e overrides).
  Notation sem_t := (sem_t overrides).
  Notation sem_m := (sem_m overrides).

  (* ---- scalars ---- *)
  Lemma gscalar_tok t : is_simple_tok t = true ->
    exists sc, scalar_of t = Some sc /\ fst (fst sc) = tok_ty t /\ is_scalar_start t = true /\
      (forall x, s_pl x = PNone \/ s_pl x = zero_payload (tok_ty t) -> snd (fst sc) x = SOk (set_pl x (tok_pl t))) /\
      (forall x, s_pl x = tok_pl t -> s_fmt x = 0 -> apply_fmt (snd sc) x = set_fmt x (tok_fmt t)).
  Proof.
    intros H. destruct t; try discriminate H; cbn [scalar_of]; eexists; (split; [reflexivity|]);
      cbn [fst snd tok_ty tok_pl tok_fmt zero_payload ty_of]; (split; [reflexivity|]); (split; [reflexivity|]); split.
    all: try (intros x [Hx|Hx]; unfold n_set_bool, n_set_int, n_set_int64, n_set_float; rewrite Hx; reflexivity).
    all: intros x Hx Hf; unfold apply_fmt, n_set_format; try rewrite Hx; cbn; destruct x; cbn in *; subst; reflexivity.
  Qed.

  (* act_scalar in an aggregate *)
  Lemma act_scalar_elemP s parent P t st fmt e :
    get_at parent (p_root s) = Some P -> (s_pl P = PList \/ s_pl P = PArray) -> checktype P t = true ->
    st (new_setting None t) = SOk e -> s_name (apply_fmt fmt e) = None ->
    exists v', act_scalar s parent None (t, st, fmt) = Some (set_proot s (upd_at parent (fun _ => set_kids P (s_kids P ++ [v'])) (p_root s))) /\
               pobs v' = pobs (apply_fmt fmt e).
  Proof.
    intros GP HP Hc Hst Hn. unfold act_scalar, in_agg, ty_at. rewrite GP.
    assert (Hag : match s_ty P with TArray | TList => true | _ => false end = true).
    { unfold s_ty. destruct HP as [-> | ->]; reflexivity. }
    rewrite Hag. unfold n_set_elem.
    assert (Hty : s_ty P = TList \/ s_ty P = TArray) by (unfold s_ty; destruct HP as [-> | ->]; auto).
    replace (-1 <? 0) with true by reflexivity.
    destruct Hty as [E|E]; rewrite E, Hc, Hst; rewrite s_kids_set_kids, list_upd_last, set_kids_set_kids;
      (eexists; split; [reflexivity | apply pobs_set_pos_elem; exact Hn]).
  Qed.

  (* ---- the contexts a value is parsed into ---- *)
  Definition gelem_ctx (P : setting) (v : cst) : Prop :=
    s_pl P = PList \/ (s_pl P = PArray /\ scalar_cst v = true /\ checktype P (cty v) = true).

  Definition garr_ctx (Q : setting) (vs : list cst) : Prop :=
    s_pl Q = PList \/
    (s_pl Q = PArray /\ exists T, (forall k0, hd_error (s_kids Q) = Some k0 -> s_ty k0 = T) /\
                                  Forall (fun e => scalar_cst e = true /\ cty e = T) vs).

  Definition str_rest (v : cst) (rest : list ptok2) : Prop :=
    match v with CStr _ _ _ => no_strP rest | _ => True end.

  Definition Pv (v : cst) : Prop :=
    forall fuel s parent cur simple rest P,
      (2 * length (toks_v v) + 1 <= fuel)%nat -> wf_v simple v = true -> sem_v v = true -> str_rest v rest ->
      ptoksP s = toks_v v ++ rest -> linv s ->
      get_at parent (p_root s) = Some P ->
      (cur = None -> gelem_ctx P v ->
         exists s' v', p_value overrides fuel s parent cur simple = POk s' /\ ptoksP s' = rest /\ linv s' /\
                       pobs v' = den_v None v /\
                       p_root s' = upd_at parent (fun _ => set_kids P (s_kids P ++ [v'])) (p_root s)) /\
      (forall i M, cur = @Some ipath (parent ++ [i]) -> s_pl P = PGroup -> nth_error (s_kids P) i = Some M ->
         s_pl M = PNone -> s_kids M = [] -> s_fmt M = 0 -> simple = false ->
         exists s' v', p_value overrides fuel s parent cur simple = POk s' /\ ptoksP s' = rest /\ linv s' /\
                       pobs v' = den_v (who_of M) v /\
                       p_root s' = upd_at parent (fun _ => set_kids P (list_upd i (fun _ => v') (s_kids P))) (p_root s)).

  Definition Pt (tl : ctail) : Prop :=
    forall fuel s np simple cl pc rest Q,
      (2 * length (toks_t tl) + 1 <= fuel)%nat -> wf_t simple tl = true -> sem_t tl = true ->
      (cl = TListEnd \/ cl = TArrayEnd) ->
      ptoksP s = toks_t tl ++ (TkP cl, pc) :: rest -> linv s ->
      get_at np (p_root s) = Some Q -> garr_ctx Q (vals_t tl) ->
      exists s' vs, p_elems overrides fuel s np simple false = POk s' /\ ptoksP s' = (TkP cl, pc) :: rest /\ linv s' /\
                    map pobs vs = den_t tl /\
                    p_root s' = upd_at np (fun _ => set_kids Q (s_kids Q ++ vs)) (p_root s).

  Definition Pe (es : celems) : Prop :=
    forall fuel s np simple cl pc rest Q,
      (2 * length (toks_e es) + 2 <= fuel)%nat -> wf_e simple es = true -> sem_e es = true ->
      (cl = TListEnd \/ cl = TArrayEnd) ->
      ptoksP s = toks_e es ++ (TkP cl, pc) :: rest -> linv s ->
      get_at np (p_root s) = Some Q -> garr_ctx Q (vals_e es) ->
      exists s' vs, p_elems overrides fuel s np simple true = POk s' /\ ptoksP s' = (TkP cl, pc) :: rest /\ linv s' /\
                    map pobs vs = den_e es /\
                    p_root s' = upd_at np (fun _ => set_kids Q (s_kids Q ++ vs)) (p_root s).

  Definition Pm (ms : cmembers) : Prop :=
    forall fuel s parent rest P,
      (2 * length (toks_m ms) + 1 <= fuel)%nat -> wf_m ms = true -> sem_m ms (map pobs (s_kids P)) = true ->
      closerP rest ->
      ptoksP s = toks_m ms ++ rest -> linv s ->
      get_at parent (p_root s) = Some P -> s_pl P = PGroup ->
      exists s' ks, p_settings overrides fuel s parent = POk s' /\ ptoksP s' = rest /\ linv s' /\
                    map pobs ks = den_m ms (map pobs (s_kids P)) /\
                    p_root s' = upd_at parent (fun _ => set_kids P ks) (p_root s).

  (* ---- a member name: config_setting_add with or without an earlier member of that name ---- *)
  Lemma gact_name s parent P n :
    get_at parent (p_root s) = Some P -> s_pl P = PGroup -> validate_name n = true ->
    (overrides = true \/ list_search (s_kids P) n = None) ->
    exists M, act_name overrides s parent n =
                Some (set_proot s (upd_at parent (fun _ => set_kids P (del_named n (s_kids P) ++ [M])) (p_root s)),
                      parent ++ [length (del_named n (s_kids P))]) /\
              who_of M = Some (n, (p_line s, p_file s)) /\ s_pl M = PNone /\ s_kids M = [] /\ s_fmt M = 0.
  Proof.
    intros GP HP Hv Hov. unfold act_name. rewrite GP. unfold n_add.
    change (ty_of_code 0) with (Some TNone).
    assert (Ety : s_ty P = TGroup) by (unfold s_ty; rewrite HP; reflexivity).
    rewrite Ety. unfold ty_eqb. cbn [ty_code]. change (1 =? 7) with false. change (1 =? 8) with false.
    cbn [andb orb]. cbv zeta. rewrite Hv. cbn [negb].
    unfold get_member. rewrite Ety. unfold del_named.
    destruct (list_search (s_kids P) n) as [j|] eqn:Es.
    - destruct Hov as [-> | Hov]; [|discriminate Hov].
      destruct (n_remove_member P n j Ety Hv Es) as (vic & Hvic & ->).
      unfold n_create. rewrite s_ty_set_kids, Ety. cbn [ty_is_aggregate].
      rewrite !s_kids_set_kids, list_upd_last, !set_kids_set_kids.
      eexists. split; [reflexivity|]. repeat split.
    - unfold n_create. rewrite Ety. cbn [ty_is_aggregate].
      rewrite s_kids_set_kids, list_upd_last, set_kids_set_kids.
      eexists. split; [reflexivity|]. repeat split.
  Qed.

  (* ---- the first token of a value ---- *)
  Lemma gfirst simple v : wf_v simple v = true ->
    exists t p r, toks_v v = (t, p) :: r /\ is_value_start simple t = true.
  Proof.
    destruct v as [t p | s0 p0 ss | po es pc | po es pc | po ms pc]; cbn [wf_v toks_v]; intros H.
    - exists t, p, []. split; [reflexivity|]. unfold is_value_start.
      destruct t; try discriminate H; reflexivity.
    - eexists _, _, _. split; [reflexivity|]. reflexivity.
    - apply andb_true_iff in H as [H _]. destruct simple; [discriminate|]. eexists _, _, _. split; reflexivity.
    - apply andb_true_iff in H as [H _]. destruct simple; [discriminate|]. eexists _, _, _. split; reflexivity.
    - apply andb_true_iff in H as [H _]. destruct simple; [discriminate|]. eexists _, _, _. split; reflexivity.
  Qed.

  (* ---- scalar values ---- *)
  Lemma Pv_scal t p : Pv (CScal t p).
  Proof.
    intros fuel s parent cur simple rest P Hfuel Hwf _ _ Htok L GP. cbn [toks_v length wf_v app] in *.
    destruct fuel as [|f]; [lia|].
    destruct (gscalar_tok t Hwf) as (sc & Esc & Hty & Hst & Hset & Hfmt).
    destruct (peekP s _ _ Htok L) as (s1 & P1 & T1 & R1 & L1 & _). cbn [fst] in P1.
    assert (Hpv : p_value overrides (S f) s parent cur simple =
                  match act_scalar (shift s1) parent cur sc with
                  | Some s3 => POk s3 | None => PErr PErrMismatch (shift s1) end).
    { rewrite p_value_S, P1. destruct t; cbn [scalar_of] in Esc; try discriminate Esc; injection Esc as <-; reflexivity. }
    destruct sc as [[ty st] fmt]. cbn [fst snd] in *. rewrite Hpv. clear Hpv.
    assert (GP1 : get_at parent (p_root (shift s1)) = Some P) by (rewrite shift_root, R1; exact GP).
    split.
    - intros -> Hctx.
      assert (HP : s_pl P = PList \/ s_pl P = PArray) by (destruct Hctx as [H|[H _]]; auto).
      assert (Hc : checktype P ty = true).
      { destruct Hctx as [H|(H & _ & Hc)].
        - unfold checktype, s_ty. rewrite H. destruct (s_kids P); reflexivity.
        - rewrite Hty. exact Hc. }
      pose proof (Hset (new_setting None ty)) as Ee. rewrite Hty in Ee. specialize (Ee (or_intror eq_refl)).
      assert (Ef : apply_fmt fmt (set_pl (new_setting None (tok_ty t)) (tok_pl t)) =
                   set_fmt (set_pl (new_setting None (tok_ty t)) (tok_pl t)) (tok_fmt t)) by (apply Hfmt; reflexivity).
      destruct (act_scalar_elemP (shift s1) parent P ty st fmt _ GP1 HP Hc ltac:(rewrite Hty; exact Ee)
                  ltac:(rewrite Ef; reflexivity)) as (v' & Ea & Ov).
      rewrite Ea. eexists _, v'. split; [reflexivity|]. split; [apply (shiftP _ _ _ T1)|]. split; [apply linv_shift|]. split.
      + rewrite Ov, Ef. reflexivity.
      + cbn [p_root set_proot]. rewrite shift_root, R1. reflexivity.
    - intros i M -> HP GM HM Hk Hf0 _.
      unfold act_scalar, in_agg, ty_at. rewrite GP1. unfold s_ty. rewrite HP. cbn [ty_of].
      pose proof (Hset M (or_introl HM)) as Ee.
      eexists _, _. split; [reflexivity|]. split; [apply (shiftP _ _ _ T1)|]. split; [apply linv_shift|]. split.
      2: { cbn [p_root set_proot]. rewrite shift_root, R1.
           rewrite (upd_at_child parent i _ (p_root s) P M GP GM). rewrite Ee. reflexivity. }
      cbn [den_v]. rewrite mkN_who. rewrite Hfmt; [| destruct M; reflexivity | destruct M; cbn in *; exact Hf0].
      destruct M as [mn mpl mk mf mh ml mfi]. cbn in *. subst. reflexivity.
  Qed.

  Lemma Pv_str s0 p0 ss : Pv (CStr s0 p0 ss).
  Proof.
    intros fuel s parent cur simple rest P Hfuel _ _ Hns Htok L GP. cbn [toks_v length wf_v app str_rest] in *.
    rewrite map_length in Hfuel.
    destruct fuel as [|f]; [lia|].
    destruct (peekP s _ _ Htok L) as (s1 & P1 & T1 & R1 & L1 & _). cbn [fst] in P1.
    destruct (gp_string ((s0, p0) :: ss) f s1 [] rest ltac:(cbn [length]; lia) T1 Hns L1) as (s2 & Eps & T2 & R2 & L2 & Hp2).
    cbn [concat app map fst] in Eps. set (str := s0 ++ concat (map fst ss)) in *.
    assert (Hpv : p_value overrides (S f) s parent cur simple =
                  match act_scalar s2 parent cur (string_scalar str) with
                  | Some s3 => POk s3 | None => PErr PErrMismatch s2 end).
    { rewrite p_value_S, P1, Eps. reflexivity. }
    rewrite Hpv. clear Hpv.
    assert (GP2 : get_at parent (p_root s2) = Some P) by (rewrite R2, R1; exact GP).
    split.
    - intros -> Hctx.
      assert (HP : s_pl P = PList \/ s_pl P = PArray) by (destruct Hctx as [H|[H _]]; auto).
      assert (Hc : checktype P TString = true).
      { destruct Hctx as [H|(H & _ & Hc)].
        - unfold checktype, s_ty. rewrite H. destruct (s_kids P); reflexivity.
        - exact Hc. }
      destruct (act_scalar_elemP s2 parent P TString (fun x => n_set_string x (@Some bytes str)) None
                  (set_pl (new_setting None TString) (PStr (@Some bytes str))) GP2 HP Hc eq_refl eq_refl) as (v' & Ea & Ov).
      unfold string_scalar. rewrite Ea. eexists _, v'. split; [reflexivity|]. split; [exact T2|]. split; [exact L2|]. split.
      + rewrite Ov. reflexivity.
      + cbn [p_root set_proot]. rewrite R2, R1. reflexivity.
    - intros i M -> HP GM HM Hk Hf0 _.
      unfold act_scalar, string_scalar, in_agg, ty_at. rewrite GP2. unfold s_ty. rewrite HP. cbn [ty_of].
      eexists _, _. split; [reflexivity|]. split; [exact T2|]. split; [exact L2|]. split.
      2: { cbn [p_root set_proot]. rewrite R2, R1.
           rewrite (upd_at_child parent i _ (p_root s) P M GP GM). reflexivity. }
      cbn [den_v]. rewrite mkN_who. unfold n_set_string. rewrite HM. cbn [apply_fmt].
      destruct M as [mn mpl mk mf mh ml mfi]. cbn in *. subst. reflexivity.
  Qed.
  (* ---- array contexts ---- *)
  Lemma obs_ty v' e : scalar_cst e = true -> pobs v' = den_v None e -> s_ty v' = cty e.
  Proof.
    destruct e as [t p | s0 p0 ss | | |]; try discriminate; intros _ H; cbn [den_v] in H;
      destruct (pobs_pl _ _ _ _ _ _ H) as (Hp & _); unfold s_ty; rewrite Hp; reflexivity.
  Qed.

  Lemma garr_ctx_elem Q e r : garr_ctx Q (e :: r) -> gelem_ctx Q e.
  Proof.
    intros [H | (H & T & Hh & Hf)]; [left; exact H | right]. inversion Hf as [|? ? [Hs Ht] _]; subst.
    split; [exact H|]. split; [exact Hs|]. unfold checktype. destruct (s_kids Q) as [|k0 ks] eqn:Ek; [reflexivity|].
    unfold s_ty at 1. rewrite H. cbn [ty_of]. rewrite (Hh k0) by reflexivity. unfold ty_eqb. apply Z.eqb_refl.
  Qed.

  Lemma garr_ctx_next Q e r v' : garr_ctx Q (e :: r) -> pobs v' = den_v None e ->
    garr_ctx (set_kids Q (s_kids Q ++ [v'])) r.
  Proof.
    intros [H | (H & T & Hh & Hf)] Ho; [left; rewrite s_pl_set_kids; exact H | right].
    rewrite s_pl_set_kids, s_kids_set_kids. split; [exact H|]. exists T. inversion Hf as [|? ? [Hs Ht] Hr]; subst. split; [|exact Hr].
    intros k0 Hk. destruct (s_kids Q) as [|q0 qs] eqn:Ek.
    - cbn in Hk. injection Hk as <-. apply obs_ty; assumption.
    - cbn in Hk. injection Hk as <-. apply Hh. reflexivity.
  Qed.

  (* what follows a value inside an element list is a comma or the closing bracket *)
  Lemma tail_hd tl cl pc rest : exists t p r, toks_t tl ++ (TkP cl, pc) :: rest = (TkP t, p) :: r /\ (t = TComma \/ t = cl).
  Proof. destruct tl; cbn [toks_t app]; eexists _, _, _; split; try reflexivity; auto. Qed.

  Lemma not_start simple t cl : (cl = TListEnd \/ cl = TArrayEnd) -> (t = TComma \/ t = cl) ->
    is_value_start simple (TkP t) = false.
  Proof. intros [-> | ->] [-> | ->]; destruct simple; reflexivity. Qed.

  Lemma Pt_nil : Pt TlNil.
  Proof.
    intros fuel s np simple cl pc rest Q Hf _ _ Hcl Htok L GQ _. cbn [toks_t app length] in *.
    destruct fuel as [|f]; [lia|]. rewrite p_elems_S.
    destruct (peekP s _ _ Htok L) as (s1 & P1 & T1 & R1 & L1 & _). rewrite P1. cbn [fst].
    exists s1, []. split; [destruct Hcl as [-> | ->]; reflexivity|]. split; [exact T1|]. split; [exact L1|]. split; [reflexivity|].
    rewrite R1, app_nil_r. symmetry. apply (upd_at_id np _ _ Q GQ). apply set_kids_same.
  Qed.

  Lemma Pt_comma p tl : Pt tl -> Pt (TlComma p tl).
  Proof.
    intros IH fuel s np simple cl pc rest Q Hf Hwf Hsem Hcl Htok L GQ Hctx. cbn [toks_t app length wf_t sem_t vals_t den_t] in *.
    destruct fuel as [|f]; [lia|]. rewrite p_elems_S.
    destruct (peekP s _ _ Htok L) as (s1 & P1 & T1 & R1 & L1 & _). rewrite P1. cbn [fst]. cbv zeta.
    pose proof (shiftP _ _ _ T1) as T2.
    destruct (tail_hd tl cl pc rest) as (t2 & p2 & r2 & Et & Ht2). rewrite Et in T2.
    destruct (peekP (shift s1) _ _ T2 (linv_shift _)) as (s3 & P3 & T3 & R3 & L3 & _). rewrite P3. cbn [fst].
    rewrite (not_start simple t2 cl Hcl Ht2).
    assert (T3x : ptoksP s3 = toks_t tl ++ (TkP cl, pc) :: rest) by (rewrite Et; exact T3). clear T3. rename T3x into T3.
    assert (G3 : get_at np (p_root s3) = Some Q) by (rewrite R3, shift_root, R1; exact GQ).
    destruct (IH f s3 np simple cl pc rest Q ltac:(lia) Hwf Hsem Hcl T3 L3 G3 Hctx) as (s5 & vs & E5 & T5 & L5 & F5 & R5).
    exists s5, vs. split; [exact E5|]. split; [exact T5|]. split; [exact L5|]. split; [exact F5|].
    rewrite R5, R3, shift_root, R1. reflexivity.
  Qed.

  Lemma str_rest_tail v tl cl pc rest : str_rest v (toks_t tl ++ (TkP cl, pc) :: rest).
  Proof. destruct v; try exact I. cbn [str_rest]. destruct (tail_hd tl cl pc rest) as (t & p & r & -> & _). exact I. Qed.

  Lemma Pt_commav p v tl : Pv v -> Pt tl -> Pt (TlCommaV p v tl).
  Proof.
    intros Hv IH fuel s np simple cl pc rest Q Hf Hwf Hsem Hcl Htok L GQ Hctx. cbn [toks_t app length wf_t sem_t vals_t den_t] in *.
    apply andb_true_iff in Hwf as [Hwv Hwt]. apply andb_true_iff in Hsem as [Hsv Hst].
    rewrite app_length in Hf.
    destruct fuel as [|f]; [lia|]. rewrite p_elems_S. rewrite <- app_assoc in Htok.
    destruct (peekP s _ _ Htok L) as (s1 & P1 & T1 & R1 & L1 & _). rewrite P1. cbn [fst]. cbv zeta.
    pose proof (shiftP _ _ _ T1) as T2.
    destruct (gfirst simple v Hwv) as (t2 & p2 & r2 & Et & Hstart).
    assert (T2' : ptoksP (shift s1) = (t2, p2) :: (r2 ++ toks_t tl ++ (TkP cl, pc) :: rest)) by (rewrite T2, Et; reflexivity).
    destruct (peekP (shift s1) _ _ T2' (linv_shift _)) as (s3 & P3 & T3' & R3 & L3 & _). rewrite P3. cbn [fst]. rewrite Hstart.
    assert (T3 : ptoksP s3 = toks_v v ++ toks_t tl ++ (TkP cl, pc) :: rest) by (rewrite T3', Et; reflexivity).
    assert (G3 : get_at np (p_root s3) = Some Q) by (rewrite R3, shift_root, R1; exact GQ).
    destruct (Hv f s3 np None simple (toks_t tl ++ (TkP cl, pc) :: rest) Q ltac:(lia) Hwv Hsv (str_rest_tail _ _ _ _ _) T3 L3 G3) as [HA _].
    destruct (HA eq_refl (garr_ctx_elem _ _ _ Hctx)) as (s4 & v' & E4 & T4 & L4 & O4 & R4). rewrite E4.
    assert (G4 : get_at np (p_root s4) = Some (set_kids Q (s_kids Q ++ [v']))).
    { rewrite R4. exact (get_at_upd_at_same np (fun _ => set_kids Q (s_kids Q ++ [v'])) _ Q G3). }
    destruct (IH f s4 np simple cl pc rest _ ltac:(lia) Hwt Hst Hcl T4 L4 G4 (garr_ctx_next _ _ _ _ Hctx O4)) as (s5 & vs & E5 & T5 & L5 & F5 & R5).
    exists s5, (v' :: vs). split; [exact E5|]. split; [exact T5|]. split; [exact L5|]. split; [cbn [map]; rewrite O4, F5; reflexivity|].
    rewrite R5, R4, upd_at_compose, R3, shift_root, R1. rewrite s_kids_set_kids, set_kids_set_kids, <- app_assoc. reflexivity.
  Qed.

  Lemma Pe_nil : Pe ENil.
  Proof.
    intros fuel s np simple cl pc rest Q Hf _ _ Hcl Htok L GQ _. cbn [toks_e app length] in *.
    destruct fuel as [|f]; [lia|]. rewrite p_elems_S.
    destruct (peekP s _ _ Htok L) as (s1 & P1 & T1 & R1 & L1 & _). rewrite P1. cbn [fst].
    exists s1, []. split; [destruct Hcl as [-> | ->], simple; reflexivity|]. split; [exact T1|]. split; [exact L1|]. split; [reflexivity|].
    rewrite R1, app_nil_r. symmetry. apply (upd_at_id np _ _ Q GQ). apply set_kids_same.
  Qed.

  Lemma Pe_cons v tl : Pv v -> Pt tl -> Pe (ECons v tl).
  Proof.
    intros Hv IH fuel s np simple cl pc rest Q Hf Hwf Hsem Hcl Htok L GQ Hctx. cbn [toks_e app length wf_e sem_e vals_e den_e] in *.
    apply andb_true_iff in Hwf as [Hwv Hwt]. apply andb_true_iff in Hsem as [Hsv Hst].
    rewrite app_length in Hf.
    destruct fuel as [|f]; [lia|]. rewrite p_elems_S. rewrite <- app_assoc in Htok.
    destruct (gfirst simple v Hwv) as (t2 & p2 & r2 & Et & Hstart).
    assert (T0 : ptoksP s = (t2, p2) :: (r2 ++ toks_t tl ++ (TkP cl, pc) :: rest)) by (rewrite Htok, Et; reflexivity).
    destruct (peekP s _ _ T0 L) as (s1 & P1 & T1 & R1 & L1 & _). rewrite P1. cbn [fst]. rewrite Hstart.
    assert (T1' : ptoksP s1 = toks_v v ++ toks_t tl ++ (TkP cl, pc) :: rest) by (rewrite T1, Et; reflexivity).
    assert (G1 : get_at np (p_root s1) = Some Q) by (rewrite R1; exact GQ).
    destruct (Hv f s1 np None simple (toks_t tl ++ (TkP cl, pc) :: rest) Q ltac:(lia) Hwv Hsv (str_rest_tail _ _ _ _ _) T1' L1 G1) as [HA _].
    destruct (HA eq_refl (garr_ctx_elem _ _ _ Hctx)) as (s4 & v' & E4 & T4 & L4 & O4 & R4). rewrite E4.
    assert (G4 : get_at np (p_root s4) = Some (set_kids Q (s_kids Q ++ [v']))).
    { rewrite R4. exact (get_at_upd_at_same np (fun _ => set_kids Q (s_kids Q ++ [v'])) _ Q G1). }
    destruct (IH f s4 np simple cl pc rest _ ltac:(lia) Hwt Hst Hcl T4 L4 G4 (garr_ctx_next _ _ _ _ Hctx O4)) as (s5 & vs & E5 & T5 & L5 & F5 & R5).
    exists s5, (v' :: vs). split; [exact E5|]. split; [exact T5|]. split; [exact L5|]. split; [cbn [map]; rewrite O4, F5; reflexivity|].
    rewrite R5, R4, upd_at_compose, R1. rewrite s_kids_set_kids, set_kids_set_kids, <- app_assoc. reflexivity.
  Qed.

  (* ---- members ---- *)
  Lemma members_hd ms rest : closerP rest ->
    exists t r, toks_m ms ++ rest = t :: r /\ fst t <> TkP TSemicolon /\ fst t <> TkP TComma /\ is_str (fst t) = false.
  Proof.
    intros Hc. destruct ms; cbn [toks_m app].
    - destruct rest as [|[t0 p0] r0]; [contradiction|]. exists (t0, p0), r0. split; [reflexivity|]. cbn [fst].
      destruct t0; try contradiction; [destruct t; try contradiction|]; repeat split; discriminate.
    - eexists _, _. split; [reflexivity|]. cbn [fst]. repeat split; discriminate.
  Qed.

  Lemma Pm_nil : Pm MNil.
  Proof.
    intros fuel s parent rest P Hf _ _ Hcl Htok L GP HP. cbn [toks_m app length den_m] in *.
    destruct fuel as [|f]; [lia|]. rewrite p_settings_S. destruct rest as [|[t0 p0] r0]; [contradiction|].
    destruct (peekP s _ _ Htok L) as (s1 & P1 & T1 & R1 & L1 & _). rewrite P1. cbn [fst].
    exists s1, (s_kids P). split; [destruct t0; try contradiction; try reflexivity; destruct t; try contradiction; reflexivity|].
    split; [exact T1|]. split; [exact L1|]. split; [reflexivity|].
    rewrite R1. symmetry. apply (upd_at_id parent _ _ P GP). apply set_kids_same.
  Qed.

  Lemma Pm_cons nm pos peq v tm ms : Pv v -> Pm ms -> Pm (MCons nm pos peq v tm ms).
  Proof.
    intros Hv IH fuel s parent rest P Hf Hwf Hsem Hcl Htok L GP HP. cbn [toks_m app length wf_m sem_m den_m] in *.
    apply andb_true_iff in Hwf as [Hwv Hwm].
    apply andb_true_iff in Hsem as [Hsem Hsm]. apply andb_true_iff in Hsem as [Hsem Hsv].
    apply andb_true_iff in Hsem as [Hvn Hov].
    rewrite !app_length in Hf.
    destruct fuel as [|f]; [lia|]. rewrite p_settings_S.
    destruct (peekP s _ _ Htok L) as (s1 & P1 & T1 & R1 & L1 & Hpos). rewrite P1. cbn [fst]. cbv zeta.
    cbn [snd] in Hpos.
    pose proof (shiftP _ _ _ T1) as T2.
    assert (Hov' : overrides = true \/ list_search (s_kids P) nm = None).
    { destruct overrides; [left; reflexivity | right]. cbn [orb] in Hov. apply ohas_obs. apply negb_true_iff. exact Hov. }
    destruct (gact_name (shift s1) parent P nm ltac:(rewrite shift_root, R1; exact GP) HP Hvn Hov')
      as (M & Ea & Mw & Mp & Mk & Mf).
    rewrite Ea.
    assert (Mw' : who_of M = Some (nm, pos)) by (rewrite Mw; cbn [shift p_line p_file]; rewrite Hpos; reflexivity).
    set (K := del_named nm (s_kids P)) in *.
    set (i := length K). set (P1' := set_kids P (K ++ [M])).
    set (s2 := set_proot (shift s1) (upd_at parent (fun _ => P1') (p_root (shift s1)))).
    assert (T2s : ptoksP s2 = (TkP TEquals, peq) :: (toks_v v ++ term_toks tm ++ toks_m ms) ++ rest) by exact T2.
    destruct (expectP s2 TEquals _ _ T2s (linv_shift _) (or_introl eq_refl)) as (s3 & E3 & T3 & R3 & L3). rewrite E3.
    rewrite <- !app_assoc in T3.
    assert (G3 : get_at parent (p_root s3) = Some P1').
    { rewrite R3. unfold s2. cbn [p_root set_proot]. rewrite shift_root, R1.
      exact (get_at_upd_at_same parent (fun _ => P1') _ P GP). }
    assert (GM : nth_error (s_kids P1') i = Some M).
    { unfold P1', i. rewrite s_kids_set_kids, nth_error_app2 by lia. rewrite Nat.sub_diag. reflexivity. }
    destruct (members_hd ms rest Hcl) as (th & rh & Eh & Hh1 & Hh2 & Hh3).
    destruct (Hv f s3 parent (@Some ipath (parent ++ [i])) false (term_toks tm ++ toks_m ms ++ rest) P1'
                 ltac:(lia) Hwv Hsv) as [_ HG]; try assumption.
    { destruct v; try exact I. cbn [str_rest]. destruct tm; cbn [term_toks app]; try exact I.
      rewrite Eh. destruct th as [th ph]. cbn [fst] in Hh3. destruct th; try exact I. discriminate Hh3. }
    destruct (HG i M eq_refl ltac:(unfold P1'; rewrite s_pl_set_kids; exact HP) GM Mp Mk Mf eq_refl)
      as (s4 & v' & E4 & T4 & L4 & O4 & R4).
    rewrite E4.
    set (P2 := set_kids P (K ++ [v'])).
    assert (R4' : p_root s4 = upd_at parent (fun _ => P2) (p_root s)).
    { rewrite R4, R3. unfold s2. cbn [p_root set_proot]. rewrite shift_root, R1, upd_at_compose.
      unfold P2, P1', i. rewrite s_kids_set_kids, list_upd_last, set_kids_set_kids. reflexivity. }
    assert (Hs6 : exists s6, (match peek s4 with
                              | (Some (TkP TSemicolon), s5) => shift s5
                              | (Some (TkP TComma), s5) => shift s5
                              | (_, s5) => s5 end) = s6 /\
                             ptoksP s6 = toks_m ms ++ rest /\ p_root s6 = p_root s4 /\ linv s6).
    { destruct tm; cbn [term_toks app] in T4.
      - rewrite Eh in T4. destruct (peekP s4 _ _ T4 L4) as (s5 & P5 & T5 & R5 & L5 & _). rewrite P5.
        exists s5. split; [|split; [rewrite Eh; exact T5 | split; [exact R5 | exact L5]]].
        destruct th as [th ph]. cbn [fst] in *. destruct th; try reflexivity. destruct t; try reflexivity; congruence.
      - destruct (peekP s4 _ _ T4 L4) as (s5 & P5 & T5 & R5 & L5 & _). rewrite P5. cbn [fst].
        eexists. split; [reflexivity|]. split; [apply (shiftP _ _ _ T5) | split; [rewrite shift_root; exact R5 | apply linv_shift]].
      - destruct (peekP s4 _ _ T4 L4) as (s5 & P5 & T5 & R5 & L5 & _). rewrite P5. cbn [fst].
        eexists. split; [reflexivity|]. split; [apply (shiftP _ _ _ T5) | split; [rewrite shift_root; exact R5 | apply linv_shift]]. }
    destruct Hs6 as (s6 & E6 & T6 & R6 & L6). rewrite E6.
    assert (G6 : get_at parent (p_root s6) = Some P2).
    { rewrite R6, R4'. exact (get_at_upd_at_same parent (fun _ => P2) _ P GP). }
    assert (Hobs2 : map pobs (s_kids P2) = odel nm (map pobs (s_kids P)) ++ [den_v (Some (nm, pos)) v]).
    { unfold P2. rewrite s_kids_set_kids, map_app. cbn [map]. unfold K. rewrite del_named_obs, O4, Mw'. reflexivity. }
    destruct (IH f s6 parent rest P2 ltac:(lia) Hwm ltac:(rewrite Hobs2; exact Hsm) Hcl T6 L6 G6
                 ltac:(unfold P2; rewrite s_pl_set_kids; exact HP))
      as (s7 & ks & E7 & T7 & L7 & F7 & R7).
    exists s7, ks. split; [exact E7|]. split; [exact T7|]. split; [exact L7|]. split.
    - rewrite F7, Hobs2. reflexivity.
    - rewrite R7, R6, R4', upd_at_compose. unfold P2. rewrite set_kids_set_kids. reflexivity.
  Qed.
  (* ---- an aggregate around its body ---- *)
  Definition open_of (k : aggk) : ptok := match k with KArr => TArrayStart | KLst => TListStart | KGrp => TGroupStart end.
  Definition body_fn (k : aggk) (f : nat) (s : pst) (np : ipath) : pres :=
    match k with
    | KGrp => p_settings overrides f s np
    | KArr => p_elems overrides f s np true true
    | KLst => p_elems overrides f s np false true
    end.

  Lemma gagg k po pc body dk :
    (forall fuel s np rest Q, (2 * length body + 2 <= fuel)%nat ->
       ptoksP s = body ++ (TkP (close_of k), pc) :: rest -> linv s -> get_at np (p_root s) = Some Q ->
       s_pl Q = aggk_pl k -> s_kids Q = [] ->
       exists s' ks, body_fn k fuel s np = POk s' /\ ptoksP s' = (TkP (close_of k), pc) :: rest /\ linv s' /\ map pobs ks = dk /\
                     p_root s' = upd_at np (fun _ => set_kids Q ks) (p_root s)) ->
    forall fuel s parent cur rest P,
      (2 * length ((TkP (open_of k), po) :: body ++ [(TkP (close_of k), pc)]) + 1 <= fuel)%nat ->
      ptoksP s = ((TkP (open_of k), po) :: body ++ [(TkP (close_of k), pc)]) ++ rest -> linv s ->
      get_at parent (p_root s) = Some P ->
      (cur = None -> s_pl P = PList ->
         exists s' v', p_value overrides fuel s parent cur false = POk s' /\ ptoksP s' = rest /\ linv s' /\
                       pobs v' = mkN None (aggk_pl k) 0 dk /\
                       p_root s' = upd_at parent (fun _ => set_kids P (s_kids P ++ [v'])) (p_root s)) /\
      (forall i M, cur = @Some ipath (parent ++ [i]) -> s_pl P = PGroup -> nth_error (s_kids P) i = Some M ->
         s_pl M = PNone -> s_kids M = [] -> s_fmt M = 0 ->
         exists s' v', p_value overrides fuel s parent cur false = POk s' /\ ptoksP s' = rest /\ linv s' /\
                       pobs v' = mkN (who_of M) (aggk_pl k) 0 dk /\
                       p_root s' = upd_at parent (fun _ => set_kids P (list_upd i (fun _ => v') (s_kids P))) (p_root s)).
  Proof.
    intros Hbody fuel s parent cur rest P Hfuel Htok L GP.
    cbn [length] in Hfuel. rewrite app_length in Hfuel. cbn [length] in Hfuel.
    destruct fuel as [|[|f2]]; try lia.
    cbn [app] in Htok. rewrite <- app_assoc in Htok. cbn [app] in Htok.
    destruct (peekP s _ _ Htok L) as (s1 & P1 & T1 & R1 & L1 & _). cbn [fst] in P1.
    pose proof (shiftP _ _ _ T1) as T2.
    assert (GPs : get_at parent (p_root (shift s1)) = Some P) by (rewrite shift_root, R1; exact GP).
    assert (Epv : p_value overrides (S (S f2)) s parent cur false = p_agg overrides (S f2) (shift s1) parent cur k).
    { rewrite p_value_S, P1. destruct k; reflexivity. }
    rewrite Epv, p_agg_S.
    assert (Ebody : forall s1' np', match k with
                      | KGrp => p_settings overrides f2 s1' np'
                      | KArr => p_elems overrides f2 s1' np' true true
                      | KLst => p_elems overrides f2 s1' np' false true end = body_fn k f2 s1' np')
      by (intros; reflexivity).
    split.
    - intros -> HP.
      destruct (act_open_elem overrides (shift s1) parent P k GPs HP) as (Q0 & Eo & Qn & Qp & Qk & Qf). rewrite Eo.
      set (np := parent ++ [length (s_kids P)]).
      set (sa := set_proot (shift s1) (upd_at parent (fun _ => set_kids P (s_kids P ++ [Q0])) (p_root (shift s1)))).
      assert (Ga : get_at np (p_root sa) = Some Q0).
      { unfold sa, np. cbn [p_root set_proot].
        apply (get_child parent (set_kids P (s_kids P ++ [Q0])));
          [exact (get_at_upd_at_same parent (fun _ => set_kids P (s_kids P ++ [Q0])) _ P GPs)|].
        rewrite s_kids_set_kids, nth_error_app2 by lia. rewrite Nat.sub_diag. reflexivity. }
      destruct (Hbody f2 sa np rest Q0 ltac:(lia) T2 (linv_shift _) Ga Qp Qk) as (sb & ks & Eb & Tb & Lb & Fb & Rb).
      cbv zeta. rewrite Ebody, Eb.
      destruct (expectP sb (close_of k) pc rest Tb Lb ltac:(destruct k; cbn; auto)) as (sc & Ec & Tc & Rc & Lc).
      assert (Ec' : expect sb match k with KArr => TArrayEnd | KLst => TListEnd | KGrp => TGroupEnd end = POk sc)
        by (destruct k; exact Ec).
      rewrite Ec'.
      exists sc, (set_kids Q0 ks). split; [reflexivity|]. split; [exact Tc|]. split; [exact Lc|]. split.
      + rewrite pobs_set_kids. unfold spos_of. rewrite Qn, Qp, Qf, Fb. reflexivity.
      + rewrite Rc, Rb. unfold sa. cbn [p_root set_proot]. rewrite shift_root, R1.
        apply (root_elem parent P Q0 (set_kids Q0 ks) (p_root s) GP).
    - intros i M -> HP GM HM Hk Hf0.
      rewrite (act_open_member overrides (shift s1) parent P i M k GPs HP GM).
      set (Q0 := set_pl M (aggk_pl k)). set (np := parent ++ [i]).
      set (sa := set_proot (shift s1) (upd_at parent (fun _ => set_kids P (list_upd i (fun _ => Q0) (s_kids P))) (p_root (shift s1)))).
      assert (Ga : get_at np (p_root sa) = Some Q0).
      { unfold sa, np. cbn [p_root set_proot].
        apply (get_child parent (set_kids P (list_upd i (fun _ => Q0) (s_kids P))));
          [exact (get_at_upd_at_same parent (fun _ => set_kids P (list_upd i (fun _ => Q0) (s_kids P))) _ P GPs)|].
        rewrite s_kids_set_kids. apply (nth_error_list_upd_hit i Q0 _ M GM). }
      assert (Qk : s_kids Q0 = []) by (unfold Q0; rewrite s_kids_set_pl; exact Hk).
      assert (Qp : s_pl Q0 = aggk_pl k) by (unfold Q0; apply s_pl_set_pl).
      destruct (Hbody f2 sa np rest Q0 ltac:(lia) T2 (linv_shift _) Ga Qp Qk) as (sb & ks & Eb & Tb & Lb & Fb & Rb).
      cbv zeta. rewrite Ebody, Eb.
      destruct (expectP sb (close_of k) pc rest Tb Lb ltac:(destruct k; cbn; auto)) as (sc & Ec & Tc & Rc & Lc).
      assert (Ec' : expect sb match k with KArr => TArrayEnd | KLst => TListEnd | KGrp => TGroupEnd end = POk sc)
        by (destruct k; exact Ec).
      rewrite Ec'.
      exists sc, (set_kids Q0 ks). split; [reflexivity|]. split; [exact Tc|]. split; [exact Lc|]. split.
      + rewrite pobs_set_kids, mkN_who, Fb. unfold Q0. destruct M as [mn mpl mk mf mh ml mfi]. cbn in *. subst. reflexivity.
      + rewrite Rc, Rb. unfold sa. cbn [p_root set_proot]. rewrite shift_root, R1.
        apply (root_member parent P i M Q0 (set_kids Q0 ks) (p_root s) GP GM).
  Qed.

  (* ---- arrays: the elements are scalars of one type ---- *)
  Lemma ty_eqb_true a b : ty_eqb a b = true -> a = b.
  Proof. destruct a, b; cbn; intros H; try reflexivity; discriminate H. Qed.

  Lemma wf_scalar v : wf_v true v = true -> scalar_cst v = true.
  Proof. destruct v; cbn; intros H; try reflexivity; discriminate H. Qed.

  Lemma wf_t_vals tl : wf_t true tl = true -> Forall (fun e => scalar_cst e = true) (vals_t tl).
  Proof.
    induction tl as [| p tl IH | p v tl IH]; cbn [wf_t vals_t]; intros H.
    - constructor.
    - apply IH. exact H.
    - apply andb_true_iff in H as [H1 H2]. constructor; [apply wf_scalar; exact H1 | apply IH; exact H2].
  Qed.

  Lemma homog_ctx es : wf_e true es = true -> homog (map cty (vals_e es)) = true ->
    exists T, Forall (fun e => scalar_cst e = true /\ cty e = T) (vals_e es).
  Proof.
    destruct es as [|v tl]; cbn [wf_e vals_e map homog]; intros Hwf Hh.
    - exists TNone. constructor.
    - apply andb_true_iff in Hwf as [H1 H2]. exists (cty v). constructor; [split; [apply wf_scalar; exact H1 | reflexivity]|].
      pose proof (wf_t_vals tl H2) as Hs. rewrite forallb_forall in Hh. rewrite Forall_forall in *.
      intros e He. split; [apply Hs; exact He|]. symmetry. apply ty_eqb_true. apply Hh. apply in_map. exact He.
  Qed.

  Lemma Pv_arr po es pc : Pe es -> Pv (CArr po es pc).
  Proof.
    intros He fuel s parent cur simple rest P Hfuel Hwf Hsem _ Htok L GP. cbn [wf_v sem_v] in Hwf, Hsem.
    apply andb_true_iff in Hwf as [Hs Hwe]. destruct simple; [discriminate Hs|].
    apply andb_true_iff in Hsem as [Hse Hh].
    destruct (homog_ctx es Hwe Hh) as (T & HT).
    assert (Hbody : forall fuel s np rest Q, (2 * length (toks_e es) + 2 <= fuel)%nat ->
       ptoksP s = toks_e es ++ (TkP (close_of KArr), pc) :: rest -> linv s -> get_at np (p_root s) = Some Q ->
       s_pl Q = aggk_pl KArr -> s_kids Q = [] ->
       exists s' ks, body_fn KArr fuel s np = POk s' /\ ptoksP s' = (TkP (close_of KArr), pc) :: rest /\ linv s' /\ map pobs ks = den_e es /\
                     p_root s' = upd_at np (fun _ => set_kids Q ks) (p_root s)).
    { intros fu s0 np rest0 Q Hf Ht L0 GQ Qp Qk.
      destruct (He fu s0 np true TArrayEnd pc rest0 Q Hf Hwe Hse ltac:(auto) Ht L0 GQ) as (s' & vs & E & T' & L' & F & R).
      { right. split; [exact Qp|]. exists T. split; [rewrite Qk; intros k0 Hk0; discriminate Hk0 | exact HT]. }
      exists s', vs. rewrite Qk in R. auto 6. }
    destruct (gagg KArr po pc (toks_e es) (den_e es) Hbody fuel s parent cur rest P Hfuel Htok L GP) as [HA HG].
    split.
    - intros Hc Hctx. apply HA; [exact Hc|]. destruct Hctx as [H|(_ & H & _)]; [exact H | discriminate H].
    - intros i M Hc HP GM HM Hk Hf0 _. apply (HG i M Hc HP GM HM Hk Hf0).
  Qed.

  Lemma Pv_lst po es pc : Pe es -> Pv (CLst po es pc).
  Proof.
    intros He fuel s parent cur simple rest P Hfuel Hwf Hsem _ Htok L GP. cbn [wf_v sem_v] in Hwf, Hsem.
    apply andb_true_iff in Hwf as [Hs Hwe]. destruct simple; [discriminate Hs|].
    assert (Hbody : forall fuel s np rest Q, (2 * length (toks_e es) + 2 <= fuel)%nat ->
       ptoksP s = toks_e es ++ (TkP (close_of KLst), pc) :: rest -> linv s -> get_at np (p_root s) = Some Q ->
       s_pl Q = aggk_pl KLst -> s_kids Q = [] ->
       exists s' ks, body_fn KLst fuel s np = POk s' /\ ptoksP s' = (TkP (close_of KLst), pc) :: rest /\ linv s' /\ map pobs ks = den_e es /\
                     p_root s' = upd_at np (fun _ => set_kids Q ks) (p_root s)).
    { intros fu s0 np rest0 Q Hf Ht L0 GQ Qp Qk.
      destruct (He fu s0 np false TListEnd pc rest0 Q Hf Hwe Hsem ltac:(auto) Ht L0 GQ ltac:(left; exact Qp)) as (s' & vs & E & T' & L' & F & R).
      exists s', vs. rewrite Qk in R. auto 6. }
    destruct (gagg KLst po pc (toks_e es) (den_e es) Hbody fuel s parent cur rest P Hfuel Htok L GP) as [HA HG].
    split.
    - intros Hc Hctx. apply HA; [exact Hc|]. destruct Hctx as [H|(_ & H & _)]; [exact H | discriminate H].
    - intros i M Hc HP GM HM Hk Hf0 _. apply (HG i M Hc HP GM HM Hk Hf0).
  Qed.

  Lemma Pv_grp po ms pc : Pm ms -> Pv (CGrp po ms pc).
  Proof.
    intros Hm fuel s parent cur simple rest P Hfuel Hwf Hsem _ Htok L GP. cbn [wf_v sem_v] in Hwf, Hsem.
    apply andb_true_iff in Hwf as [Hs Hwm]. destruct simple; [discriminate Hs|].
    assert (Hbody : forall fuel s np rest Q, (2 * length (toks_m ms) + 2 <= fuel)%nat ->
       ptoksP s = toks_m ms ++ (TkP (close_of KGrp), pc) :: rest -> linv s -> get_at np (p_root s) = Some Q ->
       s_pl Q = aggk_pl KGrp -> s_kids Q = [] ->
       exists s' ks, body_fn KGrp fuel s np = POk s' /\ ptoksP s' = (TkP (close_of KGrp), pc) :: rest /\ linv s' /\ map pobs ks = den_m ms [] /\
                     p_root s' = upd_at np (fun _ => set_kids Q ks) (p_root s)).
    { intros fu s0 np rest0 Q Hf Ht L0 GQ Qp Qk.
      destruct (Hm fu s0 np ((TkP TGroupEnd, pc) :: rest0) Q ltac:(lia) Hwm ltac:(rewrite Qk; exact Hsem) I Ht L0 GQ Qp) as (s' & ks & E & T' & L' & F & R).
      exists s', ks. rewrite Qk in F. auto 6. }
    destruct (gagg KGrp po pc (toks_m ms) (den_m ms []) Hbody fuel s parent cur rest P Hfuel Htok L GP) as [HA HG].
    split.
    - intros Hc Hctx. apply HA; [exact Hc|]. destruct Hctx as [H|(_ & H & _)]; [exact H | discriminate H].
    - intros i M Hc HP GM HM Hk Hf0 _. apply (HG i M Hc HP GM HM Hk Hf0).
  Qed.

  (* ---- every derivation ---- *)
  Theorem complete_all :
    (forall v, Pv v) /\ (forall es, Pe es) /\ (forall tl, Pt tl) /\ (forall ms, Pm ms).
  Proof.
    apply cst_mutind.
    - exact Pv_scal.
    - exact Pv_str.
    - intros po es He pc. exact (Pv_arr po es pc He).
    - intros po es He pc. exact (Pv_lst po es pc He).
    - intros po ms Hm pc. exact (Pv_grp po ms pc Hm).
    - exact Pe_nil.
    - intros v Hv tl Ht. exact (Pe_cons v tl Hv Ht).
    - exact Pt_nil.
    - exact Pt_comma.
    - intros p v Hv tl Ht. exact (Pt_commav p v tl Hv Ht).
    - exact Pm_nil.
    - intros nm pos peq v Hv tm ms Hm. exact (Pm_cons nm pos peq v tm ms Hv Hm).
  Qed.

  (* ---- the whole configuration ---- *)
  Theorem parse_complete ms pe junk root0 toks :
    wf_m ms = true -> sem_m ms [] = true ->
    map ltp toks = toks_m ms ++ (TkEOF, pe) :: junk ->
    s_pl root0 = PGroup -> s_kids root0 = [] ->
    exists s', p_config overrides (mkP root0 toks false O 0 None) = POk s' /\
               pobs (p_root s') = PN (s_name root0) (spos_of root0) PGroup (s_fmt root0) (den_m ms []).
  Proof.
    intros Hwf Hsem Htoks Hp0 Hk0.
    destruct complete_all as (_ & _ & _ & Hm).
    set (s0 := mkP root0 toks false O 0 None).
    assert (T0 : ptoksP s0 = toks_m ms ++ (TkEOF, pe) :: junk) by exact Htoks.
    assert (L0 : linv s0) by (intros H; discriminate H).
    unfold p_config.
    assert (Hfuel : (2 * length (toks_m ms) + 1 <= S (4 * length (p_toks s0)))%nat).
    { cbn [p_toks s0].
      assert (Ln : length toks = (length (toks_m ms) + S (length junk))%nat).
      { rewrite <- (map_length ltp toks), Htoks, app_length. reflexivity. }
      lia. }
    destruct (Hm ms _ s0 [] ((TkEOF, pe) :: junk) root0 Hfuel Hwf ltac:(rewrite Hk0; exact Hsem) I T0 L0 eq_refl Hp0) as (s1 & ks & E1 & T1 & L1 & F1 & R1).
    rewrite E1. destruct (peekP s1 _ _ T1 L1) as (s2 & P2 & T2 & R2 & _). rewrite P2. cbn [fst].
    exists s2. split; [reflexivity|].
    rewrite R2, R1. cbn [upd_at p_root s0]. rewrite pobs_set_kids, Hp0, F1, Hk0. reflexivity.
  Qed.
End Complete.

(* ------------------------------------------------------------------------------------ *)
(* the concrete syntax trees are exactly the derivations of the documented grammar *)
Scheme Dvalue_mi := Induction for Dvalue Sort Prop
with Delems_mi := Induction for Delems Sort Prop
with Dtail_mi := Induction for Dtail Sort Prop
with Dsettings_mi := Induction for Dsettings Sort Prop.
Combined Scheme D_mutind from Dvalue_mi, Delems_mi, Dtail_mi, Dsettings_mi.

Definition lpos (l : ltoken) : spos := (lt_line l, lt_file l).

Lemma ltp_is l t : lt_tok l = t -> ltp l = (t, lpos l).
Proof. intros <-. reflexivity. Qed.

Lemma all_strings (lts : list ltoken) : forallb is_str (map lt_tok lts) = true ->
  exists l, map ltp lts = map (fun x => (TkString (fst x), snd x)) l.
Proof.
  induction lts as [|t r IH]; cbn [forallb map]; intros H; [exists []; reflexivity|].
  apply andb_true_iff in H as [H1 H2]. destruct (IH H2) as (l & E).
  destruct (lt_tok t) as [ | | | | | | str | | | | ] eqn:Et; try discriminate H1.
  exists ((str, lpos t) :: l). cbn [map fst snd]. rewrite E, (ltp_is t _ Et). reflexivity.
Qed.

Lemma map_eq_app_inv {A B} (g : A -> B) l a b : map g l = a ++ b -> exists la lb, l = la ++ lb /\ map g la = a /\ map g lb = b.
Proof. intros H. apply map_eq_app in H. destruct H as (la & lb & -> & <- & <-). eexists _, _. auto. Qed.

Lemma map_eq_cons_inv {A B} (g : A -> B) l a b : map g l = a :: b -> exists x lb, l = x :: lb /\ g x = a /\ map g lb = b.
Proof. destruct l as [|x r]; [discriminate|]. cbn. intros H. injection H as <- <-. eexists _, _. auto. Qed.

(* every derivation of the tokens of a located token list has a tree that spells the located list *)
Theorem cst_of_derivation :
  (forall simple ts, Dvalue simple ts -> forall lts, map lt_tok lts = ts -> exists v, wf_v simple v = true /\ toks_v v = map ltp lts) /\
  (forall simple ts, Delems simple ts -> forall lts, map lt_tok lts = ts -> exists es, wf_e simple es = true /\ toks_e es = map ltp lts) /\
  (forall simple ts, Dtail simple ts -> forall lts, map lt_tok lts = ts -> exists tl, wf_t simple tl = true /\ toks_t tl = map ltp lts) /\
  (forall ts, Dsettings ts -> forall lts, map lt_tok lts = ts -> exists ms, wf_m ms = true /\ toks_m ms = map ltp lts).
Proof.
  apply D_mutind.
  - intros simple t H lts E. destruct (map_eq_cons_inv _ _ _ _ E) as (l & r & -> & El & Er). destruct r; [|discriminate].
    exists (CScal t (lpos l)). split; [exact H|]. cbn [toks_v map]. rewrite (ltp_is l t El). reflexivity.
  - intros simple ss Hne Hs lts E. subst ss. destruct (all_strings lts Hs) as (l & El).
    destruct l as [|[s0 p0] l]; [destruct lts; [contradiction Hne; reflexivity | discriminate El]|].
    exists (CStr s0 p0 l). split; [reflexivity|]. rewrite El. reflexivity.
  - intros ts _ IH lts E. destruct (map_eq_cons_inv _ _ _ _ E) as (lo & r & -> & Eo & Er).
    destruct (map_eq_app_inv _ _ _ _ Er) as (lb & lc & -> & Eb & Ec). destruct (map_eq_cons_inv _ _ _ _ Ec) as (lcl & r2 & -> & Ecl & Er2).
    destruct r2; [|discriminate]. destruct (IH lb Eb) as (es & Hw & Et). exists (CArr (lpos lo) es (lpos lcl)). split; [exact Hw|].
    cbn [toks_v map]. rewrite map_app. cbn [map]. rewrite Et, (ltp_is lo _ Eo), (ltp_is lcl _ Ecl). reflexivity.
  - intros ts _ IH lts E. destruct (map_eq_cons_inv _ _ _ _ E) as (lo & r & -> & Eo & Er).
    destruct (map_eq_app_inv _ _ _ _ Er) as (lb & lc & -> & Eb & Ec). destruct (map_eq_cons_inv _ _ _ _ Ec) as (lcl & r2 & -> & Ecl & Er2).
    destruct r2; [|discriminate]. destruct (IH lb Eb) as (es & Hw & Et). exists (CLst (lpos lo) es (lpos lcl)). split; [exact Hw|].
    cbn [toks_v map]. rewrite map_app. cbn [map]. rewrite Et, (ltp_is lo _ Eo), (ltp_is lcl _ Ecl). reflexivity.
  - intros ts _ IH lts E. destruct (map_eq_cons_inv _ _ _ _ E) as (lo & r & -> & Eo & Er).
    destruct (map_eq_app_inv _ _ _ _ Er) as (lb & lc & -> & Eb & Ec). destruct (map_eq_cons_inv _ _ _ _ Ec) as (lcl & r2 & -> & Ecl & Er2).
    destruct r2; [|discriminate]. destruct (IH lb Eb) as (ms & Hw & Et). exists (CGrp (lpos lo) ms (lpos lcl)). split; [exact Hw|].
    cbn [toks_v map]. rewrite map_app. cbn [map]. rewrite Et, (ltp_is lo _ Eo), (ltp_is lcl _ Ecl). reflexivity.
  - intros simple lts E. destruct lts; [|discriminate]. exists ENil. split; reflexivity.
  - intros simple v tl _ IHv _ IHt lts E. destruct (map_eq_app_inv _ _ _ _ E) as (la & lb & -> & Ea & Eb).
    destruct (IHv la Ea) as (cv & Hv & Ev). destruct (IHt lb Eb) as (ct & Ht & Et).
    exists (ECons cv ct). split; [cbn; rewrite Hv, Ht; reflexivity|]. cbn [toks_e]. rewrite map_app, Ev, Et. reflexivity.
  - intros simple lts E. destruct lts; [|discriminate]. exists TlNil. split; reflexivity.
  - intros simple tl _ IHt lts E. destruct (map_eq_cons_inv _ _ _ _ E) as (lc & r & -> & Ec & Er).
    destruct (IHt r Er) as (ct & Ht & Et). exists (TlComma (lpos lc) ct). split; [exact Ht|]. cbn [toks_t map]. rewrite Et, (ltp_is lc _ Ec). reflexivity.
  - intros simple v tl _ IHv _ IHt lts E. destruct (map_eq_cons_inv _ _ _ _ E) as (lc & r & -> & Ec & Er).
    destruct (map_eq_app_inv _ _ _ _ Er) as (la & lb & -> & Ea & Eb).
    destruct (IHv la Ea) as (cv & Hv & Ev). destruct (IHt lb Eb) as (ct & Ht & Et).
    exists (TlCommaV (lpos lc) cv ct). split; [cbn; rewrite Hv, Ht; reflexivity|]. cbn [toks_t map]. rewrite map_app, Ev, Et, (ltp_is lc _ Ec). reflexivity.
  - intros lts E. destruct lts; [|discriminate]. exists MNil. split; reflexivity.
  - intros nm v term rest _ IHv Hterm _ IHm lts E.
    destruct (map_eq_cons_inv _ _ _ _ E) as (ln & r & -> & En & Er).
    destruct (map_eq_cons_inv _ _ _ _ Er) as (le & r1 & -> & Ee & Er1).
    destruct (map_eq_app_inv _ _ _ _ Er1) as (la & lb & -> & Ea & Eb).
    destruct (map_eq_app_inv _ _ _ _ Eb) as (lt & lm & -> & Et & Em).
    destruct (IHv la Ea) as (cv & Hv & Ev). destruct (IHm lm Em) as (cm & Hm & Emm).
    destruct Hterm as [-> | [-> | ->]].
    + destruct lt; [|discriminate]. exists (MCons nm (lpos ln) (lpos le) cv TmNone cm). split; [cbn; rewrite Hv, Hm; reflexivity|].
      cbn [toks_m map term_toks app]. rewrite !map_app, Ev, Emm, (ltp_is ln _ En), (ltp_is le _ Ee). reflexivity.
    + destruct (map_eq_cons_inv _ _ _ _ Et) as (ls & r3 & -> & Es & Er3). destruct r3; [|discriminate].
      exists (MCons nm (lpos ln) (lpos le) cv (TmSemi (lpos ls)) cm). split; [cbn; rewrite Hv, Hm; reflexivity|].
      cbn [toks_m map term_toks app]. rewrite !map_app, Ev, Emm, (ltp_is ln _ En), (ltp_is le _ Ee). cbn [map app]. rewrite (ltp_is ls _ Es). reflexivity.
    + destruct (map_eq_cons_inv _ _ _ _ Et) as (ls & r3 & -> & Es & Er3). destruct r3; [|discriminate].
      exists (MCons nm (lpos ln) (lpos le) cv (TmComma (lpos ls)) cm). split; [cbn; rewrite Hv, Hm; reflexivity|].
      cbn [toks_m map term_toks app]. rewrite !map_app, Ev, Emm, (ltp_is ln _ En), (ltp_is le _ Ee). cbn [map app]. rewrite (ltp_is ls _ Es). reflexivity.
Qed.

Lemma strings_all (l : list (bytes * spos)) : forallb is_str (map fst (map (fun x => (TkString (fst x), snd x)) l)) = true.
Proof. induction l as [|x r IH]; [reflexivity | exact IH]. Qed.

Theorem derivation_of_cst :
  (forall v simple, wf_v simple v = true -> Dvalue simple (map fst (toks_v v))) /\
  (forall es simple, wf_e simple es = true -> Delems simple (map fst (toks_e es))) /\
  (forall tl simple, wf_t simple tl = true -> Dtail simple (map fst (toks_t tl))) /\
  (forall ms, wf_m ms = true -> Dsettings (map fst (toks_m ms))).
Proof.
  apply cst_mutind.
  - intros t p simple H. apply DvScalar. exact H.
  - intros s0 p0 ss simple _. cbn [toks_v]. apply DvString; [discriminate | apply (strings_all ((s0, p0) :: ss))].
  - intros po es IH pc simple H. cbn [wf_v] in H. apply andb_true_iff in H as [Hs H]. destruct simple; [discriminate|].
    cbn [toks_v map]. rewrite map_app. apply DvArray. apply IH. exact H.
  - intros po es IH pc simple H. cbn [wf_v] in H. apply andb_true_iff in H as [Hs H]. destruct simple; [discriminate|].
    cbn [toks_v map]. rewrite map_app. apply DvList. apply IH. exact H.
  - intros po ms IH pc simple H. cbn [wf_v] in H. apply andb_true_iff in H as [Hs H]. destruct simple; [discriminate|].
    cbn [toks_v map]. rewrite map_app. apply DvGroup. apply IH. exact H.
  - intros simple _. apply DeNil.
  - intros v IHv tl IHt simple H. cbn [wf_e] in H. apply andb_true_iff in H as [H1 H2]. cbn [toks_e]. rewrite map_app. apply DeCons; [apply IHv | apply IHt]; assumption.
  - intros simple _. apply DtNil.
  - intros p tl IH simple H. apply DtComma. apply IH. exact H.
  - intros p v IHv tl IHt simple H. cbn [wf_t] in H. apply andb_true_iff in H as [H1 H2]. cbn [toks_t map]. rewrite map_app. apply DtCommaV; [apply IHv | apply IHt]; assumption.
  - intros _. apply DsNil.
  - intros nm pos peq v IHv tm ms IHm H. cbn [wf_m] in H. apply andb_true_iff in H as [H1 H2]. cbn [toks_m map]. rewrite !map_app.
    apply DsCons; [apply IHv; exact H1 | destruct tm; cbn; auto | apply IHm; exact H2].
Qed.
