(* Locale.v — the thread-locale state machine around every read and write (__config_locale_override /
   __config_locale_restore of libconfig.c, POSIX branch).  Definitions only.

   A locale object is (identity, radix character, name).  The process has a global locale and each thread
   optionally its own (uselocale); None stands for LC_GLOBAL_LOCALE.  newlocale(mask, "C", NULL) yields a
   fresh object all of whose categories are "C" (categories outside the mask default to the POSIX locale
   when the base is NULL) — this is why the code's passing LC_NUMERIC where a mask is expected is harmless. *)
From Coq Require Import List ZArith Bool.
Import ListNotations.
From LC Require Import Base.
Local Open Scope Z_scope.

Record lobj := mkLobj { lo_id : Z; lo_radix : Z; lo_name : bytes }.

Record lstate := mkLoc {
  ls_global : lobj;
  ls_thread : option lobj;
  ls_next : Z;                 (* identity of the next object newlocale creates *)
  ls_freed : list Z }.         (* identities passed to freelocale, in order *)

Definition c_name : bytes := [67].
Definition eff_radix (s : lstate) : Z :=
  match ls_thread s with Some l => lo_radix l | None => lo_radix (ls_global s) end.

(* __config_locale_override: loc = newlocale(.., "C", NULL); return loc ? uselocale(loc) : 0.
   [nl_ok]: does newlocale succeed.  Result: new state and the saved previous thread locale
   (Some None = LC_GLOBAL_LOCALE was in effect; None = nothing was changed). *)
Definition loc_override (nl_ok : bool) (s : lstate) : lstate * option (option lobj) :=
  if nl_ok then
    let l := mkLobj (ls_next s) 46 c_name in
    (mkLoc (ls_global s) (Some l) (ls_next s + 1) (ls_freed s), Some (ls_thread s))
  else (s, None).

(* __config_locale_restore(prev): if(prev) { loc = uselocale(prev); freelocale(loc); } *)
Definition loc_restore (s : lstate) (prev : option (option lobj)) : lstate :=
  match prev with
  | None => s
  | Some p =>
      mkLoc (ls_global s) p (ls_next s)
            (ls_freed s ++ match ls_thread s with Some l => [lo_id l] | None => [] end)
  end.

(* a read or a write: [f] is the operation as a function of the radix character in effect while it runs *)
Definition with_locale {A} (nl_ok : bool) (s : lstate) (f : Z -> A) : A * lstate :=
  let '(s1, prev) := loc_override nl_ok s in
  let r := f (eff_radix s1) in
  (r, loc_restore s1 prev).

(* strtod / printf under a radix character other than '.' : the '.' of the C syntax is not a radix
   character there (strtod stops in front of it; printf prints the locale's character) *)
Fixpoint until_dot (s : bytes) : bytes :=
  match s with [] => [] | c :: r => if c =? 46 then [] else c :: until_dot r end.
Definition atof_radix (atof : bytes -> Z) (radix : Z) (text : bytes) : Z :=
  if radix =? 46 then atof text else atof (until_dot text).
Definition fmt_radix (fmt : Z -> Z -> bool -> bytes) (radix : Z) (b p : Z) (sci : bool) : bytes :=
  if radix =? 46 then fmt b p sci else map (fun c => if c =? 46 then radix else c) (fmt b p sci).
