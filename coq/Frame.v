(* Frame.v — non-interference of operations on independent configuration objects: an interleaved run of
   several threads' programs, each on its own object, gives every thread exactly the results and the final
   object of its program run alone.  Generic in the step function; the content is that a step reads and
   writes only the component of the thread that performs it. *)
From Coq Require Import List Arith Lia.
Import ListNotations.

Section Frame.
  Variables St Op Res : Type.
  Variable step : St -> Op -> St * Res.

  Fixpoint upd_nth (i : nat) (x : St) (l : list St) : list St :=
    match l, i with
    | [], _ => []
    | _ :: r, O => x :: r
    | y :: r, S j => y :: upd_nth j x r
    end.

  (* a schedule: which thread performs which operation next *)
  Definition schedule := list (nat * Op).

  Fixpoint run_sched (sts : list St) (sch : schedule) : list St * list (nat * Res) :=
    match sch with
    | [] => (sts, [])
    | (i, o) :: rest =>
        match nth_error sts i with
        | None => run_sched sts rest                         (* no such thread: ignored *)
        | Some s =>
            let '(s', r) := step s o in
            let '(fin, rs) := run_sched (upd_nth i s' sts) rest in
            (fin, (i, r) :: rs)
        end
    end.

  Fixpoint run_alone (s : St) (ops : list Op) : St * list Res :=
    match ops with
    | [] => (s, [])
    | o :: rest => let '(s', r) := step s o in
                   let '(fin, rs) := run_alone s' rest in (fin, r :: rs)
    end.

  Definition ops_of (i : nat) (sch : schedule) : list Op :=
    map snd (filter (fun io => Nat.eqb (fst io) i) sch).
  Definition results_of (i : nat) (rs : list (nat * Res)) : list Res :=
    map snd (filter (fun ir => Nat.eqb (fst ir) i) rs).

  Lemma nth_upd_same i x l : i < length l -> nth_error (upd_nth i x l) i = Some x.
  Proof.
    revert i; induction l as [|y r IH]; intros [|i] H; cbn in *; try lia; [reflexivity|]. apply IH. lia.
  Qed.
  Lemma nth_upd_other i j x l : i <> j -> nth_error (upd_nth i x l) j = nth_error l j.
  Proof.
    revert i j; induction l as [|y r IH]; intros [|i] [|j] H; cbn; try reflexivity; try congruence.
    apply IH. congruence.
  Qed.
  Lemma upd_length i x l : length (upd_nth i x l) = length l.
  Proof. revert i; induction l as [|y r IH]; intros [|i]; cbn; auto. Qed.

  Theorem interleaving_is_alone sch : forall sts i s,
    nth_error sts i = Some s ->
    let '(fin, rs) := run_sched sts sch in
    let '(fin_alone, rs_alone) := run_alone s (ops_of i sch) in
    nth_error fin i = Some fin_alone /\ results_of i rs = rs_alone.
  Proof.
    induction sch as [|[j o] rest IH]; intros sts i s Hs.
    - cbn. split; [exact Hs | reflexivity].
    - cbn [run_sched]. destruct (nth_error sts j) as [sj|] eqn:Hj.
      + destruct (step sj o) as [sj' r] eqn:St1.
        destruct (Nat.eqb_spec j i) as [->|Hne].
        * (* the operation is thread i's own *)
          assert (sj = s) by congruence. subst sj.
          assert (Hi : i < length sts) by (apply nth_error_Some; congruence).
          specialize (IH (upd_nth i sj' sts) i sj' (nth_upd_same i sj' sts Hi)).
          destruct (run_sched (upd_nth i sj' sts) rest) as [fin rs].
          unfold ops_of. cbn [filter fst]. rewrite Nat.eqb_refl. cbn [map snd run_alone]. rewrite St1.
          fold (ops_of i rest). destruct (run_alone sj' (ops_of i rest)) as [fa ra].
          destruct IH as [H1 H2]. split; [exact H1|].
          unfold results_of. cbn [filter fst]. rewrite Nat.eqb_refl. cbn [map snd]. f_equal. exact H2.
        * (* another thread's operation: thread i's object is untouched *)
          assert (Hs' : nth_error (upd_nth j sj' sts) i = Some s) by (rewrite nth_upd_other by exact Hne; exact Hs).
          specialize (IH (upd_nth j sj' sts) i s Hs').
          destruct (run_sched (upd_nth j sj' sts) rest) as [fin rs].
          unfold ops_of. cbn [filter fst].
          replace (Nat.eqb j i) with false by (symmetry; apply Nat.eqb_neq; exact Hne).
          fold (ops_of i rest). destruct (run_alone s (ops_of i rest)) as [fa ra].
          destruct IH as [H1 H2]. split; [exact H1|].
          unfold results_of. cbn [filter fst].
          replace (Nat.eqb j i) with false by (symmetry; apply Nat.eqb_neq; exact Hne). exact H2.
      + specialize (IH sts i s Hs). destruct (run_sched sts rest) as [fin rs].
        unfold ops_of. cbn [filter fst]. destruct (Nat.eqb_spec j i) as [->|Hne]; [congruence|].
        fold (ops_of i rest). exact IH.
  Qed.
End Frame.
