(* OptRead.v — output options change presentation only, through the parser (lemmas behind Properties_C19): two
   configurations with the same tree and the same spelling attributes (default format, float precision, scientific
   notation), whatever their layout options (semicolons, colon assignment, brace placement) and tab widths, are
   written as texts that are read back as the same tree.  With different precision or notation the re-read trees
   agree on everything except the float values. *)
From Coq Require Import List ZArith NArith Bool Lia.
Import ListNotations.
From LC Require Import Base BaseFacts Tree Fp Api ScanAction Tokens Lexer Parser Reader Writer WriterFacts TreeFacts
  LexWrite ParseWrite WriteStable OptFacts RoundExample FloatDec Run.
Local Open Scope Z_scope.

Section OptRead.
  Variable fmt_double : Z -> Z -> bool -> bytes.
  Variable atof : bytes -> Z.

  (* ---- what the re-read tree depends on ---- *)
  Lemma ftext_ext c c' : same_spelling c c' -> forall b, ftext fmt_double c' b = ftext fmt_double c b.
  Proof. intros (_ & Hp & Hs) b. unfold ftext. rewrite Hp, Hs. reflexivity. Qed.

  Lemma eff_ext c c' : c_deffmt c' = c_deffmt c -> forall f, eff c' f = eff c f.
  Proof. intros Hd f. unfold eff. rewrite Hd. reflexivity. Qed.

  Lemma nobs_ext c c' : same_spelling c c' -> forall s nm, nobs fmt_double atof c' nm s = nobs fmt_double atof c nm s.
  Proof.
    intros Hs. pose proof Hs as (Hd & _). induction s as [n pl kids f h l fi IH] using setting_ind'. intros nm.
    destruct pl; cbn [nobs npl nfmt]; rewrite ?(eff_ext c c' Hd), ?(ftext_ext c c' Hs); try reflexivity.
    - f_equal. induction IH as [|m r Hm _ IHr]; [reflexivity|]. cbn [map]. rewrite Hm, IHr. reflexivity.
    - f_equal. induction IH as [|m r Hm _ IHr]; [reflexivity|]. cbn [map]. rewrite Hm, IHr. reflexivity.
    - f_equal. induction IH as [|m r Hm _ IHr]; [reflexivity|]. cbn [map]. rewrite Hm, IHr. reflexivity.
  Qed.

  Lemma scalar_ok_ext c c' : same_spelling c c' -> forall pl, scalar_ok fmt_double atof c pl -> scalar_ok fmt_double atof c' pl.
  Proof.
    intros Hs pl. destruct pl; cbn [scalar_ok]; auto. unfold float_ok. rewrite !(ftext_ext c c' Hs). auto.
  Qed.

  Lemma writable_ext c c' : same_spelling c c' -> forall s, writable fmt_double atof c s -> writable fmt_double atof c' s.
  Proof.
    intros Hs. induction s as [n pl kids f h l fi IH] using setting_ind'.
    destruct pl; cbn [writable]; try apply (scalar_ok_ext c c' Hs).
    - induction IH as [|m r Hm _ IHr]; [auto|]. intros [[Hn Hwm] Hr]. split; [split; [exact Hn | apply Hm; exact Hwm] | apply IHr; exact Hr].
    - induction IH as [|m r Hm _ IHr]; [auto|]. intros [Hwm Hr]. split; [apply Hm; exact Hwm | apply IHr; exact Hr].
    - induction IH as [|m r Hm _ IHr]; [auto|]. intros [Hwm Hr]. split; [apply Hm; exact Hwm | apply IHr; exact Hr].
  Qed.

  (* ---- the nesting depth does not see semicolons ---- *)
  Lemma nest_of_filter : forall ts cur best, nest_of (filter not_semi ts) cur best = nest_of ts cur best.
  Proof.
    induction ts as [|t r IH]; intros cur best; [reflexivity|]. cbn [filter].
    destruct t as [ | | | | | | | |p| | ]; cbn [not_semi nest_of]; try apply IH. destruct p; cbn [nest_of]; apply IH.
  Qed.

  Lemma nest_ext c c' n kids f h l fi : same_spelling c c' ->
    nest_of (flat_map (piece_tok fmt_double atof c') (pieces c' (Setting n PGroup kids f h l fi) 0) ++ [TkEOF]) 0 0 =
    nest_of (flat_map (piece_tok fmt_double atof c) (pieces c (Setting n PGroup kids f h l fi) 0) ++ [TkEOF]) 0 0.
  Proof.
    intros Hs. rewrite <- (nest_of_filter (_ ++ _)), <- (nest_of_filter (flat_map (piece_tok fmt_double atof c) _ ++ _)).
    rewrite !filter_app, (root_tokens_option_free fmt_double atof c c' n kids f h l fi Hs). reflexivity.
  Qed.

  (* ---- the layout options are invisible after a round trip ---- *)
  Theorem options_invisible FS c c' c2 c2' kids f h l fi :
    c_root c = Setting None PGroup kids f h l fi -> kids <> [] ->
    c_root c' = c_root c -> same_spelling c c' ->
    writable fmt_double atof c (c_root c) -> pstruct (c_root c) ->
    nest_of (flat_map (piece_tok fmt_double atof c) (pieces c (c_root c) 0) ++ [TkEOF]) 0 0 <= NEST_LIMIT ->
    let r := config_read atof FS c2 None (config_write fmt_double c) in
    let r' := config_read atof FS c2' None (config_write fmt_double c') in
    rd_out_ r = RdOk /\ rd_out_ r' = RdOk /\
    obs (c_root (rd_cfg r')) = obs (c_root (rd_cfg r)) /\
    obs (c_root (rd_cfg r)) = ON None PGroup 0 (map (fun m => nobs fmt_double atof c (s_name m) m) kids).
  Proof.
    intros Hroot Hk Hroot' Hs Hw Hp Hn. cbv zeta.
    destruct (read_written fmt_double atof FS c c2 kids f h l fi Hroot Hk Hw Hp Hn) as [A B].
    assert (Hroot2 : c_root c' = Setting None PGroup kids f h l fi) by (rewrite Hroot'; exact Hroot).
    destruct (read_written fmt_double atof FS c' c2' kids f h l fi Hroot2 Hk) as [A' B'].
    - rewrite Hroot'. apply (writable_ext c c' Hs). exact Hw.
    - rewrite Hroot'. exact Hp.
    - rewrite Hroot2, (nest_ext c c' None kids f h l fi Hs), <- Hroot. exact Hn.
    - split; [exact A|]. split; [exact A'|]. split; [|exact B]. rewrite B, B'. f_equal. apply map_ext. intros m. apply nobs_ext. exact Hs.
  Qed.

  (* ---- precision and notation change the float values only ---- *)
  Fixpoint erase_floats (t : otree) : otree :=
    let 'ON n pl f k := t in
    ON n (match pl with PFloat _ => PFloat 0 | other => other end) f (map erase_floats k).

  Lemma nobs_erase c c' : c_deffmt c' = c_deffmt c -> forall s nm,
    erase_floats (nobs fmt_double atof c' nm s) = erase_floats (nobs fmt_double atof c nm s).
  Proof.
    intros Hd. induction s as [n pl kids f h l fi IH] using setting_ind'. intros nm.
    destruct pl; cbn [nobs npl nfmt erase_floats]; rewrite ?(eff_ext c c' Hd); try reflexivity.
    - f_equal. rewrite !map_map. induction IH as [|m r Hm _ IHr]; [reflexivity|]. cbn [map]. rewrite Hm, IHr. reflexivity.
    - f_equal. rewrite !map_map. induction IH as [|m r Hm _ IHr]; [reflexivity|]. cbn [map]. rewrite Hm, IHr. reflexivity.
    - f_equal. rewrite !map_map. induction IH as [|m r Hm _ IHr]; [reflexivity|]. cbn [map]. rewrite Hm, IHr. reflexivity.
  Qed.

  (* every float of the re-read tree is the strtod of its rendering under the writing configuration (that is what
     nobs says); everything else is the same for every precision and notation *)
  Theorem precision_changes_floats_only FS c c' c2 c2' kids f h l fi :
    c_root c = Setting None PGroup kids f h l fi -> kids <> [] ->
    c_root c' = c_root c -> c_deffmt c' = c_deffmt c ->
    writable fmt_double atof c (c_root c) -> writable fmt_double atof c' (c_root c') -> pstruct (c_root c) ->
    nest_of (flat_map (piece_tok fmt_double atof c) (pieces c (c_root c) 0) ++ [TkEOF]) 0 0 <= NEST_LIMIT ->
    nest_of (flat_map (piece_tok fmt_double atof c') (pieces c' (c_root c') 0) ++ [TkEOF]) 0 0 <= NEST_LIMIT ->
    let r := config_read atof FS c2 None (config_write fmt_double c) in
    let r' := config_read atof FS c2' None (config_write fmt_double c') in
    rd_out_ r = RdOk /\ rd_out_ r' = RdOk /\
    erase_floats (obs (c_root (rd_cfg r'))) = erase_floats (obs (c_root (rd_cfg r))) /\
    obs (c_root (rd_cfg r)) = ON None PGroup 0 (map (fun m => nobs fmt_double atof c (s_name m) m) kids) /\
    obs (c_root (rd_cfg r')) = ON None PGroup 0 (map (fun m => nobs fmt_double atof c' (s_name m) m) kids).
  Proof.
    intros Hroot Hk Hroot' Hd Hw Hw' Hp Hn Hn'. cbv zeta.
    destruct (read_written fmt_double atof FS c c2 kids f h l fi Hroot Hk Hw Hp Hn) as [A B].
    assert (Hroot2 : c_root c' = Setting None PGroup kids f h l fi) by (rewrite Hroot'; exact Hroot).
    destruct (read_written fmt_double atof FS c' c2' kids f h l fi Hroot2 Hk Hw' ltac:(rewrite Hroot'; exact Hp) Hn') as [A' B'].
    split; [exact A|]. split; [exact A'|]. split; [|split; assumption].
    rewrite B, B'. cbn [erase_floats]. f_equal. rewrite !map_map. apply map_ext. intros m. apply nobs_erase. exact Hd.
  Qed.
End OptRead.

(* ------------------------------------------------------------------------------------ *)
(* the example configuration of RoundExample.v under two option vectors:
   ex_cfg  : semicolons, colon for groups, brace on a new line, tab width 2 (the defaults);
   ex_cfg' : no semicolons, '=' for groups, ':' for the others, brace on the same line, tab width 7, and the options
             that do not concern output (autoconvert, fsync, overrides) set *)
Definition ex_cfg' : cfg :=
  set_tab (set_options ex_cfg (Z.lor OPT_COLON_NONGROUPS (Z.lor OPT_AUTOCONVERT (Z.lor OPT_FSYNC OPT_OVERRIDES)))) 7.

Example ex_same_spelling : same_spelling ex_cfg ex_cfg'.
Proof. repeat split. Qed.

Example ex_texts_differ : config_write fmt_double ex_cfg' <> config_write fmt_double ex_cfg.
Proof. intros H. vm_compute in H. discriminate H. Qed.

(* by the theorem *)
Example ex_options_invisible :
  let r := config_read atof [] cfg_init None (config_write fmt_double ex_cfg) in
  let r' := config_read atof [] ex_cfg' None (config_write fmt_double ex_cfg') in
  rd_out_ r = RdOk /\ rd_out_ r' = RdOk /\ obs (c_root (rd_cfg r')) = obs (c_root (rd_cfg r)).
Proof.
  destruct (options_invisible fmt_double atof [] ex_cfg ex_cfg' cfg_init ex_cfg' _ 0 None 0 None eq_refl ltac:(discriminate) eq_refl
              ex_same_spelling ex_writable ex_pstruct ex_nest) as (A & B & C & _).
  cbv zeta. auto.
Qed.

(* and by evaluation *)
Example ex_options_invisible_eval :
  obs (c_root (rd_cfg (config_read atof [] ex_cfg' None (config_write fmt_double ex_cfg')))) =
  obs (c_root (rd_cfg (config_read atof [] cfg_init None (config_write fmt_double ex_cfg)))).
Proof. vm_compute. reflexivity. Qed.

(* precision 9 and scientific notation: the text differs in the float, the re-read trees agree up to float values *)
Definition ex_cfg_sci : cfg := set_prec (set_options ex_cfg (Z.lor OPT_SCI OPT_SEMICOLON)) 9.

Example ex_precision_eval :
  let t := obs (c_root (rd_cfg (config_read atof [] cfg_init None (config_write fmt_double ex_cfg)))) in
  let t' := obs (c_root (rd_cfg (config_read atof [] cfg_init None (config_write fmt_double ex_cfg_sci)))) in
  erase_floats t' = erase_floats t.
Proof. vm_compute. reflexivity. Qed.

Print Assumptions options_invisible.
Print Assumptions precision_changes_floats_only.
Print Assumptions ex_options_invisible.
