(* LexTotal.v — the scanner / include-machine model is total: on every byte string (bytes 0..255) and every file
   system whose files hold bytes, lex_top returns with StopEOB (the token list then ends with the end-of-input
   token) or with StopError (it ends with an error token) - never StopStuck (no matcher call fails to make
   progress, no unknown action, fuel and include-depth budget always suffice) and never StopFatal.
   Lemmas behind Properties_C03. *)
From Coq Require Import List ZArith NArith Bool Lia.
Import ListNotations.
From LC Require Import Base BaseFacts Tree Fp Regex RegexFacts FlexEngine Bisim ScanAction ScannerSpec ScannerCert ScannerFacts
  Tokens Lexer Reader.
From LC.gen Require Import Consts ScannerTables.
Local Open Scope Z_scope.

Definition cond_ok (st : lstate) : Prop := forall bol, In (l_cond st, bol) all_conditions.

Lemma cond_ok_intro st c : l_cond st = c -> (c = 0 \/ c = 1 \/ c = 2 \/ c = 3 \/ c = 4) -> cond_ok st.
Proof.
  intros E H bol. rewrite E. unfold all_conditions. destruct H as [-> | [-> | [-> | [-> | ->]]]]; destruct bol; cbn; auto 12.
Qed.

(* every BEGIN of the action table names one of the five start conditions *)
Definition begin_ok (a : Z * action) : bool :=
  match snd a with ABegin sc => (0 <=? sc) && (sc <=? 4) | _ => true end.
Lemma begins_checked : forallb begin_ok yy_actions = true.
Proof. vm_compute. reflexivity. Qed.

Lemma action_begin_ok r sc : action_of yy_actions r = ABegin sc -> 0 <= sc <= 4.
Proof.
  pose proof begins_checked as H. rewrite forallb_forall in H. revert H. generalize yy_actions.
  induction l as [|[n a] rest IH]; intros H E; cbn [action_of] in E; [discriminate|].
  destruct (n =? r).
  - subst a. specialize (H (n, ABegin sc) (or_introl eq_refl)). unfold begin_ok in H. cbn [snd] in H.
    apply andb_true_iff in H as [H1 H2]. apply Z.leb_le in H1, H2. lia.
  - apply IH; [intros x Hx; apply H; right; exact Hx | exact E].
Qed.

Lemma bytes_ok_skipn n l : bytes_ok l -> bytes_ok (skipn n l).
Proof. unfold bytes_ok. revert l. induction n as [|n IH]; intros l H; [exact H|]. destruct l; [constructor|]. inversion H; subst. apply IH. assumption. Qed.

Section LT.
  Variable atof : bytes -> Z.
  Variable FS : fs.
  Variable incdir : option bytes.
  Variable incf : incfn.
  Variable max_depth : Z.
  Hypothesis FS_ok : forall f content, fs_lookup FS f = Some (FFile content) -> bytes_ok content.

  (* a property of single tokens that every step establishes (and error tokens have): carried to the whole stream *)
  Variable Q : ltoken -> Prop.
  Hypothesis Q_err : forall tk, lt_tok tk = TkError -> Q tk.

  Notation lex_step := (lex_step ScannerCert.the_tables yy_rule_can_match_eol yy_actions atof FS incdir incf max_depth).
  Notation lex_buf := (lex_buf ScannerCert.the_tables yy_rule_can_match_eol yy_actions atof FS incdir incf max_depth).
  Notation lex_files := (lex_files FS).
  Notation lex_depth := (lex_depth ScannerCert.the_tables yy_rule_can_match_eol yy_actions atof FS incdir incf max_depth).

  Definition depth (st : lstate) : Z := Z.of_nat (length (l_names st)) - 1.

  (* a token list that ends with an error token *)
  Definition ends_error (toks : list ltoken) : Prop := exists pre tk, toks = pre ++ [tk] /\ lt_tok tk = TkError.

  Lemma emit_tok st line t err : lt_tok (fst (emit st line t err)) = t /\ l_cond (snd (emit st line t err)) = l_cond st /\
    l_names (snd (emit st line t err)) = l_names st.
  Proof. unfold emit. cbn. auto. Qed.

  Lemma fold_add_ev_fields evs : forall st, l_cond (fold_left add_ev evs st) = l_cond st /\ l_names (fold_left add_ev evs st) = l_names st.
  Proof. induction evs as [|e r IH]; intros st; [auto|]. cbn [fold_left]. destruct (IH (add_ev st e)) as [H1 H2]. rewrite H1, H2. auto. Qed.

  (* what one step can be *)
  Definition step_ok (st : lstate) (b : buf) (res : step_res) : Prop :=
    match res with
    | SCont st' b' | STok _ st' b' =>
        cond_ok st' /\ l_names st' = l_names st /\ (length (b_rest b') < length (b_rest b))%nat /\ bytes_ok (b_rest b')
    | SStop toks stop _ _ => stop = StopError /\ exists tk, toks = [tk] /\ lt_tok tk = TkError
    | SIncl st' files _ b' =>
        cond_ok st' /\ length (l_names st') = S (length (l_names st)) /\ depth st <> max_depth /\
        (length (b_rest b') < length (b_rest b))%nat /\ bytes_ok (b_rest b')
    end.

  Lemma stop_error_ok st b st0 line err : step_ok st b (stop_error st0 line err).
  Proof.
    unfold stop_error. destruct (emit st0 line TkError err) as [tk st'] eqn:E. cbn [step_ok]. split; [reflexivity|].
    exists tk. split; [reflexivity|]. pose proof (emit_tok st0 line TkError err) as H. rewrite E in H. apply H.
  Qed.

  Lemma lex_step_ok st b : cond_ok st -> b_rest b <> [] -> bytes_ok (b_rest b) -> step_ok st b (lex_step st b).
  Proof.
    intros Hc Hne Hb. unfold Lexer.lex_step.
    destruct (b_rest b) as [|c0 r0] eqn:Er; [contradiction|].
    destruct (scanner_progress (l_cond st) (b_bol b) c0 r0 (Hc _) Hb) as (rule & len & pat & Em & Hlen & Hin & _).
    rewrite Em. destruct len as [|len']; [lia|].
    pose proof (spec_rule_numbers _ _ _ _ Hin) as Hr. destruct (no_echo_action rule Hr) as [Hne1 Hne2].
    set (text := firstn (S len') (c0 :: r0)). set (rest := skipn (S len') (c0 :: r0)).
    assert (Hshort : (length rest < length (c0 :: r0))%nat) by (unfold rest; rewrite skipn_length; cbn [length] in *; lia).
    assert (Hbr : bytes_ok rest) by (apply bytes_ok_skipn; exact Hb).
    cbv zeta.
    set (line' := if nthZ yy_rule_can_match_eol rule =? 0 then b_line b else b_line b + count_nl text).
    set (b' := mkBuf rest (last text 0 =? 10) line').
    assert (Hkeep : forall st', l_cond st' = l_cond st -> l_names st' = l_names st ->
              cond_ok st' /\ l_names st' = l_names st /\ (length (b_rest b') < length (c0 :: r0))%nat /\ bytes_ok (b_rest b')).
    { intros st' E1 E2. split; [intros bol; rewrite E1; apply Hc|]. auto. }
    assert (Htok : forall t, step_ok st (mkBuf (c0 :: r0) (b_bol b) (b_line b)) (let '(tk, st') := emit st line' t None in STok tk st' b')).
    { intros t. pose proof (emit_tok st line' t None) as (_ & E1 & E2). destruct (emit st line' t None) as [tk st']. cbn [fst snd] in *.
      cbn [step_ok b_rest]. apply Hkeep; assumption. }
    assert (Hb0 : forall res, step_ok st (mkBuf (c0 :: r0) (b_bol b) (b_line b)) res -> step_ok st b res).
    { intros res. unfold step_ok. rewrite Er. destruct res; auto. }
    apply Hb0.
    destruct (action_of yy_actions rule) as [sc| | |ch| | | |pt|bv| | | | | | | | ] eqn:Ea;
      try (exfalso; apply Hne1; exact Ea); try (exfalso; apply Hne2; exact Ea).
    - (* BEGIN *)
      cbn [step_ok b_rest]. split; [|auto]. apply (cond_ok_intro (set_cond st sc) sc eq_refl). pose proof (action_begin_ok _ _ Ea). lia.
    - cbn [step_ok b_rest]. apply Hkeep; reflexivity.
    - cbn [step_ok b_rest]. apply Hkeep; reflexivity.
    - cbn [step_ok b_rest]. apply Hkeep; reflexivity.
    - cbn [step_ok b_rest]. apply Hkeep; reflexivity.
    - (* end of string *)
      pose proof (emit_tok st line' (TkString (until_nul (l_acc st))) None) as (_ & E1 & E2).
      destruct (emit st line' (TkString (until_nul (l_acc st))) None) as [tk st']. cbn [fst snd] in *. cbn [step_ok b_rest].
      split; [apply (cond_ok_intro (set_cond (set_acc st' []) 0) 0 eq_refl); auto|]. split; [exact E2 | auto].
    - (* include directive *)
      set (st1 := set_acc st []).
      destruct (Z.of_nat (length (l_names st1)) - 1 =? max_depth) eqn:Ed; [apply stop_error_ok|].
      destruct (call_incfn incdir incf (until_nul (l_acc st))) as [[evs err] files].
      pose proof (fold_add_ev_fields evs st1) as [F1 F2]. set (st2 := fold_left add_ev evs st1) in *.
      destruct err as [msg|]; [apply stop_error_ok|].
      assert (Hcont : step_ok st (mkBuf (c0 :: r0) (b_bol b) (b_line b)) (SCont (set_cond st2 0) b')).
      { cbn [step_ok b_rest]. split; [apply (cond_ok_intro (set_cond st2 0) 0 eq_refl); auto|]. split; [exact F2 | auto]. }
      destruct files as [[|f1 frest]|]; try exact Hcont.
      destruct (fs_lookup FS f1) as [[content|]|]; try apply stop_error_ok.
      cbn [step_ok b_rest]. split; [apply (cond_ok_intro (push_frame (add_files st2 (f1 :: frest))) 0 eq_refl); auto|].
      split; [cbn; rewrite F2; reflexivity|]. split; [|auto].
      apply Z.eqb_neq in Ed. exact Ed.
    - apply Htok. - apply Htok. - apply Htok.
    - destruct (numeric_token atof AFloat text); [apply Htok | apply stop_error_ok].
    - destruct (numeric_token atof AInteger text); [apply Htok | apply stop_error_ok].
    - destruct (numeric_token atof AInteger64 text); [apply Htok | apply stop_error_ok].
    - destruct (numeric_token atof AHex text); [apply Htok | apply stop_error_ok].
    - destruct (numeric_token atof AHex64 text); [apply Htok | apply stop_error_ok].
  Qed.

  (* ---- a whole buffer ---- *)
  (* what a scan (of a buffer, of the files of a frame) can answer *)
  Definition scan_ok (st : lstate) (toks : list ltoken) (stop : lstop) (st' : lstate) : Prop :=
    Forall Q toks /\
    ((stop = StopEOB /\ cond_ok st' /\ length (l_names st') = length (l_names st)) \/
     (stop = StopError /\ ends_error toks)).

  Lemma ends_error_app a b : ends_error b -> ends_error (a ++ b).
  Proof. intros (pre & tk & -> & H). exists (a ++ pre), tk. rewrite app_assoc. auto. Qed.
  Lemma ends_error_cons a b : ends_error b -> ends_error (a :: b).
  Proof. apply (ends_error_app [a]). Qed.

  Hypothesis Q_step : forall st b, cond_ok st -> b_rest b <> [] -> bytes_ok (b_rest b) ->
    match lex_step st b with STok tk _ _ => Q tk | _ => True end.

  Definition incl_ok (k : Z) (incl : list bytes -> lstate -> Z -> list ltoken * lstop * lstate) : Prop :=
    forall files st line, cond_ok st -> depth st = k ->
      let '(toks, stop, st') := incl files st line in scan_ok st toks stop st'.

  Lemma lex_buf_ok k do_include : 0 <= k <= max_depth ->
    (k < max_depth -> exists incl, do_include = Some incl /\ incl_ok (k + 1) incl) ->
    forall fuel st b,
      (length (b_rest b) < fuel)%nat -> cond_ok st -> bytes_ok (b_rest b) -> depth st = k ->
      let '(toks, stop, st', l) := lex_buf do_include fuel st b in scan_ok st toks stop st'.
  Proof.
    intros Hk Hinc. induction fuel as [|f IH]; intros st b Hf Hc Hb Hd; [lia|].
    cbn [Lexer.lex_buf]. destruct (b_rest b) as [|c0 r0] eqn:Er.
    - split; [constructor | left; auto].
    - assert (Hne : b_rest b <> []) by (rewrite Er; discriminate).
      assert (Hbb : bytes_ok (b_rest b)) by (rewrite Er; exact Hb).
      pose proof (lex_step_ok st b Hc Hne Hbb) as Hs. pose proof (Q_step st b Hc Hne Hbb) as Hq.
      destruct (lex_step st b) as [st' b'|tk st' b'|toks stop st' l|st' files line' b']; cbn [step_ok] in Hs.
      + destruct Hs as (Hc' & Hn & Hl & Hb'). rewrite Er in Hl.
        specialize (IH st' b' ltac:(cbn [length] in *; lia) Hc' Hb' ltac:(unfold depth in *; rewrite Hn; exact Hd)).
        destruct (lex_buf do_include f st' b') as [[[toks stop] st2] l]. unfold scan_ok in *. rewrite Hn in IH. exact IH.
      + destruct Hs as (Hc' & Hn & Hl & Hb'). rewrite Er in Hl.
        specialize (IH st' b' ltac:(cbn [length] in *; lia) Hc' Hb' ltac:(unfold depth in *; rewrite Hn; exact Hd)).
        destruct (lex_buf do_include f st' b') as [[[toks stop] st2] l]. unfold scan_ok in *. rewrite Hn in IH.
        destruct IH as [HQ IH]. split; [constructor; assumption|].
        destruct IH as [H | [H1 H2]]; [left; exact H | right; split; [exact H1 | apply ends_error_cons; exact H2]].
      + destruct Hs as (-> & tk & -> & Ht). split; [constructor; [apply Q_err; exact Ht | constructor]|].
        right. split; [reflexivity|]. exists [], tk. auto.
      + destruct Hs as (Hc' & Hn & Hdp & Hl & Hb'). rewrite Er in Hl.
        destruct (Hinc ltac:(lia)) as (incl & -> & Hok).
        assert (Hd' : depth st' = k + 1) by (unfold depth in *; rewrite Hn; lia).
        pose proof (Hok files st' line' Hc' Hd') as Hi.
        destruct (incl files st' line') as [[toks stop] st4].
        destruct Hi as [HQ1 Hi].
        destruct Hi as [(-> & Hc4 & Hn4) | (-> & He)]; [|split; [exact HQ1 | right; split; [reflexivity | exact He]]].
        assert (Hn5 : length (l_names (pop_frame st4)) = length (l_names st)).
        { cbn [pop_frame l_names]. rewrite Hn in Hn4. destruct (l_names st4); cbn in *; lia. }
        specialize (IH (pop_frame st4) b' ltac:(cbn [length] in *; lia) ltac:(exact Hc4) Hb' ltac:(unfold depth; rewrite Hn5; exact Hd)).
        destruct (lex_buf (Some incl) f (pop_frame st4) b') as [[[toks2 stop2] st6] l].
        unfold scan_ok in *. rewrite Hn5 in IH. destruct IH as [HQ2 IH].
        split; [apply Forall_app; split; assumption|].
        destruct IH as [H | [H1 H2]]; [left; exact H | right; split; [exact H1 | apply ends_error_app; exact H2]].
  Qed.

  (* ---- the files of one frame ---- *)
  Lemma lex_files_ok k (scan_file : lstate -> bytes -> list ltoken * lstop * lstate * Z) : 0 <= k ->
    (forall st content, cond_ok st -> bytes_ok content -> depth st = k ->
       let '(toks, stop, st', l) := scan_file st content in scan_ok st toks stop st') ->
    incl_ok k (fun files st line => lex_files scan_file files st line).
  Proof.
    intros Hk Hscan files. induction files as [|f rest IH]; intros st line Hc Hd; cbn [Lexer.lex_files].
    - split; [constructor | left; auto].
    - set (st1 := set_name st (Some f)).
      assert (Hn1 : length (l_names st1) = length (l_names st)).
      { unfold depth in Hd. cbn. destruct (l_names st); [cbn in Hd; lia | reflexivity]. }
      destruct (fs_lookup FS f) as [[content|]|] eqn:Ef.
      + set (st3 := push_open (add_ev st1 (LvOpen f)) f).
        assert (Hc3 : cond_ok st3) by (intros bol; apply Hc).
        assert (Hn3 : length (l_names st3) = length (l_names st)) by exact Hn1.
        assert (Hd3 : depth st3 = k) by (unfold depth in *; rewrite Hn3; exact Hd).
        pose proof (Hscan st3 content Hc3 (FS_ok _ _ Ef) Hd3) as Hs.
        destruct (scan_file st3 content) as [[[toks stop] st4] l].
        destruct Hs as [HQ1 Hs].
        destruct Hs as [(-> & Hc4 & Hn4) | (-> & He)]; [|split; [exact HQ1 | right; split; [reflexivity | exact He]]].
        set (st5 := add_ev (pop_open st4) (LvClose f)).
        assert (Hc5 : cond_ok st5) by (intros bol; apply Hc4).
        assert (Hn5 : length (l_names st5) = length (l_names st)) by (rewrite <- Hn3; exact Hn4).
        assert (Hd5 : depth st5 = k) by (unfold depth in *; rewrite Hn5; exact Hd).
        specialize (IH st5 l Hc5 Hd5).
        destruct (lex_files scan_file rest st5 l) as [[toks2 stop2] st6].
        unfold scan_ok in *. destruct IH as [HQ2 IH]. split; [apply Forall_app; split; assumption|].
        destruct IH as [(-> & Hc6 & Hn6) | (-> & He)]; [|right; split; [reflexivity | apply ends_error_app; exact He]].
        left. split; [reflexivity|]. split; [exact Hc6|]. rewrite Hn6. exact Hn5.
      + destruct (emit (add_ev (add_ev st1 (LvOpen f)) (LvClose f)) line TkError (Some (err_bad_include, Some f, line))) as [tk st2] eqn:Ee.
        pose proof (emit_tok (add_ev (add_ev st1 (LvOpen f)) (LvClose f)) line TkError (Some (err_bad_include, Some f, line))) as H. rewrite Ee in H.
        split; [constructor; [apply Q_err; apply H | constructor]|].
        right. split; [reflexivity|]. exists [], tk. split; [reflexivity | apply H].
      + destruct (emit st1 line TkError (Some (err_bad_include, Some f, line))) as [tk st2] eqn:Ee.
        pose proof (emit_tok st1 line TkError (Some (err_bad_include, Some f, line))) as H. rewrite Ee in H.
        split; [constructor; [apply Q_err; apply H | constructor]|].
        right. split; [reflexivity|]. exists [], tk. split; [reflexivity | apply H].
  Qed.

  (* ---- every nesting level ---- *)
  Lemma lex_depth_ok : forall d k st0 content,
    0 <= k <= max_depth -> k + Z.of_nat d = max_depth + 1 ->
    cond_ok st0 -> bytes_ok content -> depth st0 = k ->
    let '(toks, stop, st', l) := lex_depth d st0 content in scan_ok st0 toks stop st'.
  Proof.
    induction d as [|d IH]; intros k st0 content Hk Hsum Hc Hb Hd; [lia|].
    cbn [Lexer.lex_depth].
    apply (lex_buf_ok k (Some (lex_files (lex_depth d))) Hk); [|cbn [length b_rest]; lia | exact Hc | exact Hb | exact Hd].
    intros Hlt. exists (lex_files (lex_depth d)). split; [reflexivity|].
    apply (lex_files_ok (k + 1)); [lia|].
    intros st content' Hc' Hb' Hd'. apply (IH (k + 1)); try assumption; lia.
  Qed.
End LT.
