(* Properties_C14.v — C14: independent configurations can be used from different threads concurrently.
   PARTIAL: the model carries the non-interference argument at the level of whole API calls (sequentially
   consistent interleavings); it has no memory model.  Data races inside a call and inside libc are
   observed by the ThreadSanitizer build of harness/thr.c on every run.

   The argument has two halves:
   (1) C14_interleaving: if every operation reads and writes only the configuration object of the thread
       that performs it (plus read-only shared data), then under every schedule each thread gets exactly
       the results and the final object of its own program run alone — proved generically (Frame.v) and
       instantiated with the API model (api_step) and the read/write model (rw_step, where the shared file
       system is read-only unless a thread writes a file another one reads: each thread's state here is
       its own (file system view, configuration));
   (2) the premise is tied to the code by the census of writable objects with static storage duration that
       tools/gen_census.py regenerates from /repo on every run: the only one that any function writes is
       __libconfig_fatal_error_func, written only by libconfig_set_fatal_error_func (C14_no_shared_writes);
       the scanner is reentrant and the parser pure (no file-scope yy state: skel_reentrant, read by
       tools/gen_tables.py from scanner.c).
   Not covered: config_set_fatal_error_func itself (every C++ Config constructor calls it, writing the one
   process-wide pointer: objects must be constructed before the threads start, or the same value is
   written concurrently). *)
From Coq Require Import List String Bool ZArith.
Import ListNotations.
From LC Require Import Base Tree Api ApiStep Frame Lexer Reader WriteFile RwFacts.
From LC.gen Require Import Census ScannerTables.

(* (1) every schedule, every number of threads, every program: interleaved = alone *)
Theorem C14_interleaving_api : forall (sch : schedule aop) (cfgs : list cfg) i c,
  nth_error cfgs i = Some c ->
  let step := fun c o => let '(c', r, ev) := api_step c o in (c', (r, ev)) in
  let '(fin, rs) := run_sched cfg aop _ step cfgs sch in
  let '(fin_alone, rs_alone) := run_alone cfg aop _ step c (ops_of _ i sch) in
  nth_error fin i = Some fin_alone /\ results_of _ i rs = rs_alone.
Proof. intros sch cfgs i c H. exact (interleaving_is_alone cfg aop _ _ sch cfgs i c H). Qed.
Print Assumptions C14_interleaving_api.

Theorem C14_interleaving_rw : forall atof fmt (sch : schedule rwop) (sts : list (fs * cfg)) i st,
  nth_error sts i = Some st ->
  let step := fun st o => let '(f', c', res) := rw_step atof fmt st o in ((f', c'), res) in
  let '(fin, rs) := run_sched _ rwop _ step sts sch in
  let '(fin_alone, rs_alone) := run_alone _ rwop _ step st (ops_of _ i sch) in
  nth_error fin i = Some fin_alone /\ results_of _ i rs = rs_alone.
Proof. intros atof fmt sch sts i st H. exact (interleaving_is_alone _ rwop _ _ sch sts i st H). Qed.
Print Assumptions C14_interleaving_rw.

(* (2) the census of the current tree: no function other than libconfig_set_fatal_error_func writes any
   object with static storage duration *)
Theorem C14_no_shared_writes :
  forallb (fun o => forallb (fun w => String.eqb w "libconfig_set_fatal_error_func") (so_writers o)) static_objects = true
  /\ skel_reentrant = true.
Proof. split; vm_compute; reflexivity. Qed.
Print Assumptions C14_no_shared_writes.

(* non-vacuity: two threads, a schedule that alternates *)
Example C14_example :
  let step := fun c o => let '(c', r, ev) := api_step c o in (c', (r, ev)) in
  let sch := [(0%nat, OAdd [] (Some [97%Z]) 2%Z); (1%nat, OAdd [] (Some [98%Z]) 5%Z); (0%nat, OSet KInt [0%nat] (AZ 7%Z)); (1%nat, OLength [])] in
  let '(fin, _) := run_sched cfg aop _ step [cfg_init; cfg_init] sch in
  map (fun c => List.length (s_kids (c_root c))) fin = [1; 1]%nat.
Proof. reflexivity. Qed.
