(* Properties_C14.v — C14: independent configurations can be used from different threads concurrently.
   PARTIAL: the model carries the non-interference argument at the level of whole API calls (sequentially
   consistent interleavings); it has no memory model.  Data races inside a call and inside libc are
   observed by the ThreadSanitizer build of harness/thr.c on every run.

   The argument has two halves:
   (1) C14_interleaving: if every operation reads and writes only the configuration object of the thread
       that performs it (plus read-only shared data), then under every schedule each thread gets exactly
       the results and the final object of its own program run alone — proved generically (Frame.v) and
       instantiated with the API model (api_step) and the read/write model (rw_step, where the shared file
       system is read-only unless a thread writes a file another one reads: each thread's state here is
       its own (file system view, configuration));
   (2) the premise is tied to the code by the census of writable objects with static storage duration that
       tools/gen_census.py regenerates from /repo on every run: the only one that any function writes is
       __libconfig_fatal_error_func, written only by libconfig_set_fatal_error_func (C14_no_shared_writes);
       the scanner is reentrant and the parser pure (no file-scope yy state: skel_reentrant, read by
       tools/gen_tables.py from scanner.c).
   Not covered: config_set_fatal_error_func itself (every C++ Config constructor calls it, writing the one
   process-wide pointer: objects must be constructed before the threads start, or the same value is
   written concurrently). *)
From Coq Require Import List String Bool ZArith.
Import ListNotations.
From LC Require Import Base Tree Api ApiStep Frame Lexer Reader WriteFile RwFacts Locale ThreadLocale ThreadLocaleFacts.
From LC.gen Require Import Census ScannerTables.

(* (1) every schedule, every number of threads, every program: interleaved = alone *)
Theorem C14_interleaving_api : forall (sch : schedule aop) (cfgs : list cfg) i c,
  nth_error cfgs i = Some c ->
  let step := fun c o => let '(c', r, ev) := api_step c o in (c', (r, ev)) in
  let '(fin, rs) := run_sched cfg aop _ step cfgs sch in
  let '(fin_alone, rs_alone) := run_alone cfg aop _ step c (ops_of _ i sch) in
  nth_error fin i = Some fin_alone /\ results_of _ i rs = rs_alone.
Proof. intros sch cfgs i c H. exact (Frame.interleaving_is_alone cfg aop _ _ sch cfgs i c H). Qed.
Print Assumptions C14_interleaving_api.

Theorem C14_interleaving_rw : forall atof fmt (sch : schedule rwop) (sts : list (fs * cfg)) i st,
  nth_error sts i = Some st ->
  let step := fun st o => let '(f', c', res) := rw_step atof fmt st o in ((f', c'), res) in
  let '(fin, rs) := run_sched _ rwop _ step sts sch in
  let '(fin_alone, rs_alone) := run_alone _ rwop _ step st (ops_of _ i sch) in
  nth_error fin i = Some fin_alone /\ results_of _ i rs = rs_alone.
Proof. intros atof fmt sch sts i st H. exact (Frame.interleaving_is_alone _ rwop _ _ sch sts i st H). Qed.
Print Assumptions C14_interleaving_rw.

(* (2) the census of the current tree: no function other than libconfig_set_fatal_error_func writes any
   object with static storage duration *)
Theorem C14_no_shared_writes :
  forallb (fun o => forallb (fun w => String.eqb w "libconfig_set_fatal_error_func") (so_writers o)) static_objects = true
  /\ skel_reentrant = true.
Proof. split; vm_compute; reflexivity. Qed.
Print Assumptions C14_no_shared_writes.

(* non-vacuity: two threads, a schedule that alternates *)
Example C14_example :
  let step := fun c o => let '(c', r, ev) := api_step c o in (c', (r, ev)) in
  let sch := [(0%nat, OAdd [] (Some [97%Z]) 2%Z); (1%nat, OAdd [] (Some [98%Z]) 5%Z); (0%nat, OSet KInt [0%nat] (AZ 7%Z)); (1%nat, OLength [])] in
  let '(fin, _) := run_sched cfg aop _ step [cfg_init; cfg_init] sch in
  map (fun c => List.length (s_kids (c_root c))) fin = [1; 1]%nat.
Proof. reflexivity. Qed.


(* ------------------------------------------------------------------------------------------------------- *)
(* (3) finer than whole calls: the one piece of state a read or a write shares with the rest of the process  *)
(* is the locale.  ThreadLocale.v: N threads, micro-steps Enter (newlocale + uselocale on the calling        *)
(* thread, on a shared identity counter; newlocale may fail) / Run (the body under the radix character in     *)
(* effect for THAT thread) / Leave (uselocale(previous) + freelocale), any schedule of micro-steps.           *)
(* ------------------------------------------------------------------------------------------------------- *)

(* every thread that has finished its program has exactly the results, the radix log, the data, the thread locale and
   the global locale of its program run alone (folding Locale.with_locale), whatever the others did in between *)
Theorem C14_locale_interleaving : forall (D R : Type) g n0 f0 (sps : list (tspec D R)) sched i sp,
  nth_error sps i = Some sp ->
  let m := run_machine sched (init_machine g n0 f0 sps) in
  exists th, nth_error (m_threads m) i = Some th /\
    (finished th ->
     let '((rs, zs, d), s) := alone (mkLoc g (ts_loc sp) n0 f0) (ts_data sp) (ts_prog sp) in
     t_res th = rs /\ t_rad th = zs /\ t_data th = d /\
     t_loc th = ls_thread s /\ m_global m = ls_global s /\
     eff_radix (view m th) = eff_radix s).
Proof. exact interleaving_is_alone_finished. Qed.
Print Assumptions C14_locale_interleaving.

(* ... and at every point of every schedule, for the calls completed so far *)
Theorem C14_locale_interleaving_prefix : forall (D R : Type) g n0 f0 (sps : list (tspec D R)) sched i sp,
  nth_error sps i = Some sp ->
  let m := run_machine sched (init_machine g n0 f0 sps) in
  exists th, nth_error (m_threads m) i = Some th /\
    let k := List.length (t_res th) in
    let '((rs, zs, d), s) := alone (mkLoc g (ts_loc sp) n0 f0) (ts_data sp) (firstn k (ts_prog sp)) in
    t_res th = rs /\ t_rad th = zs /\ t_data th = d /\
    m_global m = ls_global s /\ (t_phase th = Idle -> t_loc th = ls_thread s).
Proof. exact ThreadLocaleFacts.interleaving_is_alone. Qed.
Print Assumptions C14_locale_interleaving_prefix.

(* every body whose newlocale succeeded runs under '.', whatever the global locale, the thread's own locale and the other
   threads are doing *)
Theorem C14_bodies_run_under_dot : forall (D R : Type) g n0 f0 (sps : list (tspec D R)) sched i sp th k c z,
  nth_error sps i = Some sp ->
  nth_error (m_threads (run_machine sched (init_machine g n0 f0 sps))) i = Some th ->
  nth_error (ts_prog sp) k = Some c -> nth_error (t_rad th) k = Some z ->
  z = if c_ok c then 46%Z else match ts_loc sp with Some l => lo_radix l | None => lo_radix g end.
Proof. exact bodies_run_under_dot. Qed.
Print Assumptions C14_bodies_run_under_dot.

(* whenever no thread is inside a call: the global locale and every thread's locale are the initial ones, and the locale
   objects created so far have been freed exactly once each (none of the caller's objects) *)
Theorem C14_locale_restored : forall (D R : Type) g n0 f0 (sps : list (tspec D R)) sched,
  let m := run_machine sched (init_machine g n0 f0 sps) in
  quiescent m ->
  m_global m = g /\
  List.length (m_threads m) = List.length sps /\
  (forall i sp, nth_error sps i = Some sp ->
     exists th, nth_error (m_threads m) i = Some th /\ t_loc th = ts_loc sp) /\
  exists F, m_freed m = (f0 ++ F)%list /\
    Permutation.Permutation F (created n0 (m_next m)) /\ NoDup F /\
    (forall id, In id F <-> (n0 <= id < m_next m)%Z) /\
    (forall id, (id < n0)%Z -> ~ In id F).
Proof. exact restoration_under_interleaving. Qed.
Print Assumptions C14_locale_restored.

Theorem C14_finishing_schedule_exists : forall (D R : Type) g n0 f0 (sps : list (tspec D R)),
  exists sched, all_finished (run_machine sched (init_machine g n0 f0 sps)).
Proof. exact finishing_schedule_exists. Qed.

(* a process-wide switch (setlocale) instead of the per-thread one is NOT safe: a schedule of two threads on which a body
   runs under ',' although its own switch succeeded, and the global locale ends up changed; the same schedule on the
   per-thread machine is fine.  Non-vacuity: three threads, one with a comma locale of its own, two failing newlocale *)
Example C14_global_switch_refuted :
  let m := grun_machine Examples.sched2 (init_machine Examples.de_DE 10 [] Examples.two) in
  map t_rad (m_threads m) = [[46]; [44]]%Z /\ lo_radix (m_global m) <> lo_radix Examples.de_DE /\
  let m' := run_machine Examples.sched2 (init_machine Examples.de_DE 10 [] Examples.two) in
  map t_rad (m_threads m') = [[46]; [46]]%Z /\ m_global m' = Examples.de_DE /\ m_freed m' = [10; 11]%Z.
Proof. vm_compute. repeat split; discriminate. Qed.
