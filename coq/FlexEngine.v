(* FlexEngine.v — Gallina transcription of flex's generated matching loop (scanner.c: yy_match /
   yy_get_previous_state / yy_try_NUL_trans), generic in the tables.  Definitions only. *)
From Coq Require Import List ZArith Bool.
Import ListNotations.
From LC Require Import Base.
Local Open Scope Z_scope.

Record tables := mkTables {
  t_accept : list Z; t_ec : list Z; t_meta : list Z; t_base : list Z; t_def : list Z;
  t_nxt : list Z; t_chk : list Z; t_jam : Z; t_nstates : Z; t_nul_class : Z }.

Definition nthZ (l : list Z) (i : Z) : Z :=
  if i <? 0 then (-1) else nth (Z.to_nat i) l (-1).

Section Engine.
  Variable T : tables.

  (* equivalence class of an input byte; a NUL inside the buffer is given class t_nul_class *)
  Definition class_of (b : Z) : Z := if b =? 0 then t_nul_class T else nthZ (t_ec T) b.

  (* the default chain: while (yy_chk[yy_base[s] + c] != s) { s = yy_def[s]; if (s >= NSTATES) c = yy_meta[c]; } *)
  Fixpoint chain (fuel : nat) (s c : Z) : Z * Z :=
    match fuel with
    | O => (s, c)
    | S f =>
        if nthZ (t_chk T) (nthZ (t_base T) s + c) =? s then (s, c)
        else
          let s' := nthZ (t_def T) s in
          let c' := if t_nstates T <=? s' then nthZ (t_meta T) c else c in
          chain f s' c'
    end.

  Definition chain_fuel : nat := S (length (t_def T)).

  Definition next_state (s c : Z) : Z :=
    let '(s', c') := chain chain_fuel s c in nthZ (t_nxt T) (nthZ (t_base T) s' + c').

  Definition step_byte (s b : Z) : Z := next_state s (class_of b).

  Definition accept_of (s : Z) : Z := nthZ (t_accept T) s.

  (* run the automaton from state s having consumed n bytes; [last] = last accepting (rule, length)
     recorded so far.  Returns the (rule, length) flex acts on. *)
  Fixpoint run (s : Z) (n : nat) (last : option (Z * nat)) (bs : bytes) : option (Z * nat) :=
    let last' := if accept_of s =? 0 then last else Some (accept_of s, n) in
    match bs with
    | [] => last'
    | b :: r =>
        let s' := step_byte s b in
        if s' =? t_jam T then last' else run s' (S n) last' r
    end.

  (* start state: yy_start + YY_AT_BOL(), yy_start = 1 + 2 * sc *)
  Definition start_state (sc : Z) (bol : bool) : Z := 1 + 2 * sc + (if bol then 1 else 0).

  Definition flex_match (sc : Z) (bol : bool) (bs : bytes) : option (Z * nat) :=
    run (start_state sc bol) O None bs.
End Engine.
