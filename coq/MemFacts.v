(* MemFacts.v — every index the three growing buffers of MemModel.v touch lies inside the allocation it indexes, for
   every history of operations from the initial state (lemmas behind Properties_C03): the invariants of the capacity
   arithmetic, the no-wrap guard of the string buffer stated explicitly, and what happens without it. *)
From Coq Require Import List ZArith Bool Lia.
Import ListNotations.
From LC Require Import Base MemModel.
From LC.gen Require Import Consts.
Local Open Scope Z_scope.

(* ---- the constants ---- *)
Lemma WORD_val : WORD = 18446744073709551616. Proof. reflexivity. Qed.
Lemma block_val : STRING_BLOCK_SIZE = 2 ^ 6. Proof. reflexivity. Qed.
Lemma block_pos : 0 < STRING_BLOCK_SIZE. Proof. reflexivity. Qed.
Lemma svchunk_pos : 0 < STRVEC_CHUNK_SIZE. Proof. reflexivity. Qed.
Lemma lschunk_pos : 0 < LIST_CHUNK_SIZE. Proof. reflexivity. Qed.
Lemma sb_mask_val : sb_mask = Z.shiftl (Z.ones 58) 6. Proof. reflexivity. Qed.

(* the block size is a power of two: and-ing with ~(block - 1) rounds down to a multiple of the block *)
Lemma land_high_bits x : 0 <= x < 2 ^ 64 -> Z.land x (Z.shiftl (Z.ones 58) 6) = Z.shiftl (Z.shiftr x 6) 6.
Proof.
  intros Hx. apply Z.bits_inj'. intros i Hi. rewrite Z.land_spec.
  destruct (Z.lt_ge_cases i 6) as [Hlt | Hge].
  - rewrite !Z.shiftl_spec_low by lia. apply andb_false_r.
  - rewrite !Z.shiftl_spec by lia. rewrite Z.shiftr_spec by lia. replace (i - 6 + 6) with i by lia.
    destruct (Z.lt_ge_cases (i - 6) 58) as [Hlo | Hhi].
    + rewrite Z.ones_spec_low by lia. apply andb_true_r.
    + rewrite Z.ones_spec_high by lia. rewrite andb_false_r. symmetry.
      apply Z.testbit_false; [lia|]. rewrite Z.div_small; [reflexivity|].
      split; [lia|]. apply Z.lt_le_trans with (2 ^ 64); [lia | apply Z.pow_le_mono_r; lia].
Qed.

Lemma mask_round x : 0 <= x < WORD -> Z.land x sb_mask = STRING_BLOCK_SIZE * (x / STRING_BLOCK_SIZE).
Proof.
  intros Hx. rewrite sb_mask_val, land_high_bits by exact Hx.
  rewrite Z.shiftl_mul_pow2, Z.shiftr_div_pow2 by lia. rewrite block_val. apply Z.mul_comm.
Qed.

(* ---- the string buffer ---- *)
(* the no-wrap guard: the bytes in the buffer after the step stay below 2^64 - 2 * block *)
Definition SB_LIMIT : Z := WORD - 2 * STRING_BLOCK_SIZE.

Definition sb_ok (b : sbuf) : Prop :=
  0 <= sb_len b /\ 0 <= sb_cap b < WORD /\ sb_cap b mod STRING_BLOCK_SIZE = 0 /\
  (0 < sb_cap b -> sb_len b + 1 <= sb_cap b) /\ (sb_cap b = 0 -> sb_len b = 0).

Lemma sb_ensure_ok b l : sb_ok b -> 0 <= l -> sb_len b + l < SB_LIMIT ->
  let '(b1, rq) := sb_ensure b l in
  sb_len b1 = sb_len b /\ sb_len b + l + 1 <= sb_cap b1 /\ 0 <= sb_cap b1 < WORD /\ sb_cap b1 mod STRING_BLOCK_SIZE = 0 /\
  match rq with Some n => n = sb_cap b1 | None => sb_cap b1 = sb_cap b end.
Proof.
  intros (H1 & H2 & H3 & H4 & H5) Hl Hg. unfold sb_ensure, SB_LIMIT in *. rewrite WORD_val in *.
  assert (Hb : STRING_BLOCK_SIZE = 64) by reflexivity.
  assert (Hw : wrap (sb_len b + l + 1) = sb_len b + l + 1) by (unfold wrap; rewrite WORD_val; apply Z.mod_small; lia).
  rewrite Hw. destruct (sb_cap b <? sb_len b + l + 1) eqn:Hc.
  - cbn [sb_len sb_cap].
    assert (Hw2 : wrap (sb_len b + l + 1 + (STRING_BLOCK_SIZE - 1)) = sb_len b + l + 1 + (STRING_BLOCK_SIZE - 1))
      by (unfold wrap; rewrite WORD_val; apply Z.mod_small; lia).
    rewrite Hw2, mask_round by (rewrite WORD_val; lia).
    set (y := sb_len b + l + 1 + (STRING_BLOCK_SIZE - 1)).
    pose proof (Z.div_mod y STRING_BLOCK_SIZE ltac:(lia)) as Hd. pose proof (Z.mod_pos_bound y STRING_BLOCK_SIZE ltac:(lia)) as Hm.
    assert (Hy : y = sb_len b + l + 1 + 63) by (unfold y; lia).
    split; [reflexivity|]. split; [lia|]. split; [lia|]. split; [rewrite Z.mul_comm; apply Z.mod_mul; lia | reflexivity].
  - apply Z.ltb_ge in Hc. repeat split; try lia; assumption.
Qed.

Definition sb_guard (b : sbuf) (o : mop) : bool :=
  match o with
  | SbString len => (0 <=? len) && (sb_len b + len <? SB_LIMIT)
  | SbChar => sb_len b + 1 <? SB_LIMIT
  | _ => true
  end.

Lemma wrap_small z : 0 <= z < WORD -> wrap z = z.
Proof. intros H. apply Z.mod_small. exact H. Qed.

Lemma limit_lt_word : SB_LIMIT < WORD. Proof. reflexivity. Qed.

Lemma sb_string_ok b len : sb_ok b -> sb_guard b (SbString len) = true ->
  sb_ok (fst (sb_string b len)) /\ in_bounds (snd (sb_string b len)) = true /\
  sb_len (fst (sb_string b len)) = sb_len b + len /\
  match mo_realloc (snd (sb_string b len)) with Some n => n = sb_cap (fst (sb_string b len)) | None => sb_cap (fst (sb_string b len)) = sb_cap b end.
Proof.
  intros Hok Hg. cbn [sb_guard] in Hg. apply andb_true_iff in Hg as [Hg1 Hg2]. apply Z.leb_le in Hg1. apply Z.ltb_lt in Hg2.
  pose proof limit_lt_word as HL. destruct Hok as (H1 & Hrest).
  unfold sb_string. rewrite (wrap_small len) by lia.
  pose proof (sb_ensure_ok b len (conj H1 Hrest) Hg1 Hg2) as He. destruct (sb_ensure b len) as [b1 rq].
  destruct He as (E1 & E2 & E3 & E4 & E5). cbn [fst snd mo_realloc]. rewrite (wrap_small (sb_len b + len)) by lia.
  split; [|split; [|split; [reflexivity | exact E5]]].
  - unfold sb_ok. cbn [sb_len sb_cap]. repeat split; try lia; assumption.
  - unfold in_bounds. cbn [mo_fault mo_touch negb andb]. apply andb_true_iff. split; [apply Z.leb_le | apply Z.ltb_lt]; lia.
Qed.

Lemma sb_char_ok b : sb_ok b -> sb_guard b SbChar = true ->
  sb_ok (fst (sb_char b)) /\ in_bounds (snd (sb_char b)) = true /\
  sb_len (fst (sb_char b)) = sb_len b + 1 /\
  match mo_realloc (snd (sb_char b)) with Some n => n = sb_cap (fst (sb_char b)) | None => sb_cap (fst (sb_char b)) = sb_cap b end.
Proof.
  intros Hok Hg. cbn [sb_guard] in Hg. apply Z.ltb_lt in Hg.
  pose proof limit_lt_word as HL. destruct Hok as (H1 & Hrest).
  unfold sb_char.
  pose proof (sb_ensure_ok b 1 (conj H1 Hrest) ltac:(lia) Hg) as He. destruct (sb_ensure b 1) as [b1 rq].
  destruct He as (E1 & E2 & E3 & E4 & E5). cbn [fst snd mo_realloc]. rewrite (wrap_small (sb_len b + 1)) by lia.
  split; [|split; [|split; [reflexivity | exact E5]]].
  - unfold sb_ok. cbn [sb_len sb_cap]. repeat split; try lia; assumption.
  - unfold in_bounds. cbn [mo_fault mo_touch negb andb]. apply andb_true_iff. split; [apply Z.leb_le | apply Z.ltb_lt]; lia.
Qed.

Lemma sb_release_ok b : sb_ok (fst (sb_release b)) /\ in_bounds (snd (sb_release b)) = true.
Proof. split; [|reflexivity]. unfold sb_ok. cbn. rewrite ?WORD_val. repeat split; try lia; reflexivity. Qed.

(* ---- the string vector ---- *)
Definition sv_ok (v : svec) : Prop :=
  0 <= sv_len v <= sv_cap v /\
  ((sv_cap v = 0 /\ sv_alloc v = 0) \/ (0 < sv_cap v /\ sv_alloc v = sv_cap v + 1)).

Lemma sv_append_ok v : sv_ok v ->
  sv_ok (fst (sv_append v)) /\ in_bounds (snd (sv_append v)) = true /\
  match mo_realloc (snd (sv_append v)) with
  | Some n => n = sv_alloc (fst (sv_append v)) * PTR_SIZE
  | None => sv_alloc (fst (sv_append v)) = sv_alloc v
  end.
Proof.
  intros (H1 & H2). pose proof svchunk_pos as Hc. unfold sv_append.
  destruct (sv_len v =? sv_cap v) eqn:E; cbn [fst snd mo_realloc].
  - apply Z.eqb_eq in E. split; [|split; [|reflexivity]].
    + unfold sv_ok. cbn [sv_len sv_cap sv_alloc]. split; [lia|]. right. split; lia.
    + unfold in_bounds. cbn [mo_fault mo_touch negb andb]. apply andb_true_iff. split; [apply Z.leb_le | apply Z.ltb_lt]; lia.
  - apply Z.eqb_neq in E. split; [|split; [|reflexivity]].
    + unfold sv_ok. cbn [sv_len sv_cap sv_alloc]. split; [lia|]. destruct H2 as [[A B] | [A B]]; [lia | right; split; assumption].
    + unfold in_bounds. cbn [mo_fault mo_touch negb andb]. apply andb_true_iff. split; [apply Z.leb_le | apply Z.ltb_lt]; destruct H2 as [[A B] | [A B]]; lia.
Qed.

Lemma sv_release_ok v : sv_ok v -> sv_ok (fst (sv_release v)) /\ in_bounds (snd (sv_release v)) = true.
Proof.
  intros (H1 & H2). unfold sv_release. cbn [fst snd]. split; [unfold sv_ok; cbn; split; [lia | left; auto]|].
  unfold in_bounds. cbn [mo_fault mo_touch negb andb]. destruct (sv_alloc v =? 0) eqn:E; [reflexivity|]. apply Z.eqb_neq in E.
  apply andb_true_iff. split; [apply Z.leb_le | apply Z.ltb_lt]; destruct H2 as [[A B] | [A B]]; lia.
Qed.

(* ---- the element list ---- *)
Definition ls_ok (l : elist) : Prop := 0 <= ls_len l <= ls_alloc l /\ ls_alloc l mod LIST_CHUNK_SIZE = 0.

Lemma ls_add_ok l : ls_ok l ->
  ls_ok (fst (ls_add l)) /\ in_bounds (snd (ls_add l)) = true /\
  match mo_realloc (snd (ls_add l)) with
  | Some n => n = ls_alloc (fst (ls_add l)) * PTR_SIZE
  | None => ls_alloc (fst (ls_add l)) = ls_alloc l
  end.
Proof.
  intros (H1 & H2). pose proof lschunk_pos as Hc. unfold ls_add.
  destruct (ls_len l mod LIST_CHUNK_SIZE =? 0) eqn:E; cbn [fst snd mo_realloc].
  - apply Z.eqb_eq in E. split; [|split; [|reflexivity]].
    + unfold ls_ok. cbn [ls_len ls_alloc]. split; [lia|].
      rewrite Z.add_mod, E, Z.mod_same, Z.add_0_l, Z.mod_0_l by lia. reflexivity.
    + unfold in_bounds. cbn [mo_fault mo_touch negb andb]. apply andb_true_iff. split; [apply Z.leb_le | apply Z.ltb_lt]; lia.
  - apply Z.eqb_neq in E.
    assert (Hlt : ls_len l < ls_alloc l).
    { destruct (Z.eq_dec (ls_len l) (ls_alloc l)) as [Eq | Ne]; [rewrite Eq in E; contradiction | lia]. }
    split; [|split; [|reflexivity]].
    + unfold ls_ok. cbn [ls_len ls_alloc]. split; [lia | exact H2].
    + unfold in_bounds. cbn [mo_fault mo_touch negb andb]. apply andb_true_iff. split; [apply Z.leb_le | apply Z.ltb_lt]; lia.
Qed.

Definition ls_guard (l : elist) (o : mop) : bool :=
  match o with LsRemove idx => (0 <=? idx) && (idx <? ls_len l) | _ => true end.

Lemma ls_remove_ok l idx : ls_ok l -> ls_guard l (LsRemove idx) = true ->
  ls_ok (fst (ls_remove l idx)) /\ in_bounds (snd (ls_remove l idx)) = true /\
  mo_realloc (snd (ls_remove l idx)) = None /\ ls_alloc (fst (ls_remove l idx)) = ls_alloc l /\
  (* the slot read and the slots moved lie below the highest slot reported *)
  match mo_touch (snd (ls_remove l idx)) with Some (i, _) => idx <= i | None => False end.
Proof.
  intros (H1 & H2) Hg. cbn [ls_guard] in Hg. unfold ls_remove. rewrite Hg. apply andb_true_iff in Hg as [G1 G2].
  apply Z.leb_le in G1. apply Z.ltb_lt in G2. cbn [fst snd mo_realloc mo_touch].
  split; [unfold ls_ok; cbn [ls_len ls_alloc]; split; [lia | exact H2]|].
  split; [|split; [reflexivity | split; [reflexivity | lia]]].
  unfold in_bounds. cbn [mo_fault mo_touch negb andb]. apply andb_true_iff. split; [apply Z.leb_le | apply Z.ltb_lt]; lia.
Qed.

(* ---- all three ---- *)
Definition m_ok (s : mstate) : Prop := sb_ok (m_sb s) /\ sv_ok (m_sv s) /\ ls_ok (m_ls s).

Definition guard (s : mstate) (o : mop) : bool := sb_guard (m_sb s) o && ls_guard (m_ls s) o.

Fixpoint guards (s : mstate) (ops : list mop) : bool :=
  match ops with
  | [] => true
  | o :: r => guard s o && guards (fst (mstep s o)) r
  end.

Lemma m0_ok : m_ok m0.
Proof.
  unfold m_ok, m0, sb_ok, sv_ok, ls_ok. cbn. rewrite ?WORD_val. repeat split; try lia; try reflexivity.
Qed.

Theorem mstep_safe s o : m_ok s -> guard s o = true -> m_ok (fst (mstep s o)) /\ in_bounds (snd (mstep s o)) = true.
Proof.
  intros (Hb & Hv & Hl) Hg. unfold guard in Hg. apply andb_true_iff in Hg as [Gb Gl]. unfold mstep, m_ok.
  destruct o as [len| | | | | |idx].
  - destruct (sb_string_ok (m_sb s) len Hb Gb) as (A & B & _). destruct (sb_string (m_sb s) len) as [b out]. cbn [fst snd m_sb m_sv m_ls] in *. auto.
  - destruct (sb_char_ok (m_sb s) Hb Gb) as (A & B & _). destruct (sb_char (m_sb s)) as [b out]. cbn [fst snd m_sb m_sv m_ls] in *. auto.
  - destruct (sb_release_ok (m_sb s)) as (A & B). destruct (sb_release (m_sb s)) as [b out]. cbn [fst snd m_sb m_sv m_ls] in *. auto.
  - destruct (sv_append_ok (m_sv s) Hv) as (A & B & _). destruct (sv_append (m_sv s)) as [v out]. cbn [fst snd m_sb m_sv m_ls] in *. auto.
  - destruct (sv_release_ok (m_sv s) Hv) as (A & B). destruct (sv_release (m_sv s)) as [v out]. cbn [fst snd m_sb m_sv m_ls] in *. auto.
  - destruct (ls_add_ok (m_ls s) Hl) as (A & B & _). destruct (ls_add (m_ls s)) as [l out]. cbn [fst snd m_sb m_sv m_ls] in *. auto.
  - destruct (ls_remove_ok (m_ls s) idx Hl Gl) as (A & B & _). destruct (ls_remove (m_ls s) idx) as [l out]. cbn [fst snd m_sb m_sv m_ls] in *. auto.
Qed.

Lemma mrun_cons s o r : mrun s (o :: r) = (fst (mrun (fst (mstep s o)) r), snd (mstep s o) :: snd (mrun (fst (mstep s o)) r)).
Proof. cbn [mrun]. destruct (mstep s o) as [s1 out]. cbn [fst snd]. destruct (mrun s1 r) as [s2 outs]. reflexivity. Qed.

Theorem mrun_safe : forall ops s, m_ok s -> guards s ops = true ->
  m_ok (fst (mrun s ops)) /\ Forall (fun out => in_bounds out = true) (snd (mrun s ops)).
Proof.
  induction ops as [|o r IH]; intros s Hok Hg; [split; [exact Hok | constructor]|].
  cbn [guards] in Hg. apply andb_true_iff in Hg as [G1 G2]. destruct (mstep_safe s o Hok G1) as [Hok1 Hb].
  destruct (IH _ Hok1 G2) as [Hok2 Hf]. rewrite mrun_cons. cbn [fst snd]. split; [exact Hok2 | constructor; assumption].
Qed.

(* every index touched by every step of every guarded history lies inside the allocation it indexes *)
Theorem mem_safe : forall ops, guards m0 ops = true -> Forall (fun out => in_bounds out = true) (snd (mrun m0 ops)).
Proof. intros ops Hg. exact (proj2 (mrun_safe ops m0 m0_ok Hg)). Qed.

(* the invariants after every guarded history *)
Theorem strbuf_invariant ops : guards m0 ops = true ->
  let b := m_sb (fst (mrun m0 ops)) in
  sb_cap b mod STRING_BLOCK_SIZE = 0 /\ 0 <= sb_cap b < WORD /\ (0 < sb_cap b -> sb_len b + 1 <= sb_cap b) /\ (sb_cap b = 0 -> sb_len b = 0).
Proof. intros Hg. destruct (proj1 (mrun_safe ops m0 m0_ok Hg)) as ((H1 & H2 & H3 & H4 & H5) & _). cbv zeta. auto. Qed.

Theorem strvec_invariant ops : guards m0 ops = true ->
  let v := m_sv (fst (mrun m0 ops)) in
  0 <= sv_len v <= sv_cap v /\ (0 < sv_cap v -> sv_alloc v = sv_cap v + 1) /\ (sv_cap v = 0 -> sv_alloc v = 0).
Proof.
  intros Hg. destruct (proj1 (mrun_safe ops m0 m0_ok Hg)) as (_ & (H1 & H2) & _). cbv zeta.
  split; [exact H1|]. split; intros H; destruct H2 as [[A B] | [A B]]; lia.
Qed.

Theorem list_invariant ops : guards m0 ops = true ->
  let l := m_ls (fst (mrun m0 ops)) in 0 <= ls_len l <= ls_alloc l /\ ls_alloc l mod LIST_CHUNK_SIZE = 0.
Proof. intros Hg. destruct (proj1 (mrun_safe ops m0 m0_ok Hg)) as (_ & _ & H). exact H. Qed.

(* the allocation a step indexes is the one the last realloc request produced: a step that calls realloc asks for
   exactly the new allocation, a step that does not leaves the allocation as it is *)
Definition alloc_bytes (s : mstate) (o : mop) : Z :=
  match o with
  | SbString _ | SbChar | SbRelease => sb_cap (m_sb s)
  | SvAppend | SvRelease => sv_alloc (m_sv s) * PTR_SIZE
  | LsAdd | LsRemove _ => ls_alloc (m_ls s) * PTR_SIZE
  end.

Theorem realloc_tracks s o : m_ok s -> guard s o = true ->
  match mo_realloc (snd (mstep s o)) with
  | Some n => alloc_bytes (fst (mstep s o)) o = n
  | None => alloc_bytes (fst (mstep s o)) o = alloc_bytes s o \/ alloc_bytes (fst (mstep s o)) o = 0
  end.
Proof.
  intros (Hb & Hv & Hl) Hg. unfold guard in Hg. apply andb_true_iff in Hg as [Gb Gl]. unfold mstep, alloc_bytes.
  destruct o as [len| | | | | |idx].
  - destruct (sb_string_ok (m_sb s) len Hb Gb) as (_ & _ & _ & C). destruct (sb_string (m_sb s) len) as [b out]. cbn [fst snd m_sb] in *.
    destruct (mo_realloc out); [symmetry; exact C | left; exact C].
  - destruct (sb_char_ok (m_sb s) Hb Gb) as (_ & _ & _ & C). destruct (sb_char (m_sb s)) as [b out]. cbn [fst snd m_sb] in *.
    destruct (mo_realloc out); [symmetry; exact C | left; exact C].
  - cbn. right. reflexivity.
  - destruct (sv_append_ok (m_sv s) Hv) as (_ & _ & C). destruct (sv_append (m_sv s)) as [v out]. cbn [fst snd m_sv] in *.
    destruct (mo_realloc out); [symmetry; exact C | left; rewrite C; reflexivity].
  - cbn. right. reflexivity.
  - destruct (ls_add_ok (m_ls s) Hl) as (_ & _ & C). destruct (ls_add (m_ls s)) as [l out]. cbn [fst snd m_ls] in *.
    destruct (mo_realloc out); [symmetry; exact C | left; rewrite C; reflexivity].
  - destruct (ls_remove_ok (m_ls s) idx Hl Gl) as (_ & _ & C1 & C2 & _). destruct (ls_remove (m_ls s) idx) as [l out]. cbn [fst snd m_ls] in *.
    rewrite C1. left. rewrite C2. reflexivity.
Qed.

(* ---- a guard in terms of the bytes appended ---- *)
Definition appended (o : mop) : Z := match o with SbString len => len | SbChar => 1 | _ => 0 end.
Definition nonneg_len (o : mop) : bool := match o with SbString len => 0 <=? len | _ => true end.
Fixpoint ls_guards (s : mstate) (ops : list mop) : bool :=
  match ops with [] => true | o :: r => ls_guard (m_ls s) o && ls_guards (fst (mstep s o)) r end.

Lemma sb_len_step s o : m_ok s -> guard s o = true -> sb_len (m_sb (fst (mstep s o))) <= sb_len (m_sb s) + appended o.
Proof.
  intros (Hb & Hv & Hl) Hg. unfold guard in Hg. apply andb_true_iff in Hg as [Gb Gl]. unfold mstep.
  destruct o as [len| | | | | |idx]; cbn [appended].
  - destruct (sb_string_ok (m_sb s) len Hb Gb) as (_ & _ & C & _). destruct (sb_string (m_sb s) len) as [b out]. cbn [fst snd m_sb] in *. lia.
  - destruct (sb_char_ok (m_sb s) Hb Gb) as (_ & _ & C & _). destruct (sb_char (m_sb s)) as [b out]. cbn [fst snd m_sb] in *. lia.
  - cbn. destruct Hb. lia.
  - destruct (sv_append (m_sv s)) as [v out]. cbn. lia.
  - destruct (sv_release (m_sv s)) as [v out]. cbn. lia.
  - destruct (ls_add (m_ls s)) as [l out]. cbn. lia.
  - destruct (ls_remove (m_ls s) idx) as [l out]. cbn. lia.
Qed.

(* if fewer than 2^64 - 2 * block bytes are appended in all (and the removes are in range), the guard holds at
   every step *)
Theorem guards_of_total : forall ops s, m_ok s ->
  forallb nonneg_len ops = true -> sb_len (m_sb s) + fold_right (fun o acc => appended o + acc) 0 ops < SB_LIMIT ->
  ls_guards s ops = true -> guards s ops = true.
Proof.
  induction ops as [|o r IH]; intros s Hok Hn Ht Hl; [reflexivity|].
  cbn [forallb] in Hn. apply andb_true_iff in Hn as [N1 N2]. cbn [fold_right] in Ht. cbn [ls_guards] in Hl. apply andb_true_iff in Hl as [L1 L2].
  assert (Hrest : 0 <= fold_right (fun o acc => appended o + acc) 0 r).
  { clear -N2. induction r as [|x r IH]; [cbn; lia|]. cbn [forallb] in N2. apply andb_true_iff in N2 as [A B]. cbn [fold_right].
    specialize (IH B). destruct x; cbn [appended nonneg_len] in *; lia. }
  assert (G : guard s o = true).
  { unfold guard. rewrite L1, andb_true_r. destruct o as [len| | | | | |idx]; cbn [sb_guard appended nonneg_len] in *; try reflexivity.
    - rewrite N1. apply Z.ltb_lt. lia.
    - apply Z.ltb_lt. lia. }
  cbn [guards]. rewrite G. cbn [andb]. destruct (mstep_safe s o Hok G) as [Hok1 _]. pose proof (sb_len_step s o Hok G) as Hs.
  apply IH; [exact Hok1 | exact N2 | lia | exact L2].
Qed.

(* ---- examples ---- *)
(* a history that crosses the boundaries: 70 bytes, a release, chars; 33 vector appends and a release; the element
   list grown to 33, cut down to 16 and grown again (the realloc then shrinks the block from 48 slots to 32) *)
Definition ex_ops : list mop :=
  [SbString 63; SbChar; SbString 6; SbRelease; SbChar; SbString 0] ++
  repeat SvAppend 33 ++ [SvRelease; SvRelease; SvAppend] ++
  repeat LsAdd 33 ++ repeat (LsRemove 0) 17 ++ [LsAdd; LsRemove 16; LsRemove 0].

Example ex_guards : guards m0 ex_ops = true.
Proof. vm_compute. reflexivity. Qed.

Example ex_in_bounds : forallb in_bounds (snd (mrun m0 ex_ops)) = true.
Proof. vm_compute. reflexivity. Qed.

Example ex_shrink :
  map mo_realloc (snd (mrun m0 (repeat LsAdd 33 ++ repeat (LsRemove 0) 17 ++ [LsAdd]))) =
  [Some 128] ++ repeat None 15 ++ [Some 256] ++ repeat None 15 ++ [Some 384] ++ repeat None 17 ++ [Some 256].
Proof. vm_compute. reflexivity. Qed.

Example ex_strbuf_caps :
  map (fun o => (mo_realloc o, mo_touch o)) (snd (mrun m0 [SbString 63; SbChar; SbString 6; SbRelease; SbChar])) =
  [(Some 64, Some (63, 64)); (Some 128, Some (64, 128)); (None, Some (70, 128)); (None, None); (Some 64, Some (1, 64))].
Proof. vm_compute. reflexivity. Qed.

(* without the guard the size_t arithmetic wraps: a string of 2^64 - 2 bytes asks realloc for 0 bytes and writes far
   outside; and near the top a second append wraps the new length to a small number *)
Example strbuf_wrap_refuted :
  guards m0 [SbString (WORD - 2)] = false /\
  snd (mstep m0 (SbString (WORD - 2))) = mkOut (Some 0) (Some (WORD - 2, 0)) false /\
  in_bounds (snd (mstep m0 (SbString (WORD - 2)))) = false.
Proof. vm_compute. auto. Qed.

Example strbuf_wrap_refuted_2 :
  guards m0 [SbString (WORD - 130)] = true /\ guards m0 [SbString (WORD - 130); SbString 100] = false /\
  map (fun o => (mo_realloc o, in_bounds o)) (snd (mrun m0 [SbString (WORD - 130); SbString 100])) =
  [(Some (WORD - 128), true); (Some 0, false)].
Proof. vm_compute. auto. Qed.

(* an out-of-range remove is the distinguished result *)
Example remove_out_of_range : snd (mstep m0 (LsRemove 0)) = mkOut None None true /\ guards m0 [LsRemove 0] = false.
Proof. vm_compute. auto. Qed.

(* the script runner *)
Example ex_script :
  run_mem_script [115;115;32;55;48;10; 115;99;10; 115;114;10; 118;97;10; 118;114;10; 108;97;10; 108;114;32;48;10; 108;114;32;48;10]
  (* "ss 70\nsc\nsr\nva\nvr\nla\nlr 0\nlr 0\n" *) =
  [77;32;55;48;32;49;50;56;32;49;50;56;10;      (* M 70 128 128 *)
   77;32;55;49;32;49;50;56;32;48;10;            (* M 71 128 0 *)
   77;32;48;32;48;32;48;10;                     (* M 0 0 0 *)
   77;32;49;32;51;50;32;50;54;52;10;            (* M 1 32 264 *)
   77;32;48;32;48;32;48;10;                     (* M 0 0 0 *)
   77;32;49;32;49;54;32;49;50;56;10;            (* M 1 16 128 *)
   77;32;48;32;49;54;32;48;10;                  (* M 0 16 0 *)
   70;32;48;32;49;54;32;48;10].                 (* F 0 16 0 *)
Proof. vm_compute. reflexivity. Qed.

Print Assumptions mask_round.
Print Assumptions mem_safe.
Print Assumptions strbuf_invariant.
Print Assumptions strvec_invariant.
Print Assumptions list_invariant.
Print Assumptions realloc_tracks.
Print Assumptions guards_of_total.
